//! Histories of public calls on one stand-alone bar drawing to a recording terminal (C01, C04, C19 …).
use crate::common::*;
use indicatif::verif_hooks as vh;
use indicatif::{ProgressBar, ProgressDrawTarget, ProgressFinish, ProgressStyle, TermLike};

pub const T0: u64 = 1_000_000_000_000;
pub const TEMPLATES: [&str; 7] = ["{msg}", "{prefix} {pos}/{len}", "{prefix}|{msg}|{pos}/{len}", "{msg}\n{prefix}:{pos}", "\n{msg}", "{pos}", "{\n{msg}:{pos}"];

/// text for the model: one `cp:w` glyph per character, an SGR colour sequence as one zero-width glyph (`27:0`)
pub fn enc(s: &str) -> String {
    if s.is_empty() { return "-".into(); }
    let mut out: Vec<String> = Vec::new();
    let cs: Vec<char> = s.chars().collect();
    let mut i = 0;
    while i < cs.len() {
        if cs[i] == '\x1b' && i + 1 < cs.len() && cs[i + 1] == '[' {
            let mut j = i + 2;
            while j < cs.len() && !cs[j].is_ascii_alphabetic() { j += 1; }
            out.push("27:0".into()); i = j + 1; continue;
        }
        let c = cs[i];
        out.push(format!("{}:{}", c as u32, if c == '\n' { 1 } else { unicode_width::UnicodeWidthChar::width(c).unwrap_or(0) }));
        i += 1;
    }
    out.join(",")
}
pub fn plain(s: &str) -> String { console::strip_ansi_codes(s).to_string() }

/// the nearest character boundary at or before byte offset `at` that does not separate a combining mark from its base
pub fn boundary(s: &str, mut at: usize) -> usize { while !s.is_char_boundary(at) || s[at..].starts_with('\u{301}') { at -= 1; } at }

fn text(rng: &mut Rng, w: u16, multiline: bool) -> String {
    let w = w as u64;
    // (exact multiples of the width up to 7 rows: where a row count computed in floating point can be off by one)
    let len = match rng.below(12) { 0 => 0, 1 => 1, 2 => w.saturating_sub(1), 3 => w, 4 => w + 1, 5 => 2 * w, 6 => 2 * w + 1, 10 => 3 * w, 11 => 7 * w, _ => rng.below(2 * w + 3) };
    let mut s: String = (0..len).map(|_| (b'a' + rng.below(26) as u8) as char).collect();
    // double-width characters (two columns each): never on a one-column terminal, which cannot show them
    if w >= 2 && rng.chance(1, 6) {
        s = s.chars().map(|c| if rng.chance(1, 3) { *rng.pick(&['日', '本', '語']) } else { c }).collect();
        // sometimes as many zero-width combining marks as double-width characters (the string then has as many characters as columns)
        if rng.chance(1, 2) {
            let wide = s.chars().filter(|c| !c.is_ascii()).count();
            let mut out = String::new(); let mut left = wide;
            for c in s.chars() { out.push(c); if left > 0 && c.is_ascii_alphabetic() { out.push('\u{301}'); left -= 1; } }
            s = out;
        }
    }
    if multiline && rng.chance(1, 4) {
        let k = rng.below(3) + 1;
        for _ in 0..k { let at = boundary(&s, rng.below(s.len() as u64 + 1) as usize); s.insert(at, '\n'); }
    }
    // colour sequences have no width: around the text, between lines, or as the whole text
    if rng.chance(1, 8) {
        let k = rng.below(3) + 1;
        let mut at: Vec<usize> = (0..k).map(|_| boundary(&s, rng.below(s.len() as u64 + 1) as usize)).collect();
        at.sort(); at.reverse();   // insert from the back so that no sequence lands inside another
        for a in at { s.insert_str(a, *rng.pick(&["\x1b[32m", "\x1b[0m", "\x1b[1;31m"])); }
    }
    s
}

#[derive(Clone, Debug)]
pub enum BOp { Iter(u64), Adv(u64), Tick, Inc(u64), Dec(u64), SetPos(u64), Msg(String), Prefix(String), Len(Option<u64>), Println(String), Suspend(Vec<String>), Reset, Finish(Fin), FinishStyle, Drop }
#[derive(Clone, Debug)]
pub enum Fin { Leave, Clear, Abandon, Msg(String), AbandonMsg(String) }

impl Fin {
    fn enc(&self) -> String { match self { Fin::Leave => "leave".into(), Fin::Clear => "clear".into(), Fin::Abandon => "abandon".into(), Fin::Msg(m) => format!("msg {}", enc(m)), Fin::AbandonMsg(m) => format!("abandonmsg {}", enc(m)) } }
    pub fn to_pf(&self) -> ProgressFinish { match self { Fin::Leave => ProgressFinish::AndLeave, Fin::Clear => ProgressFinish::AndClear, Fin::Abandon => ProgressFinish::Abandon, Fin::Msg(m) => ProgressFinish::WithMessage(m.clone().into()), Fin::AbandonMsg(m) => ProgressFinish::AbandonWithMessage(m.clone().into()) } }
}
impl BOp {
    pub fn enc(&self) -> String {
        match self {
            BOp::Iter(k) => format!("iter {k}"),
            BOp::Adv(d) => format!("adv {d}"), BOp::Tick => "tick".into(), BOp::Inc(d) => format!("inc {d}"), BOp::Dec(d) => format!("dec {d}"),
            BOp::SetPos(p) => format!("setpos {p}"), BOp::Msg(m) => format!("msg {}", enc(m)), BOp::Prefix(m) => format!("prefix {}", enc(m)),
            BOp::Len(None) => "len none".into(), BOp::Len(Some(l)) => format!("len {l}"), BOp::Println(m) => format!("println {}", enc(m)),
            BOp::Suspend(ls) => format!("suspend {}", ls.iter().map(|l| enc(l)).collect::<Vec<_>>().join(" ")),
            BOp::Reset => "reset".into(), BOp::Finish(f) => format!("finish {}", f.enc()), BOp::FinishStyle => "finishstyle".into(), BOp::Drop => "drop".into(),
        }
    }
}

fn fin(rng: &mut Rng, w: u16) -> Fin { match rng.below(5) { 0 => Fin::Leave, 1 => Fin::Clear, 2 => Fin::Abandon, 3 => Fin::Msg(text(rng, w, true)), _ => Fin::AbandonMsg(text(rng, w, true)) } }

pub struct Case { pub w: u16, pub h: u16, pub hz: u8, pub tpl: usize, pub len: Option<u64>, pub on_finish: Fin, pub ops: Vec<BOp> }

pub fn gen_case(rng: &mut Rng, fit_only: bool) -> Case {
    let w = *rng.pick(&[1u16, 2, 3, 5, 7, 10, 20, 40, 75, 91, 93]);
    let h = if fit_only { *rng.pick(&[6u16, 8, 12, 24]) } else { *rng.pick(&[2u16, 3, 4, 6, 24]) };
    let hz = if rng.chance(1, 3) { *rng.pick(&[1u8, 20, 255]) } else { 0 };
    let tpl = rng.below(TEMPLATES.len() as u64) as usize;
    let len = if rng.chance(1, 5) { None } else { Some(*rng.pick(&[0u64, 1, 7, 10, 1000])) };
    let on_finish = fin(rng, w);
    let n = rng.range(1, 25) as usize;
    let mut ops = Vec::new();
    for _ in 0..n {
        let op = match rng.below(22) {
            0 | 1 => BOp::Tick, 2 | 3 => BOp::Inc(*rng.pick(&[0, 1, 3, 1000])), 4 => BOp::Dec(1), 5 => BOp::SetPos(rng.below(12)),
            6 | 7 | 8 => BOp::Msg(text(rng, w, true)), 9 => BOp::Prefix(text(rng, w.min(6), false)), 10 => BOp::Len(if rng.chance(1, 4) { None } else { Some(rng.below(20)) }),
            11 | 12 | 13 => BOp::Println(text(rng, w, true)), 14 => { let k = rng.below(3) as usize; BOp::Suspend((0..k).map(|_| text(rng, w, false)).collect()) }
            15 => BOp::Reset, 16 => BOp::Finish(fin(rng, w)), 17 => if rng.chance(1, 2) { BOp::FinishStyle } else { BOp::Iter(rng.below(4)) },
            18 | 19 => BOp::Adv(*rng.pick(&[0, 1, 999_999, 1_000_000, 3_900_000, 50_000_000, 1_000_000_000, 60_000_000_000])),
            20 => BOp::Adv(rng.below(2_000_000)),
            _ => BOp::Tick,
        };
        ops.push(op);
    }
    // bursts with zero gaps exhaust the refresh limiter (20 draws) and the position gate (10 incs);
    // what follows them must still behave as specified (forced draws, final state)
    if rng.chance(1, 5) {
        let at = rng.below(ops.len() as u64 + 1) as usize;
        let k = rng.range(9, 26) as usize;
        let inc = rng.chance(1, 2);
        let mut burst: Vec<BOp> = (0..k).map(|_| if inc { BOp::Inc(1) } else { BOp::Tick }).collect();
        match rng.below(4) { 0 => burst.push(BOp::Finish(fin(rng, w))), 1 => burst.push(BOp::Msg(text(rng, w, false))), 2 => burst.push(BOp::FinishStyle), _ => {} }
        ops.splice(at..at, burst);
    }
    if rng.chance(1, 3) { ops.push(BOp::Drop); }
    Case { w, h, hz, tpl, len, on_finish, ops }
}

pub fn encode(c: &Case, ops: &[String]) -> String {
    let hdr = format!("BAR FX={} {} {} {} {} {} {} {}", crate::common::fx("draw"), c.w, c.h, c.hz, T0, c.tpl, c.len.map_or("none".into(), |l| l.to_string()), c.on_finish.enc());
    let mut s = hdr;
    for op in ops { s.push_str(" ; "); s.push_str(op); }
    s
}

/// the rows a terminal of `w` columns shows for `line`: a double-width character that does not fit into the rest of
/// a row moves to the next row as a whole, zero-width characters stay with their predecessor
pub fn wrap(line: &str, w: usize) -> Vec<String> {
    let cs: Vec<char> = plain(line).chars().collect();
    if cs.is_empty() { return vec![String::new()]; }
    let mut rows: Vec<String> = vec![String::new()];
    let mut col = 0usize;
    for c in cs {
        let cw = unicode_width::UnicodeWidthChar::width(c).unwrap_or(0);
        if cw > 0 && col + cw > w { rows.push(String::new()); col = 0; }
        rows.last_mut().unwrap().push(c);
        col += cw;
    }
    rows.into_iter().map(|r| r.trim_end().to_string()).collect()
}
/// finding F5: the crate counts `ceil(columns / w)` rows for a line; with double-width characters the terminal may need more
pub fn straddles(line: &str, w: usize) -> bool {
    let cols = console::measure_text_width(line);
    wrap(line, w).len() > std::cmp::max(1, (cols + w - 1) / w)
}

fn show_rows(rows: &[String]) -> String { rows.iter().map(|r| r.chars().filter(|c| unicode_width::UnicodeWidthChar::width(*c).unwrap_or(0) > 0).map(|c| (c as u32).to_string()).collect::<Vec<_>>().join(".")).collect::<Vec<_>>().join("|") }

/// runs the case on the real crate; returns (observation, oracle verdict)
/// runs the case on the real crate; returns (observation, oracle verdict, the operations as the model sees them)
pub fn run_case(c: &Case) -> (String, String, Vec<String>) {
    let mut enc_ops: Vec<String> = Vec::new();
    vh::set_auto_advance_ns(0);
    vh::set_now_ns(T0);
    let rec = Recorder::new(c.h, c.w, true);
    let target = if c.hz == 0 { ProgressDrawTarget::term_like(Box::new(rec.clone())) } else { ProgressDrawTarget::term_like_with_hz(Box::new(rec.clone()), c.hz) };
    let pb = ProgressBar::with_draw_target(c.len, target);
    pb.set_style(ProgressStyle::with_template(TEMPLATES[c.tpl]).unwrap());
    let pb = pb.with_finish(c.on_finish.to_pf());
    let mut pb = Some(pb);
    let mut now = T0;
    // oracle bookkeeping (independent of the model)
    let mut logs: Vec<String> = Vec::new();
    // what the screen shows given the listed finding F30: an empty first line written by ordinary output
    // (a `suspend` closure) while the cursor is parked in the last column only ends that row
    let mut logs_f30: Vec<String> = Vec::new();
    let mut f30: Option<String> = None;
    let mut hidden = false;
    let mut verdict = String::from("ok");
    let mut fin_state = (0u64, false);
    for (k, op) in c.ops.iter().enumerate() {
        let before = rec.st.lock().unwrap().snapshots.len();
        let Some(bar) = pb.as_ref() else { break };
        let mut mid_logs: Option<(Vec<String>, Vec<String>)> = None;
        // several gated `inc`s in one operation: the last painted frame need not show the last of them, unless a
        // (forced) finishing draw ends the operation
        let mut judge_screen = true;
        match op { BOp::Iter(_) => {} _ => enc_ops.push(op.enc()) }
        match op {
            // iterator-driven completion: every item is an `inc(1)`, exhaustion finishes the bar by its configured
            // behaviour unless it is finished already (the model is given exactly this expansion)
            BOp::Iter(n) => {
                let was_finished = bar.is_finished();
                for _ in bar.wrap_iter(0..*n) {}
                for _ in 0..*n { enc_ops.push("inc 1".into()); }
                if !was_finished { enc_ops.push("finishstyle".into()); hidden = matches!(c.on_finish, Fin::Clear); } else { judge_screen = false; }
            }
            BOp::Adv(d) => { now += d; vh::set_now_ns(now); }
            BOp::Tick => bar.tick(), BOp::Inc(d) => bar.inc(*d), BOp::Dec(d) => bar.dec(*d), BOp::SetPos(p) => bar.set_position(*p),
            BOp::Msg(m) => bar.set_message(m.clone()), BOp::Prefix(m) => bar.set_prefix(m.clone()),
            BOp::Len(None) => bar.unset_length(), BOp::Len(Some(l)) => bar.set_length(*l),
            BOp::Println(m) => { bar.println(m); let new: Vec<String> = if m.is_empty() { vec![String::new()] } else { m.lines().map(|l| l.to_string()).collect() }; logs.extend(new.iter().cloned()); logs_f30.extend(new); }
            BOp::Suspend(ls) => {
                mid_logs = Some((logs.clone(), logs_f30.clone()));
                let r2 = rec.clone(); let ls2 = ls.clone(); let w = c.w;
                let parked = bar.suspend(move || { let parked = r2.cursor().1 == w; for l in &ls2 { r2.write_line(l).unwrap(); } parked });
                logs.extend(ls.iter().cloned());
                let swallowed = parked && ls.first().map_or(false, |l| plain(l).is_empty());
                logs_f30.extend(ls.iter().skip(if swallowed { 1 } else { 0 }).cloned());
            }
            BOp::Reset => { bar.reset(); hidden = false; }
            BOp::Finish(f) => { match f { Fin::Leave => bar.finish(), Fin::Clear => bar.finish_and_clear(), Fin::Abandon => bar.abandon(), Fin::Msg(m) => bar.finish_with_message(m.clone()), Fin::AbandonMsg(m) => bar.abandon_with_message(m.clone()) }; hidden = matches!(f, Fin::Clear); }
            BOp::FinishStyle => { bar.finish_using_style(); hidden = matches!(c.on_finish, Fin::Clear); }
            BOp::Drop => { if !bar.is_finished() { hidden = matches!(c.on_finish, Fin::Clear); } }
        }
        // expected frame from the public getters
        let (prefix, msg, pos, len) = (bar.prefix(), bar.message(), bar.position(), bar.length());
        fin_state = (pos, bar.is_finished());
        if matches!(op, BOp::Drop) { let b = pb.take().unwrap(); let wk = b.downgrade(); drop(b); let _ = wk; }
        let (pos, msg, prefix, len) = if matches!(op, BOp::Drop) {
            // after the drop the getters are gone: recompute what finish_using_style(on_finish) yields
            let mut pos = pos; let mut msg = msg;
            if !fin_state.1 { match &c.on_finish { Fin::Leave | Fin::Clear => { if let Some(l) = len { pos = l } } Fin::Msg(m) => { if let Some(l) = len { pos = l }; msg = m.clone() } Fin::Abandon => {} Fin::AbandonMsg(m) => msg = m.clone() } }
            fin_state = (pos, true);
            (pos, msg, prefix, len)
        } else { (pos, msg, prefix, len) };
        let lenv = len.unwrap_or(pos);
        let rendered = TEMPLATES[c.tpl].replace("{msg}", &msg).replace("{prefix}", &prefix).replace("{pos}", &pos.to_string()).replace("{len}", &lenv.to_string());
        let frame: Vec<String> = if hidden { vec![] } else if rendered.is_empty() { vec![] } else {
            // format_state: one line per template line, the last one dropped when empty; pieces split at '\n'
            let mut out = Vec::new();
            let tpl_lines: Vec<&str> = TEMPLATES[c.tpl].split('\n').collect();
            for (i, tl) in tpl_lines.iter().enumerate() {
                let r = tl.replace("{msg}", &msg).replace("{prefix}", &prefix).replace("{pos}", &pos.to_string()).replace("{len}", &lenv.to_string());
                if i + 1 == tpl_lines.len() && r.is_empty() { continue; }
                out.extend(r.split('\n').map(|s| s.to_string()));
            }
            out
        };
        let st = rec.st.lock().unwrap();
        let after = st.snapshots.len();
        if after > before && verdict == "ok" && judge_screen {
            let w = c.w as usize;
            let exp = |logs: &[String], frame: &[String]| -> Vec<String> {
                let mut rows: Vec<String> = Vec::new();
                for l in logs { rows.extend(wrap(l, w)); }
                for l in frame { rows.extend(wrap(l, w)); }
                while rows.last().map_or(false, |r| r.is_empty()) { rows.pop(); }
                rows
            };
            let frame_rows: usize = frame.iter().map(|l| wrap(l, w).len()).sum();
            // 0 = as the statement demands, 1 = as the statement demands up to the listed finding F30, 2 = neither
            let mut judge = |got: &Vec<String>, lg: &[String], lg30: &[String], fr: &[String]| -> u8 { if *got == exp(lg, fr) { 0 } else if *got == exp(lg30, fr) { 1 } else { 2 } };
            if frame_rows > c.h as usize {
                // C19: only the leading bar lines that fit are painted; everything else as usual
                let mut used = 0usize; let mut painted: Vec<String> = Vec::new();
                for l in &frame { let r = wrap(l, w).len(); if used + r > c.h as usize { break; } used += r; painted.push(l.clone()); }
                if mid_logs.is_none() { match judge(&st.snapshots[after - 1], &logs, &logs_f30, &painted) {
                    0 => {}, 1 => { f30.get_or_insert(format!("FAIL F30-empty-line-swallowed op={k} {} got={}", op.enc(), show_rows(&st.snapshots[after - 1]))); }
                    _ => verdict = format!("FAIL overflow op={k} {} got={} exp={}", op.enc(), show_rows(&st.snapshots[after - 1]), show_rows(&exp(&logs, &painted))) } }
            } else {
                if let Some((ml, ml30)) = &mid_logs {
                    match judge(&st.snapshots[before], ml, ml30, &[]) { 0 => {}, 1 => { f30.get_or_insert(format!("FAIL F30-empty-line-swallowed op={k} suspend")); }
                        _ => verdict = format!("FAIL suspend-clear op={k} got={} exp={}", show_rows(&st.snapshots[before]), show_rows(&exp(ml, &[]))) }
                }
                if verdict == "ok" { match judge(&st.snapshots[after - 1], &logs, &logs_f30, &frame) {
                    0 => {}, 1 => { f30.get_or_insert(format!("FAIL F30-empty-line-swallowed op={k} {} got={}", op.enc(), show_rows(&st.snapshots[after - 1]))); }
                    _ => verdict = format!("FAIL screen op={k} {} got={} exp={}", op.enc(), show_rows(&st.snapshots[after - 1]), show_rows(&exp(&logs, &frame))) } }
                // cursor: pending-wrap column on the last frame row, or column 0 when nothing is shown below the log
                let (_, cc) = st.cursor_at_flush[after - 1];
                if verdict == "ok" && !(cc == c.w || (cc == 0 && frame.is_empty())) { verdict = format!("FAIL cursor op={k} col={cc}"); }
            }
        }
    }
    if verdict == "ok" { if let Some(v) = f30 { verdict = v; } }
    let st = rec.st.lock().unwrap();
    let snaps: Vec<String> = st.snapshots.iter().zip(st.cursor_at_flush.iter()).map(|(rows, (r, cc))| format!("{r},{cc} {}", show_rows(rows))).collect();
    let obs = format!("calls={} pos={} fin={} {}", st.calls, fin_state.0, fin_state.1, snaps.join(" ; "));
    (obs, verdict, enc_ops)
}

/// the operations of a history as they are written for the model, before the history runs (an iterator pass is its `inc`s and the
/// finish that follows)
pub fn planned_ops(c: &Case) -> Vec<String> {
    let mut planned: Vec<String> = Vec::new();
    for op in &c.ops { match op { BOp::Iter(n) => { for _ in 0..*n { planned.push("inc 1".into()); } planned.push("finishstyle".into()); } _ => planned.push(op.enc()) } }
    planned
}

pub fn run(seed: u64, tier: &str, out: &mut Out, fit_only: bool, c04: bool) {
    let mut rng = Rng::new(if c04 { seed ^ 0xC04 } else { seed });
    let n = if tier == "thorough" { 200_000 } else { 3_000 };
    // lines of enormous height (a message that wraps to 65536·k + r rows on a 4-column terminal): whatever integer type the
    // row budget is kept in, such a bar does not fit and is left out; the bar line after it stays out too
    if !fit_only && !c04 {
        for (k, r, h) in [(1usize, 0usize, 3u16), (1, 2, 4), (2, 1, 3)] {
            let c = Case { w: 4, h, hz: 0, tpl: 3, len: Some(10), on_finish: Fin::Leave,
                ops: vec![BOp::Msg("a".into()), BOp::Tick, BOp::Msg("x".repeat(4 * (65536 * k + r))), BOp::Tick, BOp::Inc(1), BOp::Msg("b".into()), BOp::Tick] };
            let (obs, verdict, ops) = run_case(&c);
            out.emit(&encode(&c, &ops), &format!("{obs} ORACLE {verdict}"));
        }
    }
    for _ in 0..n {
        let c = gen_case(&mut rng, fit_only);
        // a panic inside the crate is a failure of this history, not of the harness
        let planned = planned_ops(&c);
        crate::common::about_to_run(&encode(&c, &planned));
        let (obs, mut verdict, ops) = match std::panic::catch_unwind(std::panic::AssertUnwindSafe(|| run_case(&c))) {
            Ok(x) => x,
            Err(_) => ("panic".to_string(), "FAIL panic: an operation of this history panics inside the crate".to_string(), planned),
        };
        let case = encode(&c, &ops);
        // C04 uses these histories for its finish clauses only; the cursor finding F30 is judged by C01 / C19
        if c04 && verdict.starts_with("FAIL F30") { verdict = "skip F30 is judged by C01".into(); }
        out.emit(&case, &format!("{obs} ORACLE {verdict}"));
    }
}

// ---- parsing of encoded cases (used to re-run edited cases: shrinking of failing histories)

/// inverse of `enc` up to the exact colour sequence (any SGR sequence is the same zero-width glyph for the model)
pub fn dec(s: &str) -> Option<String> {
    if s == "-" { return Some(String::new()); }
    let mut out = String::new();
    for g in s.split(',') {
        let (cp, w) = g.split_once(':')?;
        if cp == "27" && w == "0" { out.push_str("\x1b[32m"); continue; }
        out.push(char::from_u32(cp.parse().ok()?)?);
    }
    Some(out)
}
fn parse_fin(toks: &[&str]) -> Option<Fin> {
    match toks { ["leave"] => Some(Fin::Leave), ["clear"] => Some(Fin::Clear), ["abandon"] => Some(Fin::Abandon),
        ["msg", m] => Some(Fin::Msg(dec(m)?)), ["abandonmsg", m] => Some(Fin::AbandonMsg(dec(m)?)), _ => None }
}
pub fn parse_fin_pub(toks: &[&str]) -> Option<Fin> { parse_fin(toks) }
pub fn parse_bop(toks: &[&str]) -> Option<BOp> {
    Some(match toks {
        ["iter", k] => BOp::Iter(k.parse().ok()?), ["adv", d] => BOp::Adv(d.parse().ok()?), ["tick"] => BOp::Tick,
        ["inc", d] => BOp::Inc(d.parse().ok()?), ["dec", d] => BOp::Dec(d.parse().ok()?), ["setpos", p] => BOp::SetPos(p.parse().ok()?),
        ["msg", m] => BOp::Msg(dec(m)?), ["prefix", m] => BOp::Prefix(dec(m)?), ["len", "none"] => BOp::Len(None), ["len", l] => BOp::Len(Some(l.parse().ok()?)),
        ["println", m] => BOp::Println(dec(m)?), ["suspend", rest @ ..] => BOp::Suspend(rest.iter().map(|l| dec(l)).collect::<Option<Vec<_>>>()?),
        ["reset"] => BOp::Reset, ["finish", rest @ ..] => BOp::Finish(parse_fin(rest)?), ["finishstyle"] => BOp::FinishStyle, ["drop"] => BOp::Drop,
        _ => return None })
}
/// `BAR FX=.. w h hz T0 tpl len fin.. ; op ; op`
pub fn parse_case(line: &str) -> Option<Case> {
    let mut parts = line.split(" ; ");
    let hdr: Vec<&str> = parts.next()?.split_whitespace().collect();
    if hdr.len() < 9 || hdr[0] != "BAR" { return None; }
    let len = if hdr[7] == "none" { None } else { Some(hdr[7].parse().ok()?) };
    let on_finish = parse_fin(&hdr[8..])?;
    let mut ops = Vec::new();
    for p in parts { let t: Vec<&str> = p.split_whitespace().collect(); ops.push(parse_bop(&t)?); }
    Some(Case { w: hdr[2].parse().ok()?, h: hdr[3].parse().ok()?, hz: hdr[4].parse().ok()?, tpl: hdr[6].parse().ok()?, len, on_finish, ops })
}

/// one given case as the stream `stream` (C01, C19 or C04B) would run it: (case line, observation line)
pub fn run_given_case(c: &Case, stream: &str) -> (String, String) {
    let (obs, mut verdict, ops) = run_case(c);
    let case = encode(c, &ops);
    if stream == "C04B" && verdict.starts_with("FAIL F30") { verdict = "skip F30 is judged by C01".into(); }
    (case, format!("{obs} ORACLE {verdict}"))
}

/// C01F — an outage of the terminal: from some operation on every terminal call fails, some operations later the
/// terminal works again. While it is down nothing reaches the screen (the first call of every draw fails), so once it
/// is back the next draw must find the screen as the last *completed* draw left it: after a final tick the screen is
/// the lines printed while the terminal worked, in order, followed by the current frame — no stale row of the frame
/// that was on screen during the outage, no row erased that is not the bar's. Judged by an expectation computed
/// here from the getters (template `{msg} {pos}/{len}`, messages of one to three lines so that the frame's height
/// changes during the outage). `multi`: the same with two bars in a MultiProgress.
pub fn run_outage(seed: u64, tier: &str, out: &mut Out) {
    use indicatif::verif_hooks as vh;
    let mut rng = Rng::new(seed ^ 0x01f);
    let n = if tier == "thorough" { 60_000 } else { 1_500 };
    for case in 0..n {
        vh::set_auto_advance_ns(0); vh::set_now_ns(1_000_000_000_000);
        let multi = case % 3 == 2;
        let rec = Recorder::new(24, 40, true);
        let mp = if multi { Some(indicatif::MultiProgress::with_draw_target(ProgressDrawTarget::term_like(Box::new(rec.clone())))) } else { None };
        let mk = |len: u64| { let pb = match &mp { Some(m) => m.add(ProgressBar::new(len)), None => ProgressBar::with_draw_target(Some(len), ProgressDrawTarget::term_like(Box::new(rec.clone()))) };
            pb.set_style(ProgressStyle::with_template("{msg} {pos}/{len}").unwrap()); pb };
        let bars: Vec<ProgressBar> = if multi { vec![mk(100), mk(50)] } else { vec![mk(100)] };
        for b in &bars { b.tick(); }
        let nops = rng.range(4, 12) as usize;
        let start = rng.range(1, nops as u64 - 2) as usize; let end = (start + rng.range(1, 3) as usize).min(nops - 1);
        let mut printed: Vec<String> = Vec::new(); let mut hist: Vec<String> = Vec::new();
        let panicked = std::panic::catch_unwind(std::panic::AssertUnwindSafe(|| {
            for k in 0..nops {
                if k == start { rec.set_fault(rec.calls(), true); hist.push("DOWN".into()); }
                if k == end { rec.clear_fault(); hist.push("UP".into()); }
                let down = k >= start && k < end;
                let b = &bars[rng.below(bars.len() as u64) as usize];
                match rng.below(6) {
                    0 => { let d = rng.below(9); b.inc(d); hist.push(format!("inc {d}")); }
                    1 | 2 => { let m = *rng.pick(&["", "a", "a\nb", "a\nb\nc", "xyz"]); b.set_message(m); hist.push(format!("msg {m:?}")); }
                    3 => { let l = format!("L{k}"); b.println(&l); if !down { printed.push(l.clone()); } hist.push(format!("println {l}")); }
                    4 => { b.tick(); hist.push("tick".into()); }
                    _ => { let p = rng.below(60); b.set_position(p); hist.push(format!("set {p}")); }
                }
            }
            rec.clear_fault();
            for b in &bars { b.tick(); }
        })).is_err();
        let mut want = printed.clone();
        for b in &bars {
            let text = format!("{} {}/{}", b.message(), b.position(), b.length().unwrap());
            for l in text.split('\n') { want.push(l.trim_end().to_string()); }
        }
        let got = rec.rows();
        for b in bars { std::mem::forget(b); }
        let verdict = if panicked { format!("FAIL panic during an outage of the terminal: {}", hist.join(", ")) }
            else if got != want { format!("FAIL outage after the terminal is back the screen is {got:?}, expected {want:?} (printed lines + current frame); history: {}", hist.join(", ")) }
            else { "ok".into() };
        out.emit(&format!("NOMODEL OUTAGE multi={multi} {}", hist.join(",").replace('\n', "\\n").replace(' ', "_")), &format!(" ORACLE {}", verdict.replace('\n', "\\n")));
    }
}
