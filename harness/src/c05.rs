//! C05 — redraw throttling. Drives the draw-target limiter through the public API on the virtual
//! clock: one bar, template `{msg}`, every `set_message` is an ordinary (non-forced) redraw request.
use crate::common::*;
use indicatif::verif_hooks as vh;
use indicatif::{ProgressBar, ProgressDrawTarget, ProgressStyle};

pub const T0: u64 = 1_000_000_000_000;

fn gap(rng: &mut Rng, i_ns: u64) -> u64 {
    match rng.below(16) {
        0 | 1 | 2 => 0,
        3 => 1,
        4 => i_ns - 1,
        5 => i_ns,
        6 => i_ns + 1,
        7 => { let k = rng.range(2, 30); k * i_ns - 1 + rng.below(3) }
        8 => 1_000_000 - 1 + rng.below(3),
        9 => rng.below(i_ns),
        10 => rng.range(1, 3_600) * 1_000_000_000,
        11 => (25 + rng.below(200)) * i_ns + rng.below(i_ns),
        12 => i_ns / 2,
        _ => rng.below(2 * i_ns + 1),
    }
}

/// returns (case line, observation line, oracle verdict)
pub fn one_case(rng: &mut Rng, rate: u8, ncalls: usize) -> (String, String) {
    let i_ns = (1000 / rate as u64) * 1_000_000;
    vh::set_auto_advance_ns(0);
    vh::set_now_ns(T0);
    let rec = Recorder::new(10, 40, false);
    let pb = ProgressBar::with_draw_target(None, ProgressDrawTarget::term_like_with_hz(Box::new(rec.clone()), rate));
    pb.set_style(ProgressStyle::with_template("{msg}").unwrap());
    let mut t = T0;
    let mut times = Vec::with_capacity(ncalls);
    let mut bits = String::with_capacity(ncalls);
    let mut painted_times: Vec<u64> = Vec::new();
    // bursts: sometimes repeat gap 0 many times
    let mut burst = 0u64;
    for _ in 0..ncalls {
        let g = if burst > 0 { burst -= 1; 0 } else { let g = gap(rng, i_ns); if g > 20 * i_ns && rng.chance(1, 2) { burst = rng.range(15, 40); } g };
        t += g;
        vh::set_now_ns(t);
        let before = rec.flushes();
        pb.set_message("x");
        let painted = rec.flushes() > before;
        times.push(t);
        bits.push(if painted { '1' } else { '0' });
        if painted { painted_times.push(t); }
    }
    std::mem::forget(pb); // no final forced frame
    let case = format!("C05 {rate} {T0} {}", times.iter().map(|t| t.to_string()).collect::<Vec<_>>().join(" "));
    // oracle: the property's own bound, over all windows delimited by painted frames
    let r = rate as u128;
    let mut verdict = String::from("ok");
    'outer: for i in 0..painted_times.len() {
        for j in i..painted_times.len() {
            let k = (j - i + 1) as u128;
            let t_ns = (painted_times[j] - painted_times[i]) as u128;
            // k <= 20 + R*T + 1  with T in seconds  <=>  (k - 21) * 1e9 <= R * t_ns
            if k > 21 && (k - 21) * 1_000_000_000 > r * t_ns {
                let floor_ok = 1000 % (rate as u64) != 0; // F7 class: interval floor(1000/R) ms
                verdict = format!("FAIL window i={i} j={j} k={k} t_ns={t_ns} rate={rate} nondivisor={floor_ok}");
                break 'outer;
            }
        }
    }
    // second clause: a request at least 1/R s after the last painted frame is painted
    if verdict == "ok" {
        let mut last_painted: Option<u64> = None;
        for (idx, (&tt, b)) in times.iter().zip(bits.chars()).enumerate() {
            if let Some(lp) = last_painted {
                let due = (tt - lp) as u128 * r >= 1_000_000_000;
                if due && b == '0' { verdict = format!("FAIL liveness call={idx} t={tt} last_painted={lp}"); break; }
            } else if b == '0' && idx == 0 { verdict = format!("FAIL first call not painted"); break; }
            if b == '1' { last_painted = Some(tt); }
        }
    }
    (case, format!("{bits} ORACLE {verdict}"))
}

pub fn run(seed: u64, tier: &str, out: &mut Out) {
    let mut rng = Rng::new(seed);
    let (ncases, maxcalls) = if tier == "thorough" { (40_000usize, 600usize) } else { (2_000usize, 300usize) };
    for c in 0..ncases {
        let rate = if c < 255 { (c + 1) as u8 } else { *rng.pick(&[1u8, 2, 3, 7, 10, 15, 20, 30, 60, 100, 125, 144, 200, 250, 254, 255]) };
        let ncalls = rng.range(20, maxcalls as u64) as usize;
        let (case, obs) = one_case(&mut rng, rate, ncalls);
        out.emit(&case, &obs);
    }
}
