//! C05 — redraw throttling. Drives the draw-target limiter through the public API on the virtual
//! clock: one bar, template `{msg}`, every `set_message` is an ordinary (non-forced) redraw request.
use crate::common::*;
use indicatif::verif_hooks as vh;
use indicatif::style::ProgressTracker;
use indicatif::{ProgressBar, ProgressDrawTarget, ProgressState, ProgressStyle};
use std::sync::atomic::{AtomicUsize, Ordering};
use std::sync::Arc;

pub const T0: u64 = 1_000_000_000_000;

fn gap(rng: &mut Rng, i_ns: u64) -> u64 {
    match rng.below(16) {
        0 | 1 | 2 => 0,
        3 => 1,
        4 => i_ns - 1,
        5 => i_ns,
        6 => i_ns + 1,
        7 => { let k = rng.range(2, 30); k * i_ns - 1 + rng.below(3) }
        8 => 1_000_000 - 1 + rng.below(3),
        9 => rng.below(i_ns),
        10 => rng.range(1, 3_600) * 1_000_000_000,
        11 => (25 + rng.below(200)) * i_ns + rng.below(i_ns),
        12 => i_ns / 2,
        _ => rng.below(2 * i_ns + 1),
    }
}

/// returns (case line, observation line, oracle verdict)
pub fn one_case(rng: &mut Rng, rate: u8, ncalls: usize) -> (String, String) {
    // gaps cluster around multiples of the interval: the exact one (1/rate s rounded up to ns) and the
    // whole-millisecond one, so that a limiter using either is exercised at its boundaries
    let i_ns = if rng.chance(2, 3) { (1_000_000_000 + rate as u64 - 1) / rate as u64 } else { (1000 / rate as u64) * 1_000_000 };
    vh::set_auto_advance_ns(0);
    vh::set_now_ns(T0);
    let rec = Recorder::new(10, 40, false);
    // a fifth of the cases: a terminal that takes every frame but reports an error when it is flushed (always, or every second
    // time), with one of the error kinds code likes to treat as transient — the frames still count
    if rng.chance(1, 5) { rec.set_flush_fault(1 + rng.below(2) as u8); rec.set_fault_kind(*rng.pick(&[std::io::ErrorKind::Other, std::io::ErrorKind::WouldBlock, std::io::ErrorKind::Interrupted])); }
    let pb = ProgressBar::with_draw_target(None, ProgressDrawTarget::term_like_with_hz(Box::new(rec.clone()), rate));
    pb.set_style(ProgressStyle::with_template("{msg}").unwrap());
    let mut t = T0;
    let mut times = Vec::with_capacity(ncalls);
    let mut bits = String::with_capacity(ncalls);
    let mut painted_times: Vec<u64> = Vec::new();
    // bursts: sometimes repeat gap 0 many times
    let mut burst = 0u64;
    for _ in 0..ncalls {
        let g = if burst > 0 { burst -= 1; 0 } else { let g = gap(rng, i_ns); if g > 20 * i_ns && rng.chance(1, 2) { burst = rng.range(15, 40); } g };
        t += g;
        vh::set_now_ns(t);
        let before = rec.flush_attempts();
        pb.set_message("x");
        let painted = rec.flush_attempts() > before;
        times.push(t);
        bits.push(if painted { '1' } else { '0' });
        if painted { painted_times.push(t); }
    }
    std::mem::forget(pb); // no final forced frame
    let case = format!("C05 FX={} {rate} {T0} {}", crate::common::fx("limiter"), times.iter().map(|t| t.to_string()).collect::<Vec<_>>().join(" "));
    // oracle: the property's own bound, over all windows delimited by painted frames
    let r = rate as u128;
    let mut verdict = String::from("ok");
    'outer: for i in 0..painted_times.len() {
        for j in i..painted_times.len() {
            let k = (j - i + 1) as u128;
            let t_ns = (painted_times[j] - painted_times[i]) as u128;
            // k <= 20 + R*T + 1  with T in seconds  <=>  (k - 21) * 1e9 <= R * t_ns
            if k > 21 && (k - 21) * 1_000_000_000 > r * t_ns {
                let floor_ok = 1000 % (rate as u64) != 0; // F7 class: interval floor(1000/R) ms
                verdict = format!("FAIL window i={i} j={j} k={k} t_ns={t_ns} rate={rate} nondivisor={floor_ok}");
                break 'outer;
            }
        }
    }
    // second clause: a request at least 1/R s after the last painted frame is painted
    if verdict == "ok" {
        let mut last_painted: Option<u64> = None;
        for (idx, (&tt, b)) in times.iter().zip(bits.chars()).enumerate() {
            if let Some(lp) = last_painted {
                let due = (tt - lp) as u128 * r >= 1_000_000_000;
                if due && b == '0' { verdict = format!("FAIL liveness call={idx} t={tt} last_painted={lp}"); break; }
            } else if b == '0' && idx == 0 { verdict = format!("FAIL first call not painted"); break; }
            if b == '1' { last_painted = Some(tt); }
        }
    }
    (case, format!("{bits} ORACLE {verdict}"))
}

/// counts `ProgressTracker::tick` calls: one per tick that the position gate lets through
#[derive(Clone)]
struct Counter(Arc<AtomicUsize>);
impl ProgressTracker for Counter {
    fn clone_box(&self) -> Box<dyn ProgressTracker> { Box::new(self.clone()) }
    fn tick(&mut self, _: &ProgressState, _: vh::Instant) { self.0.fetch_add(1, Ordering::SeqCst); }
    fn reset(&mut self, _: &ProgressState, _: vh::Instant) {}
    fn write(&self, _: &ProgressState, w: &mut dyn std::fmt::Write) { let _ = w.write_str("k"); }
}

fn pos_gap(rng: &mut Rng) -> u64 {
    const MS: u64 = 1_000_000;
    match rng.below(14) {
        0 | 1 | 2 | 3 => 0, 4 => 1, 5 => MS - 1, 6 => MS, 7 => MS + 1, 8 => { let k = rng.range(2, 15); k * MS - 1 + rng.below(3) }
        9 => rng.below(MS), 10 => (12 + rng.below(100)) * MS + rng.below(MS), 11 => MS / 2, 12 => rng.range(1, 5) * 1_000_000_000, _ => rng.below(2 * MS + 1),
    }
}

/// position gate + draw limiter through `inc` on a visible bar: which calls tick (counting tracker),
/// which of those are painted (flushes); oracle: the gate's window bound and liveness, the draw
/// limiter's window bound, and the staleness bound of the statement for continuously updated bars
pub fn one_case_pos(rng: &mut Rng, rate: u8, ncalls: usize) -> (String, String) {
    vh::set_auto_advance_ns(0);
    vh::set_now_ns(T0);
    let rec = Recorder::new(10, 40, false);
    let pb = ProgressBar::with_draw_target(Some(u64::MAX), ProgressDrawTarget::term_like_with_hz(Box::new(rec.clone()), rate));
    let cnt = Arc::new(AtomicUsize::new(0));
    pb.set_style(ProgressStyle::with_template("{pos} {k}").unwrap().with_key("k", Counter(cnt.clone())));
    let (mut t, mut burst) = (T0, 0u64);
    let continuous = rng.chance(1, 2);   // every gap at most 1 ms: "a continuously updated bar"
    let (mut times, mut gate, mut paint) = (Vec::with_capacity(ncalls), String::new(), String::new());
    let mut gate_times: Vec<u64> = Vec::new(); let mut paint_times: Vec<u64> = Vec::new();
    for _ in 0..ncalls {
        let g = if burst > 0 { burst -= 1; 0 } else { let g = pos_gap(rng); if g > 11_000_000 && rng.chance(1, 2) { burst = rng.range(8, 30); } g };
        let g = if continuous { g.min(1_000_000) } else { g };
        t += g; vh::set_now_ns(t);
        let (c0, f0) = (cnt.load(Ordering::SeqCst), rec.flushes());
        pb.inc(1);
        let (ticked, painted) = (cnt.load(Ordering::SeqCst) > c0, rec.flushes() > f0);
        times.push(t); gate.push(if ticked { '1' } else { '0' }); paint.push(if painted { '1' } else { '0' });
        if ticked { gate_times.push(t); } if painted { paint_times.push(t); }
    }
    std::mem::forget(pb);
    let case = format!("C05P FX={} {rate} {T0} {}", crate::common::fx("limiter"), times.iter().map(|t| t.to_string()).collect::<Vec<_>>().join(" "));
    let mut verdict = String::from("ok");
    // gate: at most 10 + T/1ms + 1 ticks in any window; a call at least 1 ms after the last tick ticks
    'g: for i in 0..gate_times.len() { for j in i..gate_times.len() { let k = (j - i + 1) as u128; let tn = (gate_times[j] - gate_times[i]) as u128;
        if k > 11 && (k - 11) * 1_000_000 > tn { verdict = format!("FAIL gate-window i={i} j={j} k={k} t_ns={tn}"); break 'g; } } }
    if verdict == "ok" { let mut last: Option<u64> = None; for (idx, (&tt, b)) in times.iter().zip(gate.chars()).enumerate() {
        match last { Some(l) => if tt - l >= 1_000_000 && b == '0' { verdict = format!("FAIL gate-liveness call={idx} t={tt} last_tick={l}"); break; }, None => if b == '0' { verdict = "FAIL gate-liveness first call did not tick".into(); break; } }
        if b == '1' { last = Some(tt); } } }
    // staleness: at every call time of a continuously updated bar a frame was painted within 1/R s + 1 ms
    if verdict == "ok" && continuous { let r = rate as u128; let mut last: Option<u64> = None; for (idx, (&tt, b)) in times.iter().zip(paint.chars()).enumerate() {
        if b == '1' { last = Some(tt); }
        let stale = (tt - last.unwrap_or(T0)) as u128;
        if stale * r > 1_000_000_000 + 1_000_000 * r { verdict = format!("FAIL staleness call={idx} stale_ns={stale} rate={rate}"); break; } } }
    (case, format!("{gate} {paint} ORACLE {verdict}"))
}

pub fn run_pos(seed: u64, tier: &str, out: &mut Out) {
    let mut rng = Rng::new(seed ^ 0x5050);
    let (ncases, maxcalls) = if tier == "thorough" { (40_000usize, 600usize) } else { (1_500usize, 300usize) };
    for _ in 0..ncases {
        let rate = *rng.pick(&[1u8, 2, 3, 7, 10, 15, 20, 30, 60, 100, 125, 144, 200, 250, 254, 255]);
        let ncalls = rng.range(20, maxcalls as u64) as usize;
        let (case, obs) = one_case_pos(&mut rng, rate, ncalls);
        out.emit(&case, &obs);
    }
}

pub fn run(seed: u64, tier: &str, out: &mut Out) {
    let mut rng = Rng::new(seed);
    let (ncases, maxcalls) = if tier == "thorough" { (40_000usize, 600usize) } else { (2_000usize, 300usize) };
    for c in 0..ncases {
        let rate = if c < 255 { (c + 1) as u8 } else { *rng.pick(&[1u8, 2, 3, 7, 10, 15, 20, 30, 60, 100, 125, 144, 200, 250, 254, 255]) };
        let ncalls = rng.range(20, maxcalls as u64) as usize;
        let (case, obs) = one_case(&mut rng, rate, ncalls);
        out.emit(&case, &obs);
    }
}

/// C05V — a target that changes in the middle of a run: bars are created on a hidden target (a hidden MultiProgress, or a
/// hidden bar that is added to a visible MultiProgress / given a terminal later) and updated there; then the target becomes a
/// rate-limited terminal. From then on the staleness clause must hold as for any other bar: the first ordinary request is
/// painted (the bucket is full), and every ordinary request made at least 1/R s after the last painted frame is painted.
pub fn run_retarget(seed: u64, tier: &str, out: &mut Out) {
    use indicatif::MultiProgress;
    let mut rng = Rng::new(seed ^ 0x05e);
    let n = if tier == "thorough" { 40_000 } else { 1_200 };
    for case in 0..n {
        vh::set_auto_advance_ns(0); vh::set_now_ns(T0);
        let rate = *rng.pick(&[1u8, 4, 10, 20, 50]);
        let i_ns = 1_000_000_000u64 / rate as u64 + 1;
        let rec = Recorder::new(10, 60, false);
        let visible = || ProgressDrawTarget::term_like_with_hz(Box::new(rec.clone()), rate);
        let mode = case % 3;
        // 0: hidden MultiProgress, members added, then MultiProgress::set_draw_target; 1: hidden stand-alone bar, then
        // ProgressBar::set_draw_target; 2: hidden stand-alone bar added to a visible MultiProgress
        let mp = match mode { 0 => Some(MultiProgress::with_draw_target(ProgressDrawTarget::hidden())), 2 => Some(MultiProgress::with_draw_target(visible())), _ => None };
        let mk = || { let pb = ProgressBar::with_draw_target(Some(1000), ProgressDrawTarget::hidden()); pb.set_style(ProgressStyle::with_template("{msg} {pos}").unwrap()); pb };
        let mut bars: Vec<ProgressBar> = (0..rng.range(1, 3)).map(|_| mk()).collect();
        if mode == 0 { bars = bars.into_iter().map(|b| mp.as_ref().unwrap().add(b)).collect(); }
        let mut t = T0; let mut hist: Vec<String> = Vec::new();
        // some life on the hidden target
        for _ in 0..rng.below(6) { t += rng.below(3 * i_ns); vh::set_now_ns(t); let b = rng.pick(&bars); match rng.below(3) { 0 => b.inc(1), 1 => b.set_message("h"), _ => b.tick() } }
        hist.push(format!("mode{mode} rate{rate}"));
        match mode {
            0 => mp.as_ref().unwrap().set_draw_target(visible()),
            1 => for b in &bars { b.set_draw_target(visible()); },
            _ => { bars = bars.into_iter().map(|b| mp.as_ref().unwrap().add(b)).collect(); }
        }
        let mut verdict = String::from("ok");
        let mut last_painted: Option<u64> = None;
        let (mut requests, mut painted_n) = (0usize, 0usize);
        for k in 0..rng.range(3, 14) {
            let gap = match rng.below(4) { 0 => rng.below(i_ns), 1 => i_ns, 2 => i_ns + rng.below(5 * i_ns), _ => 3_000_000 + rng.below(2 * i_ns) };
            t += gap; vh::set_now_ns(t);
            // stand-alone bars have one limiter each: judge one bar only; members of a MultiProgress share the multi's limiter
            let b = if mode == 1 { &bars[0] } else { rng.pick(&bars) };
            let before = rec.flush_attempts();
            // requests that reach the limiter whatever the position gate says
            match rng.below(3) { 0 => { b.set_message(format!("m{k}")); hist.push(format!("+{gap} msg")); } 1 => { b.tick(); hist.push(format!("+{gap} tick")); } _ => { b.set_length(1000 + k); hist.push(format!("+{gap} len")); } }
            let painted = rec.flush_attempts() > before;
            requests += 1; if painted { painted_n += 1; }
            let due = match last_painted { None => true, Some(lp) => (t - lp) as u128 * rate as u128 >= 1_000_000_000 };
            if due && !painted && verdict == "ok" { verdict = format!("FAIL staleness after the target became visible: request {k} at +{} ns after the last painted frame (rate {rate}/s) was not painted; history {}", last_painted.map_or(0, |lp| t - lp), hist.join(", ")); }
            if painted { last_painted = Some(t); }
        }
        for b in bars { std::mem::forget(b); }
        std::mem::forget(mp);
        out.emit(&format!("NOMODEL RETARGET {}", hist.join(",").replace(' ', "_")), &format!("requests={requests} painted={painted_n} ORACLE {verdict}"));
    }
}
