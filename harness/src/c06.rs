//! C06: hidden targets are silent and state-equivalent.
//! The same history runs on a visible bar and on four hidden ones (hidden target, member of a
//! hidden MultiProgress, removed from a visible MultiProgress, stderr that is not a terminal — the
//! last one in a child process whose stderr is a file that must stay empty).
use crate::bar::{self, BOp, Case, Fin, TEMPLATES};
use crate::common::{Out, Recorder, Rng};
use indicatif::verif_hooks as vh;
use indicatif::{MultiProgress, ProgressBar, ProgressDrawTarget, ProgressFinish, ProgressStyle};

const T0: u64 = 1_000_000_000_000;
fn fin_pf(f: &Fin) -> ProgressFinish { match f { Fin::Leave => ProgressFinish::AndLeave, Fin::Clear => ProgressFinish::AndClear, Fin::Abandon => ProgressFinish::Abandon, Fin::Msg(m) => ProgressFinish::WithMessage(m.clone().into()), Fin::AbandonMsg(m) => ProgressFinish::AbandonWithMessage(m.clone().into()) } }

fn getters(pb: &ProgressBar) -> String { format!("{}/{:?}/{:?}/{:?}/{}/{:?}/{:?}/{:?}", pb.position(), pb.length(), pb.message(), pb.prefix(), pb.is_finished(), pb.eta(), pb.per_sec().to_bits(), pb.duration()) }

/// operations outside the shared single-bar model (C06 is judged by twin runs only): tab width changes with
/// tabs in message and prefix, style changes, estimator resets
#[derive(Clone, Debug)]
pub enum XOp { TabWidth(usize), MsgTab(String), PrefixTab(String), Style(usize), ResetEta, ResetElapsed }
fn gen_extras(rng: &mut Rng, n_ops: usize) -> Vec<(usize, XOp)> {
    let mut v = Vec::new();
    if rng.chance(1, 2) { return v; }
    for i in 0..n_ops {
        if !rng.chance(1, 4) { continue; }
        let x = match rng.below(7) {
            0 | 1 => XOp::TabWidth(*rng.pick(&[0usize, 1, 2, 4, 8, 13])),
            2 => XOp::MsgTab(format!("a\tb{}\t", rng.below(10))), 3 => XOp::PrefixTab(format!("\tp{}", rng.below(10))),
            4 => XOp::Style(rng.below(TEMPLATES.len() as u64) as usize), 5 => XOp::ResetEta, _ => XOp::ResetElapsed };
        v.push((i, x));
    }
    v
}
fn apply_x(p: &ProgressBar, x: &XOp) {
    match x {
        XOp::TabWidth(k) => p.set_tab_width(*k), XOp::MsgTab(m) => p.set_message(m.clone()), XOp::PrefixTab(m) => p.set_prefix(m.clone()),
        XOp::Style(t) => p.set_style(ProgressStyle::with_template(TEMPLATES[*t]).unwrap()), XOp::ResetEta => p.reset_eta(), XOp::ResetElapsed => p.reset_elapsed(),
    }
}

/// applies the history; returns the getter values after every operation
fn drive(pb: ProgressBar, c: &Case, xs: &[(usize, XOp)]) -> Vec<String> {
    vh::set_auto_advance_ns(0); vh::set_now_ns(T0);
    let mut now = T0; let mut out = Vec::new(); let mut pb = Some(pb);
    for (i_op, op) in c.ops.iter().enumerate() {
        if let Some(p) = pb.as_ref() {
            for (_, x) in xs.iter().filter(|(i, _)| *i == i_op) { apply_x(p, x); out.push(getters(p)); }
            match op {
                BOp::Adv(d) => { now += d; vh::set_now_ns(now); }
                BOp::Tick => p.tick(), BOp::Inc(d) => p.inc(*d), BOp::Dec(d) => p.dec(*d), BOp::SetPos(x) => p.set_position(*x),
                BOp::Msg(m) => p.set_message(m.clone()), BOp::Prefix(m) => p.set_prefix(m.clone()),
                BOp::Len(None) => p.unset_length(), BOp::Len(Some(l)) => p.set_length(*l),
                BOp::Println(m) => p.println(m), BOp::Suspend(_) => p.suspend(|| {}), BOp::Reset => p.reset(),
                BOp::Finish(f) => match f { Fin::Leave => p.finish(), Fin::Clear => p.finish_and_clear(), Fin::Abandon => p.abandon(), Fin::Msg(m) => p.finish_with_message(m.clone()), Fin::AbandonMsg(m) => p.abandon_with_message(m.clone()) },
                BOp::FinishStyle => p.finish_using_style(),
                BOp::Iter(n) => { for _ in p.wrap_iter(0..*n) {} }
                BOp::Drop => { pb = None; out.push("dropped".into()); continue; }
            }
            out.push(getters(p));
        } else { out.push("dropped".into()); }
    }
    out
}

fn make(c: &Case, target: ProgressDrawTarget) -> ProgressBar {
    // every twin is created at the same virtual instant (the estimator's rates are part of the compared state)
    vh::set_auto_advance_ns(0); vh::set_now_ns(T0);
    let pb = ProgressBar::with_draw_target(c.len, target);
    pb.set_style(ProgressStyle::with_template(TEMPLATES[c.tpl]).unwrap());
    pb.with_finish(fin_pf(&c.on_finish))
}

/// child mode: runs the histories of the same seed on `ProgressDrawTarget::stderr()`; prints the getter traces
pub fn child(seed: u64, n: usize) {
    let mut rng = Rng::new(seed);
    for _ in 0..n {
        let c = bar::gen_case(&mut rng, false);
        let xs = gen_extras(&mut rng, c.ops.len());
        let pb = make(&c, ProgressDrawTarget::stderr());
        println!("{} {}", pb.is_hidden(), drive(pb, &c, &xs).join(";"));
    }
}

pub fn run(seed: u64, tier: &str, out: &mut Out) {
    let n = if tier == "thorough" { 100_000 } else { 3_000 };
    // the non-tty twin: a child process with stderr redirected to a file
    let dir = std::env::temp_dir().join(format!("verif-c06-{}", std::process::id()));
    std::fs::create_dir_all(&dir).unwrap();
    let errf = dir.join("stderr.txt");
    let child = std::process::Command::new(std::env::current_exe().unwrap()).args(["C06CHILD", tier, &seed.to_string(), "-", "-"])
        .stderr(std::fs::File::create(&errf).unwrap()).stdin(std::process::Stdio::null()).output().unwrap();
    let child_lines: Vec<String> = String::from_utf8_lossy(&child.stdout).lines().map(|l| l.to_string()).collect();
    let stderr_bytes = std::fs::metadata(&errf).map(|m| m.len()).unwrap_or(u64::MAX);
    let _ = std::fs::remove_dir_all(&dir);
    let mut rng = Rng::new(seed);
    for i in 0..n {
        let c = bar::gen_case(&mut rng, false);
        let xs = gen_extras(&mut rng, c.ops.len());
        let case = format!("{} XOPS {:?}", bar::encode(&c, &c.ops.iter().map(|o| o.enc()).collect::<Vec<_>>()), xs).replace('\n', " ");
        let mut verdict = String::from("ok");
        // visible twin
        let rec = Recorder::new(c.h, c.w, false);
        let visible = drive(make(&c, ProgressDrawTarget::term_like(Box::new(rec.clone()))), &c, &xs);
        // (a) hidden target
        let a = drive(make(&c, ProgressDrawTarget::hidden()), &c, &xs);
        // (b) member of a hidden MultiProgress built over a spy terminal that must stay silent... the hidden target has no terminal: use a spy for (c)
        let mp_hidden = MultiProgress::with_draw_target(ProgressDrawTarget::hidden());
        let b = drive(mp_hidden.add(make(&c, ProgressDrawTarget::hidden())), &c, &xs);
        // (c) removed from a visible MultiProgress: the spy's call count must not move after the removal
        let spy = Recorder::new(c.h, c.w, false);
        let mp = MultiProgress::with_draw_target(ProgressDrawTarget::term_like(Box::new(spy.clone())));
        let pb = mp.add(make(&c, ProgressDrawTarget::hidden()));
        pb.tick();
        mp.remove(&pb);
        let calls_at_removal = spy.calls();
        let cc = drive(pb, &c, &xs);
        let calls_after = spy.calls();
        // (d) hidden explicitly while its MultiProgress is hidden too; the MultiProgress then gets a visible target: the bar stays silent
        let spy2 = Recorder::new(c.h, c.w, false);
        let mp2 = MultiProgress::with_draw_target(ProgressDrawTarget::hidden());
        let pb2 = mp2.add(make(&c, ProgressDrawTarget::hidden()));
        pb2.set_draw_target(ProgressDrawTarget::hidden());
        mp2.set_draw_target(ProgressDrawTarget::term_like(Box::new(spy2.clone())));
        let calls2_before = spy2.calls();
        let dd = drive(pb2, &c, &xs);
        let calls2_after = spy2.calls();
        // the extra tick before the removal is not part of the history: getters are unaffected by it
        for (name, t) in [("hidden-target", &a), ("hidden-multi", &b), ("removed", &cc), ("hidden-then-multi-shown", &dd)] {
            if *t != visible { let k = t.iter().zip(visible.iter()).position(|(x, y)| x != y).unwrap_or(0); verdict = format!("FAIL state-differs kind={name} step={k} hidden={} visible={}", t[k], visible[k]); break; }
        }
        if verdict == "ok" && calls_after != calls_at_removal { verdict = format!("FAIL terminal-call-after-removal {} calls", calls_after - calls_at_removal); }
        if verdict == "ok" && calls2_after != calls2_before { verdict = format!("FAIL terminal-call-by-hidden-bar {} calls on the terminal its former MultiProgress was given", calls2_after - calls2_before); }
        if verdict == "ok" {
            match child_lines.get(i) {
                None => verdict = "FAIL non-tty-child-missing-line".into(),
                Some(l) => { let (hid, trace) = l.split_once(' ').unwrap_or(("?", "")); if hid != "true" { verdict = "FAIL non-tty-target-not-hidden".into(); } else if trace != visible.join(";") { verdict = "FAIL state-differs kind=non-tty".into(); } }
            }
        }
        if verdict == "ok" && stderr_bytes != 0 { verdict = format!("FAIL non-tty-child-wrote {stderr_bytes} bytes to stderr"); }
        out.emit(&case, &format!("ORACLE {verdict}"));
    }
}
