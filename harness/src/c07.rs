//! C07 — position and length bookkeeping through the public API.
use crate::common::*;
use indicatif::{ProgressBar, ProgressDrawTarget};

const VALS: [u64; 9] = [0, 1, 2, 3, 1 << 32, 1 << 63, u64::MAX - 2, u64::MAX - 1, u64::MAX];

pub fn run(seed: u64, tier: &str, out: &mut Out) {
    let mut rng = Rng::new(seed);
    let n = if tier == "thorough" { 1_000_000 } else { 5_000 };
    for _ in 0..n {
        let len0 = if rng.chance(1, 4) { None } else { Some(*rng.pick(&VALS)) };
        let visible = rng.chance(1, 2);
        let rec = Recorder::new(5, 20, false);
        let pb = ProgressBar::with_draw_target(len0, if visible { ProgressDrawTarget::term_like(Box::new(rec.clone())) } else { ProgressDrawTarget::hidden() });
        let k = rng.range(1, 20);
        let mut case = format!("C07 {}", len0.map_or("none".into(), |l| l.to_string()));
        let mut obs: Vec<String> = Vec::new();
        let mut verdict = "ok".to_string();
        // independent oracle: wrapping position, saturating length
        let (mut opos, mut olen, mut ofin) = (0u64, len0, false);
        for _ in 0..k {
            let v = if rng.chance(3, 4) { *rng.pick(&VALS) } else { rng.next() };
            let r = std::panic::catch_unwind(std::panic::AssertUnwindSafe(|| match rng.clone().below(10) { _ => () }));
            let _ = r;
            match rng.below(10) {
                0 | 1 => { case += &format!(" ; inc {v}"); pb.inc(v); opos = opos.wrapping_add(v); }
                2 => { case += &format!(" ; dec {v}"); pb.dec(v); opos = opos.wrapping_sub(v); }
                3 => { case += &format!(" ; setpos {v}"); pb.set_position(v); opos = v; }
                4 => { case += " ; reset"; pb.reset(); opos = 0; ofin = false; }
                5 => { case += &format!(" ; setlen {v}"); pb.set_length(v); olen = Some(v); }
                6 => { case += &format!(" ; inclen {v}"); pb.inc_length(v); olen = olen.map(|l| l.saturating_add(v)); }
                7 => { case += &format!(" ; declen {v}"); pb.dec_length(v); olen = olen.map(|l| l.saturating_sub(v)); }
                8 => { if rng.chance(1, 2) { case += " ; unsetlen"; pb.unset_length(); olen = None; } else { case += " ; abandon"; pb.abandon(); ofin = true; } }
                _ => { case += " ; finish"; match rng.below(3) { 0 => pb.finish(), 1 => pb.finish_and_clear(), _ => pb.finish_with_message("m") }; if let Some(l) = olen { opos = l; } ofin = true; }
            }
            let (p, l, f) = (pb.position(), pb.length(), pb.is_finished());
            obs.push(format!("{p},{},{f}", l.map_or("none".into(), |l| l.to_string())));
            if verdict == "ok" && (p, l, f) != (opos, olen, ofin) { verdict = format!("FAIL getters pos={p} len={l:?} fin={f} expected pos={opos} len={olen:?} fin={ofin}"); }
        }
        std::mem::forget(pb);
        out.emit(&case, &format!("{} ORACLE {verdict}", obs.join(" ")));
    }
}
