//! C07 — position and length bookkeeping through the public API.
use crate::common::*;
use indicatif::{ProgressBar, ProgressDrawTarget, ProgressFinish};

const VALS: [u64; 9] = [0, 1, 2, 3, 1 << 32, 1 << 63, u64::MAX - 2, u64::MAX - 1, u64::MAX];

pub fn run(seed: u64, tier: &str, out: &mut Out) {
    let mut rng = Rng::new(seed);
    let n = if tier == "thorough" { 1_000_000 } else { 5_000 };
    for _ in 0..n {
        let len0 = if rng.chance(1, 4) { None } else { Some(*rng.pick(&VALS)) };
        let visible = rng.chance(1, 2);
        let rec = Recorder::new(5, 20, false);
        let pb = ProgressBar::with_draw_target(len0, if visible { ProgressDrawTarget::term_like(Box::new(rec.clone())) } else { ProgressDrawTarget::hidden() });
        // the configured finish behaviour: it moves the position to the length (m) or keeps it (k)
        let fin_kind = rng.below(6);
        let moves = fin_kind < 4;
        let pb = match fin_kind { 0 => pb, 1 => pb.with_finish(ProgressFinish::AndLeave), 2 => pb.with_finish(ProgressFinish::WithMessage("done".into())),
            3 => pb.with_finish(ProgressFinish::AndClear), 4 => pb.with_finish(ProgressFinish::Abandon), _ => pb.with_finish(ProgressFinish::AbandonWithMessage("gone".into())) };
        let k = rng.range(1, 20);
        let mut case = format!("C07 {} {}", len0.map_or("none".into(), |l| l.to_string()), if moves { "m" } else { "k" });
        let mut obs: Vec<String> = Vec::new();
        let mut verdict = "ok".to_string();
        // independent oracle: wrapping position, saturating length
        let (mut opos, mut olen, mut ofin) = (0u64, len0, false);
        for _ in 0..k {
            let v = if rng.chance(3, 4) { *rng.pick(&VALS) } else { rng.next() };
            let r = std::panic::catch_unwind(std::panic::AssertUnwindSafe(|| match rng.clone().below(10) { _ => () }));
            let _ = r;
            match rng.below(13) {
                10 => { if rng.chance(1, 2) { case += " ; resetelapsed"; pb.reset_elapsed(); } else { case += " ; reseteta"; pb.reset_eta(); } }
                11 | 12 => { case += " ; finishstyle"; pb.finish_using_style(); if moves { if let Some(l) = olen { opos = l; } } ofin = true; }
                0 | 1 => { case += &format!(" ; inc {v}"); pb.inc(v); opos = opos.wrapping_add(v); }
                2 => { case += &format!(" ; dec {v}"); pb.dec(v); opos = opos.wrapping_sub(v); }
                3 => { case += &format!(" ; setpos {v}"); pb.set_position(v); opos = v; }
                4 => { case += " ; reset"; pb.reset(); opos = 0; ofin = false; }
                5 => { case += &format!(" ; setlen {v}"); pb.set_length(v); olen = Some(v); }
                6 => { case += &format!(" ; inclen {v}"); pb.inc_length(v); olen = olen.map(|l| l.saturating_add(v)); }
                7 => { case += &format!(" ; declen {v}"); pb.dec_length(v); olen = olen.map(|l| l.saturating_sub(v)); }
                8 => { if rng.chance(1, 2) { case += " ; unsetlen"; pb.unset_length(); olen = None; } else { case += " ; abandon"; pb.abandon(); ofin = true; } }
                _ => { case += " ; finish"; match rng.below(3) { 0 => pb.finish(), 1 => pb.finish_and_clear(), _ => pb.finish_with_message("m") }; if let Some(l) = olen { opos = l; } ofin = true; }
            }
            let (p, l, f) = (pb.position(), pb.length(), pb.is_finished());
            obs.push(format!("{p},{},{f}", l.map_or("none".into(), |l| l.to_string())));
            if verdict == "ok" && (p, l, f) != (opos, olen, ofin) { verdict = format!("FAIL getters pos={p} len={l:?} fin={f} expected pos={opos} len={olen:?} fin={ofin}"); }
        }
        std::mem::forget(pb);
        out.emit(&case, &format!("{} ORACLE {verdict}", obs.join(" ")));
    }
}

/// C07 (schedules): real threads incrementing and decrementing clones of one bar concurrently; no update
/// may be lost, whatever the interleaving, and the fraction stays within [0, 1] while they run.
pub fn run_threads(seed: u64, tier: &str, out: &mut Out) {
    let mut rng = Rng::new(seed ^ 0x7777);
    let rounds = if tier == "thorough" { 200 } else { 12 };
    // every reading of the clock moves it: threads see different instants, in an order unrelated to their stores
    for round in 0..rounds {
        // (little per reading, or more than the 1 ms interval of the position gate, so that every call re-arms it)
        indicatif::verif_hooks::set_auto_advance_ns(if round % 2 == 0 { 997 } else { 1_000_003 });
        // in a third of the rounds some readings of the clock are followed by a short sleep: another thread's whole update fits between
        // this thread's reading of the clock and its next atomic access
        indicatif::verif_hooks::set_stall_every(if round % 3 == 1 { 501 } else { 0 });
        // more threads than cores in some rounds: preemption at arbitrary points between two atomic accesses
        let nthreads = *rng.pick(&[2usize, 3, 4, 8, 16, 48, 96]);
        let per = *rng.pick(&[20_000u64, 50_000, 100_000]);
        let start = *rng.pick(&[0u64, 5, u64::MAX - 1000, 1 << 63]);
        let len = *rng.pick(&[None, Some(0u64), Some(1000), Some(u64::MAX)]);
        let hidden = rng.chance(1, 2);
        let rec = Recorder::new(5, 40, false);
        let pb = ProgressBar::with_draw_target(len, if hidden { ProgressDrawTarget::hidden() } else { ProgressDrawTarget::term_like_with_hz(Box::new(rec.clone()), 20) });
        pb.set_position(start);
        let plans: Vec<(u64, u64)> = (0..nthreads).map(|_| (*rng.pick(&[1u64, 1, 2, 3, 7]), *rng.pick(&[0u64, 0, 1, 2]))).collect();   // (inc amount, dec amount)
        let bad_fraction = std::sync::Arc::new(std::sync::atomic::AtomicBool::new(false));
        let handles: Vec<_> = plans.iter().map(|&(i, d)| { let b = pb.clone(); let bf = bad_fraction.clone(); std::thread::spawn(move || {
            for k in 0..per { b.inc(i); if d > 0 { b.dec(d); } if k % 16 == 0 { b.inc_length(i); } if k % 4096 == 0 { let mut f = -1.0f32; b.update(|s| f = s.fraction()); if !(0.0..=1.0).contains(&f) { bf.store(true, std::sync::atomic::Ordering::Relaxed); } } }
        }) }).collect();
        // a bystander thread that, meanwhile, keeps making calls which by the property have no influence on the position
        // (reset_eta / reset_elapsed / tick / message / length calls): an update lost to one of them is a lost update all the same
        let stop = std::sync::Arc::new(std::sync::atomic::AtomicBool::new(false));
        let bystander = if round % 2 == 1 { let b = pb.clone(); let st = stop.clone(); Some(std::thread::spawn(move || { let mut k = 0u64;
            while !st.load(std::sync::atomic::Ordering::Relaxed) { match k % 6 { 0 => b.reset_eta(), 1 => b.reset_elapsed(), 2 => b.tick(), 3 => b.set_message("m"), 4 => b.inc_length(1), _ => b.dec_length(1) } k += 1; } k })) } else { None };
        let panicked = handles.into_iter().map(|h| h.join()).filter(|r| r.is_err()).count();
        stop.store(true, std::sync::atomic::Ordering::Relaxed);
        let (bpanic, bcalls) = match bystander.map(|h| h.join()) { None => (0, 0u64), Some(Ok(k)) => (0, k), Some(Err(_)) => (1, 0) };
        let panicked = panicked + bpanic;
        // the length: every worker added its increment every 16th iteration, the bystander added and removed 1 in turn (adding first)
        let want_len: Option<u64> = match len { Some(l) if l <= 1000 => { let mut w = l; for &(i, _) in &plans { w += i * ((per + 15) / 16); } Some(w + (bcalls + 1) / 6 - bcalls / 6) } _ => None };
        let mut want = start;
        for &(i, d) in &plans { want = want.wrapping_add(i.wrapping_mul(per)).wrapping_sub(d.wrapping_mul(per)); }
        let got = pb.position();
        let got_len = pb.length();
        let verdict = if let (Some(w), true) = (want_len, got_len != want_len) { format!("FAIL lost-length-updates {nthreads} threads: length {got_len:?}, expected {w} (every inc_length / dec_length counted once)") } else if panicked > 0 { format!("FAIL panic-under-concurrency {panicked} of {nthreads} threads panicked in inc/dec") } else if got != want { format!("FAIL lost-updates {nthreads} threads x {per} calls: position {got}, expected {want} (start {start})") }
            else if bad_fraction.load(std::sync::atomic::Ordering::Relaxed) { "FAIL fraction-out-of-range during concurrent updates".to_string() } else { "ok".into() };
        std::mem::forget(pb);
        out.emit(&format!("NOMODEL THREADS n={nthreads} per={per} start={start} len={len:?} hidden={hidden} bystander={} plans={plans:?}", round % 2 == 1), &format!(" ORACLE {verdict}"));
    }
    // the position oscillates around a short length while another thread reads the completed fraction: whatever the
    // interleaving of the reader's loads with the writers' atomic steps, the fraction stays within [0, 1]
    for round in 0..(if tier == "thorough" { 40 } else { 4 }) {
        let len = *rng.pick(&[1u64, 5, 7, 100]);
        let pb = ProgressBar::with_draw_target(Some(len), ProgressDrawTarget::hidden());
        let stop = std::sync::Arc::new(std::sync::atomic::AtomicBool::new(false));
        let writers: Vec<_> = (0..2 + round % 3).map(|w| { let b = pb.clone(); let st = stop.clone(); let step = 2 * len + w as u64; std::thread::spawn(move || {
            while !st.load(std::sync::atomic::Ordering::Relaxed) { b.inc(step); b.dec(step); } }) }).collect();
        let b = pb.clone();
        let reader = std::thread::spawn(move || { let mut worst: Option<f32> = None;
            for _ in 0..400_000u32 { let mut f = 0f32; b.update(|s| f = s.fraction()); if !(0.0..=1.0).contains(&f) { worst = Some(f); break; } } worst });
        let worst = reader.join().unwrap_or(Some(f32::NAN));
        stop.store(true, std::sync::atomic::Ordering::Relaxed);
        for h in writers { let _ = h.join(); }
        let verdict = match worst { None => "ok".to_string(), Some(f) => format!("FAIL fraction-out-of-range {f} read while other threads move the position across the length {len}") };
        std::mem::forget(pb);
        out.emit(&format!("NOMODEL OSCILLATE len={len} round={round}"), &format!(" ORACLE {verdict}"));
    }
    indicatif::verif_hooks::set_auto_advance_ns(0); indicatif::verif_hooks::set_stall_every(0);
}

/// constructor and builder glue (`no_length`, `new_spinner`, `with_*`, `downgrade` / `upgrade`): the bar they give has the length,
/// position, texts and finish behaviour asked for, in whatever order the builder methods are chained, and a weak handle upgrades
/// to the same bar exactly as long as a strong handle lives
pub fn run_glue(seed: u64, tier: &str, out: &mut Out) {
    let mut rng = Rng::new(seed ^ 0x61ee);
    let n = if tier == "thorough" { 20_000 } else { 400 };
    // the virtual clock stands well after its epoch: `with_elapsed` subtracts from it
    indicatif::verif_hooks::set_auto_advance_ns(0);
    indicatif::verif_hooks::set_now_ns(100_000_000_000_000);
    for _ in 0..n {
        let len = *rng.pick(&[0u64, 1, 10, u64::MAX]);
        let pos = *rng.pick(&[0u64, 3, 10, u64::MAX]);
        let tw = *rng.pick(&[0usize, 1, 4, 8]);
        let secs = *rng.pick(&[0u64, 5, 3600]);
        let abandon = rng.chance(1, 2);
        let ctor = rng.below(4);
        let mut steps: Vec<u8> = vec![0, 1, 2, 3, 4, 5, 6];
        for i in (1..steps.len()).rev() { let j = rng.below(i as u64 + 1) as usize; steps.swap(i, j); }
        let case = format!("GLUE ctor={ctor} len={len} pos={pos} tab={tw} elapsed={secs} abandon={abandon} order={steps:?}");
        let mut pb = match ctor { 0 => ProgressBar::hidden(), 1 => ProgressBar::no_length(), 2 => ProgressBar::new_spinner(), _ => ProgressBar::new(len) };
        let want_len = match ctor { 0 | 1 | 2 => None, _ => Some(len) };
        let mut verdict = String::from("ok");
        if pb.length() != want_len || pb.position() != 0 || pb.is_finished() { verdict = format!("FAIL constructor length {:?} position {} finished {}", pb.length(), pb.position(), pb.is_finished()); }
        for st in &steps { pb = match st {
            0 => pb.with_message("a\tb"), 1 => pb.with_prefix("\tp"), 2 => pb.with_position(pos), 3 => pb.with_tab_width(tw),
            4 => pb.with_elapsed(std::time::Duration::from_secs(secs)), 5 => pb.with_finish(if abandon { ProgressFinish::Abandon } else { ProgressFinish::AndLeave }),
            _ => pb.with_style(indicatif::ProgressStyle::with_template("{prefix}|{msg}|{pos}").unwrap()) }; }
        let sp = " ".repeat(tw);
        if verdict == "ok" && (pb.message() != format!("a{sp}b") || pb.prefix() != format!("{sp}p")) { verdict = format!("FAIL with_message/with_prefix/with_tab_width in order {steps:?}: {:?} {:?}", pb.message(), pb.prefix()); }
        if verdict == "ok" && (pb.position() != pos || pb.length() != want_len) { verdict = format!("FAIL with_position: position {} length {:?}", pb.position(), pb.length()); }
        if verdict == "ok" && pb.elapsed() < std::time::Duration::from_secs(secs) { verdict = format!("FAIL with_elapsed: {:?}", pb.elapsed()); }
        // weak handles
        let weak = pb.downgrade();
        match weak.upgrade() {
            None => { if verdict == "ok" { verdict = "FAIL upgrade of a live bar gave None".into(); } }
            Some(up) => { up.inc(1); if verdict == "ok" && pb.position() != pos.wrapping_add(1) { verdict = format!("FAIL upgraded handle is another bar: position {}", pb.position()); } up.dec(1); }
        }
        if verdict == "ok" && indicatif::WeakProgressBar::new().upgrade().is_some() { verdict = "FAIL WeakProgressBar::new().upgrade() is Some".into(); }
        // the configured finish behaviour is applied when the last handle goes
        let keep = pb.clone();
        drop(pb);
        if verdict == "ok" && keep.is_finished() { verdict = "FAIL finished although a handle is alive".into(); }
        let w2 = keep.downgrade();
        let (p_before, l_before) = (keep.position(), keep.length());
        keep.finish_using_style();
        let want = if abandon { p_before } else { l_before.unwrap_or(p_before) };
        if verdict == "ok" && (keep.position() != want || !keep.is_finished()) { verdict = format!("FAIL with_finish: position {} expected {want} finished {}", keep.position(), keep.is_finished()); }
        drop(keep);
        if verdict == "ok" && w2.upgrade().is_some() { verdict = "FAIL upgrade after the last strong handle is gone gave Some".into(); }
        // `ProgressState::set_len` / `set_pos` from an `update` closure (the API custom keys and callers see)
        if verdict == "ok" {
            let pb = ProgressBar::hidden();
            pb.update(|s| { s.set_len(len); s.set_pos(pos); });
            if pb.length() != Some(len) || pb.position() != pos { verdict = format!("FAIL update(set_len, set_pos): length {:?} position {}", pb.length(), pb.position()); }
        }
        // targets on the process's own streams: not a terminal here (the harness runs with its output captured), hence hidden and silent;
        // `MultiProgress::new()` / `default()` draw to stderr; removing a bar that is not a member is a no-op
        if verdict == "ok" && !console::Term::stdout().is_term() && !console::Term::stderr().is_term() {
            for (name, t) in [("stdout", indicatif::ProgressDrawTarget::stdout()), ("stdout_with_hz", indicatif::ProgressDrawTarget::stdout_with_hz(5)),
                              ("stderr_with_hz", indicatif::ProgressDrawTarget::stderr_with_hz(5)), ("stderr", indicatif::ProgressDrawTarget::stderr())] {
                if !t.is_hidden() { verdict = format!("FAIL ProgressDrawTarget::{name}() is not hidden although the stream is not a terminal"); }
                let pb = ProgressBar::with_draw_target(Some(3), t); pb.inc(1); pb.println("x"); pb.finish();
                if pb.position() != 3 || !pb.is_finished() { verdict = format!("FAIL bar on ProgressDrawTarget::{name}(): position {} finished {}", pb.position(), pb.is_finished()); }
            }
            for mp in [indicatif::MultiProgress::new(), indicatif::MultiProgress::default()] {
                if !mp.is_hidden() { verdict = "FAIL MultiProgress::new() is not hidden although stderr is not a terminal".into(); }
                let a = mp.add(ProgressBar::new(5)); let stranger = ProgressBar::hidden(); stranger.set_position(2);
                mp.remove(&stranger); mp.remove(&stranger);
                a.inc(2); let _ = mp.println("x");
                if a.position() != 2 || stranger.position() != 2 { verdict = "FAIL MultiProgress::new(): member or stranger state changed".into(); }
                mp.remove(&a); mp.remove(&a); a.inc(1);
                if a.position() != 3 { verdict = "FAIL removed bar lost its state".into(); }
            }
        }
        out.emit(&format!("NOMODEL {case}"), &format!(" ORACLE {verdict}"));
    }
}
