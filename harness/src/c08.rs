//! C08 — lock traces of every public call (single-threaded), for the correspondence with the lock
//! programs of `Model/Locks.lean`.
use crate::common::*;
use indicatif::verif_hooks as vh;
use indicatif::verif_hooks::Ev;
use indicatif::{MultiProgress, ProgressBar, ProgressDrawTarget, ProgressFinish, ProgressStyle};
use std::sync::Mutex;
use std::time::Duration;

static LOG: Mutex<Vec<(String, Ev, &'static str, usize)>> = Mutex::new(Vec::new());

fn class(c: &str) -> &'static str {
    if c.contains("BarState") { "S" } else if c.contains("Ticker") { "T" } else if c.contains("bool") { "C" } else if c.contains("MultiState") { "M" } else if c == "thread" { "thread" } else if c == "Condvar" { "cv" } else { "?" }
}
fn obs(ev: Ev, c: &'static str, id: usize) {
    let name = std::thread::current().name().unwrap_or("ticker").to_string();
    LOG.lock().unwrap().push((name, ev, class(c), id));
}
fn take_main() -> String {
    let mut log = LOG.lock().unwrap();
    let evs: Vec<String> = log.iter().filter(|(n, _, _, _)| n == "main").filter_map(|(_, ev, c, _)| match ev {
        Ev::Acquired => Some(format!("acq{c}")), Ev::Release => Some(format!("rel{c}")),
        Ev::ReadAcquired => Some(format!("racq{c}")), Ev::ReadRelease => Some(format!("rrel{c}")),
        Ev::Notify => Some("notify".into()), Ev::Spawn => Some("spawn".into()), Ev::JoinEnd => Some("join".into()),
        Ev::WaitBegin => Some("wait".into()), _ => None }).collect();
    log.clear();
    evs.join(" ")
}

pub fn run(_seed: u64, _tier: &str, out: &mut Out) {
    vh::set_observer(Some(obs));
    let calls: Vec<&str> = vec!["tick", "inc", "set_position", "set_message", "set_prefix", "set_length", "inc_length", "unset_length", "println", "suspend", "reset", "reset_eta",
        "update", "finish", "finish_and_clear", "abandon", "finish_using_style", "position", "length", "message", "is_finished", "is_hidden", "eta", "elapsed", "style", "set_style", "set_tab_width",
        "force_draw", "enable_steady_tick", "disable_steady_tick", "clone_drop", "drop_last", "mp_println", "mp_clear", "mp_suspend", "mp_remove", "mp_add", "mp_insert_before", "mp_set_alignment", "mp_is_hidden"];
    for in_multi in [false, true] { for ticker in [false, true] { for call in &calls {
        if !in_multi && call.starts_with("mp_") { continue; }
        vh::set_now_ns(1_000_000_000_000);
        let rec = Recorder::new(10, 40, false);
        let mp = MultiProgress::with_draw_target(ProgressDrawTarget::term_like(Box::new(rec.clone())));
        let pb = if in_multi { mp.add(ProgressBar::new(10)) } else { ProgressBar::with_draw_target(Some(10), ProgressDrawTarget::term_like(Box::new(rec.clone()))) };
        let other = if in_multi { Some(mp.add(ProgressBar::new(10))) } else { None };
        pb.set_style(ProgressStyle::with_template("{msg}").unwrap());
        if ticker { pb.enable_steady_tick(Duration::from_secs(3600)); std::thread::sleep(Duration::from_millis(30)); }
        let _ = take_main();
        let mut keep: Option<ProgressBar> = Some(pb.clone());
        match *call {
            "tick" => pb.tick(), "inc" => pb.inc(1), "set_position" => pb.set_position(3), "set_message" => pb.set_message("m"), "set_prefix" => pb.set_prefix("p"),
            "set_length" => pb.set_length(5), "inc_length" => pb.inc_length(1), "unset_length" => pb.unset_length(), "println" => pb.println("x"), "suspend" => pb.suspend(|| ()),
            "reset" => pb.reset(), "reset_eta" => pb.reset_eta(), "update" => pb.update(|_| ()), "finish" => pb.finish(), "finish_and_clear" => pb.finish_and_clear(), "abandon" => pb.abandon(),
            "finish_using_style" => pb.finish_using_style(), "position" => { pb.position(); } "length" => { pb.length(); } "message" => { pb.message(); } "is_finished" => { pb.is_finished(); }
            "is_hidden" => { pb.is_hidden(); } "eta" => { pb.eta(); } "elapsed" => { pb.elapsed(); } "style" => { pb.style(); } "set_style" => pb.set_style(ProgressStyle::default_bar()),
            "set_tab_width" => pb.set_tab_width(4), "force_draw" => pb.force_draw(), "enable_steady_tick" => pb.enable_steady_tick(Duration::from_secs(3600)), "disable_steady_tick" => pb.disable_steady_tick(),
            "clone_drop" => { let c = pb.clone(); drop(c); }
            "drop_last" => { keep = None; }
            "mp_println" => mp.println("x").unwrap(), "mp_clear" => mp.clear().unwrap(), "mp_suspend" => mp.suspend(|| ()), "mp_remove" => mp.remove(&pb),
            "mp_add" => { let b = mp.add(ProgressBar::with_draw_target(Some(1), ProgressDrawTarget::hidden())); std::mem::forget(b); }
            "mp_insert_before" => { let b = mp.insert_before(&pb, ProgressBar::with_draw_target(Some(1), ProgressDrawTarget::hidden())); std::mem::forget(b); }
            "mp_set_alignment" => mp.set_alignment(indicatif::MultiProgressAlignment::Bottom), "mp_is_hidden" => { mp.is_hidden(); }
            _ => unreachable!(),
        }
        if *call == "drop_last" { drop(pb); } else { std::mem::forget(pb); }
        let trace = take_main();
        // oracle on the real trace: every acquisition / join happens above everything the thread holds
        let rank = |c: &str| match c { "T" => 0, "J" => 1, "S" => 2, "M" => 3, "C" => 4, _ => 9 };
        let mut held: Vec<String> = Vec::new();
        let mut verdict = "ok".to_string();
        for tok in trace.split_whitespace() {
            if let Some(c) = tok.strip_prefix("racq").or_else(|| tok.strip_prefix("acq")) {
                if let Some(h) = held.iter().find(|h| rank(h) >= rank(c)) { verdict = format!("FAIL lock-order: acquires {c} while holding {h} in {call} ({trace})"); break; }
                held.push(c.to_string());
            } else if let Some(c) = tok.strip_prefix("rrel").or_else(|| tok.strip_prefix("rel")) {
                if let Some(i) = held.iter().position(|h| h == c) { held.remove(i); }
            } else if tok == "join" {
                if let Some(h) = held.iter().find(|h| rank(h) >= 1) { verdict = format!("FAIL lock-order: joins the ticker while holding {h} in {call}"); break; }
            }
        }
        std::mem::forget(keep); std::mem::forget(other); std::mem::forget(mp);
        let _ = ProgressFinish::AndLeave;
        out.emit(&format!("LOCKS FX={} {} {} {}", crate::common::fx("locks"), call, if in_multi { "multi" } else { "single" }, if ticker { "ticker" } else { "noticker" }), &format!("{trace} ORACLE {verdict}"));
    }}}
    // the steady-ticker thread itself: one full loop iteration as recorded from the real thread
    for in_multi in [false, true] {
        vh::set_now_ns(1_000_000_000_000);
        let rec = Recorder::new(10, 40, false);
        let mp = MultiProgress::with_draw_target(ProgressDrawTarget::term_like(Box::new(rec.clone())));
        let pb = if in_multi { mp.add(ProgressBar::new(10)) } else { ProgressBar::with_draw_target(Some(10), ProgressDrawTarget::term_like(Box::new(rec.clone()))) };
        pb.set_style(ProgressStyle::with_template("{msg}").unwrap());
        LOG.lock().unwrap().clear();
        pb.enable_steady_tick(Duration::from_millis(2));
        std::thread::sleep(Duration::from_millis(60));
        pb.disable_steady_tick();
        let evs: Vec<String> = { let log = LOG.lock().unwrap(); log.iter().filter(|(n, _, _, _)| n != "main").filter_map(|(_, ev, c, _)| match ev {
            Ev::Acquired => Some(format!("acq{c}")), Ev::Release => Some(format!("rel{c}")), Ev::WaitBegin => Some("wait".to_string()), _ => None }).collect() };
        LOG.lock().unwrap().clear();
        // first complete iteration: from the first acquisition of the bar state to the release of the flag after the wait
        let start = evs.iter().position(|e| e == "acqS").unwrap_or(0);
        let end = evs.iter().skip(start).position(|e| e == "relC").map(|i| start + i + 1).unwrap_or(evs.len());
        let trace = evs[start..end].join(" ");
        let verdict = if evs[start..end].iter().any(|e| e == "wait") { "ok".to_string() } else { format!("FAIL ticker-loop no condvar wait in an iteration of the ticker thread: {trace}") };
        std::mem::forget(pb); std::mem::forget(mp);
        out.emit(&format!("LOCKS FX={} ticker_loop {} ticker", crate::common::fx("locks"), if in_multi { "multi" } else { "single" }), &format!("{trace} ORACLE {verdict}"));
    }
    vh::set_observer(None);
}
