//! C08 (schedules and lifecycle) — gate-scheduled three-thread scenarios on the real crate through the
//! sync shim, and the steady-tick lifecycle under real time.
//!
//! Schedule scenarios: the ticker thread is parked at its acquisition of the bar state, thread A runs
//! one public call and is parked at its k-th lock acquisition, thread B runs a ticker-lifecycle call
//! (disable / enable (replace) / drop of the last handle) until it finishes or waits in `join`; then all
//! gates open.  If after the grace period every live thread is still between `Acquire`/`JoinBegin`
//! and its completion, the wait-for cycle is reported as a deadlock.
use crate::common::*;
use indicatif::verif_hooks as vh;
use indicatif::verif_hooks::Ev;
use indicatif::{MultiProgress, ProgressBar, ProgressDrawTarget, ProgressStyle};
use std::collections::HashMap;
use std::sync::{Arc, Condvar, Mutex};
use std::time::{Duration, Instant};

struct Gates { m: Mutex<GS>, cv: Condvar }
#[derive(Default)]
struct GS {
    /// (thread, lock class) -> park at the n-th `Acquire` of that class by that thread (1-based); 0 = any
    hold: HashMap<(String, &'static str), usize>,
    seen: HashMap<(String, &'static str), usize>,
    parked: Vec<(String, String)>,
    pending: HashMap<String, String>,
    open: bool,
}
static GATE: Mutex<Option<Arc<Gates>>> = Mutex::new(None);

fn short(class: &str) -> &'static str {
    if class.contains("BarState") { "S" } else if class.contains("Ticker") { "T" } else if class.contains("bool") { "C" } else if class.contains("MultiState") { "M" } else if class == "thread" { "J" } else { "?" }
}
fn obs(ev: Ev, class: &'static str, id: usize) {
    let g = GATE.lock().unwrap().clone();
    let Some(g) = g else { return };
    let name = std::thread::current().name().unwrap_or("ticker").to_string();
    if name == "main" { return; }
    let c = short(class);
    let mut s = g.m.lock().unwrap();
    match ev {
        Ev::Acquire | Ev::ReadAcquire | Ev::JoinBegin => { s.pending.insert(name.clone(), format!("{ev:?}:{c}{id}")); }
        Ev::Acquired | Ev::ReadAcquired | Ev::JoinEnd => { s.pending.remove(&name); }
        _ => {}
    }
    if ev == Ev::Acquire || ev == Ev::ReadAcquire {
        let key = (name.clone(), c);
        let n = { let e = s.seen.entry(key.clone()).or_insert(0); *e += 1; *e };
        if let Some(&want) = s.hold.get(&key) {
            if !s.open && (want == 0 || want == n) {
                s.parked.push((name.clone(), c.to_string()));
                g.cv.notify_all();
                let deadline = Instant::now() + Duration::from_secs(5);
                while !s.open && Instant::now() < deadline { s = g.cv.wait_timeout(s, Duration::from_millis(50)).unwrap().0; }
            }
        }
    }
}

fn wait_until(g: &Gates, mut f: impl FnMut(&GS) -> bool, ms: u64) -> bool {
    let deadline = Instant::now() + Duration::from_millis(ms);
    let mut s = g.m.lock().unwrap();
    loop {
        if f(&s) { return true; }
        if Instant::now() >= deadline { return false; }
        s = g.cv.wait_timeout(s, Duration::from_millis(5)).unwrap().0;
    }
}

const A_CALLS: [&str; 14] = ["update", "tick", "inc", "set_message", "set_length", "println", "suspend", "reset", "finish", "abandon", "set_style", "position", "set_tab_width", "mp_remove"];
const B_CALLS: [&str; 3] = ["disable_steady_tick", "enable_steady_tick", "drop_last"];

fn call_a(pb: &ProgressBar, mp: &Option<MultiProgress>, call: &str) {
    match call {
        "update" => pb.update(|_| ()), "tick" => pb.tick(), "inc" => pb.inc(1), "set_message" => pb.set_message("m"), "set_length" => pb.set_length(7),
        "println" => pb.println("x"), "suspend" => pb.suspend(|| ()), "reset" => pb.reset(), "finish" => pb.finish(), "abandon" => pb.abandon(),
        "set_style" => pb.set_style(ProgressStyle::default_bar()), "position" => { pb.position(); } "set_tab_width" => pb.set_tab_width(4),
        "mp_remove" => { if let Some(mp) = mp { mp.remove(pb) } else { pb.tick() } }
        _ => unreachable!(),
    }
}

/// one gated scenario; returns the verdict
fn schedule(a_call: &str, park_class: &'static str, park_n: usize, b_call: &str, in_multi: bool) -> String {
    let g = Arc::new(Gates { m: Mutex::new(GS::default()), cv: Condvar::new() });
    *GATE.lock().unwrap() = Some(g.clone());
    let rec = Recorder::new(10, 40, false);
    let mp = if in_multi { Some(MultiProgress::with_draw_target(ProgressDrawTarget::term_like(Box::new(rec.clone())))) } else { None };
    let pb = match &mp { Some(mp) => mp.add(ProgressBar::new(10)), None => ProgressBar::with_draw_target(Some(10), ProgressDrawTarget::term_like(Box::new(rec.clone()))) };
    // park the ticker thread at its first acquisition of the bar state
    g.m.lock().unwrap().hold.insert(("ticker".into(), "S"), 0);
    pb.enable_steady_tick(Duration::from_millis(1));
    if !wait_until(&g, |s| s.parked.iter().any(|(n, c)| n == "ticker" && c == "S"), 2000) { *GATE.lock().unwrap() = None; return "skip ticker-not-parked".into(); }
    // thread A: parked at its n-th acquisition of `park_class` (if it gets there)
    g.m.lock().unwrap().hold.insert(("A".into(), park_class), park_n);
    let (pa, mpa, ac) = (pb.clone(), mp.clone(), a_call.to_string());
    let a_drops = b_call == "drop_last"; // then every handle is dropped and whoever is last joins the ticker
    let ta = std::thread::Builder::new().name("A".into()).spawn(move || { call_a(&pa, &mpa, &ac); if a_drops { drop(pa) } else { std::mem::forget(pa) } }).unwrap();
    let a_parked = wait_until(&g, |s| s.parked.iter().any(|(n, _)| n == "A"), 150);
    // thread B: ticker lifecycle call
    let (pbb, bc) = (pb.clone(), b_call.to_string());
    let last = if b_call == "drop_last" { Some(pb) } else { std::mem::forget(pb); None };
    let tb = std::thread::Builder::new().name("B".into()).spawn(move || {
        match bc.as_str() {
            "disable_steady_tick" => { pbb.disable_steady_tick(); std::mem::forget(pbb); }
            "enable_steady_tick" => { pbb.enable_steady_tick(Duration::from_secs(3600)); std::mem::forget(pbb); }
            _ => { drop(pbb); }
        }
    }).unwrap();
    if let Some(p) = last { drop(p); }
    // let B run until it finishes or waits (in a join or at a lock)
    wait_until(&g, |s| s.pending.contains_key("B"), 150);
    { let mut s = g.m.lock().unwrap(); s.open = true; g.cv.notify_all(); }
    // grace period: everything must complete
    let deadline = Instant::now() + Duration::from_millis(2500);
    while Instant::now() < deadline && !(ta.is_finished() && tb.is_finished()) { std::thread::sleep(Duration::from_millis(2)); }
    let verdict = if ta.is_finished() && tb.is_finished() { "ok".to_string() } else {
        let s = g.m.lock().unwrap();
        let mut p: Vec<String> = s.pending.iter().map(|(k, v)| format!("{k}@{v}")).collect(); p.sort();
        format!("FAIL deadlock a={a_call} parked-at={park_class}{park_n}({a_parked}) b={b_call} multi={in_multi} waiting=[{}]", p.join(","))
    };
    *GATE.lock().unwrap() = None;
    if verdict == "ok" { let _ = ta.join(); let _ = tb.join(); }
    std::mem::forget(mp);
    verdict
}

fn lifecycle(kind: &str) -> String {
    let rec = Recorder::new(10, 40, false);
    let pb = ProgressBar::with_draw_target(Some(10), ProgressDrawTarget::term_like_with_hz(Box::new(rec.clone()), 255));
    pb.set_style(ProgressStyle::with_template("{spinner}").unwrap().tick_strings(&["a", "b", "c", "d", "e", "Z"]));
    vh::set_auto_advance_ns(10_000_000); // every clock reading is 10 ms later, so the draw limiter never interferes
    let spinner = || rec.st.lock().unwrap().ops.iter().rev().find_map(|o| if let Op::Str(s) = o { Some(s.trim_end().to_string()) } else { None }).unwrap_or_default();
    let res = match kind {
        "ticks-without-manual" => {
            pb.enable_steady_tick(Duration::from_millis(2));
            let t = Instant::now();
            while rec.flushes() < 3 && t.elapsed() < Duration::from_secs(3) { std::thread::sleep(Duration::from_millis(5)); }
            let n = rec.flushes();
            if n >= 3 { "ok".to_string() } else { format!("FAIL ticker-does-not-tick only {n} frames in 3 s at a 2 ms interval") }
        }
        // a ticker is (re-)installed on a bar whose earlier ticker has stopped by itself (finish), was disabled, or is still
        // running with the same interval: in every case the bar is redrawn without manual ticks afterwards
        "revive-after-finish" | "enable-after-disable" | "enable-twice" | "replace-long-by-short" => {
            // (replace-long-by-short: the ticker that is replaced sleeps for an hour; the new cadence must take over at once)
            pb.enable_steady_tick(if kind == "replace-long-by-short" { Duration::from_secs(3600) } else { Duration::from_millis(2) });
            std::thread::sleep(Duration::from_millis(40));
            match kind {
                "revive-after-finish" => { pb.finish(); std::thread::sleep(Duration::from_millis(60)); pb.reset(); }
                "enable-after-disable" => { pb.disable_steady_tick(); }
                _ => {}
            }
            pb.enable_steady_tick(Duration::from_millis(2));
            let n0 = rec.flushes();
            // three frames are due after 6 ms; a loaded machine gets up to 3 s for them
            let t = Instant::now();
            while rec.flushes() - n0 < 3 && t.elapsed() < Duration::from_secs(3) { std::thread::sleep(Duration::from_millis(5)); }
            let n = rec.flushes() - n0;
            if n >= 3 { "ok".to_string() } else { format!("FAIL ticker-does-not-tick {kind}: only {n} frames in 3 s after enable_steady_tick(2 ms)") }
        }
        "manual-tick-noop" => {
            pb.enable_steady_tick(Duration::from_secs(3600));
            std::thread::sleep(Duration::from_millis(60));
            let before = spinner();
            for _ in 0..5 { pb.tick(); }
            let after = spinner();
            if before == after { "ok".to_string() } else { format!("FAIL manual-tick-advances spinner {before:?} -> {after:?} while a steady ticker is installed") }
        }
        "finish-stops-ticks" => {
            pb.enable_steady_tick(Duration::from_millis(2));
            std::thread::sleep(Duration::from_millis(40));
            pb.finish();
            let n = rec.flushes();
            std::thread::sleep(Duration::from_millis(80));
            let m = rec.flushes();
            if n == m { "ok".to_string() } else { format!("FAIL ticks-after-finish {} frames after finish()", m - n) }
        }
        "disable-prompt" | "replace-prompt" | "drop-prompt" => {
            pb.enable_steady_tick(Duration::from_secs(3600));
            std::thread::sleep(Duration::from_millis(40));
            let t = Instant::now();
            match kind { "disable-prompt" => pb.disable_steady_tick(), "replace-prompt" => pb.enable_steady_tick(Duration::from_secs(7200)), _ => {} }
            if kind == "drop-prompt" { let t2 = Instant::now(); drop(pb); let el = t2.elapsed(); vh::set_auto_advance_ns(0); return if el < Duration::from_secs(2) { "ok".into() } else { format!("FAIL not-prompt drop took {el:?} with a 1 h interval") }; }
            let el = t.elapsed();
            if el < Duration::from_secs(2) { "ok".to_string() } else { format!("FAIL not-prompt {kind} took {el:?} with a 1 h interval") }
        }
        _ => unreachable!(),
    };
    vh::set_auto_advance_ns(0);
    pb.disable_steady_tick();
    std::mem::forget(pb);
    res
}

pub fn run(seed: u64, tier: &str, out: &mut Out) {
    vh::set_observer(Some(obs));
    vh::set_now_ns(1_000_000_000_000);
    let mut rng = Rng::new(seed);
    // the scenario of the lock-order finding (update x disable x ticker) always runs, in every parking position
    let mut scen: Vec<(String, &'static str, usize, String, bool)> = Vec::new();
    for multi in [false, true] { for (c, n) in [("T", 1usize), ("S", 1), ("M", 1)] { for b in B_CALLS { scen.push(("update".into(), c, n, b.into(), multi)); } } }
    let extra = if tier == "thorough" { 600 } else { 40 };
    for _ in 0..extra {
        let a = *rng.pick(&A_CALLS); let b = *rng.pick(&B_CALLS);
        let (c, n) = *rng.pick(&[("T", 1usize), ("S", 1), ("S", 2), ("M", 1), ("M", 2), ("C", 1)]);
        scen.push((a.into(), c, n, b.into(), rng.chance(1, 2)));
    }
    for (a, c, n, b, multi) in scen {
        let v = schedule(&a, c, n, &b, multi);
        out.emit(&format!("NOMODEL SCHED a={a} park={c}{n} b={b} multi={multi}"), &format!(" ORACLE {v}"));
    }
    vh::set_observer(None);
    for kind in ["ticks-without-manual", "revive-after-finish", "enable-after-disable", "enable-twice", "replace-long-by-short", "manual-tick-noop", "finish-stops-ticks", "disable-prompt", "replace-prompt", "drop-prompt"] {
        let v = lifecycle(kind);
        out.emit(&format!("NOMODEL LIFECYCLE {kind}"), &format!(" ORACLE {v}"));
    }
}
