//! C09 — rate / ETA estimator laws through the public API on the virtual clock.
//!
//! Operations: `update(|s| s.set_pos(p))` (always records a sample), `inc` / `set_position` (record only
//! when the position gate lets a tick through), `reset_eta`, `reset_elapsed`, `reset`, `finish`,
//! `set_length`; queries: `per_sec`, `eta`, `duration`, `elapsed`.
//! The oracle judges the implementation's answers by the laws of the statement alone:
//!  * finite and non-negative strictly after creation / the last reset;
//!  * never above the largest rate observed over any window of operation instants since the last reset;
//!  * steady progress (exact constant rate, any cadence): the reported rate is that rate;
//!  * while nothing happens between two queries the rate does not rise;
//!  * after `reset_eta` the answers equal those of a fresh bar created at that instant (twin run);
//!  * eta = remaining / rate with the three zero cases; duration = elapsed + eta.
use crate::common::*;
use indicatif::verif_hooks as vh;
use indicatif::ProgressBar;

pub const T0: u64 = 1_000_000_000_000;

fn close(a: f64, b: f64, rel: f64) -> bool { a == b || (a - b).abs() <= rel * a.abs().max(b.abs()) + 1e-300 }

/// fixed histories that run before the generated ones: the recipes of the listed findings
fn corpus(out: &mut Out) {
    // F20: steady 1 step/s for a minute, a burst of 1000 steps in 10 ms, then a stall queried every 0.5 s
    vh::set_auto_advance_ns(0); vh::set_now_ns(T0);
    let pb = ProgressBar::hidden();
    let (mut now, mut pos) = (T0, 0u64);
    let mut case = format!("EST {T0} none");
    for _ in 0..60 { now += 1_000_000_000; pos += 1; vh::set_now_ns(now); case += &format!(" ; adv 1000000000 ; upd {pos}"); let p = pos; pb.update(move |s| s.set_pos(p)); }
    now += 10_000_000; pos += 1000; vh::set_now_ns(now); case += &format!(" ; adv 10000000 ; upd {pos}"); let p = pos; pb.update(move |s| s.set_pos(p));
    let mut obs = Vec::new(); let mut prev: Option<f64> = None; let mut verdict = "ok".to_string();
    for _ in 0..12 {
        case += " ; q"; let v = pb.per_sec(); obs.push(v.to_bits().to_string());
        if let Some(p) = prev { if v > p * (1.0 + 1e-9) && verdict == "ok" { verdict = format!("FAIL rises-during-stall {p} -> {v}"); } }
        prev = Some(v);
        now += 500_000_000; vh::set_now_ns(now); case += " ; adv 500000000";
    }
    std::mem::forget(pb);
    out.emit(&case, &format!("{} ORACLE {verdict}", obs.join(" ")));
    // F21 (repaired): quick incs swallowed by the position gate, reset_eta, then one step per second
    vh::set_now_ns(T0);
    let pb = ProgressBar::hidden(); pb.set_length(1_000_000);
    let mut case = format!("EST {T0} 1000000 ; len 1000000 ; adv 1000000000 ; inc 10");
    let mut now = T0 + 1_000_000_000; vh::set_now_ns(now); pb.inc(10);
    for _ in 0..200 { pb.inc(1); case += " ; inc 1"; }
    pb.reset_eta(); case += " ; reseteta";
    now += 1_000_000_000; vh::set_now_ns(now); pb.inc(1); case += " ; adv 1000000000 ; inc 1 ; q";
    let v = pb.per_sec();
    let verdict = if v <= 1.0 + 1e-9 { "ok".to_string() } else { format!("FAIL above-largest-observed-rate {v} > 1 (one step in the second after reset_eta)") };
    std::mem::forget(pb);
    out.emit(&case, &format!("{} ORACLE {verdict}", v.to_bits()));
}

pub fn run(seed: u64, tier: &str, out: &mut Out) {
    corpus(out);
    let mut rng = Rng::new(seed);
    let n = if tier == "thorough" { 200_000 } else { 3_000 };
    for case_no in 0..n {
        vh::set_auto_advance_ns(0);
        vh::set_now_ns(T0);
        let len: Option<u64> = match rng.below(4) { 0 => None, 1 => Some(u64::MAX), 2 => Some(1_000_000), _ => Some(1000) };
        let pb = ProgressBar::hidden();
        // a fifth of the bars are given a head start on the clock (`with_elapsed`): elapsed and duration include it, the rate does not
        let head_start: u64 = if rng.chance(1, 5) { *rng.pick(&[1u64, 60, 900]) } else { 0 };
        let pb = if head_start > 0 { pb.with_elapsed(std::time::Duration::from_secs(head_start)) } else { pb };
        if let Some(l) = len { pb.set_length(l); }
        // kind 0: steady (exact constant rate through `update`), kind 1: `update` only, kind 2: everything
        let kind = case_no % 3;
        let rate: u64 = *rng.pick(&[1u64, 3, 1000, 1_000_000, 1_000_000_000]);
        let (mut now, mut pos) = (T0, 0u64);
        let mut case = format!("EST {T0} {}", len.map_or("none".to_string(), |l| l.to_string()));
        if head_start > 0 { case += &format!(" ; withelapsed {}", head_start * 1_000_000_000); }
        if len.is_some() { case += " ; len "; case += &len.unwrap().to_string(); }
        let mut obs: Vec<String> = Vec::new();
        let mut verdict = "ok".to_string();
        let mut fail = |v: &mut String, s: String| { if v == "ok" { *v = s; } };
        // operation instants (time, position) since the last reset, for the largest-observed-rate bound
        let mut points: Vec<(u64, u64, u64)> = vec![(T0, 0, 0)];   // (instant, lowest, highest position the estimator may have sampled then)
        fn push(points: &mut Vec<(u64, u64, u64)>, now: u64, pos: u64) { match points.last_mut() { Some(l) if l.0 == now => { l.1 = l.1.min(pos); l.2 = l.2.max(pos); } _ => points.push((now, pos, pos)) } }
        let mut last_reset = T0;
        // a backwards seek resets the estimator at the next recorded sample; with the position gate the harness
        // cannot know which call records it, so every operation instant while one is pending may be that reset
        let mut rewind_pending = false;
        let mut last_stall: Option<f64> = None;
        let mut last_upd_ms_total: u64 = 0; let mut ms_total: u64 = 0;   // steady bookkeeping
        let mut steady_ok = kind == 0;
        let mut finished = false;
        let mut just_sampled = false;   // a sample was recorded at this very instant and nothing happened since
        // twin: a fresh bar created at the last reset_eta, fed the same `update`s shifted by the position then
        let mut twin: Option<(ProgressBar, u64)> = None;
        // a quarter of the histories start far out in the u64 range (positions that f64 cannot tell apart):
        // jump there and forget the jump, then proceed as usual
        if rng.chance(1, 4) {
            let base = *rng.pick(&[1u64 << 53, (1 << 56) + 1, (1 << 60) + 7, (1 << 63) + 12_345, u64::MAX - 1_000_000_000_000_000]);
            if len.map_or(true, |l| l >= base) || kind != 0 {
                pos = base; case += &format!(" ; upd {pos}"); pb.update(move |s| s.set_pos(base));
                case += " ; reseteta"; pb.reset_eta();
                points = vec![(now, pos, pos)];
            }
        }
        let k = rng.range(2, 60);
        for _ in 0..k {
            let choice = rng.below(20);
            match choice {
                0..=9 => {
                    let gap_ms: u64 = *rng.pick(&[1u64, 2, 10, 100, 999, 1000, 1001, 15_000, 60_000, 3_600_000, 86_400_000]);
                    now += gap_ms * 1_000_000; ms_total += gap_ms; vh::set_now_ns(now); case += &format!(" ; adv {}", gap_ms * 1_000_000);
                    just_sampled = false;
                    if finished { continue; }
                    if kind == 0 {
                        let el = ms_total - last_upd_ms_total;
                        // an update without progress (the length is set to what it is: a tick that records the same position) between
                        // two steady updates: "no matter how often or how irregularly updates arrive"
                        if rng.chance(1, 4) { match len { Some(l) => { case += &format!(" ; len {l}"); pb.set_length(l); } None => { case += " ; len none"; pb.unset_length(); } } }
                        if (rate as u128 * el as u128) % 1000 != 0 { continue; }   // keep the true rate exactly constant
                        let delta = (rate as u128 * el as u128 / 1000) as u64;
                        if delta == 0 || pos.checked_add(delta).is_none() { continue; }
                        pos += delta; last_upd_ms_total = ms_total;
                        case += &format!(" ; upd {pos}"); let p2 = pos; pb.update(move |s| s.set_pos(p2));
                        if let Some((t, base)) = &twin { let p3 = pos - base; t.update(move |s| s.set_pos(p3)); }
                        just_sampled = true;
                    } else {
                        let delta = *rng.pick(&[0u64, 1, 10, 1000, 1_000_000, 1_000_000_000_000]);
                        let via = if kind == 1 { 0 } else { rng.below(3) };
                        match via {
                            0 => { if rewind_pending { last_reset = now; rewind_pending = false; } pos = pos.saturating_add(delta); case += &format!(" ; upd {pos}"); let p2 = pos; pb.update(move |s| s.set_pos(p2));
                                   if let Some((t, base)) = &twin { let p3 = pos - base; t.update(move |s| s.set_pos(p3)); } just_sampled = delta > 0; }
                            1 => { if rewind_pending { last_reset = now; } let d = delta.min(u64::MAX - pos); pos += d; case += &format!(" ; inc {d}"); pb.inc(d); twin = None; }
                            _ => { let p = if rng.chance(1, 4) { pos / 2 } else { pos.saturating_add(delta) }; if p < pos { rewind_pending = true; } if rewind_pending { last_reset = now; } pos = p; case += &format!(" ; setpos {p}"); pb.set_position(p); twin = None; }
                        }
                    }
                    push(&mut points, now, pos); last_stall = None;
                }
                10 if kind == 2 => {   // a burst of quick incs at one instant: most are swallowed by the position gate
                    let m = rng.range(5, 40);
                    if rewind_pending { last_reset = now; }
                    for _ in 0..m { if pos < u64::MAX { pos += 1; case += " ; inc 1"; pb.inc(1); push(&mut points, now, pos); } } last_stall = None; twin = None; just_sampled = false;
                }
                // `reset()` on a bar that is fed by `update` only: position and estimator start again, the twin is a fresh bar at 0
                11 if kind == 1 && !finished && rng.chance(1, 3) => {
                    case += " ; reset"; pb.reset(); pos = 0;
                    points = vec![(now, 0, 0)]; last_reset = now; last_stall = None; just_sampled = false;
                    twin = Some((ProgressBar::hidden(), 0));
                }
                11 => {
                    case += " ; reseteta"; pb.reset_eta();
                    points = vec![(now, pos, pos)]; last_reset = now; last_stall = None; just_sampled = false;
                    last_upd_ms_total = ms_total;
                    vh::set_now_ns(now);
                    twin = if kind != 2 && !finished { Some((ProgressBar::hidden(), pos)) } else { None };
                }
                12 if kind == 2 => {
                    match rng.below(3) {
                        0 => { case += " ; resetelapsed"; pb.reset_elapsed(); }
                        1 => { case += " ; reset"; pb.reset(); if pos > 0 { rewind_pending = true; } pos = 0; finished = false; }
                        _ => { case += " ; finish"; pb.finish(); finished = true; if let Some(l) = len { pos = l; } }
                    }
                    points = vec![(now, pos, pos)]; last_reset = now; last_stall = None; twin = None; steady_ok = false; just_sampled = false;
                }
                13 if kind == 2 => { just_sampled = false; let gap_ms: u64 = *rng.pick(&[1u64, 500, 5_000, 15_000, 120_000]); now += gap_ms * 1_000_000; ms_total += gap_ms; vh::set_now_ns(now); case += &format!(" ; adv {}", gap_ms * 1_000_000); }
                14 | 15 => {
                    // eta / duration / elapsed together with the rate at the same instant
                    case += " ; q ; eta ; dur ; el";
                    // the getters must not panic (C09: finite and non-negative at every instant); a panic would also poison the bar
                    let got = std::panic::catch_unwind(std::panic::AssertUnwindSafe(|| (pb.per_sec(), pb.eta(), pb.duration(), pb.elapsed())));
                    let (v, eta, dur, el) = match got { Ok(t) => t, Err(_) => { fail(&mut verdict, "FAIL panic in per_sec/eta/duration/elapsed".to_string()); obs.push("panic".to_string()); break; } };
                    obs.push(v.to_bits().to_string()); obs.push(eta.as_nanos().to_string()); obs.push(dur.as_nanos().to_string()); obs.push(el.as_nanos().to_string());
                    let remaining = len.map(|l| l.saturating_sub(pos));
                    let zero_case = finished || len.is_none() || (!finished && v == 0.0);
                    if zero_case && !eta.is_zero() { fail(&mut verdict, format!("FAIL eta-zero-case eta={eta:?} finished={finished} len={len:?} rate={v}")); }
                    if !zero_case && now > last_reset && v.is_finite() && v > 0.0 {
                        let want = remaining.unwrap() as f64 / v;
                        let got = eta.as_secs_f64();
                        if !(close(got, want, 1e-9) || (got - want).abs() <= 2e-9 || (want >= 1.8e19 && eta.as_secs() == u64::MAX)) { fail(&mut verdict, format!("FAIL eta-law eta={got} remaining/rate={want}")); }
                    }
                    let want_dur = if len.is_none() || finished { std::time::Duration::ZERO } else { el.saturating_add(eta) };
                    if dur != want_dur { fail(&mut verdict, format!("FAIL duration-law duration={dur:?} elapsed+eta={want_dur:?}")); }
                }
                _ => {
                    if now == last_reset || finished { continue; }
                    case += " ; q";
                    let v = pb.per_sec();
                    obs.push(v.to_bits().to_string());
                    if !(v.is_finite() && v >= 0.0) { fail(&mut verdict, format!("FAIL not-finite-nonnegative {v} at {} ns after the last reset", now - last_reset)); }
                    else {
                        // largest rate over any window of operation instants since the last reset
                        let mut max_rate = 0f64;
                        for i in 0..points.len() { for j in i + 1..points.len() { let (t1, p1, _) = points[i]; let (t2, _, p2) = points[j]; if t2 > t1 && p2 > p1 { let r = (p2 - p1) as f64 / ((t2 - t1) as f64 / 1e9); if r > max_rate { max_rate = r; } } } }
                        if v > max_rate * (1.0 + 1e-9) + 1e-12 { fail(&mut verdict, format!("FAIL above-largest-observed-rate {v} > {max_rate}")); }
                        if kind == 0 && steady_ok && just_sampled && !close(v, rate as f64, 1e-6) { fail(&mut verdict, format!("FAIL steady-rate true rate {rate}/s reported {v}")); }
                        if let Some(prev) = last_stall { if v > prev * (1.0 + 1e-9) + 1e-12 { fail(&mut verdict, format!("FAIL rises-during-stall {prev} -> {v}")); } }
                        if let Some((t, _)) = &twin { let tv = t.per_sec(); if now > last_reset && !(close(v, tv, 1e-9) || (!tv.is_finite() && !v.is_finite())) { fail(&mut verdict, format!("FAIL reset-does-not-forget after reset_eta / reset: {v}, a fresh bar created then and given the same updates: {tv}")); } }
                    }
                    last_stall = Some(v);
                }
            }
        }
        if let Some((t, _)) = twin { std::mem::forget(t); }
        std::mem::forget(pb);
        out.emit(&case, &format!("{} ORACLE {verdict}", obs.join(" ")));
    }
}

/// C09 with a steady ticker: the ticker thread feeds the estimator; progress is steady in (virtual) time, so the
/// reported rate must be the true rate, whatever the real-time cadence of the ticks (10 % tolerance: a tick may fall
/// between the harness advancing the clock and incrementing the position).
pub fn run_ticker(seed: u64, tier: &str, out: &mut Out) {
    let mut rng = Rng::new(seed ^ 0x0909);
    let runs = if tier == "thorough" { 40 } else { 6 };
    for _ in 0..runs {
        vh::set_auto_advance_ns(0); vh::set_now_ns(T0);
        let step_ms = *rng.pick(&[50u64, 100, 200]);
        let per_step = *rng.pick(&[1u64, 5, 20]);
        let tick_ms = *rng.pick(&[1u64, 2, 5]);
        let suspend_first = rng.chance(1, 2);
        let pb = ProgressBar::hidden();
        pb.set_length(1_000_000);
        pb.enable_steady_tick(std::time::Duration::from_millis(tick_ms));
        // something that holds the bar for a while in real time, then forget the history
        if suspend_first { pb.suspend(|| std::thread::sleep(std::time::Duration::from_millis(30))); pb.reset_eta(); }
        let steps = 60;
        for _ in 0..steps { vh::advance_ns(step_ms * 1_000_000); pb.inc(per_step); std::thread::sleep(std::time::Duration::from_millis(3)); }
        std::thread::sleep(std::time::Duration::from_millis(10));
        let rate = pb.per_sec();
        let truth = per_step as f64 * 1000.0 / step_ms as f64;
        pb.disable_steady_tick();
        if std::env::var("VERIF_TRACE").is_ok() { eprintln!("rate {rate} truth {truth}"); }
        let verdict = if !(rate.is_finite()) || rate < truth * 0.9 || rate > truth * 1.1 { format!("FAIL ticker-rate steady progress of {truth}/s (virtual time) reported as {rate}/s with a steady tick every {tick_ms} ms") } else { "ok".into() };
        out.emit(&format!("NOMODEL TICKERRATE step_ms={step_ms} per_step={per_step} tick_ms={tick_ms} suspend_first={suspend_first}"), &format!(" ORACLE {verdict}"));
        pb.abandon();
    }
}
