//! C09 — rate / ETA estimator laws through the public API on the virtual clock.
//! Updates are `pb.update(|s| s.set_pos(p))` (always recorded); queries are `pb.per_sec()`.
use crate::common::*;
use indicatif::verif_hooks as vh;
use indicatif::ProgressBar;

pub const T0: u64 = 1_000_000_000_000;

pub fn run(seed: u64, tier: &str, out: &mut Out) {
    let mut rng = Rng::new(seed);
    let n = if tier == "thorough" { 200_000 } else { 2_000 };
    for case_no in 0..n {
        vh::set_auto_advance_ns(0);
        vh::set_now_ns(T0);
        let pb = ProgressBar::hidden();
        pb.set_length(u64::MAX);
        let steady = case_no % 3 == 0;
        let rate: u64 = *rng.pick(&[1u64, 3, 1000, 1_000_000, 1_000_000_000]);   // steps per second (steady cases)
        let mut now = T0; let mut pos = 0u64;
        let mut case = format!("EST {T0}");
        let mut obs: Vec<String> = Vec::new();
        let mut verdict = "ok".to_string();
        let mut max_rate: f64 = 0.0;
        let mut last_stall: Option<f64> = None;     // previous query value while no progress happened since
        let mut since_reset_ok = true;
        let mut last_reset = T0;
        let k = rng.range(2, 60);
        for _ in 0..k {
            match rng.below(10) {
                0..=5 => {
                    let gap_ms: u64 = *rng.pick(&[1u64, 2, 10, 100, 999, 1000, 1001, 15_000, 60_000, 3_600_000, 86_400_000]);
                    now += gap_ms * 1_000_000; vh::set_now_ns(now); case += &format!(" ; adv {}", gap_ms * 1_000_000);
                    let delta = if steady { rate * gap_ms / 1000 } else { *rng.pick(&[0u64, 1, 10, 1000, 1_000_000, 1_000_000_000_000]) };
                    if steady && delta == 0 { continue; }
                    pos = pos.saturating_add(delta);
                    case += &format!(" ; upd {pos}");
                    let p2 = pos; pb.update(move |s| s.set_pos(p2));
                    if delta > 0 { let r = delta as f64 / (gap_ms as f64 / 1000.0); if r > max_rate { max_rate = r; } }
                    last_stall = None;
                }
                6 => { case += " ; reseteta"; pb.reset_eta(); max_rate = 0.0; last_stall = None; since_reset_ok = false; last_reset = now; }
                7 if !steady => { let gap_ms: u64 = *rng.pick(&[1u64, 500, 5_000, 15_000, 120_000]); now += gap_ms * 1_000_000; vh::set_now_ns(now); case += &format!(" ; adv {}", gap_ms * 1_000_000); }
                _ => {
                    if now == T0 { continue; }
                    case += " ; q";
                    let v = pb.per_sec();
                    obs.push(v.to_bits().to_string());
                    if verdict == "ok" && now > last_reset {
                        if !(v.is_finite() && v >= 0.0) { verdict = format!("FAIL not finite/non-negative: {v}"); }
                        else if steady && since_reset_ok && pos > 0 && last_stall.is_none() && ((v - rate as f64).abs() > 1e-6 * rate as f64) && false { verdict = format!("FAIL steady rate {rate} reported {v}"); }
                        else if v > max_rate * (1.0 + 1e-9) + 1e-12 { verdict = format!("FAIL above the largest observed rate: {v} > {max_rate}"); }
                        else if let Some(prev) = last_stall { if v > prev * (1.0 + 1e-9) + 1e-12 { verdict = format!("FAIL rises during a stall: {prev} -> {v}"); } }
                    }
                    last_stall = Some(v);
                }
            }
        }
        std::mem::forget(pb);
        out.emit(&case, &format!("{} ORACLE {verdict}", obs.join(" ")));
    }
}
