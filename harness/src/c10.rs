//! C10 — template parsing: totality on arbitrary strings, fidelity on grammar-generated templates.
use crate::common::*;
use indicatif::{ProgressBar, ProgressDrawTarget, ProgressState, ProgressStyle};
use std::fmt::Write as _;
use std::panic::catch_unwind;

fn fxs() -> String { format!("FX={}", crate::common::fx("tpl")) }

fn classify(s: &str) -> String {
    let s2 = s.to_string();
    match catch_unwind(move || ProgressStyle::with_template(&s2).map(|_| ())) {
        Err(_) => "panic".into(),
        Ok(Ok(())) => "ok".into(),
        Ok(Err(e)) => {
            let msg = e.to_string();
            let st = msg.rsplit(' ').next().unwrap().to_string();
            let start = msg.find("character ").unwrap() + "character ".len();
            let end = msg.rfind(" in state").unwrap();
            let lit = &msg[start..end];
            let ch = match lit {
                "'\\n'" => '\n', "'\\t'" => '\t', "'\\r'" => '\r', "'\\''" => '\'', "'\\\\'" => '\\', "'\\0'" => '\0',
                _ if lit.starts_with("'\\u{") => char::from_u32(u32::from_str_radix(&lit[4..lit.len() - 2], 16).unwrap()).unwrap(),
                _ => lit.chars().nth(1).unwrap(),
            };
            format!("err {st} {}", ch as u32)
        }
    }
}
fn cps(s: &str) -> String { if s.is_empty() { "-".into() } else { s.chars().map(|c| (c as u32).to_string()).collect::<Vec<_>>().join(",") } }

/// grammar-directed template with the rendering the documentation promises
fn gen_template(rng: &mut Rng) -> (String, Vec<String>) {
    // state used for rendering: msg "MSG", prefix "PR", pos 3, len 10, custom key foo -> "FOO"
    let mut tpl = String::new();
    let mut lines: Vec<String> = vec![String::new()];
    let n = rng.range(1, 8);
    for _ in 0..n {
        match rng.below(10) {
            0 | 1 | 2 => { // literal run (no braces / newlines)
                let len = rng.range(1, 6);
                let s: String = (0..len).map(|_| *rng.pick(&['a', 'b', ' ', ':', '!', '.', '/', '<', '7', '"', ','])).collect();
                tpl.push_str(&s); lines.last_mut().unwrap().push_str(&s);
            }
            3 => { tpl.push_str("{{"); lines.last_mut().unwrap().push('{'); }
            4 => { tpl.push_str("}}"); lines.last_mut().unwrap().push('}'); }
            // an opening brace followed by whitespace is literal text (also when the whitespace is a line break, and
            // also after the first characters of what looked like a key)
            5 => { let ws = *rng.pick(&[' ', '\t', '\n', '\n']); let pre = *rng.pick(&["", "", "ab"]);
                   tpl.push('{'); tpl.push_str(pre); tpl.push(ws); lines.last_mut().unwrap().push('{'); lines.last_mut().unwrap().push_str(pre);
                   match ws { '\n' => lines.push(String::new()), '\t' => lines.last_mut().unwrap().push_str("        "), _ => lines.last_mut().unwrap().push(' ') } }
            6 => { tpl.push('\n'); lines.push(String::new()); }
            _ => { // placeholder
                let (key, val) = *rng.pick(&[("msg", "MSG"), ("prefix", "PR"), ("pos", "3"), ("len", "10"), ("foo", "FOO"), ("nosuchkey", "")]);
                let mut ph = format!("{{{key}");
                let mut out = val.to_string();
                if rng.chance(1, 2) {
                    ph.push(':');
                    let align = match rng.below(4) { 0 => Some('<'), 1 => Some('^'), 2 => Some('>'), _ => None };
                    if let Some(a) = align { ph.push(a); }
                    let width: Option<u64> = if rng.chance(2, 3) { Some(*rng.pick(&[0u64, 1, 2, 5, 12, 65535])) } else { None };
                    if let Some(w) = width { ph.push_str(&w.to_string()); }
                    let trunc = rng.chance(1, 3);
                    if trunc { ph.push('!'); }
                    if rng.chance(1, 3) { ph.push_str(".red"); if rng.chance(1, 2) { ph.push_str("/blue"); } }
                    if let Some(w) = width {
                        let w = w as usize; let n = out.len();
                        out = if n <= w { let d = w - n; let (l, r) = match align { Some('>') => (d, 0), Some('^') => (d / 2, d - d / 2), _ => (0, d) }; format!("{}{}{}", " ".repeat(l), out, " ".repeat(r)) }
                              else if !trunc { out } else { let e = n - w; match align { Some('>') => out[e..].to_string(), Some('^') => out[e / 2..e / 2 + w].to_string(), _ => out[..w].to_string() } };
                    }
                }
                ph.push('}');
                tpl.push_str(&ph); lines.last_mut().unwrap().push_str(&out);
            }
        }
    }
    // format_state drops an empty last line
    if lines.last().map_or(false, |l| l.is_empty()) { lines.pop(); }
    (tpl, lines)
}

pub fn run(seed: u64, tier: &str, out: &mut Out) {
    console::set_colors_enabled(false);
    let fx = fxs();
    // (a) all strings over the brace alphabet up to length L
    let alpha: Vec<char> = vec!['{', '}', ':', '!', '.', '/', '<', '7', ' ', 'a', '\n'];
    let maxlen = if tier == "thorough" { 6 } else { 4 };
    for len in 0..=maxlen {
        let total = alpha.len().pow(len as u32);
        for mut n in 0..total {
            let mut s = String::new();
            for _ in 0..len { s.push(alpha[n % alpha.len()]); n /= alpha.len(); }
            out.emit(&format!("TPL {fx} {}", cps(&s)), &format!("{} ORACLE ok", classify(&s)));
        }
    }
    // (b) widths around u16::MAX, long digit strings
    for w in ["0", "1", "65535", "65536", "70000", "99999999999999999999", "000000000000000000001"] {
        for t in [format!("{{bar:{w}}}"), format!("{{msg:>{w}!}}"), format!("x{{pos:{w}.red}}y")] {
            let c = classify(&t);
            let v = if c == "panic" { "FAIL panic in with_template".to_string() } else { "ok".into() };
            out.emit(&format!("TPL {fx} {}", cps(&t)), &format!("{c} ORACLE {v}"));
        }
    }
    // (c) arbitrary unicode strings
    let mut rng = Rng::new(seed);
    let nrand = if tier == "thorough" { 300_000 } else { 5_000 };
    let pool: Vec<char> = "{}:!./<^>0123456789 \t\nabµ日\u{301}\u{200b}é\"".chars().collect();
    for _ in 0..nrand {
        let len = rng.below(40);
        let s: String = (0..len).map(|_| *rng.pick(&pool)).collect();
        let c = classify(&s);
        let v = if c == "panic" { format!("FAIL panic in with_template {:?}", s) } else { "ok".into() };
        out.emit(&format!("TPL {fx} {}", cps(&s)), &format!("{c} ORACLE {v}"));
    }
    // (d) fidelity on grammar-generated templates
    let nfid = if tier == "thorough" { 200_000 } else { 5_000 };
    for _ in 0..nfid {
        let (tpl, expected) = gen_template(&mut rng);
        let c = classify(&tpl);
        let mut verdict = "ok".to_string();
        if c != "ok" { verdict = format!("FAIL well-formed template rejected: {c}"); } else {
            let rec = Recorder::new(50, 200, true);
            let pb = ProgressBar::with_draw_target(Some(10), ProgressDrawTarget::term_like(Box::new(rec.clone())));
            pb.set_position(3);
            let style = ProgressStyle::with_template(&tpl).unwrap().with_key("foo", |_: &ProgressState, w: &mut dyn std::fmt::Write| { write!(w, "FOO").unwrap() });
            pb.set_style(style);
            pb.set_prefix("PR"); pb.set_message("MSG");
            pb.tick();
            let got = rec.rows();
            let mut exp: Vec<String> = expected.iter().map(|l| l.trim_end().to_string()).collect();
            while exp.last().map_or(false, |r| r.is_empty()) { exp.pop(); }
            if expected.iter().all(|l| l.len() < 200) && got != exp { verdict = format!("FAIL fidelity tpl={tpl:?} got={got:?} exp={exp:?}"); }
            drop(pb); // the rows were read above; a forgotten bar would leak its 50x200 recorder (65 GB over a thorough run)
        }
        out.emit(&format!("TPL {fx} {}", cps(&tpl)), &format!("{c} ORACLE {}", verdict.replace('\n', "\\n")));
    }
}

/// C10R — the walk of `format_state` over the parsed template: the lines handed to the draw target for generated
/// templates (literals of one-, two- and three-byte characters, tabs, escapes, `{`+whitespace, line breaks, the keys
/// msg / prefix / pos / len / bar / wide_msg / wide_bar, a custom key, unknown keys, all field attributes) and generated
/// messages (line breaks, tabs, trailing blanks, double-width characters) are compared with the Lean model `Render.formatState`
/// applied to the model's own parse of the same template.
pub fn run_render(seed: u64, tier: &str, out: &mut Out) {
    console::set_colors_enabled(false);
    let mut rng = Rng::new(seed ^ 0x10e);
    let n = if tier == "thorough" { 150_000 } else { 4_000 };
    let lit_pool: Vec<char> = "ab :!./<7\",é日x".chars().collect();
    let txt_pool: Vec<char> = "abcdef  é日本\u{a0}".chars().collect();
    let cp = |s: &str| cps(s);
    for _ in 0..n {
        let width = *rng.pick(&[1u16, 2, 5, 10, 17, 20, 40, 80]);   // the properties quantify over terminals from 1x1 upwards
        let gen_text = |rng: &mut Rng, max: u64| -> String {
            let mut s: String = (0..rng.below(max)).map(|_| *rng.pick(&txt_pool)).collect();
            if rng.chance(1, 6) { let at = rng.below(s.chars().count() as u64 + 1) as usize; let b = s.char_indices().nth(at).map_or(s.len(), |(i, _)| i); s.insert(b, *rng.pick(&['\n', '\t'])); }
            if rng.chance(1, 5) { s.push_str(*rng.pick(&[" ", "  ", "\u{3000}", "\n"])); }
            s
        };
        let msg = gen_text(&mut rng, 30);
        let prefix = gen_text(&mut rng, 6);
        let foo = if rng.chance(1, 4) { "F\tO".to_string() } else { "FOO".to_string() };
        let mut tpl = String::new();
        let mut has_bar = false;
        // independent expectation, line by line: `Some(text)` for a template line made of literal text and plain placeholders of
        // simple keys (no field attributes, no wide element), `None` for a line this oracle does not judge
        let mut exp: Vec<Option<String>> = vec![Some(String::new())];
        let mut last_group_start = 0usize;   // index in `exp` of the first line of the last group (a group = the text between two NewLine parts)
        let simple_vals = msg.contains('\n') || prefix.contains('\n');   // a value with a line break moves the line numbering: judge nothing
        let put = |exp: &mut Vec<Option<String>>, s: &str| { if let Some(Some(l)) = exp.last_mut() { l.push_str(s); } };
        for _ in 0..rng.range(1, 8) {
            match rng.below(12) {
                0 | 1 | 2 => { let len = rng.range(1, 6); let s: String = (0..len).map(|_| *rng.pick(&lit_pool)).collect(); tpl.push_str(&s); put(&mut exp, &s); }
                3 => { tpl.push_str("{{"); put(&mut exp, "{"); }
                4 => { tpl.push_str("}}"); put(&mut exp, "}"); }
                5 => { let pre = *rng.pick(&["", "", "ab"]); let ws = *rng.pick(&[' ', '\t', '\n']); tpl.push('{'); tpl.push_str(pre); tpl.push(ws);
                       put(&mut exp, "{"); put(&mut exp, pre); match ws { '\n' => exp.push(Some(String::new())), '\t' => put(&mut exp, "\t"), _ => put(&mut exp, " ") } }
                6 => { tpl.push('\n'); exp.push(Some(String::new())); last_group_start = exp.len() - 1; }
                7 => { tpl.push('\t'); put(&mut exp, "\t"); }
                _ => {
                    let key = *rng.pick(&["msg", "prefix", "pos", "len", "foo", "nosuchkey", "wide_msg", "wide_msg", "wide_bar", "bar"]);
                    if key.ends_with("bar") { has_bar = true; }
                    let mut ph = format!("{{{key}");
                    if rng.chance(1, 2) {
                        ph.push(':');
                        if let Some(a) = *rng.pick(&[Some('<'), Some('^'), Some('>'), None]) { ph.push(a); }
                        if rng.chance(2, 3) { ph.push_str(&rng.pick(&[0u64, 1, 2, 3, 5, 12, 25]).to_string()); }
                        if rng.chance(1, 3) { ph.push('!'); }
                        if rng.chance(1, 4) { ph.push_str(".red"); if rng.chance(1, 2) { ph.push_str("/blue"); } }
                    }
                    ph.push('}');
                    tpl.push_str(&ph);
                    let val: Option<&str> = if ph.contains(':') { None } else { match key { "msg" => Some(msg.as_str()), "prefix" => Some(prefix.as_str()), "foo" => Some(foo.as_str()), "nosuchkey" => Some(""), _ => None } };
                    match val { Some(v) => put(&mut exp, v), None => { if key == "pos" { put(&mut exp, "\u{1}"); } else if key == "len" { put(&mut exp, "\u{2}"); } else { *exp.last_mut().unwrap() = None; } } }
                    if ph.contains(':') { *exp.last_mut().unwrap() = None; }
                }
            }
        }
        let style = match catch_unwind({ let t = tpl.clone(); move || ProgressStyle::with_template(&t) }) { Ok(Ok(s)) => s, _ => continue };
        let len = rng.range(0, 2000);
        let pos = if has_bar { len } else { rng.range(0, 2500) };
        let tab = if rng.chance(1, 4) { Some(*rng.pick(&[1usize, 2, 4])) } else { None };
        let rec = Recorder::new(60000, width, false);
        let (rec2, msg2, prefix2, foo2) = (rec.clone(), msg.clone(), prefix.clone(), foo.clone());
        let res = catch_unwind(std::panic::AssertUnwindSafe(move || {
            let pb = ProgressBar::with_draw_target(Some(len), ProgressDrawTarget::term_like(Box::new(rec2.clone())));
            pb.set_position(pos);
            pb.set_style(style.progress_chars("##-").with_key("foo", move |_: &ProgressState, w: &mut dyn std::fmt::Write| { write!(w, "{foo2}").unwrap() }));
            if let Some(t) = tab { pb.set_tab_width(t); }
            pb.set_prefix(prefix2); pb.set_message(msg2);
            { rec2.st.lock().unwrap().ops.clear(); }
            pb.force_draw();
            let ops = rec2.st.lock().unwrap().ops.clone();
            std::mem::forget(pb);
            ops
        }));
        let case = format!("RENDER {width} {} tpl={} msg={} prefix={} pos={pos} len={len} foo={} fill=35 cw=233:1,26085:2,26412:2,160:1,12288:2",
            tab.unwrap_or(8), cp(&tpl), cp(&msg), cp(&prefix), cp(&foo));
        match res {
            Err(_) => out.emit(&case, &format!("panic ORACLE FAIL panic while rendering tpl={tpl:?} msg={msg:?} width={width}")),
            Ok(ops) => {
                // one frame on a fresh target: per line [write_line("")] write_str(line) [write_str(" ")], then the filler
                let mut groups: Vec<Vec<String>> = vec![vec![]];
                for o in &ops { match o { Op::Line(_) => groups.push(vec![]), Op::Str(s) => groups.last_mut().unwrap().push(s.clone()), _ => {} } }
                let lines: Vec<String> = if groups.len() == 1 && groups[0].is_empty() { vec![] } else { groups.iter().map(|g| g.first().cloned().unwrap_or_default()).collect() };
                let shown = lines.iter().map(|l| if l.is_empty() { "-".to_string() } else { l.chars().map(|c| (c as u32).to_string()).collect::<Vec<_>>().join(".") }).collect::<Vec<_>>().join("|");
                // oracle (independent of the model): no TAB and no NUL marker reaches the target; a line holding a wide element
                // alone with fixed text is never wider than the terminal unless the fixed text alone is
                let bad = lines.iter().any(|l| l.contains('\t') || l.contains('\0') || l.contains('\n'));
                let mut verdict = if bad { format!("FAIL a TAB, NUL or line break reached the draw target: tpl={tpl:?} msg={msg:?} lines={lines:?}") } else { "ok".to_string() };
                // the lines this oracle knows: literal text and plain placeholders in order (`\u{1}` / `\u{2}` stand for `{pos}` / `{len}`)
                if verdict == "ok" && !simple_vals {
                    let tabw = tab.unwrap_or(8);
                    let mut want: Vec<Option<String>> = exp.iter().map(|l| l.as_ref().map(|s| s.replace('\t', &" ".repeat(tabw)))).collect();
                    // `format_state` drops the text after the last NewLine part only if it is empty as a whole
                    if last_group_start + 1 == want.len() && want.last().map_or(false, |l| l.as_deref() == Some("")) { want.pop(); }
                    if want.iter().all(|l| l.is_some()) || want.len() == lines.len() {
                        if want.len() != lines.len() { verdict = format!("FAIL line-count the template {tpl:?} has {} lines, {} were rendered: {lines:?}", want.len(), lines.len()); }
                        else { for (k, (w, g)) in want.iter().zip(lines.iter()).enumerate() { if let Some(w) = w {
                            let w = w.replace('\u{1}', &pos.to_string()).replace('\u{2}', &len.to_string());
                            if &w != g && verdict == "ok" { verdict = format!("FAIL line {k} of template {tpl:?} is {g:?}; its literal text and plain placeholders in order give {w:?}"); }
                        } } }
                    }
                }
                out.emit(&case, &format!("n={} {shown} ORACLE {}", lines.len(), verdict.replace('\n', "\\n")));
            }
        }
    }
}
