//! C11: every documented placeholder shows the value of the bar at the moment of the draw.
//! One key per case, rendered after a random history on the virtual clock (which stands still
//! during the draw and the getter calls, so "the same instant" is exact).
use crate::common::{Op, Out, Recorder, Rng};
use indicatif::verif_hooks as vh;
use indicatif::{BinaryBytes, DecimalBytes, FormattedDuration, HumanBytes, HumanCount, HumanDuration, HumanFloatCount, ProgressBar, ProgressDrawTarget, ProgressStyle};

const KEYS: [&str; 28] = ["pos", "human_pos", "len", "human_len", "percent", "percent_precise", "bytes", "total_bytes", "decimal_bytes", "decimal_total_bytes",
    "binary_bytes", "binary_total_bytes", "elapsed_precise", "elapsed", "per_sec", "bytes_per_sec", "decimal_bytes_per_sec", "binary_bytes_per_sec",
    "eta_precise", "eta", "duration_precise", "duration", "msg", "prefix", "spinner", "wide_msg", "per_sec:3", "custom"];
const TICKS: [&str; 5] = ["a", "b", "c", "d", "Z"];

fn last_line(rec: &Recorder) -> String {
    let st = rec.st.lock().unwrap();
    st.ops.iter().rev().find_map(|o| match o { Op::Str(s) | Op::Line(s) if !s.trim_matches(' ').is_empty() => Some(s.clone()), _ => None }).unwrap_or_default()
}

pub fn run(seed: u64, tier: &str, out: &mut Out) {
    let mut rng = Rng::new(seed);
    let n = if tier == "thorough" { 200_000 } else { 6_000 };
    let t0 = 1_000_000_000_000u64;
    for case_no in 0..n {
        // a panic anywhere in a case (a draw during the history, the final draw, a getter) is a failure of that case
        let r = std::panic::catch_unwind(std::panic::AssertUnwindSafe(|| {
        vh::set_auto_advance_ns(0); vh::set_now_ns(t0);
        let key = *rng.pick(&KEYS);
        let len: Option<u64> = match rng.below(8) { 0 => None, 1 => Some(0), 2 => Some(u64::MAX), 3 => Some(1), _ => Some(rng.range(1, 5000)) };
        let start_pos = match rng.below(8) { 0 => 0, 1 => u64::MAX, 2 => len.unwrap_or(7), 3 => len.unwrap_or(7).saturating_add(3), _ => rng.below(len.unwrap_or(100).saturating_add(1).max(1)) };
        let rec = Recorder::new(4, 200, false);
        let pb = ProgressBar::with_draw_target(len, ProgressDrawTarget::term_like(Box::new(rec.clone()))).with_position(start_pos);
        let counter = std::sync::Arc::new(std::sync::atomic::AtomicU64::new(0));
        let c2 = counter.clone();
        // a third of the cases put the key on the second line of a template whose first line ends in a wide element
        // (every key is rendered from scratch, whatever the line before it left behind)
        let second_line = key != "wide_msg" && rng.chance(1, 3);
        let ph = if key == "custom" { "{custom}".to_string() } else { format!("{{{key}}}") };
        let tpl = if second_line { format!("x {{wide_msg}}\n{ph}") } else { ph };
        let style = ProgressStyle::with_template(&tpl).unwrap().tick_strings(&TICKS)
            .with_key("custom", move |s: &indicatif::ProgressState, w: &mut dyn std::fmt::Write| { c2.fetch_add(1, std::sync::atomic::Ordering::SeqCst); write!(w, "<{}|{:?}|{}>", s.pos(), s.len(), s.is_finished()).unwrap(); });
        pb.set_style(style);
        // history: only operations that tick unconditionally, so that the tick count is known
        let mut ticks: Option<u64> = Some(0); let mut now = t0; let mut hist = Vec::new();
        for _ in 0..rng.below(8) {
            match rng.below(5) {
                0 => { pb.tick(); ticks = ticks.map(|t| t + 1); hist.push("tick".to_string()); }
                1 => { let m: String = (0..rng.below(6)).map(|_| (b'a' + rng.below(26) as u8) as char).collect(); pb.set_message(m.clone()); hist.push(format!("msg:{m}")); }
                2 => { let m: String = (0..rng.below(6)).map(|_| (b'A' + rng.below(26) as u8) as char).collect(); pb.set_prefix(m.clone()); hist.push(format!("prefix:{m}")); }
                3 => { let d = *rng.pick(&[1u64, 999_999, 1_000_000, 50_000_000, 1_000_000_000, 60_000_000_000, 3_600_000_000_000]); now += d; vh::set_now_ns(now); hist.push(format!("adv:{d}")); }
                _ => { let d = rng.below(50); pb.inc(d); hist.push(format!("inc:{d}")); ticks = None; }  // gated: tick count unknown afterwards
            }
        }
        let finished = rng.chance(1, 4);
        // let the refresh limiter recover, so that the last draw is not skipped
        now += 1_000_000_000; vh::set_now_ns(now);
        // (a draw or a getter that panics is reported as a failure of this case, not of the harness)
        let verdict = { let pbc = pb.clone(); let r = std::panic::catch_unwind(std::panic::AssertUnwindSafe(|| { let pb = &pbc;
        if finished { pb.abandon(); } else { pb.tick(); ticks = ticks.map(|t| t + 1); }
            let got = last_line(&rec);
            let (pos, lenv) = (pb.position(), pb.length().unwrap_or(pb.position()));
            let fraction = { let f: f32 = match (pos, pb.length()) { (_, None) => 0.0, (_, Some(0)) => 1.0, (0, _) => 0.0, (p, Some(l)) => p as f32 / l as f32 }; f.clamp(0.0, 1.0) };
            let exp: Option<String> = Some(match key {
                "pos" => format!("{pos}"), "human_pos" => format!("{}", HumanCount(pos)), "len" => format!("{lenv}"), "human_len" => format!("{}", HumanCount(lenv)),
                "percent" => format!("{:.0}", fraction * 100f32), "percent_precise" => format!("{:.3}", fraction * 100f32),
                "bytes" => format!("{}", HumanBytes(pos)), "total_bytes" => format!("{}", HumanBytes(lenv)), "decimal_bytes" => format!("{}", DecimalBytes(pos)), "decimal_total_bytes" => format!("{}", DecimalBytes(lenv)),
                "binary_bytes" => format!("{}", BinaryBytes(pos)), "binary_total_bytes" => format!("{}", BinaryBytes(lenv)),
                "elapsed_precise" => format!("{}", FormattedDuration(pb.elapsed())), "elapsed" => format!("{:#}", HumanDuration(pb.elapsed())),
                "per_sec" => format!("{}/s", HumanFloatCount(pb.per_sec())), "per_sec:3" => format!("{:.3}/s", HumanFloatCount(pb.per_sec())),
                "bytes_per_sec" => format!("{}/s", HumanBytes(pb.per_sec() as u64)), "decimal_bytes_per_sec" => format!("{}/s", DecimalBytes(pb.per_sec() as u64)), "binary_bytes_per_sec" => format!("{}/s", BinaryBytes(pb.per_sec() as u64)),
                "eta_precise" => format!("{}", FormattedDuration(pb.eta())), "eta" => format!("{:#}", HumanDuration(pb.eta())),
                "duration_precise" => format!("{}", FormattedDuration(pb.duration())), "duration" => format!("{:#}", HumanDuration(pb.duration())),
                "msg" | "wide_msg" => pb.message(), "prefix" => pb.prefix(),
                "spinner" => if finished { "Z".to_string() } else if let Some(t) = ticks { TICKS[(t % 4) as usize].to_string() } else { String::new() },
                _ => format!("<{}|{:?}|{}>", pos, pb.length(), finished),
            });
            let mut verdict = String::from("ok");
            let skip = key == "spinner" && !finished && ticks.is_none();
            if let Some(e) = exp { if !skip && !e.trim_end_matches(' ').is_empty() && got.trim_end_matches(' ') != e.trim_end_matches(' ') { verdict = format!("FAIL key={key} drawn={got:?} expected={e:?}"); } }
            verdict }));
            r.unwrap_or_else(|_| format!("FAIL panic while drawing {{{key}}} or reading its getter after hist={}", hist.join(","))) };
        let mut verdict = verdict;
        if key == "custom" && counter.load(std::sync::atomic::Ordering::SeqCst) == 0 { verdict = "FAIL custom-key-never-called".into(); }
        out.emit(&format!("KEY {key} len={len:?} start={start_pos} finished={finished} hist={}", hist.join(",")), &format!("ORACLE {verdict}"));
    }));
        if r.is_err() { out.emit(&format!("NOMODEL PANIC C11 case {case_no}"), &format!(" ORACLE FAIL panic while drawing or reading getters in C11 case {case_no} (same seed and tier reproduce it)")); }
    }
}

/// C11 (trackers): a stateful custom key records every `tick` / `reset` / `write` it receives together with the
/// state it is handed. Oracle: it is ticked exactly by the operations that update the bar (once, with the
/// position the bar has afterwards), reset exactly by `reset()` and with the *reset* state (position 0, not
/// finished, zero elapsed time), and always writes from the current state.
#[derive(Clone)]
struct Spy(std::sync::Arc<std::sync::Mutex<Vec<String>>>);
impl indicatif::style::ProgressTracker for Spy {
    fn clone_box(&self) -> Box<dyn indicatif::style::ProgressTracker> { Box::new(self.clone()) }
    fn tick(&mut self, s: &indicatif::ProgressState, _: vh::Instant) { self.0.lock().unwrap().push(format!("tick {} {}", s.pos(), s.is_finished())); }
    fn reset(&mut self, s: &indicatif::ProgressState, _: vh::Instant) { self.0.lock().unwrap().push(format!("reset {} {} {}", s.pos(), s.is_finished(), s.elapsed().as_nanos())); }
    fn write(&self, s: &indicatif::ProgressState, w: &mut dyn std::fmt::Write) { self.0.lock().unwrap().push(format!("write {} {}", s.pos(), s.is_finished())); let _ = write!(w, "k"); }
}

pub fn run_trackers(seed: u64, tier: &str, out: &mut Out) {
    let mut rng = Rng::new(seed ^ 0x11);
    let n = if tier == "thorough" { 100_000 } else { 3_000 };
    let t0 = 1_000_000_000_000u64;
    for _ in 0..n {
        vh::set_auto_advance_ns(0); vh::set_now_ns(t0);
        let rec = Recorder::new(4, 80, false);
        let visible = rng.chance(2, 3);
        let pb = ProgressBar::with_draw_target(Some(rng.range(1, 50)), if visible { ProgressDrawTarget::term_like(Box::new(rec.clone())) } else { ProgressDrawTarget::hidden() });
        let log = std::sync::Arc::new(std::sync::Mutex::new(Vec::new()));
        // a third of the bars do not show the key (yet): a tracker is ticked and reset together with the bar whether or not the
        // template mentions it, and shows up-to-date values when a later template does (`restyle` below)
        let shown = !rng.chance(1, 3);
        pb.set_style(ProgressStyle::with_template(if shown { "{pos} {k}" } else { "{pos}" }).unwrap().with_key("k", Spy(log.clone())));
        log.lock().unwrap().clear();
        let mut now = t0; let mut hist: Vec<String> = Vec::new(); let mut verdict = String::from("ok");
        for _ in 0..rng.range(1, 14) {
            let op = rng.below(14);
            let name = match op {
                0 => { pb.tick(); "tick" } 1 => { pb.set_message("m"); "set_message" } 2 => { pb.set_prefix("p"); "set_prefix" }
                3 => { pb.set_length(rng.range(1, 60)); "set_length" } 4 => { pb.inc_length(1); "inc_length" } 5 => { pb.unset_length(); "unset_length" }
                6 => { pb.inc(rng.below(4)); "inc" } 7 => { pb.set_position(rng.below(40)); "set_position" }
                8 => { pb.reset(); "reset" } 9 => { if rng.chance(1, 2) { pb.reset_eta() } else { pb.reset_elapsed() }; "reset_eta_or_elapsed" }
                10 => { match rng.below(3) { 0 => pb.finish(), 1 => pb.abandon(), _ => pb.finish_with_message("done") }; "finish" }
                11 => { let d = *rng.pick(&[1u64, 1_000_000, 50_000_000, 2_000_000_000]); now += d; vh::set_now_ns(now); "adv" }
                12 => { pb.update(|s| s.set_pos(3)); "update" }
                _ => { pb.set_style(pb.style().template("{k} {pos}").unwrap()); "restyle" }
            };
            hist.push(name.to_string());
            let evs: Vec<String> = std::mem::take(&mut *log.lock().unwrap());
            let ticks: Vec<&String> = evs.iter().filter(|e| e.starts_with("tick")).collect();
            let resets: Vec<&String> = evs.iter().filter(|e| e.starts_with("reset")).collect();
            let (pos, fin) = (pb.position(), pb.is_finished());
            if verdict != "ok" { continue; }
            let want_ticks: Option<usize> = match name { "tick" | "set_message" | "set_prefix" | "set_length" | "inc_length" | "unset_length" | "update" => Some(1), "inc" | "set_position" => None, _ => Some(0) };
            if let Some(w) = want_ticks { if ticks.len() != w { verdict = format!("FAIL tracker-ticks {name}: {} tick calls, expected {w} (history {})", ticks.len(), hist.join(",")); } } else if ticks.len() > 1 { verdict = format!("FAIL tracker-ticks {name}: {} tick calls", ticks.len()); }
            if verdict == "ok" { for t in &ticks { if **t != format!("tick {pos} {fin}") { verdict = format!("FAIL tracker-tick-state {name}: got {t:?}, bar has pos={pos} finished={fin}"); } } }
            if verdict == "ok" { let want = if name == "reset" { 1 } else { 0 }; if resets.len() != want { verdict = format!("FAIL tracker-resets {name}: {} reset calls, expected {want}", resets.len()); } }
            if verdict == "ok" { for r in &resets { if **r != "reset 0 false 0" { verdict = format!("FAIL tracker-reset-state reset() handed the tracker {r:?} (position, finished, elapsed ns); the bar after reset has 0 false 0 (history {})", hist.join(",")); } } }
            if verdict == "ok" { for e in evs.iter().filter(|e| e.starts_with("write")) { if *e != format!("write {pos} {fin}") { verdict = format!("FAIL tracker-write-state {name}: got {e:?}, bar has pos={pos} finished={fin}"); } } }
        }
        std::mem::forget(pb);
        out.emit(&format!("NOMODEL TRACKERS visible={visible} shown={shown} {}", hist.join(",")), &format!(" ORACLE {verdict}"));
    }
}

/// C11R — whole frames from the getter values: templates of one to three lines holding several documented keys (field
/// attributes, `bar`, `wide_bar`, `wide_msg` included) are rendered after a random history; the lines handed to the draw
/// target are compared with the Lean model (`KeyValue.envOf` over the *documented* arm table + `Render.formatState`) fed
/// the values the public getters return at the same virtual instant.
pub fn run_render(seed: u64, tier: &str, out: &mut Out) {
    console::set_colors_enabled(false);
    let mut rng = Rng::new(seed ^ 0x11e);
    let n = if tier == "thorough" { 150_000 } else { 4_000 };
    let t0 = 1_000_000_000_000u64;
    let keys: [&str; 27] = ["pos", "human_pos", "len", "human_len", "percent", "percent_precise", "bytes", "total_bytes", "decimal_bytes", "decimal_total_bytes",
        "binary_bytes", "binary_total_bytes", "elapsed_precise", "elapsed", "per_sec", "bytes_per_sec", "decimal_bytes_per_sec", "binary_bytes_per_sec",
        "eta_precise", "eta", "duration_precise", "duration", "msg", "prefix", "spinner", "bar", "nosuchkey"];
    let cps = |s: &str| if s.is_empty() { "-".to_string() } else { s.chars().map(|c| (c as u32).to_string()).collect::<Vec<_>>().join(",") };
    for case_no in 0..n {
        // a panic anywhere in a case (a draw during the history, the final draw, a getter) is a failure of that case
        let desc = std::cell::RefCell::new(String::new());
        let r = std::panic::catch_unwind(std::panic::AssertUnwindSafe(|| {
        vh::set_auto_advance_ns(0); vh::set_now_ns(t0);
        let width = *rng.pick(&[30u16, 60, 100, 200]);
        let len: Option<u64> = match rng.below(8) { 0 => None, 1 => Some(0), 2 => Some(u64::MAX), 3 => Some(1), _ => Some(rng.range(1, 5000)) };
        let start_pos = match rng.below(8) { 0 => 0, 1 => u64::MAX, 2 => len.unwrap_or(7), 3 => len.unwrap_or(7).saturating_add(3), _ => rng.below(len.unwrap_or(100).saturating_add(1).max(1)) };
        // template
        let mut tpl = String::new(); let mut has_spinner = false;
        let nlines = rng.range(1, 3);
        for li in 0..nlines {
            if li > 0 { tpl.push('\n'); }
            let mut wide_used = false;
            for ki in 0..rng.range(1, 4) {
                if ki > 0 { tpl.push_str(*rng.pick(&[" ", " | ", "/", ""])); }
                if !wide_used && rng.chance(1, 6) { wide_used = true; tpl.push_str(*rng.pick(&["{wide_bar}", "{wide_msg}", "{wide_msg:>}", "{wide_bar:.green/red}"])); continue; }
                let key = *rng.pick(&keys);
                if key == "spinner" { has_spinner = true; }
                // (`per_sec` reads its width field as the number of decimals: large ones too)
                let attr = match rng.below(6) { 0 if key == "per_sec" && rng.chance(1, 3) => format!(":{}", rng.pick(&[24u64, 30, 48, 60])), 0 => format!(":{}", rng.pick(&[0u64, 1, 3, 8, 15])), 1 => format!(":>{}", rng.pick(&[2u64, 6, 12])), 2 => format!(":^{}!", rng.pick(&[1u64, 4, 9])), 3 if key != "bar" => ":<".to_string(), _ => String::new() };
                tpl.push_str(&format!("{{{key}{attr}}}"));
            }
        }
        let (pchars, clusters, cwid): (&str, &str, usize) = *rng.pick(&[("#>-", "35;62;45", 1), ("=>.", "61;62;46", 1), ("█▉▊▋▌▍▎▏  ", "9608;9609;9610;9611;9612;9613;9614;9615;32;32", 1), ("＃＞－", "65283;65310;65293", 2), ("ab", "97;98", 1)]);
        let rec = Recorder::new(60000, width, false);
        let pb = ProgressBar::with_draw_target(len, ProgressDrawTarget::term_like(Box::new(rec.clone()))).with_position(start_pos);
        *desc.borrow_mut() = format!("template {tpl:?} length {len:?} start {start_pos} width {width}");
        let style = match ProgressStyle::with_template(&tpl) { Ok(s) => s, Err(_) => return };
        pb.set_style(style.tick_strings(&TICKS).progress_chars(pchars));
        let mut ticks: u64 = 0; let mut now = t0; let mut hist = Vec::new();
        for _ in 0..rng.below(8) {
            match rng.below(if has_spinner { 4 } else { 6 }) {
                0 => { pb.tick(); ticks += 1; hist.push("tick".to_string()); }
                1 => { let m: String = (0..rng.below(12)).map(|_| *rng.pick(&['a', 'b', 'c', ' ', 'é', '日'])).collect(); pb.set_message(m.clone()); hist.push(format!("msg:{m}")); }
                2 => { let m: String = (0..rng.below(6)).map(|_| (b'A' + rng.below(26) as u8) as char).collect(); pb.set_prefix(m.clone()); hist.push(format!("prefix:{m}")); }
                3 => { let d = *rng.pick(&[1u64, 999_999, 1_000_000, 50_000_000, 1_000_000_000, 60_000_000_000, 3_600_000_000_000]); now += d; vh::set_now_ns(now); hist.push(format!("adv:{d}")); }
                4 => { let d = rng.below(50); pb.inc(d); hist.push(format!("inc:{d}")); }
                _ => { let p = rng.below(6000); pb.set_position(p); hist.push(format!("set:{p}")); }
            }
        }
        let finished = rng.chance(1, 4);
        now += 1_000_000_000; vh::set_now_ns(now);
        { rec.st.lock().unwrap().ops.clear(); }
        let pb2 = pb.clone();
        let panicked = std::panic::catch_unwind(std::panic::AssertUnwindSafe(move || { if finished { pb2.abandon(); } else { pb2.tick(); } })).is_err();
        if !finished { ticks += 1; }
        let ops = rec.st.lock().unwrap().ops.clone();
        let mut groups: Vec<Vec<String>> = vec![vec![]];
        for o in &ops { match o { Op::Line(_) => groups.push(vec![]), Op::Str(s) => groups.last_mut().unwrap().push(s.clone()), _ => {} } }
        let lines: Vec<String> = if groups.len() == 1 && groups[0].is_empty() { vec![] } else { groups.iter().map(|g| g.first().cloned().unwrap_or_default()).collect() };
        let shown = lines.iter().map(|l| cps(l).replace(',', ".")).collect::<Vec<_>>().join("|");
        let tick_str = if finished { "Z" } else { TICKS[(ticks % 4) as usize] };
        // the getters read at the same instant (a getter that panics is a finding like a draw that panics)
        let pb3 = pb.clone();
        let vals = std::panic::catch_unwind(std::panic::AssertUnwindSafe(move || (pb3.elapsed().as_nanos(), pb3.eta().as_nanos(), pb3.duration().as_nanos(), pb3.per_sec().to_bits())));
        let getter_panic = vals.is_err();
        let (el, eta, dur, ps) = vals.unwrap_or((0, 0, 0, 0));
        let case = format!("RENDERK {width} 8 tpl={} pos={} len={} elapsed={el} eta={eta} duration={dur} persec={ps} msg={} prefix={} tick={} chars={clusters} cwid={cwid} cw=233:1,26085:2,65283:2,65310:2,65293:2",
            cps(&tpl), pb.position(), pb.length().map_or("none".to_string(), |l| l.to_string()), cps(&pb.message()), cps(&pb.prefix()), cps(tick_str));
        std::mem::forget(pb);
        if getter_panic { out.emit(&case, &format!("panic ORACLE FAIL panic in elapsed() / eta() / duration() / per_sec() after hist={}", hist.join(","))); }
        else if panicked { out.emit(&case, &format!("panic ORACLE FAIL panic while drawing tpl={tpl:?} hist={}", hist.join(","))); }
        else { out.emit(&case, &format!("n={} {shown} ORACLE ok", lines.len())); }
    }));
        if r.is_err() { out.emit(&format!("NOMODEL PANIC C11R case {case_no}"), &format!(" ORACLE FAIL panic while drawing or reading getters in C11R case {case_no} (same seed and tier reproduce it): {}", desc.borrow().replace('\n', "\\n"))); }
    }
}

/// C11C — one frame, one moment: while a frame is being formatted another thread moves the position (the position is an
/// atomic that `inc` changes without the bar's lock). Keys of the position / length families rendered in the same frame
/// must still agree with each other: a bar without a length shows its length keys equal to its position keys, and the
/// same key written twice shows one value. A custom key between the two placeholders lets a helper thread run `inc` at
/// exactly that point (the position gate is exhausted first, so that the helper's `inc` does not try to draw).
pub fn run_concurrent(seed: u64, tier: &str, out: &mut Out) {
    use std::sync::atomic::{AtomicBool, Ordering};
    use std::sync::Arc;
    let mut rng = Rng::new(seed ^ 0x11c);
    let n = if tier == "thorough" { 3_000 } else { 200 };
    let pairs: [(&str, &str, bool); 6] = [("pos", "len", false), ("human_pos", "human_len", false), ("bytes", "total_bytes", false),
        ("decimal_bytes", "decimal_total_bytes", false), ("binary_bytes", "binary_total_bytes", false), ("pos", "pos", true)];
    for _ in 0..n {
        vh::set_auto_advance_ns(0); vh::set_now_ns(1_000_000_000_000);
        let (a, b, any_len) = *rng.pick(&pairs);
        let len = if any_len && rng.chance(1, 2) { Some(rng.range(1, 5000)) } else { None };
        let rec = Recorder::new(4, 120, false);
        let pb = ProgressBar::with_draw_target(len, ProgressDrawTarget::term_like(Box::new(rec.clone()))).with_position(rng.below(3000));
        let (armed, go, done) = (Arc::new(AtomicBool::new(false)), Arc::new(AtomicBool::new(false)), Arc::new(AtomicBool::new(false)));
        let (armed2, go2, done2) = (armed.clone(), go.clone(), done.clone());
        pb.set_style(ProgressStyle::with_template(&format!("{{{a}}}|{{gate}}|{{{b}}}")).unwrap().with_key("gate", move |_: &indicatif::ProgressState, _w: &mut dyn std::fmt::Write| {
            if armed2.swap(false, Ordering::SeqCst) {
                go2.store(true, Ordering::SeqCst);
                let t = std::time::Instant::now();
                while !done2.load(Ordering::SeqCst) && t.elapsed() < std::time::Duration::from_secs(2) { std::thread::yield_now(); }
            }
        }));
        // exhaust the position gate at this (frozen) instant: later `inc`s only touch the atomic
        for _ in 0..14 { pb.inc(0); }
        let delta = *rng.pick(&[1u64, 1024, 999_999]);
        let (pb2, go3, done3) = (pb.clone(), go.clone(), done.clone());
        let helper = std::thread::spawn(move || { let t = std::time::Instant::now();
            while !go3.load(Ordering::SeqCst) { if t.elapsed() > std::time::Duration::from_secs(5) { return false; } std::thread::yield_now(); }
            pb2.inc(delta); done3.store(true, Ordering::SeqCst); true });
        { rec.st.lock().unwrap().ops.clear(); }
        armed.store(true, Ordering::SeqCst);
        pb.tick();
        let line = last_line(&rec);
        let ran = helper.join().unwrap_or(false);
        let parts: Vec<&str> = line.trim_end().split('|').collect();
        let verdict = if !ran { "skip helper did not run".to_string() }
            else if parts.len() != 3 { format!("FAIL frame not understood: {line:?}") }
            else if parts[0] != parts[2] { format!("FAIL frame shows two moments: {{{a}}} = {:?} but {{{b}}} = {:?} in one frame (length {len:?}; another thread added {delta} while the frame was formatted)", parts[0], parts[2]) }
            else { "ok".to_string() };
        std::mem::forget(pb);
        out.emit(&format!("NOMODEL SNAPSHOT {a} {b} len={len:?} delta={delta}"), &format!(" ORACLE {verdict}"));
    }
}
