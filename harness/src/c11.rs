//! C11: every documented placeholder shows the value of the bar at the moment of the draw.
//! One key per case, rendered after a random history on the virtual clock (which stands still
//! during the draw and the getter calls, so "the same instant" is exact).
use crate::common::{Op, Out, Recorder, Rng};
use indicatif::verif_hooks as vh;
use indicatif::{BinaryBytes, DecimalBytes, FormattedDuration, HumanBytes, HumanCount, HumanDuration, HumanFloatCount, ProgressBar, ProgressDrawTarget, ProgressStyle};

const KEYS: [&str; 28] = ["pos", "human_pos", "len", "human_len", "percent", "percent_precise", "bytes", "total_bytes", "decimal_bytes", "decimal_total_bytes",
    "binary_bytes", "binary_total_bytes", "elapsed_precise", "elapsed", "per_sec", "bytes_per_sec", "decimal_bytes_per_sec", "binary_bytes_per_sec",
    "eta_precise", "eta", "duration_precise", "duration", "msg", "prefix", "spinner", "wide_msg", "per_sec:3", "custom"];
const TICKS: [&str; 5] = ["a", "b", "c", "d", "Z"];

fn last_line(rec: &Recorder) -> String {
    let st = rec.st.lock().unwrap();
    st.ops.iter().rev().find_map(|o| match o { Op::Str(s) | Op::Line(s) if !s.trim_matches(' ').is_empty() => Some(s.clone()), _ => None }).unwrap_or_default()
}

pub fn run(seed: u64, tier: &str, out: &mut Out) {
    let mut rng = Rng::new(seed);
    let n = if tier == "thorough" { 200_000 } else { 6_000 };
    let t0 = 1_000_000_000_000u64;
    for _ in 0..n {
        vh::set_auto_advance_ns(0); vh::set_now_ns(t0);
        let key = *rng.pick(&KEYS);
        let len: Option<u64> = match rng.below(8) { 0 => None, 1 => Some(0), 2 => Some(u64::MAX), 3 => Some(1), _ => Some(rng.range(1, 5000)) };
        let start_pos = match rng.below(8) { 0 => 0, 1 => u64::MAX, 2 => len.unwrap_or(7), 3 => len.unwrap_or(7).saturating_add(3), _ => rng.below(len.unwrap_or(100).saturating_add(1).max(1)) };
        let rec = Recorder::new(4, 200, false);
        let pb = ProgressBar::with_draw_target(len, ProgressDrawTarget::term_like(Box::new(rec.clone()))).with_position(start_pos);
        let counter = std::sync::Arc::new(std::sync::atomic::AtomicU64::new(0));
        let c2 = counter.clone();
        // a third of the cases put the key on the second line of a template whose first line ends in a wide element
        // (every key is rendered from scratch, whatever the line before it left behind)
        let second_line = key != "wide_msg" && rng.chance(1, 3);
        let ph = if key == "custom" { "{custom}".to_string() } else { format!("{{{key}}}") };
        let tpl = if second_line { format!("x {{wide_msg}}\n{ph}") } else { ph };
        let style = ProgressStyle::with_template(&tpl).unwrap().tick_strings(&TICKS)
            .with_key("custom", move |s: &indicatif::ProgressState, w: &mut dyn std::fmt::Write| { c2.fetch_add(1, std::sync::atomic::Ordering::SeqCst); write!(w, "<{}|{:?}|{}>", s.pos(), s.len(), s.is_finished()).unwrap(); });
        pb.set_style(style);
        // history: only operations that tick unconditionally, so that the tick count is known
        let mut ticks: Option<u64> = Some(0); let mut now = t0; let mut hist = Vec::new();
        for _ in 0..rng.below(8) {
            match rng.below(5) {
                0 => { pb.tick(); ticks = ticks.map(|t| t + 1); hist.push("tick".to_string()); }
                1 => { let m: String = (0..rng.below(6)).map(|_| (b'a' + rng.below(26) as u8) as char).collect(); pb.set_message(m.clone()); hist.push(format!("msg:{m}")); }
                2 => { let m: String = (0..rng.below(6)).map(|_| (b'A' + rng.below(26) as u8) as char).collect(); pb.set_prefix(m.clone()); hist.push(format!("prefix:{m}")); }
                3 => { let d = *rng.pick(&[1u64, 999_999, 1_000_000, 50_000_000, 1_000_000_000, 60_000_000_000, 3_600_000_000_000]); now += d; vh::set_now_ns(now); hist.push(format!("adv:{d}")); }
                _ => { let d = rng.below(50); pb.inc(d); hist.push(format!("inc:{d}")); ticks = None; }  // gated: tick count unknown afterwards
            }
        }
        let finished = rng.chance(1, 4);
        // let the refresh limiter recover, so that the last draw is not skipped
        now += 1_000_000_000; vh::set_now_ns(now);
        if finished { pb.abandon(); } else { pb.tick(); ticks = ticks.map(|t| t + 1); }
        let got = last_line(&rec);
        let (pos, lenv) = (pb.position(), pb.length().unwrap_or(pb.position()));
        let fraction = { let f: f32 = match (pos, pb.length()) { (_, None) => 0.0, (_, Some(0)) => 1.0, (0, _) => 0.0, (p, Some(l)) => p as f32 / l as f32 }; f.clamp(0.0, 1.0) };
        let exp: Option<String> = Some(match key {
            "pos" => format!("{pos}"), "human_pos" => format!("{}", HumanCount(pos)), "len" => format!("{lenv}"), "human_len" => format!("{}", HumanCount(lenv)),
            "percent" => format!("{:.0}", fraction * 100f32), "percent_precise" => format!("{:.3}", fraction * 100f32),
            "bytes" => format!("{}", HumanBytes(pos)), "total_bytes" => format!("{}", HumanBytes(lenv)), "decimal_bytes" => format!("{}", DecimalBytes(pos)), "decimal_total_bytes" => format!("{}", DecimalBytes(lenv)),
            "binary_bytes" => format!("{}", BinaryBytes(pos)), "binary_total_bytes" => format!("{}", BinaryBytes(lenv)),
            "elapsed_precise" => format!("{}", FormattedDuration(pb.elapsed())), "elapsed" => format!("{:#}", HumanDuration(pb.elapsed())),
            "per_sec" => format!("{}/s", HumanFloatCount(pb.per_sec())), "per_sec:3" => format!("{:.3}/s", HumanFloatCount(pb.per_sec())),
            "bytes_per_sec" => format!("{}/s", HumanBytes(pb.per_sec() as u64)), "decimal_bytes_per_sec" => format!("{}/s", DecimalBytes(pb.per_sec() as u64)), "binary_bytes_per_sec" => format!("{}/s", BinaryBytes(pb.per_sec() as u64)),
            "eta_precise" => format!("{}", FormattedDuration(pb.eta())), "eta" => format!("{:#}", HumanDuration(pb.eta())),
            "duration_precise" => format!("{}", FormattedDuration(pb.duration())), "duration" => format!("{:#}", HumanDuration(pb.duration())),
            "msg" | "wide_msg" => pb.message(), "prefix" => pb.prefix(),
            "spinner" => if finished { "Z".to_string() } else if let Some(t) = ticks { TICKS[(t % 4) as usize].to_string() } else { String::new() },
            _ => format!("<{}|{:?}|{}>", pos, pb.length(), finished),
        });
        let mut verdict = String::from("ok");
        let skip = key == "spinner" && !finished && ticks.is_none();
        if let Some(e) = exp { if !skip && !e.trim_end_matches(' ').is_empty() && got.trim_end_matches(' ') != e.trim_end_matches(' ') { verdict = format!("FAIL key={key} drawn={got:?} expected={e:?}"); } }
        if key == "custom" && counter.load(std::sync::atomic::Ordering::SeqCst) == 0 { verdict = "FAIL custom-key-never-called".into(); }
        out.emit(&format!("KEY {key} len={len:?} start={start_pos} finished={finished} hist={}", hist.join(",")), &format!("ORACLE {verdict}"));
    }
}

/// C11 (trackers): a stateful custom key records every `tick` / `reset` / `write` it receives together with the
/// state it is handed. Oracle: it is ticked exactly by the operations that update the bar (once, with the
/// position the bar has afterwards), reset exactly by `reset()` and with the *reset* state (position 0, not
/// finished, zero elapsed time), and always writes from the current state.
#[derive(Clone)]
struct Spy(std::sync::Arc<std::sync::Mutex<Vec<String>>>);
impl indicatif::style::ProgressTracker for Spy {
    fn clone_box(&self) -> Box<dyn indicatif::style::ProgressTracker> { Box::new(self.clone()) }
    fn tick(&mut self, s: &indicatif::ProgressState, _: vh::Instant) { self.0.lock().unwrap().push(format!("tick {} {}", s.pos(), s.is_finished())); }
    fn reset(&mut self, s: &indicatif::ProgressState, _: vh::Instant) { self.0.lock().unwrap().push(format!("reset {} {} {}", s.pos(), s.is_finished(), s.elapsed().as_nanos())); }
    fn write(&self, s: &indicatif::ProgressState, w: &mut dyn std::fmt::Write) { self.0.lock().unwrap().push(format!("write {} {}", s.pos(), s.is_finished())); let _ = write!(w, "k"); }
}

pub fn run_trackers(seed: u64, tier: &str, out: &mut Out) {
    let mut rng = Rng::new(seed ^ 0x11);
    let n = if tier == "thorough" { 100_000 } else { 3_000 };
    let t0 = 1_000_000_000_000u64;
    for _ in 0..n {
        vh::set_auto_advance_ns(0); vh::set_now_ns(t0);
        let rec = Recorder::new(4, 80, false);
        let visible = rng.chance(2, 3);
        let pb = ProgressBar::with_draw_target(Some(rng.range(1, 50)), if visible { ProgressDrawTarget::term_like(Box::new(rec.clone())) } else { ProgressDrawTarget::hidden() });
        let log = std::sync::Arc::new(std::sync::Mutex::new(Vec::new()));
        pb.set_style(ProgressStyle::with_template("{pos} {k}").unwrap().with_key("k", Spy(log.clone())));
        log.lock().unwrap().clear();
        let mut now = t0; let mut hist: Vec<String> = Vec::new(); let mut verdict = String::from("ok");
        for _ in 0..rng.range(1, 14) {
            let op = rng.below(13);
            let name = match op {
                0 => { pb.tick(); "tick" } 1 => { pb.set_message("m"); "set_message" } 2 => { pb.set_prefix("p"); "set_prefix" }
                3 => { pb.set_length(rng.range(1, 60)); "set_length" } 4 => { pb.inc_length(1); "inc_length" } 5 => { pb.unset_length(); "unset_length" }
                6 => { pb.inc(rng.below(4)); "inc" } 7 => { pb.set_position(rng.below(40)); "set_position" }
                8 => { pb.reset(); "reset" } 9 => { if rng.chance(1, 2) { pb.reset_eta() } else { pb.reset_elapsed() }; "reset_eta_or_elapsed" }
                10 => { match rng.below(3) { 0 => pb.finish(), 1 => pb.abandon(), _ => pb.finish_with_message("done") }; "finish" }
                11 => { let d = *rng.pick(&[1u64, 1_000_000, 50_000_000, 2_000_000_000]); now += d; vh::set_now_ns(now); "adv" }
                _ => { pb.update(|s| s.set_pos(3)); "update" }
            };
            hist.push(name.to_string());
            let evs: Vec<String> = std::mem::take(&mut *log.lock().unwrap());
            let ticks: Vec<&String> = evs.iter().filter(|e| e.starts_with("tick")).collect();
            let resets: Vec<&String> = evs.iter().filter(|e| e.starts_with("reset")).collect();
            let (pos, fin) = (pb.position(), pb.is_finished());
            if verdict != "ok" { continue; }
            let want_ticks: Option<usize> = match name { "tick" | "set_message" | "set_prefix" | "set_length" | "inc_length" | "unset_length" | "update" => Some(1), "inc" | "set_position" => None, _ => Some(0) };
            if let Some(w) = want_ticks { if ticks.len() != w { verdict = format!("FAIL tracker-ticks {name}: {} tick calls, expected {w} (history {})", ticks.len(), hist.join(",")); } } else if ticks.len() > 1 { verdict = format!("FAIL tracker-ticks {name}: {} tick calls", ticks.len()); }
            if verdict == "ok" { for t in &ticks { if **t != format!("tick {pos} {fin}") { verdict = format!("FAIL tracker-tick-state {name}: got {t:?}, bar has pos={pos} finished={fin}"); } } }
            if verdict == "ok" { let want = if name == "reset" { 1 } else { 0 }; if resets.len() != want { verdict = format!("FAIL tracker-resets {name}: {} reset calls, expected {want}", resets.len()); } }
            if verdict == "ok" { for r in &resets { if **r != "reset 0 false 0" { verdict = format!("FAIL tracker-reset-state reset() handed the tracker {r:?} (position, finished, elapsed ns); the bar after reset has 0 false 0 (history {})", hist.join(",")); } } }
            if verdict == "ok" { for e in evs.iter().filter(|e| e.starts_with("write")) { if *e != format!("write {pos} {fin}") { verdict = format!("FAIL tracker-write-state {name}: got {e:?}, bar has pos={pos} finished={fin}"); } } }
        }
        std::mem::forget(pb);
        out.emit(&format!("NOMODEL TRACKERS visible={visible} {}", hist.join(",")), &format!(" ORACLE {verdict}"));
    }
}
