//! C12 — field width, alignment and truncation: `{msg:<W!}` etc. with ASCII and non-ASCII content.
use crate::common::*;
use indicatif::{ProgressBar, ProgressDrawTarget, ProgressStyle};
use unicode_width::{UnicodeWidthChar, UnicodeWidthStr};

pub fn run(seed: u64, tier: &str, out: &mut Out) {
    let mut rng = Rng::new(seed);
    let n = if tier == "thorough" { 200_000 } else { 5_000 };
    let pools: [&[char]; 4] = [&['a', 'b', 'c', 'd', 'e'], &['é', 'ü', 'a', 'ß'], &['日', '本', 'a', '語'], &['a', '\u{301}', 'e', 'x']];
    for _ in 0..n {
        let pool = pools[rng.below(4) as usize];
        let len = rng.below(9);
        let bare: String = (0..len).map(|_| *rng.pick(pool)).collect();
        if bare.starts_with('\u{301}') { continue; }
        // only strings whose width is the sum of the character widths
        let wsum: usize = bare.chars().map(|c| c.width().unwrap_or(0)).sum();
        if wsum != bare.width() { continue; }
        // embedded colour sequences take no columns (each of their characters is one byte, zero columns)
        let mut content = bare.clone();
        if rng.chance(1, 4) {
            let mut at: Vec<usize> = (0..rng.range(1, 2)).map(|_| { let k = rng.below(bare.chars().count() as u64 + 1) as usize; bare.char_indices().nth(k).map_or(bare.len(), |(i, _)| i) }).collect();
            at.sort(); at.reverse();
            for a in at { content.insert_str(a, *rng.pick(&["\x1b[32m", "\x1b[0m", "\x1b[1;31m"])); }
        }
        if console::measure_text_width(&content) != wsum { continue; }
        let width = *rng.pick(&[0usize, 1, 2, 3, 4, 5, 6, 8, 12]);
        let (al, ach) = *rng.pick(&[("<", "l"), ("^", "c"), (">", "r")]);
        let trunc = rng.chance(1, 2);
        let rec = Recorder::new(3, 200, false);
        let pb = ProgressBar::with_draw_target(Some(1), ProgressDrawTarget::term_like(Box::new(rec.clone())));
        // a style suffix changes the colours only (they are switched off here), never the columns
        let sty = *rng.pick(&["", "", ".red", ".cyan.bold", ".green/blue"]);
        pb.set_style(ProgressStyle::with_template(&format!("[{{msg:{al}{width}{}{sty}}}]", if trunc { "!" } else { "" })).unwrap());
        { rec.st.lock().unwrap().ops.clear(); }
        let (pb2, c2) = (pb.clone(), content.clone());
        let panicked = std::panic::catch_unwind(std::panic::AssertUnwindSafe(move || pb2.set_message(c2))).is_err();
        let st = rec.st.lock().unwrap();
        let line = st.ops.iter().find_map(|o| if let Op::Str(s) = o { if s.starts_with('[') { Some(s.clone()) } else { None } } else { None }).unwrap_or_default();
        drop(st);
        std::mem::forget(pb);
        let inner: String = { let cs: Vec<char> = line.chars().collect(); if cs.len() >= 2 { cs[1..cs.len() - 1].iter().collect() } else { String::new() } };
        let got_cols = console::measure_text_width(&inner);
        // ASCII-like content (every character one byte and one column): the statement fixes the result exactly
        let plain = content.chars().all(|c| c.len_utf8() == 1 && c.width() == Some(1));
        let verdict = if panicked { format!("FAIL panic while drawing content={content:?} width={width} align={ach} trunc={trunc}") } else if wsum <= width {
                let d = width - wsum; let (l, r) = match ach { "l" => (0, d), "r" => (d, 0), _ => (d / 2, d - d / 2) };
                if inner == format!("{}{}{}", " ".repeat(l), content, " ".repeat(r)) { "ok".to_string() } else { format!("FAIL pad field of width {width}, content {content:?}: {inner:?}") } }
            else if !trunc { if inner == content { "ok".into() } else { format!("FAIL no-trunc untruncated content changed: {inner:?}") } }
            else if plain {
                let e = wsum - width; let skip = match ach { "l" => 0, "r" => e, _ => e / 2 };
                let want: String = content.chars().skip(skip).take(width).collect();
                if inner == want { "ok".into() } else { format!("FAIL trunc content={content:?} width={width} align={ach} got={inner:?} wanted={want:?}") } }
            else if got_cols == width { "ok".into() }
            else { format!("FAIL F11-trunc-by-bytes truncated field has {got_cols} columns, wanted {width}: content={content:?} got={inner:?}") };
        let glyphs = if content.is_empty() { "-".to_string() } else {
            let mut in_seq = false; let mut gs = Vec::new();
            for c in content.chars() {
                if c == '\x1b' { in_seq = true; }
                gs.push(format!("{}:{}:{}", c as u32, if in_seq { 0 } else { c.width().unwrap_or(0) }, c.len_utf8()));
                if in_seq && c.is_ascii_alphabetic() { in_seq = false; }
            }
            gs.join(",") };
        out.emit(&format!("PAD {ach} {} {width} {glyphs}", if trunc { 1 } else { 0 }), &format!("{} ORACLE {verdict}", inner.chars().map(|c| (c as u32).to_string()).collect::<Vec<_>>().join(".")));
    }
}

/// C12 (wide elements): templates of one to three lines, each with at most one `wide_msg` / `wide_bar` and fixed
/// text around it; the wide element takes exactly the columns the rest of *its own* line leaves, with its own
/// alignment and truncation. Judged by an expectation computed here (ASCII content only).
pub fn run_wide(seed: u64, tier: &str, out: &mut Out) {
    let mut rng = Rng::new(seed ^ 0x12);
    let n = if tier == "thorough" { 100_000 } else { 3_000 };
    for _ in 0..n {
        let width = *rng.pick(&[10u16, 17, 20, 40]);
        let nlines = rng.range(1, 3);
        let msg: String = (0..rng.below(30)).map(|_| *rng.pick(&['a', 'b', 'c', 'd', 'e', 'f'])).collect();
        let mut tpl = String::new();
        let mut want: Vec<Option<String>> = Vec::new();   // None = a bar line (only its width is judged)
        // a quarter of the templates use double-width progress characters and bars of fixed (also odd) width
        let wide_chars_used = rng.chance(1, 4); let mut bar_fields: Vec<(usize, usize)> = Vec::new();   // (line, expected columns of the whole line)
        for i in 0..nlines {
            if i > 0 { tpl.push('\n'); }
            let left: String = (0..rng.below(4)).map(|_| *rng.pick(&['[', '>', 'x', ' '])).collect::<String>().replace('{', "");
            let right: String = (0..rng.below(4)).map(|_| *rng.pick(&[']', '<', 'y'])).collect();
            let room = (width as usize).saturating_sub(left.len() + right.len());
            match rng.below(6) {
                0 => { tpl += &format!("{left}{right}"); want.push(Some(format!("{left}{right}"))); }
                1 if !wide_chars_used => { tpl += &format!("{left}{{wide_bar}}{right}"); want.push(None); }
                1 if left.len() + right.len() + 2 > width as usize => { tpl += &format!("{left}{right}"); want.push(Some(format!("{left}{right}"))); }
                1 => { let room = width as usize - left.len() - right.len() - 1; let bw = *rng.pick(&[1usize, 4, 7, 9]).min(&room); tpl += &format!("{left}{{bar:{bw}}}{right}|"); bar_fields.push((want.len(), left.len() + bw + right.len() + 1)); want.push(None); }
                k => {
                    let (al, ach) = [("", 'l'), (":<", 'l'), (":^", 'c'), (":>", 'r')][(k as usize - 2) % 4];
                    tpl += &format!("{left}{{wide_msg{al}}}{right}");
                    let w = msg.len();
                    let field = if w <= room { let d = room - w; let (l, r) = match ach { 'l' => (0, d), 'r' => (d, 0), _ => (d / 2, d - d / 2) }; format!("{}{}{}", " ".repeat(l), msg, " ".repeat(r)) }
                        else { let e = w - room; let skip = match ach { 'l' => 0, 'r' => e, _ => e / 2 }; msg.chars().skip(skip).take(room).collect() };
                    want.push(Some(format!("{left}{field}{right}")));
                }
            }
        }
        let rec = Recorder::new(8, width, true);
        let pb = ProgressBar::with_draw_target(Some(10), ProgressDrawTarget::term_like(Box::new(rec.clone())));
        pb.set_position(4);
        let style = match ProgressStyle::with_template(&tpl) { Ok(s) => s, Err(_) => continue };
        pb.set_style(if wide_chars_used { style.progress_chars("＃＞－") } else { style });
        let (pb2, m2) = (pb.clone(), msg.clone());
        let panicked = std::panic::catch_unwind(std::panic::AssertUnwindSafe(move || { pb2.set_message(m2); pb2.tick(); })).is_err();
        let rows = rec.rows();
        drop(pb);
        let mut verdict = "ok".to_string();
        if panicked { verdict = format!("FAIL panic tpl={tpl:?} msg={msg:?} width={width}"); }
        else {
            let mut exp_rows: Vec<Option<String>> = want.iter().map(|w| w.as_ref().map(|s| s.trim_end().to_string())).collect();
            while exp_rows.last().map_or(false, |r| r.as_deref() == Some("")) { exp_rows.pop(); }
            for (i, e) in exp_rows.iter().enumerate() {
                let got = rows.get(i).cloned().unwrap_or_default();
                match e {
                    Some(e) => if &got != e { verdict = format!("FAIL wide line {i} of tpl={tpl:?} msg={msg:?} width={width}: got {got:?} wanted {e:?}"); break; },
                    None if bar_fields.iter().any(|(l, _)| *l == i) => { let cols = console::measure_text_width(&got); let wantc = bar_fields.iter().find(|(l, _)| *l == i).unwrap().1;
                        if cols != wantc { verdict = format!("FAIL bar field of tpl={tpl:?}: line {got:?} has {cols} columns, {wantc} expected"); break; } }
                    None => { let cols = console::measure_text_width(&got); let barlike = got.chars().filter(|c| "█░▉▊▋▌▍▎▏".contains(*c)).count();
                        if cols != width as usize || barlike == 0 { verdict = format!("FAIL wide bar line {i} of tpl={tpl:?} width={width}: got {got:?} ({cols} columns)"); break; } }
                }
            }
        }
        out.emit(&format!("NOMODEL WIDE w={width} tpl={:?} msg={msg:?}", tpl), &format!(" ORACLE {verdict}"));
    }
}
