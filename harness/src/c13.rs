//! C13: geometry of `{bar:N}` and `{wide_bar}`.
use crate::common::{Op, Out, Recorder, Rng};
use indicatif::{ProgressBar, ProgressDrawTarget, ProgressStyle};

const NARROW: [&str; 10] = ["#", "1", "2", "3", "4", "5", "6", "7", "8", "-"];
const WIDE: [&str; 10] = ["＃", "１", "２", "３", "４", "５", "６", "７", "８", "－"];

fn last_line(rec: &Recorder) -> Option<String> {
    let st = rec.st.lock().unwrap();
    Some(st.ops.iter().rev().find_map(|o| match o { Op::Str(s) | Op::Line(s) if !s.trim_matches(' ').is_empty() => Some(s.clone()), _ => None }).unwrap_or_default())
}

/// render once and return the cluster indices of the bar (after skipping `skip` leading chars)
fn render(chars: &[&str], tpl: &str, prefix: &str, w: u16, pos: u64, len: Option<u64>) -> Option<(Vec<usize>, usize)> {
    let rec = Recorder::new(4, w, false);
    let pb = ProgressBar::with_draw_target(len, ProgressDrawTarget::term_like(Box::new(rec.clone())));
    pb.set_style(ProgressStyle::with_template(tpl).unwrap().progress_chars(&chars.concat()));
    pb.set_prefix(prefix.to_string());
    pb.set_position(pos);
    pb.tick();
    let line = last_line(&rec)?;
    let body: String = line.chars().skip(prefix.chars().count()).collect();
    let body = body.trim_end_matches(' ');
    let mut idx = Vec::new();
    for ch in body.chars() { idx.push(chars.iter().position(|c| c.chars().next() == Some(ch))?); }
    let cols = prefix.chars().count() + idx.len() * if chars[0].len() > 1 { 2 } else { 1 };
    pb.abandon();
    Some((idx, cols))
}

pub fn run(seed: u64, tier: &str, out: &mut Out) {
    let mut rng = Rng::new(seed);
    let n = if tier == "thorough" { 20_000 } else { 600 };
    for _ in 0..n {
        let wide_chars = rng.chance(1, 3);
        let nchars = rng.range(2, 10) as usize;
        let set: Vec<&str> = { let src = if wide_chars { &WIDE } else { &NARROW }; let mut v: Vec<&str> = src[..nchars - 1].to_vec(); v.push(src[9]); v };
        let cw = if wide_chars { 2 } else { 1 };
        let wide_bar = rng.chance(1, 3);
        let term_w = rng.range(1, 60) as u16;
        let rest = if wide_bar { rng.below(term_w as u64 + 3) as usize } else { 0 };
        // `{bar}` without a width is 20 columns; a wide bar may stand on a later line of a template whose first line has its own wide element
        let default_width = !wide_bar && rng.chance(1, 6);
        let nn = if wide_bar { (term_w as usize).saturating_sub(rest) } else if default_width { 20 } else { rng.below(41) as usize };
        let w = if wide_bar { term_w } else { 200 };
        let tpl = if wide_bar { if rng.chance(1, 3) { "{wide_msg}\n{prefix}{wide_bar}".to_string() } else { "{prefix}{wide_bar}".to_string() } } else if default_width { "{bar}".to_string() } else { format!("{{bar:{nn}}}") };
        let prefix: String = "p".repeat(rest);
        let len: Option<u64> = match rng.below(12) { 0 => None, 1 => Some(0), 2 => Some(1 << 24), 3 => Some((1 << 24) + 1), 4 => Some(u64::MAX), 5 => Some(rng.range(1, 300)), _ => Some(rng.range(1, 60)) };
        // positions: around every cell boundary, plus the extremes; sorted
        let cells = (nn / cw) as u64;
        let l = len.unwrap_or(10);
        let mut ps: Vec<u64> = vec![0, 1, l.saturating_sub(1), l, l.saturating_add(1), u64::MAX];
        for k in 0..=cells.min(12) { if cells > 0 { let b = ((l as u128 * k as u128) / cells as u128) as u64; ps.extend([b.saturating_sub(1), b, b.saturating_add(1)]); } }
        for _ in 0..4 { ps.push(rng.below(l.saturating_add(2).max(1))); }
        ps.sort(); ps.dedup();
        let mut prev_filled: Option<usize> = None;
        for &pos in &ps {
            let case = format!("BARGEO {nn} {cw} {nchars} {pos} {}", len.map_or("none".into(), |l| l.to_string()));
            let Some((idx, cols)) = render(&set, &tpl, &prefix, w, pos, len) else { out.emit(&case, "undecodable ORACLE FAIL undecodable"); continue; };
            let obs = idx.iter().map(|i| i.to_string()).collect::<Vec<_>>().join(" ");
            // ---- oracle, independent of the model
            let filled = idx.iter().take_while(|&&i| i == 0).count();
            let after: &[usize] = &idx[filled..];
            let bg_idx = nchars - 1;
            let head = after.first().map_or(false, |&i| i != bg_idx || nchars == 2) && !after.is_empty();
            let mut verdict = String::from("ok");
            if idx.len() != cells as usize { verdict = format!("FAIL cell-count {} expected {cells}", idx.len()); }
            else if after.iter().skip(1).any(|&i| i != bg_idx) || (nchars > 2 && after.first().map_or(false, |&i| i == 0)) { verdict = "FAIL shape".into(); }
            else if let Some(l) = len {
                let complete = pos >= l;
                if pos == 0 && l > 0 && filled != 0 { verdict = "FAIL filled-at-zero".into(); }
                else if complete && filled != cells as usize { verdict = format!("FAIL not-full-when-complete filled={filled}"); }
                else if !complete && l <= (1 << 24) && cells > 0 && filled == cells as usize { verdict = format!("FAIL full-before-complete filled={filled}"); }
                else if prev_filled.map_or(false, |p| filled < p) { verdict = format!("FAIL not-monotone filled={filled} after {}", prev_filled.unwrap()); }
                else {
                    let exact = if complete { cells as u128 } else { pos as u128 * cells as u128 / l as u128 };
                    if (filled as i128 - exact as i128).abs() > 1 { verdict = format!("FAIL filled={filled} exact-floor={exact}"); }
                    // "at most one partial cell exactly when the bar is neither empty nor full": with a position above zero and
                    // room left the cell after the filled ones is a partial cell (one of the characters between the first and
                    // the last), at position zero there is none. (Two characters only: partial and background cell look alike.)
                    if verdict == "ok" && nchars > 2 && cells > 0 && l > 0 {
                        if pos > 0 && !complete && filled < cells as usize && !head { verdict = format!("FAIL no-partial-cell position {pos} of {l}: {filled} filled cells of {cells} and no partial cell"); }
                        if pos == 0 && head { verdict = "FAIL partial-cell-at-zero".into(); }
                    }
                }
            }
            if verdict == "ok" && wide_bar && rest <= term_w as usize { if cols > term_w as usize || term_w as usize - cols >= cw { verdict = format!("FAIL wide-bar line {cols} columns on a {term_w}-column terminal"); } }
            prev_filled = Some(filled);
            out.emit(&case, &format!("{obs} ORACLE {verdict}"));
        }
    }
}

/// C13 (resize): `{wide_bar}` takes the columns the terminal has *now*: the terminal is resized, or the bar is
/// moved to a terminal of another width, between ordinary (non-forced) draws; every frame must fill exactly
/// the width its terminal had when it was painted.
pub fn run_resize(seed: u64, tier: &str, out: &mut Out) {
    let mut rng = Rng::new(seed ^ 0x1313);
    let n = if tier == "thorough" { 50_000 } else { 1_500 };
    for _ in 0..n {
        let mut w = *rng.pick(&[20u16, 33, 40, 80]);
        let mut rec = Recorder::new(4, w, false);
        let prefix: String = (0..rng.below(5)).map(|_| 'p').collect();
        // a third of the bars are members of a MultiProgress (with a second member, sometimes a finished one that is dropped along the
        // way: the width a member is laid out for is the terminal's width at that draw, whoever caches what); half use a wide message
        let multi = rng.chance(1, 3);
        let wide_msg = rng.chance(1, 2);
        let mp = if multi { Some(indicatif::MultiProgress::with_draw_target(ProgressDrawTarget::term_like(Box::new(rec.clone())))) } else { None };
        let pb = match &mp { Some(m) => m.add(ProgressBar::new(100)), None => ProgressBar::with_draw_target(Some(100), ProgressDrawTarget::term_like(Box::new(rec.clone()))) };
        let mut other = mp.as_ref().map(|m| { let o = m.insert(0, ProgressBar::new(5)); o.set_style(ProgressStyle::with_template("o{pos}").unwrap()); o });
        pb.set_style(ProgressStyle::with_template(if wide_msg { "{prefix}{wide_msg}|" } else { "{prefix}{wide_bar}" }).unwrap().progress_chars("#>-"));
        pb.set_prefix(prefix.clone());
        let mut case = format!("NOMODEL RESIZE w={w} prefix={} multi={multi} wide_msg={wide_msg}", prefix.len());
        let mut verdict = "ok".to_string();
        let k = rng.range(2, 12);
        for _ in 0..k {
            { rec.st.lock().unwrap().ops.clear(); }
            let choice = rng.below(6);
            // (a frame that another member causes shows this member's stored line, laid out when it last drew: only its own draws are judged)
            let own = choice >= 3;
            match choice {
                0 | 1 => { w = *rng.pick(&[10u16, 20, 33, 40, 57, 80, 120]); rec.set_width(w); case += &format!(" ; resize {w}"); }
                2 if !multi => { w = *rng.pick(&[15u16, 30, 60]); rec = Recorder::new(4, w, false); pb.set_draw_target(ProgressDrawTarget::term_like(Box::new(rec.clone()))); case += &format!(" ; retarget {w}"); }
                2 => { match rng.below(3) { 0 => { if let Some(o) = &other { o.finish(); } case += " ; other-finish"; } 1 => { if let Some(o) = other.take() { drop(o); } case += " ; other-drop"; } _ => { if let Some(o) = &other { o.inc(1); } case += " ; other-inc"; } } }
                3 => { case += " ; inc"; pb.inc(1); }
                4 => { case += " ; tick"; pb.tick(); }
                _ => { case += " ; msg"; pb.set_message("m"); }
            }
            // the member's own line is the last one of the frame (the other member is inserted above it)
            if let (true, Some(line)) = (own || !multi, last_line(&rec)) {
                if line.is_empty() || (multi && !line.contains('|') && wide_msg) || (multi && line.starts_with('o')) { continue; }
                let cols = console::measure_text_width(&line);
                if verdict == "ok" && cols != w as usize { verdict = format!("FAIL wide-bar-width frame has {cols} columns on a terminal of {w}: {line:?}"); }
            }
        }
        pb.abandon();
        std::mem::forget(other); std::mem::forget(mp);
        out.emit(&case, &format!(" ORACLE {verdict}"));
    }
}
