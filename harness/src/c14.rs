//! C14 — every style the builder accepts renders without panicking.
use crate::common::*;
use indicatif::{ProgressBar, ProgressDrawTarget, ProgressStyle};
use std::panic::{catch_unwind, AssertUnwindSafe};

#[derive(Clone)]
enum B { Tc(usize, u8), Ts(usize), Pc(Vec<u8>) }

fn cluster(w: u8, i: usize) -> char { match w { 0 => ['\u{200b}', '\u{2060}', '\u{200c}'][i % 3], 1 => (b'a' + (i % 26) as u8) as char, 3 => ['é', 'ü', '⠁', 'ß'][i % 4], _ => ['日', '本', '語', '字'][i % 4] } }

pub fn run(seed: u64, tier: &str, out: &mut Out) {
    let mut rng = Rng::new(seed);
    let n = if tier == "thorough" { 50_000 } else { 2_000 };
    let fx = crate::common::fx("style");
    for _ in 0..n {
        let k = rng.range(1, 3);
        let mut ops = Vec::new();
        for _ in 0..k {
            ops.push(match rng.below(3) {
                0 => B::Tc(*rng.pick(&[0usize, 1, 1, 2, 3, 30]), *rng.pick(&[1u8, 1, 3, 3, 2])),   // the characters may be one byte, several bytes, or double width
                1 => B::Ts(*rng.pick(&[0usize, 1, 2, 3, 30])),
                _ => { let len = *rng.pick(&[0usize, 1, 2, 3, 4, 5, 10]); let mixed = rng.chance(1, 3); let w = *rng.pick(&[0u8, 1, 1, 2]);
                       let odd = if len > 0 { rng.below(len as u64) as usize } else { 0 };   // the character of another width can sit anywhere, also last
                       B::Pc((0..len).map(|i| if mixed && i == odd { (w + 1 + rng.below(2) as u8) % 3 } else { w }).collect()) }
            });
        }
        let case = format!("STYLE FX={fx} ; {}", ops.iter().map(|o| match o { B::Tc(n, _) => format!("tc {n}"), B::Ts(n) => format!("ts {n}"), B::Pc(ws) => format!("pc {}", if ws.is_empty() { "-".into() } else { ws.iter().map(|w| w.to_string()).collect::<Vec<_>>().join(",") }) }).collect::<Vec<_>>().join(" ; "));
        let ops2 = ops.clone();
        // the bar state a style must cope with includes the texts: wide, combining and coloured ones in truncating fields
        let tpl: &'static str = *rng.pick(&["{spinner} {bar:20} {wide_bar}", "{spinner} {bar:20} {wide_bar}", "{spinner} {wide_msg} {bar:7}", "{prefix:3!} {msg:>4!} {msg:^5!} {bar:0}", "{wide_msg:^} {pos}/{len}",
            // truncating fields of zero, one and two columns, every alignment (a cut may fall inside a multi-byte character at both ends at once)
            "{msg:^0!}|{prefix:>0!}|{msg:<0!}", "{msg:^1!}{prefix:^2!}{msg:>1!}", "{wide_msg:^}{pos:>3}", "{wide_msg:>} {pos}/{len}", "{prefix:^1!} {wide_msg:^}"]);
        let msg: String = match rng.below(11) { 5 => "完".into(), 6 => "日a".into(), 7 => "🚀".into(), 8 => "ab🚀cd".into(), 9 => "é".into(), 10 => "aé".into(), 0 => String::new(), 1 => "plain text".into(), 2 => "日本語のメッセージです長い".into(), 3 => "e\u{301}e\u{301}e\u{301}e\u{301}e\u{301}e\u{301}".into(), _ => "\x1b[32mgreen\x1b[0m and more".into() };
        let built = catch_unwind(move || {
            let mut s = ProgressStyle::with_template(tpl).unwrap();
            for o in &ops2 { s = match o {
                B::Tc(n, cls) => { let t: String = (0..*n).map(|i| cluster(*cls, i)).collect(); s.tick_chars(&t) }
                B::Ts(n) => { let v: Vec<String> = (0..*n).map(|i| format!("t{i}")).collect(); let r: Vec<&str> = v.iter().map(|x| x.as_str()).collect(); s.tick_strings(&r) }
                B::Pc(ws) => { let t: String = ws.iter().enumerate().map(|(i, w)| cluster(*w, i)).collect(); s.progress_chars(&t) }
            }; }
            s
        });
        // what the statement says must be rejected when the style is built
        let must_reject = ops.iter().any(|o| match o { B::Tc(n, _) | B::Ts(n) => *n < 2, B::Pc(ws) => ws.len() < 2 || ws.iter().any(|w| *w != ws[0]) });
        let (obs, verdict) = match built {
            Err(_) => ("rejected".to_string(), "ok".to_string()),
            Ok(_) if must_reject => ("accepted ok".to_string(), format!("FAIL not-rejected-early {}", case)),
            Ok(style) => {
                let mut panicked = false;
                for (ticks, finish) in [(0u64, false), (1, false), (3, false), (31, false), (0, true)] {
                    for w in [1u16, 2, 3, 4, 5, 6, 7, 40] {
                        let st = style.clone();
                        let r = catch_unwind(AssertUnwindSafe(|| {
                            let rec = Recorder::new(5, w, false);
                            let pb = ProgressBar::with_draw_target(Some(10), ProgressDrawTarget::term_like(Box::new(rec)));
                            pb.set_style(st); pb.set_position(3); pb.set_message(msg.clone()); pb.set_prefix(msg.clone());
                            for _ in 0..ticks { pb.tick(); }
                            // the texts change shape between draws: tabs, and a tab width that shrinks and grows (whatever a draw remembered
                            // about the previous text must not be used for the next)
                            pb.set_message(format!("a\tb\t{}\t", msg)); pb.tick();
                            for tw in [1usize, 0, 16, 3] { pb.set_tab_width(tw); pb.tick(); }
                            if finish { pb.finish(); } else { pb.tick(); }
                            std::mem::forget(pb);
                        }));
                        if r.is_err() { panicked = true; }
                    }
                }
                if panicked { ("accepted panic".to_string(), "FAIL accepted style panics in a draw".to_string()) } else { ("accepted ok".to_string(), "ok".to_string()) }
            }
        };
        out.emit(&case, &format!("{obs} ORACLE {verdict}"));
    }
}

/// C14 with the crate feature `improved_unicode` (grapheme clusters): tick and progress strings made of characters
/// that combine into fewer clusters than characters. Every accepted style must render; run by a second harness
/// binary built with that feature (`check`: stream option `feature`).
pub fn run_clusters(seed: u64, tier: &str, out: &mut Out) {
    let mut rng = Rng::new(seed ^ 0x1414);
    let n = if tier == "thorough" { 5_000 } else { 300 };
    let pieces = ["e\u{301}", "\u{2699}\u{fe0f}", "a", "b", "日", "\u{1f468}\u{200d}\u{1f469}", "o\u{308}\u{304}"];
    for _ in 0..n {
        let k = rng.range(1, 4);
        let tick: String = (0..k).map(|_| *rng.pick(&pieces)).collect();
        let prog: String = (0..rng.range(1, 4)).map(|_| *rng.pick(&["a", "e\u{301}", "b", "o\u{308}"])).collect();
        let which = rng.below(3);
        let (t2, p2) = (tick.clone(), prog.clone());
        let built = catch_unwind(move || { let s = ProgressStyle::with_template("{spinner} {bar:10} {msg}").unwrap(); match which { 0 => s.tick_chars(&t2), 1 => s.progress_chars(&p2), _ => s.tick_chars(&t2).progress_chars(&p2) } });
        let verdict = match built {
            Err(_) => "ok".to_string(),   // rejected by the builder's assertions: allowed
            Ok(style) => {
                let r = catch_unwind(AssertUnwindSafe(|| {
                    let rec = Recorder::new(5, 40, false);
                    let pb = ProgressBar::with_draw_target(Some(10), ProgressDrawTarget::term_like(Box::new(rec)));
                    pb.set_style(style); pb.set_position(3);
                    for _ in 0..5 { pb.tick(); }
                    pb.finish();
                }));
                if r.is_err() { format!("FAIL accepted style panics in a draw (improved_unicode): tick_chars {tick:?} progress_chars {prog:?} variant {which}") } else { "ok".into() }
            }
        };
        out.emit(&format!("NOMODEL CLUSTERS tick={tick:?} prog={prog:?} which={which}"), &format!(" ORACLE {verdict}"));
    }
}
