//! C15 — human-readable formatters (integer parts): HumanCount, FormattedDuration, HumanDuration.
use crate::common::*;
use indicatif::{BinaryBytes, DecimalBytes, FormattedDuration, HumanBytes, HumanCount, HumanDuration, HumanFloatCount};
use std::time::Duration;

const UNITS_S: [u64; 6] = [365 * 86400, 7 * 86400, 86400, 3600, 60, 1];

fn group_ref(n: u64) -> String {
    // independent reference: groups of three from the right
    let s = n.to_string();
    let mut out = String::new();
    for (i, c) in s.chars().enumerate() { if i > 0 && (s.len() - i) % 3 == 0 { out.push(','); } out.push(c); }
    out
}

/// what the statement promises for `HumanFloatCount`: the standard fixed-precision decimal of the
/// value (taken from `std`), commas in the integer digits, trailing zeros of the fraction trimmed
fn float_count_ref(x: f64, prec: usize) -> String {
    let num = format!("{:.*}", prec, x);
    if !x.is_finite() { return num; }
    let (sign, rest) = match num.strip_prefix('-') { Some(r) => ("-", r), None => ("", num.as_str()) };
    let (ip, fp) = rest.split_once('.').unwrap_or((rest, ""));
    let mut out = String::from(sign);
    for (i, c) in ip.chars().enumerate() { if i > 0 && (ip.len() - i) % 3 == 0 { out.push(','); } out.push(c); }
    let fr = fp.trim_end_matches('0');
    if !fr.is_empty() { out.push('.'); out.push_str(fr); }
    out
}

/// `value unit` with the largest fitting prefix and two decimals (none for plain bytes); the value is
/// compared with the exact quotient up to half a unit in the last place plus the rounding of u64 -> f64
fn bytes_verdict(n: u64, got: &str, kilo: u128, prefixes: &[&str]) -> String {
    let Some((num, unit)) = got.split_once(' ') else { return format!("FAIL bytes-unparsable {got}") };
    let idx = if unit == "B" { Some(0) } else { prefixes.iter().position(|p| format!("{p}B") == unit).map(|i| i + 1) };
    let Some(idx) = idx else { return format!("FAIL bytes-unit {got}") };
    let Ok(val) = num.parse::<f64>() else { return format!("FAIL bytes-number {got}") };
    let decimals = num.split_once('.').map_or(0, |(_, f)| f.len());
    if (idx == 0 && decimals != 0) || (idx > 0 && decimals != 2) { return format!("FAIL bytes-decimals {got}"); }
    let scale = kilo.pow(idx as u32) as f64;
    let exact = n as f64 / scale;
    let tol = if idx == 0 { 0.5 } else { 0.005 } + exact * 1e-12 + 1e-9;
    if (val - exact).abs() > tol { return format!("FAIL bytes-value {n} -> {got}"); }
    // largest fitting prefix: value below kilo unless the last prefix; at least 1 unless plain bytes.
    // (n as f64 may round up to the next power for n > 2^53: accept a printed value of kilo.00 then)
    if idx < 8 && val > kilo as f64 { return format!("FAIL bytes-prefix too small {n} -> {got}"); }
    if idx > 0 && val < 1.0 - 1e-9 { return format!("FAIL bytes-prefix too large {n} -> {got}"); }
    "ok".into()
}

/// a sink that accepts `n` pieces and then fails
struct FailingSink(usize);
impl std::fmt::Write for FailingSink { fn write_str(&mut self, _: &str) -> std::fmt::Result { if self.0 == 0 { Err(std::fmt::Error) } else { self.0 -= 1; Ok(()) } } }
/// a sink that formats a count of its own while it is written to
struct NestingSink(String);
impl std::fmt::Write for NestingSink { fn write_str(&mut self, s: &str) -> std::fmt::Result { let inner = format!("{}", HumanCount(s.len() as u64 + 1000)); self.0.push_str(&inner); self.0.push_str(s); Ok(()) } }

pub fn run(seed: u64, tier: &str, out: &mut Out) {
    let mut rng = Rng::new(seed);
    // HumanFloatCount: finite / infinite / NaN / negative values, precisions 0..=25 and the default
    {
        let mut xs: Vec<f64> = vec![0.0, -0.0, 0.5, -0.5, 1.5, 2.5, 0.05, 0.005, 999.5, 999.9995, 999.99995, 1234.7, -123.0, -123456.5, 1e3, 1e6 - 0.5,
            1e15, 1e21, 1e22, 123456789.125, 9007199254740992.0, 9007199254740993.0, 9223372036854775808.0, 18446744073709551616.0, 18446744073709549568.0, 18446744073709555712.0, u64::MAX as f64, (1u128 << 100) as f64, f64::MAX, f64::MIN, f64::MIN_POSITIVE, 5e-324, f64::INFINITY, f64::NEG_INFINITY, f64::NAN, -f64::NAN, 0.1 + 0.2, 1.0 / 3.0];
        let nr = if tier == "thorough" { 400_000 } else { 6_000 };
        for i in 0..nr {
            xs.push(match i % 5 {
                0 => f64::from_bits(rng.next()),
                1 => (rng.next() >> rng.below(64)) as f64 / [1.0, 2.0, 8.0, 10.0, 1000.0, 65536.0][rng.below(6) as usize] * if rng.chance(1, 4) { -1.0 } else { 1.0 },
                2 => { let k = rng.below(12) as i32; let base = 10f64.powi(k); base - [0.5, 0.05, 0.005, 0.0005, 0.00005, 0.5000001][rng.below(6) as usize] }
                3 => (rng.below(2_000_000) as f64 - 1_000_000.0) / 1000.0,
                _ => { let m = rng.below(1 << 20) as f64; m * 2f64.powi(rng.below(80) as i32 - 40) }
            });
        }
        for (i, x) in xs.iter().enumerate() {
            let prec: Option<usize> = if i % 7 == 0 { None } else { Some(*rng.pick(&[0usize, 0, 1, 2, 3, 4, 6, 10, 17, 25])) };
            let x = *x;
            // every few values a formatting into a sink that fails half-way comes first: whatever that attempt left behind must not
            // show in the next result (the formatters are stateless), and a sink that formats a count itself must be possible
            if i % 11 == 3 { let _ = std::panic::catch_unwind(move || { use std::fmt::Write as _; let mut s = FailingSink(2); let _ = write!(s, "{:.2}", HumanFloatCount(-7654.321)); let mut s = FailingSink(1); let _ = write!(s, "{}", HumanCount(1_234_567)); let mut n = NestingSink(String::new()); let _ = write!(n, "{}", HumanCount(7_000)); }); }
            let got = std::panic::catch_unwind(move || match prec { Some(p) => format!("{:.*}", p, HumanFloatCount(x)), None => format!("{}", HumanFloatCount(x)) });
            let p = prec.unwrap_or(4);
            let (obs, v) = match got {
                Err(_) => ("panic".to_string(), format!("FAIL float-count-panic HumanFloatCount({x:e})")),
                Ok(g) => { let r = float_count_ref(x, p); let v = if g == r { "ok".to_string() } else { format!("FAIL float-count HumanFloatCount({x:e}) precision {p} = {g} expected {r}") }; (g, v) }
            };
            // NaN payload/sign is not observable in the output: canonicalise for the model
            let bits = if x.is_nan() { f64::NAN.to_bits() & !(1u64 << 63) } else { x.to_bits() };
            out.emit(&format!("FMT fcount {bits} {p}"), &format!("{obs} ORACLE {v}"));
        }
    }
    // HumanBytes / BinaryBytes / DecimalBytes: every prefix boundary +-1, random
    {
        let mut ns: Vec<u64> = vec![0, 1, 15, 999, 1000, 1001, 1023, 1024, 1025, 1500, u64::MAX, u64::MAX - 1, (1 << 53) - 1, 1 << 53, (1 << 53) + 1];
        for k in [1000u64, 1024] { let mut p = k; loop { ns.extend([p - 1, p, p + 1, p + p / 2, (p as u128 * 999 / 1000) as u64]); match p.checked_mul(k) { Some(q) => p = q, None => break } } }
        let nr = if tier == "thorough" { 400_000 } else { 4_000 };
        for _ in 0..nr { let bits = rng.below(64); ns.push(rng.next() >> bits); }
        const BIN: [&str; 8] = ["Ki", "Mi", "Gi", "Ti", "Pi", "Ei", "Zi", "Yi"];
        const DEC: [&str; 8] = ["k", "M", "G", "T", "P", "E", "Z", "Y"];
        for n in ns {
            let (hb, bb, db) = match std::panic::catch_unwind(|| (format!("{}", HumanBytes(n)), format!("{}", BinaryBytes(n)), format!("{}", DecimalBytes(n)))) {
                Ok(x) => x,
                Err(_) => { out.emit(&format!("FMT bytes binary {n}"), &format!("panic ORACLE FAIL panic a bytes formatter of {n} panics")); out.emit(&format!("FMT bytes decimal {n}"), "panic ORACLE ok"); continue; }
            };
            let v = if hb != bb { format!("FAIL bytes-alias HumanBytes != BinaryBytes for {n}") } else { bytes_verdict(n, &bb, 1024, &BIN) };
            out.emit(&format!("FMT bytes binary {n}"), &format!("{bb} ORACLE {v}"));
            out.emit(&format!("FMT bytes decimal {n}"), &format!("{db} ORACLE {}", bytes_verdict(n, &db, 1000, &DEC)));
        }
    }
    // HumanCount: every digit-count boundary +-1, random
    let mut counts: Vec<u64> = vec![0, 1, 9, u64::MAX, u64::MAX - 1];
    let mut p = 1u64; for _ in 0..19 { counts.extend([p - 1, p, p + 1]); p = p.saturating_mul(10); }
    let nrand = if tier == "thorough" { 1_000_000 } else { 5_000 };
    for _ in 0..nrand { let bits = rng.below(64); counts.push(rng.next() >> bits); }
    for n in counts {
        let got = std::panic::catch_unwind(|| format!("{}", HumanCount(n))).unwrap_or_else(|_| "panic".to_string());
        let v = if got == group_ref(n) { "ok".to_string() } else { format!("FAIL count HumanCount({n}) = {got}") };
        out.emit(&format!("FMT count {n}"), &format!("{got} ORACLE {v}"));
    }
    // FormattedDuration
    let mut secs: Vec<u64> = vec![0, 1, 59, 60, 61, 3599, 3600, 3601, 86399, 86400, 86401, 90061, u64::MAX];
    let _ = &mut secs;
    for _ in 0..nrand / 5 { let bits = rng.below(64); secs.push(rng.next() >> bits); }
    for s in secs {
        let got = std::panic::catch_unwind(|| format!("{}", FormattedDuration(Duration::new(s, 999_999_999)))).unwrap_or_else(|_| "panic".to_string());
        // parse back
        let (days, hms) = match got.split_once("d ") { Some((d, r)) => (d.parse::<u64>().unwrap_or(u64::MAX), r.to_string()), None => (0, got.clone()) };
        let parts: Vec<u64> = hms.split(':').map(|x| x.parse().unwrap_or(u64::MAX)).collect();
        let back = if parts.len() == 3 && parts[0] < 24 && parts[1] < 60 && parts[2] < 60 { days as u128 * 86400 + parts[0] as u128 * 3600 + parts[1] as u128 * 60 + parts[2] as u128 } else { u128::MAX };
        let v = if back == s as u128 && hms.len() == 8 { "ok".to_string() } else { format!("FAIL fdur FormattedDuration({s}) = {got}") };
        out.emit(&format!("FMT fdur {s}"), &format!("{got} ORACLE {v}"));
    }
    // HumanDuration: all unit boundaries and (n + 1/2) unit, +- 1 ms; random below 2^52 ns
    let mut ds: Vec<u128> = vec![0, 1_000_000, 499_000_000, 500_000_000, 999_000_000];
    let nmax: u128 = if tier == "thorough" { 10_000 } else { 150 };
    for u in UNITS_S { let u = u as u128 * 1_000_000_000; for n in 1..=nmax { for base in [n * u, n * u + u / 2] { for delta in [-1_000_000i128, 0, 1_000_000] { let d = base as i128 + delta; if d >= 0 { ds.push(d as u128); } } } } }
    // the documented switch points: 1.5 unit minus half of the next smaller unit
    for i in 0..5 { let u = UNITS_S[i] as u128 * 1_000_000_000; let nx = UNITS_S[i + 1] as u128 * 1_000_000_000; for delta in [-1_000_000i128, 0, 1_000_000] { ds.push(((u + u / 2 - nx / 2) as i128 + delta) as u128); } }
    for _ in 0..nrand / 5 { let bits = 12 + rng.below(40); ds.push((rng.next() >> bits) as u128); }
    // the far end of the range: around 2^64 ms, 2^64 us, powers of two of years, Duration::MAX (kept a quarter
    // unit away from the rounding boundaries, where the f64 quotient of the code and the exact one could differ)
    {
        let year = 365u128 * 86400 * 1_000_000_000;
        ds.push(u64::MAX as u128 * 1_000_000_000 + 999_999_999);
        for k in [1u128 << 64, (1u128 << 64) * 1000, (1u128 << 64) * 1_000_000] { for m in [k / 2, k - year, k, k + year, 2 * k, 3 * k] { ds.push((m / year) * year + year / 4); } }
        for e in 20..40 { ds.push((1u128 << e) * year + year / 4); }
        for _ in 0..nrand / 20 { let y = rng.next() as u128 % 584_000_000_000; ds.push(y * year + year / 4); }
        ds.retain(|d| *d <= u64::MAX as u128 * 1_000_000_000 + 999_999_999);
    }
    let mut prev: Option<(u128, u128)> = None;
    ds.sort(); ds.dedup();
    for d in ds {
        let dur = Duration::new((d / 1_000_000_000) as u64, (d % 1_000_000_000) as u32);
        // "the formatting wrappers never panic": a panic is a failure of this value, not of the harness
        let (got, gota) = match std::panic::catch_unwind(|| (format!("{}", HumanDuration(dur)), format!("{:#}", HumanDuration(dur)))) {
            Ok(x) => x,
            Err(_) => { out.emit(&format!("FMT hdur {d}"), &format!("panic ORACLE FAIL panic HumanDuration of {d} ns panics")); out.emit(&format!("FMT hdura {d}"), "panic ORACLE ok"); continue; }
        };
        // oracle: parse "N unit(s)", never "1 unit" above seconds, value monotone in the duration
        let mut v = "ok".to_string();
        let mut it = got.split(' ');
        let n: u128 = it.next().unwrap().parse().unwrap_or(u128::MAX);
        let name = it.next().unwrap_or("").trim_end_matches('s').to_string();
        let unit = match name.as_str() { "year" => UNITS_S[0], "week" => UNITS_S[1], "day" => UNITS_S[2], "hour" => UNITS_S[3], "minute" => UNITS_S[4], "second" => 1, _ => 0 } as u128 * 1_000_000_000;
        if unit == 0 { v = format!("FAIL hdur-unparsable {got}"); }
        else if name != "second" && n < 2 { v = format!("FAIL hdur-one-unit above seconds: {got}"); }
        else {
            let value = n * unit;
            if let Some((pd, pv)) = prev { if value < pv { v = format!("FAIL hdur-monotone: {pd} ns -> {pv}, {d} ns -> {value}"); } }
            // nearest count: |d - n*unit| <= unit/2 unless clamped to 2
            let diff = if d > value { d - value } else { value - d };
            if v == "ok" && !(2 * diff <= unit || (n == 2 && name != "second")) { v = format!("FAIL hdur-nearest: {d} ns -> {got}"); }
            prev = Some((d, value));
        }
        out.emit(&format!("FMT hdur {d}"), &format!("{got} ORACLE {v}"));
        // the compact form (`{:#}`: `42s`, `2m`) follows the same rule: same count, the unit as one letter
        let va = {
            let digits: String = gota.chars().take_while(|c| c.is_ascii_digit()).collect();
            let letter = &gota[digits.len()..];
            let na: u128 = digits.parse().unwrap_or(u128::MAX);
            let want_letter = match name.as_str() { "year" => "y", "week" => "w", "day" => "d", "hour" => "h", "minute" => "m", "second" => "s", _ => "?" };
            if v != "ok" { "ok".to_string() }   // the long form is already reported
            else if letter != want_letter || na != n { format!("FAIL hdur-compact {d} ns: long form {got:?}, compact form {gota:?}") }
            else { "ok".to_string() }
        };
        out.emit(&format!("FMT hdura {d}"), &format!("{gota} ORACLE {va}"));
    }
}
