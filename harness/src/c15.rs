//! C15 — human-readable formatters (integer parts): HumanCount, FormattedDuration, HumanDuration.
use crate::common::*;
use indicatif::{FormattedDuration, HumanCount, HumanDuration};
use std::time::Duration;

const UNITS_S: [u64; 6] = [365 * 86400, 7 * 86400, 86400, 3600, 60, 1];

fn group_ref(n: u64) -> String {
    // independent reference: groups of three from the right
    let s = n.to_string();
    let mut out = String::new();
    for (i, c) in s.chars().enumerate() { if i > 0 && (s.len() - i) % 3 == 0 { out.push(','); } out.push(c); }
    out
}

pub fn run(seed: u64, tier: &str, out: &mut Out) {
    let mut rng = Rng::new(seed);
    // HumanCount: every digit-count boundary +-1, random
    let mut counts: Vec<u64> = vec![0, 1, 9, u64::MAX, u64::MAX - 1];
    let mut p = 1u64; for _ in 0..19 { counts.extend([p - 1, p, p + 1]); p = p.saturating_mul(10); }
    let nrand = if tier == "thorough" { 1_000_000 } else { 5_000 };
    for _ in 0..nrand { let bits = rng.below(64); counts.push(rng.next() >> bits); }
    for n in counts {
        let got = format!("{}", HumanCount(n));
        let v = if got == group_ref(n) { "ok".to_string() } else { format!("FAIL HumanCount({n}) = {got}") };
        out.emit(&format!("FMT count {n}"), &format!("{got} ORACLE {v}"));
    }
    // FormattedDuration
    let mut secs: Vec<u64> = vec![0, 1, 59, 60, 61, 3599, 3600, 3601, 86399, 86400, 86401, 90061, u64::MAX];
    let _ = &mut secs;
    for _ in 0..nrand / 5 { let bits = rng.below(64); secs.push(rng.next() >> bits); }
    for s in secs {
        let got = format!("{}", FormattedDuration(Duration::new(s, 999_999_999)));
        // parse back
        let (days, hms) = match got.split_once("d ") { Some((d, r)) => (d.parse::<u64>().unwrap_or(u64::MAX), r.to_string()), None => (0, got.clone()) };
        let parts: Vec<u64> = hms.split(':').map(|x| x.parse().unwrap_or(u64::MAX)).collect();
        let back = if parts.len() == 3 && parts[0] < 24 && parts[1] < 60 && parts[2] < 60 { days as u128 * 86400 + parts[0] as u128 * 3600 + parts[1] as u128 * 60 + parts[2] as u128 } else { u128::MAX };
        let v = if back == s as u128 && hms.len() == 8 { "ok".to_string() } else { format!("FAIL FormattedDuration({s}) = {got}") };
        out.emit(&format!("FMT fdur {s}"), &format!("{got} ORACLE {v}"));
    }
    // HumanDuration: all unit boundaries and (n + 1/2) unit, +- 1 ms; random below 2^52 ns
    let mut ds: Vec<u128> = vec![0, 1_000_000, 499_000_000, 500_000_000, 999_000_000];
    let nmax: u128 = if tier == "thorough" { 10_000 } else { 150 };
    for u in UNITS_S { let u = u as u128 * 1_000_000_000; for n in 1..=nmax { for base in [n * u, n * u + u / 2] { for delta in [-1_000_000i128, 0, 1_000_000] { let d = base as i128 + delta; if d >= 0 { ds.push(d as u128); } } } } }
    // the documented switch points: 1.5 unit minus half of the next smaller unit
    for i in 0..5 { let u = UNITS_S[i] as u128 * 1_000_000_000; let nx = UNITS_S[i + 1] as u128 * 1_000_000_000; for delta in [-1_000_000i128, 0, 1_000_000] { ds.push(((u + u / 2 - nx / 2) as i128 + delta) as u128); } }
    for _ in 0..nrand / 5 { let bits = 12 + rng.below(40); ds.push((rng.next() >> bits) as u128); }
    let mut prev: Option<(u128, u128)> = None;
    ds.sort(); ds.dedup();
    for d in ds {
        let dur = Duration::new((d / 1_000_000_000) as u64, (d % 1_000_000_000) as u32);
        let got = format!("{}", HumanDuration(dur));
        let gota = format!("{:#}", HumanDuration(dur));
        // oracle: parse "N unit(s)", never "1 unit" above seconds, value monotone in the duration
        let mut v = "ok".to_string();
        let mut it = got.split(' ');
        let n: u128 = it.next().unwrap().parse().unwrap_or(u128::MAX);
        let name = it.next().unwrap_or("").trim_end_matches('s').to_string();
        let unit = match name.as_str() { "year" => UNITS_S[0], "week" => UNITS_S[1], "day" => UNITS_S[2], "hour" => UNITS_S[3], "minute" => UNITS_S[4], "second" => 1, _ => 0 } as u128 * 1_000_000_000;
        if unit == 0 { v = format!("FAIL unparsable {got}"); }
        else if name != "second" && n < 2 { v = format!("FAIL one unit above seconds: {got}"); }
        else {
            let value = n * unit;
            if let Some((pd, pv)) = prev { if value < pv { v = format!("FAIL not monotone: {pd} ns -> {pv}, {d} ns -> {value}"); } }
            // nearest count: |d - n*unit| <= unit/2 unless clamped to 2
            let diff = if d > value { d - value } else { value - d };
            if v == "ok" && !(2 * diff <= unit || (n == 2 && name != "second")) { v = format!("FAIL not nearest: {d} ns -> {got}"); }
            prev = Some((d, value));
        }
        out.emit(&format!("FMT hdur {d}"), &format!("{got} ORACLE {v}"));
        out.emit(&format!("FMT hdura {d}"), &format!("{gota} ORACLE ok"));
    }
}
