//! C16 — tabs are always expanded: histories of set_tab_width / set_style / set_message / set_prefix in every order.
use crate::common::*;
use indicatif::{ProgressBar, ProgressDrawTarget, ProgressState, ProgressStyle};
use std::fmt::Write as _;

fn cps(s: &str) -> String { if s.is_empty() { "-".into() } else { s.chars().map(|c| (c as u32).to_string()).collect::<Vec<_>>().join(",") } }
fn show(s: &str) -> String { s.chars().map(|c| (c as u32).to_string()).collect::<Vec<_>>().join(".") }

pub fn run(seed: u64, tier: &str, out: &mut Out) {
    let mut rng = Rng::new(seed);
    let n = if tier == "thorough" { 100_000 } else { 4_000 };
    let texts = ["", "m", "\t", "m\t1\t", "\t\tp", "a b", "x\ty"];
    for _ in 0..n {
        let k = rng.range(1, 12);
        let rec = Recorder::new(5, 200, false);
        let pb = ProgressBar::with_draw_target(Some(10), ProgressDrawTarget::term_like(Box::new(rec.clone())));
        let mut case = String::from("TAB");
        let mut has_style = false;
        for _ in 0..k {
            match rng.below(5) {
                0 | 1 => { let w = *rng.pick(&[0usize, 1, 2, 4, 8, 13]); case += &format!(" ; tw {w}"); pb.set_tab_width(w); }
                2 => { case += " ; style"; has_style = true; pb.set_style(ProgressStyle::with_template("a\tb {prefix}|{msg}|{k}").unwrap().with_key("k", |_: &ProgressState, w: &mut dyn std::fmt::Write| { write!(w, "x\ty").unwrap() })); }
                3 => { let t = *rng.pick(&texts); case += &format!(" ; msg {}", cps(t)); pb.set_message(t); }
                _ => { let t = *rng.pick(&texts); case += &format!(" ; prefix {}", cps(t)); pb.set_prefix(t); }
            }
        }
        if !has_style { case += " ; style"; pb.set_style(ProgressStyle::with_template("a\tb {prefix}|{msg}|{k}").unwrap().with_key("k", |_: &ProgressState, w: &mut dyn std::fmt::Write| { write!(w, "x\ty").unwrap() })); }
        { let mut st = rec.st.lock().unwrap(); st.ops.clear(); }
        pb.tick();
        let st = rec.st.lock().unwrap();
        let line = st.ops.iter().find_map(|o| if let Op::Str(s) = o { if !s.trim().is_empty() { Some(s.clone()) } else { None } } else { None }).unwrap_or_default();
        let tab_seen = st.ops.iter().any(|o| matches!(o, Op::Str(s) | Op::Line(s) if s.contains('\t')));
        drop(st);
        let (m, p) = (pb.message(), pb.prefix());
        let verdict = if tab_seen || m.contains('\t') || p.contains('\t') { format!("FAIL tab reached the terminal or a getter: line={line:?} msg={m:?} prefix={p:?}") } else { "ok".into() };
        std::mem::forget(pb);
        out.emit(&case, &format!("line={} msg={} prefix={} ORACLE {verdict}", show(&line), show(&m), show(&p)));
    }
}
