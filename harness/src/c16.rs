//! C16 — tabs are always expanded: histories of set_tab_width / set_style / set_message / set_prefix in every order.
use crate::common::*;
use indicatif::{ProgressBar, ProgressDrawTarget, ProgressState, ProgressStyle};
use std::fmt::Write as _;

fn cps(s: &str) -> String { if s.is_empty() { "-".into() } else { s.chars().map(|c| (c as u32).to_string()).collect::<Vec<_>>().join(",") } }
fn show(s: &str) -> String { s.chars().map(|c| (c as u32).to_string()).collect::<Vec<_>>().join(".") }

pub fn run(seed: u64, tier: &str, out: &mut Out) {
    let mut rng = Rng::new(seed);
    let n = if tier == "thorough" { 100_000 } else { 4_000 };
    let texts = ["", "m", "\t", "m\t1\t", "\t\tp", "a b", "x\ty"];
    for case_no in 0..n {
        // a draw that panics (and poisons the bar) is a failure of that case, not of the harness
        let desc = std::cell::RefCell::new(String::new());
        let r = std::panic::catch_unwind(std::panic::AssertUnwindSafe(|| {
        let k = rng.range(1, 12);
        let rec = Recorder::new(60_000, 200, false);   // tall enough for a line of several 65536-column tabs (nothing is emulated here)
        let pb = ProgressBar::with_draw_target(Some(10), ProgressDrawTarget::term_like(Box::new(rec.clone())));
        let mut case = String::from("TAB");
        let mut has_style = false;
        // independent bookkeeping for the oracle: current tab width, texts as set, what the custom key writes
        let (mut tw, mut msg0, mut pfx0, mut key0) = (8usize, String::new(), String::new(), String::new());
        const KEYS: [&str; 4] = ["x\ty", "a\tb\tc", "\t\t", "no tab"];
        // the custom key writes its text in one piece, character by character, or through format arguments
        let mut set_style = |pb: &ProgressBar, k: usize, mode: u64| { let text = KEYS[k]; pb.set_style(ProgressStyle::with_template("a\tb {prefix}|{msg}|{k}").unwrap().with_key("k", move |_: &ProgressState, w: &mut dyn std::fmt::Write| {
            match mode { 0 => w.write_str(text).unwrap(), 1 => for c in text.chars() { w.write_char(c).unwrap() }, _ => for c in text.chars() { write!(w, "{}", c).unwrap() } } })); };
        let mut cur_k = 0usize;;
        for _ in 0..k {
            match rng.below(7) {
                // a style taken from another bar, which has another tab width (the style carries that width with it)
                6 => { let k = rng.below(4) as usize; case += &format!(" ; style {k}"); has_style = true;
                       let donor = ProgressBar::with_draw_target(Some(10), ProgressDrawTarget::hidden()); donor.set_tab_width(*rng.pick(&[0usize, 2, 3, 8, 13]));
                       set_style(&donor, k, rng.below(3)); pb.set_style(donor.style()); key0 = KEYS[k].to_string(); cur_k = k; }
                // a style derived from the bar's current one (`style().template(..)`): same keys, template parsed anew
                5 if has_style => { case += &format!(" ; style {cur_k}"); let st = pb.style().template("a\tb {prefix}|{msg}|{k}").unwrap(); pb.set_style(st); }
                5 => {}
                0 | 1 => { let w = if rng.chance(1, 40) { 65_536 } else { *rng.pick(&[0usize, 0, 1, 2, 4, 8, 13]) }; case += &format!(" ; tw {w}"); pb.set_tab_width(w); tw = w; }
                2 => { let k = rng.below(4) as usize; case += &format!(" ; style {k}"); has_style = true; set_style(&pb, k, rng.below(3)); key0 = KEYS[k].to_string(); cur_k = k; }
                3 => { let t = *rng.pick(&texts); case += &format!(" ; msg {}", cps(t)); pb.set_message(t); msg0 = t.to_string(); }
                _ => { let t = *rng.pick(&texts); case += &format!(" ; prefix {}", cps(t)); pb.set_prefix(t); pfx0 = t.to_string(); }
            }
        }
        if !has_style { case += " ; style 0"; set_style(&pb, 0, rng.below(3)); key0 = KEYS[0].to_string(); }
        { let mut st = rec.st.lock().unwrap(); st.ops.clear(); }
        *desc.borrow_mut() = case.clone();
        pb.tick();
        let st = rec.st.lock().unwrap();
        let line = st.ops.iter().find_map(|o| if let Op::Str(s) = o { if !s.trim().is_empty() { Some(s.clone()) } else { None } } else { None }).unwrap_or_default();
        let tab_seen = st.ops.iter().any(|o| matches!(o, Op::Str(s) | Op::Line(s) if s.contains('\t')));
        drop(st);
        let (m, p) = (pb.message(), pb.prefix());
        let ex = |t: &str| t.replace('\t', &" ".repeat(tw));
        let want_line = format!("{}{}|{}|{}", ex("a\tb "), ex(&pfx0), ex(&msg0), ex(&key0));
        let verdict = if tab_seen || m.contains('\t') || p.contains('\t') { format!("FAIL tab reached the terminal or a getter: line={line:?} msg={m:?} prefix={p:?}") }
            else if m != ex(&msg0) || p != ex(&pfx0) { format!("FAIL getter-not-expanded tab width {tw}: message()={m:?} wanted {:?}, prefix()={p:?} wanted {:?}", ex(&msg0), ex(&pfx0)) }
            else if line.trim_end() != want_line.trim_end() { format!("FAIL line-not-expanded tab width {tw}: line={line:?} wanted {want_line:?}") } else { "ok".into() };
        std::mem::forget(pb);
        out.emit(&case, &format!("line={} msg={} prefix={} ORACLE {verdict}", show(&line), show(&m), show(&p)));
        }));
        if r.is_err() { out.emit(&format!("NOMODEL PANIC C16 case {case_no}"), &format!(" ORACLE FAIL panic while drawing after {}", desc.borrow())); }
    }
}

/// C16C — tab width and texts set from two threads at once: in every round one thread sets a message (or prefix) with TABs
/// while another changes the tab width (both released together by a barrier); when both calls have returned, the getter and
/// the rendered line must be expanded with the tab width that is in force — whichever call went first.
pub fn run_concurrent(seed: u64, tier: &str, out: &mut Out) {
    use std::sync::{Arc, Barrier};
    let mut rng = Rng::new(seed ^ 0x16c);
    let rounds = if tier == "thorough" { 60_000 } else { 4_000 };
    let rec = Recorder::new(4, 200, false);
    let pb = ProgressBar::with_draw_target(Some(10), ProgressDrawTarget::term_like(Box::new(rec.clone())));
    pb.set_style(ProgressStyle::with_template("{prefix}|{msg}").unwrap());
    let (b1, b2) = (Arc::new(Barrier::new(3)), Arc::new(Barrier::new(3)));
    let plan: Vec<(bool, usize)> = (0..rounds).map(|i| (rng.chance(1, 2), [2usize, 4, 8, 3][i % 4])).collect();
    let (pa, pw) = (plan.clone(), plan.clone());
    let (pba, pbw) = (pb.clone(), pb.clone());
    let (a1, a2, w1, w2) = (b1.clone(), b2.clone(), b1.clone(), b2.clone());
    let ta = std::thread::spawn(move || for (i, (msg, _)) in pa.iter().enumerate() { a1.wait(); let t = format!("a\tb{i}"); if *msg { pba.set_message(t) } else { pba.set_prefix(t) } a2.wait(); });
    let tw = std::thread::spawn(move || for (_, w) in pw.iter() { w1.wait(); pbw.set_tab_width(*w); w2.wait(); });
    let mut verdict = String::from("ok");
    let mut bad = 0usize;
    for (i, (msg, w)) in plan.iter().enumerate() {
        b1.wait(); b2.wait();
        let got = if *msg { pb.message() } else { pb.prefix() };
        let want = format!("a{}b{i}", " ".repeat(*w));
        if got != want { bad += 1; if verdict == "ok" { verdict = format!("FAIL stale-tab-width round {i}: {} set concurrently with set_tab_width({w}) reads {got:?}, expected {want:?}", if *msg { "message" } else { "prefix" }); } }
    }
    let _ = (ta.join(), tw.join());
    std::mem::forget(pb);
    out.emit(&format!("NOMODEL TABRACE rounds={rounds}"), &format!("stale={bad} ORACLE {verdict}"));
}
