//! C17: adaptors are transparent and count exactly.
//! A scripted source/sink (short transfers, errors, `Pending`) is driven by a random call sequence
//! twice: bare and wrapped by the progress bar.  Oracle: identical results, and the position moves
//! by exactly what was transferred.
use crate::common::{Out, Rng};
use indicatif::{ProgressBar, ProgressDrawTarget, ProgressFinish, ProgressIterator, ParallelProgressIterator};
use std::io::{self, BufRead, IoSlice, IoSliceMut, Read, Seek, SeekFrom, Write};
use std::pin::Pin;
use std::task::{Context, Poll, Waker};

#[derive(Clone, Debug)]
enum Plan { Max(usize), Err, Pending }

/// Scripted in-memory object: every call consumes one plan entry (cyclically).
#[derive(Clone)]
struct Obj { data: Vec<u8>, pos: usize, plan: Vec<Plan>, call: usize, cap: usize, sink: Vec<u8>, seek_to: Option<u64> }
impl Obj {
    fn step(&mut self) -> Plan { let p = self.plan[self.call % self.plan.len()].clone(); self.call += 1; p }
    fn step_sync(&mut self) -> Plan { match self.step() { Plan::Pending => Plan::Max(1), p => p } }
    fn err() -> io::Error { io::Error::new(io::ErrorKind::Other, "scripted") }
}
impl Read for Obj {
    fn read(&mut self, buf: &mut [u8]) -> io::Result<usize> {
        match self.step_sync() { Plan::Err => Err(Obj::err()), Plan::Max(n) => { let k = n.min(buf.len()).min(self.data.len() - self.pos); buf[..k].copy_from_slice(&self.data[self.pos..self.pos + k]); self.pos += k; Ok(k) } Plan::Pending => unreachable!() }
    }
}
impl BufRead for Obj {
    fn fill_buf(&mut self) -> io::Result<&[u8]> {
        match self.step_sync() { Plan::Err => Err(Obj::err()), _ => { let e = (self.pos + self.cap).min(self.data.len()); Ok(&self.data[self.pos..e]) } }
    }
    fn consume(&mut self, amt: usize) { self.pos = (self.pos + amt).min(self.data.len()); }
}
impl Seek for Obj {
    fn seek(&mut self, f: SeekFrom) -> io::Result<u64> {
        if let Plan::Err = self.step_sync() { return Err(Obj::err()); }
        let np: i128 = match f { SeekFrom::Start(p) => p as i128, SeekFrom::End(d) => self.data.len() as i128 + d as i128, SeekFrom::Current(d) => self.pos as i128 + d as i128 };
        if np < 0 { return Err(io::Error::new(io::ErrorKind::InvalidInput, "negative")); }
        self.pos = (np as usize).min(self.data.len()); Ok(np as u64)
    }
}
impl Write for Obj {
    fn write(&mut self, buf: &[u8]) -> io::Result<usize> {
        match self.step_sync() { Plan::Err => Err(Obj::err()), Plan::Max(n) => { let k = n.min(buf.len()); self.sink.extend_from_slice(&buf[..k]); Ok(k) } Plan::Pending => unreachable!() }
    }
    fn flush(&mut self) -> io::Result<()> { match self.step_sync() { Plan::Err => Err(Obj::err()), _ => Ok(()) } }
}
impl tokio::io::AsyncRead for Obj {
    fn poll_read(mut self: Pin<&mut Self>, _cx: &mut Context<'_>, buf: &mut tokio::io::ReadBuf<'_>) -> Poll<io::Result<()>> {
        match self.step() { Plan::Pending => Poll::Pending, Plan::Err => Poll::Ready(Err(Obj::err())), Plan::Max(n) => { let k = n.min(buf.remaining()).min(self.data.len() - self.pos); let p = self.pos; buf.put_slice(&self.data[p..p + k]); self.pos += k; Poll::Ready(Ok(())) } }
    }
}
impl tokio::io::AsyncBufRead for Obj {
    fn poll_fill_buf(self: Pin<&mut Self>, _cx: &mut Context<'_>) -> Poll<io::Result<&[u8]>> {
        let this = self.get_mut();
        match this.step() { Plan::Pending => Poll::Pending, Plan::Err => Poll::Ready(Err(Obj::err())), _ => { let e = (this.pos + this.cap).min(this.data.len()); Poll::Ready(Ok(&this.data[this.pos..e])) } }
    }
    fn consume(mut self: Pin<&mut Self>, amt: usize) { self.pos = (self.pos + amt).min(self.data.len()); }
}
impl tokio::io::AsyncSeek for Obj {
    fn start_seek(mut self: Pin<&mut Self>, f: SeekFrom) -> io::Result<()> {
        let np: i128 = match f { SeekFrom::Start(p) => p as i128, SeekFrom::End(d) => self.data.len() as i128 + d as i128, SeekFrom::Current(d) => self.pos as i128 + d as i128 };
        if np < 0 { return Err(io::Error::new(io::ErrorKind::InvalidInput, "negative")); }
        self.seek_to = Some(np as u64); Ok(())
    }
    fn poll_complete(mut self: Pin<&mut Self>, _cx: &mut Context<'_>) -> Poll<io::Result<u64>> {
        match self.step() { Plan::Pending => Poll::Pending, Plan::Err => { self.seek_to = None; Poll::Ready(Err(Obj::err())) } _ => { if let Some(p) = self.seek_to.take() { self.pos = (p as usize).min(self.data.len()); Poll::Ready(Ok(p)) } else { Poll::Ready(Ok(self.pos as u64)) } } }
    }
}
impl tokio::io::AsyncWrite for Obj {
    fn poll_write(mut self: Pin<&mut Self>, _cx: &mut Context<'_>, buf: &[u8]) -> Poll<io::Result<usize>> {
        match self.step() { Plan::Pending => Poll::Pending, Plan::Err => Poll::Ready(Err(Obj::err())), Plan::Max(n) => { let k = n.min(buf.len()); self.sink.extend_from_slice(&buf[..k]); Poll::Ready(Ok(k)) } }
    }
    fn poll_flush(mut self: Pin<&mut Self>, _cx: &mut Context<'_>) -> Poll<io::Result<()>> { match self.step() { Plan::Err => Poll::Ready(Err(Obj::err())), Plan::Pending => Poll::Pending, _ => Poll::Ready(Ok(())) } }
    fn poll_shutdown(mut self: Pin<&mut Self>, _cx: &mut Context<'_>) -> Poll<io::Result<()>> { match self.step() { Plan::Err => Poll::Ready(Err(Obj::err())), Plan::Pending => Poll::Pending, _ => Poll::Ready(Ok(())) } }
}
/// scripted stream / iterator of `n` items
#[derive(Clone)]
struct Items { n: usize, next: usize, plan: Vec<Plan>, call: usize }
impl Iterator for Items { type Item = usize; fn next(&mut self) -> Option<usize> { if self.next < self.n { self.next += 1; Some(self.next - 1) } else { None } } fn size_hint(&self) -> (usize, Option<usize>) { (self.n - self.next, Some(self.n - self.next)) } }
impl futures_core::Stream for Items {
    type Item = usize;
    fn poll_next(mut self: Pin<&mut Self>, _cx: &mut Context<'_>) -> Poll<Option<usize>> {
        let p = self.plan[self.call % self.plan.len()].clone(); self.call += 1;
        if let Plan::Pending = p { return Poll::Pending; }
        Poll::Ready(Iterator::next(&mut *self))
    }
    fn size_hint(&self) -> (usize, Option<usize>) { (self.n - self.next, Some(self.n - self.next)) }
}

#[derive(Clone, Debug)]
enum Call { ReadToEnd(usize), Read(usize), ReadVec(usize, usize), ReadExact(usize), ReadToString, FillBuf, Consume(usize), Seek(u8, i64), StreamPos, Write(usize), WriteVec(usize, usize), Flush,
            ARead(usize), AFill, AConsume(usize), ASeek(u8, i64), AWrite(usize), AFlush, AShutdown }

fn seek_from(kind: u8, d: i64) -> SeekFrom { match kind { 0 => SeekFrom::Start(d.unsigned_abs()), 1 => SeekFrom::End(d), _ => SeekFrom::Current(d) } }
fn res<T: std::fmt::Debug>(r: &io::Result<T>) -> String { match r { Ok(v) => format!("ok:{v:?}"), Err(e) => format!("err:{:?}", e.kind()) } }
fn pres<T: std::fmt::Debug>(r: &Poll<io::Result<T>>) -> String { match r { Poll::Pending => "pending".into(), Poll::Ready(r) => res(r) } }

/// run one call; returns (observable result, bytes transferred by a successful counted call or absolute position)
fn apply<T: Read + BufRead + Seek + Write + tokio::io::AsyncRead + tokio::io::AsyncBufRead + tokio::io::AsyncSeek + tokio::io::AsyncWrite + Unpin>(o: &mut T, c: &Call, last_fill: &mut usize) -> (String, Expect) {
    let waker = Waker::noop(); let mut cx = Context::from_waker(&waker);
    match c {
        Call::Read(n) => { let mut b = vec![0u8; *n]; let r = o.read(&mut b); (format!("{} {:?}", res(&r), &b), r.map_or(Expect::Same, |k| Expect::Add(k as u64))) }
        Call::ReadVec(a, b2) => { let mut x = vec![0u8; *a]; let mut y = vec![0u8; *b2]; let r = { let mut bufs = [IoSliceMut::new(&mut x), IoSliceMut::new(&mut y)]; o.read_vectored(&mut bufs) }; (format!("{} {:?} {:?}", res(&r), x, y), r.map_or(Expect::Same, |k| Expect::Add(k as u64))) }
        Call::ReadExact(n) => { let mut b = vec![0u8; *n]; let r = o.read_exact(&mut b); (format!("{}", res(&r)), if r.is_ok() { Expect::Add(*n as u64) } else { Expect::Unknown }) }
        Call::ReadToEnd(pre) => { let mut v = vec![b'#'; *pre]; let r = o.read_to_end(&mut v); (format!("{} {v:?}", res(&r)), Expect::Add((v.len() - *pre) as u64)) }   // bytes appended, also when an error ends the call
        Call::ReadToString => { let mut s = String::new(); let r = o.read_to_string(&mut s); (format!("{} {s:?}", res(&r)), if let Ok(k) = r { Expect::Add(k as u64) } else { Expect::Unknown }) }
        Call::FillBuf => { let r = o.fill_buf().map(|b| b.to_vec()); *last_fill = r.as_ref().map_or(0, |b| b.len()); (res(&r), Expect::Same) }
        Call::Consume(n) => { let k = (*n).min(*last_fill); BufRead::consume(o, k); *last_fill -= k; ("()".into(), Expect::Add(k as u64)) }
        Call::Seek(k, d) => { let r = o.seek(seek_from(*k, *d)); (res(&r), r.map_or(Expect::Same, Expect::Set)) }
        Call::StreamPos => { let r = o.stream_position(); (res(&r), Expect::Unknown) }
        Call::Write(n) => { let b = vec![7u8; *n]; let r = o.write(&b); (res(&r), r.map_or(Expect::Same, |k| Expect::Add(k as u64))) }
        Call::WriteVec(a, b2) => { let x = vec![1u8; *a]; let y = vec![2u8; *b2]; let r = o.write_vectored(&[IoSlice::new(&x), IoSlice::new(&y)]); (res(&r), r.map_or(Expect::Same, |k| Expect::Add(k as u64))) }
        Call::Flush => { let r = o.flush(); (res(&r), Expect::Same) }
        Call::ARead(n) => { let mut b = vec![0u8; *n]; let mut rb = tokio::io::ReadBuf::new(&mut b); let r = Pin::new(&mut *o).poll_read(&mut cx, &mut rb); let k = rb.filled().len(); (format!("{} {:?}", pres(&r), rb.filled()), Expect::Add(k as u64)) }
        Call::AFill => { let r = Pin::new(&mut *o).poll_fill_buf(&mut cx).map(|r| r.map(|b| b.to_vec())); if let Poll::Ready(Ok(b)) = &r { *last_fill = b.len(); } (pres(&r), Expect::Same) }
        Call::AConsume(n) => { let k = (*n).min(*last_fill); tokio::io::AsyncBufRead::consume(Pin::new(&mut *o), k); *last_fill -= k; ("()".into(), Expect::Add(k as u64)) }
        Call::ASeek(k, d) => { let s = Pin::new(&mut *o).start_seek(seek_from(*k, *d)); if s.is_err() { return (res(&s), Expect::Same); } let mut tries = 0; loop { let r = Pin::new(&mut *o).poll_complete(&mut cx); tries += 1; if let Poll::Ready(r) = r { return (format!("{} after {tries}", res(&r)), r.map_or(Expect::Same, Expect::Set)); } if tries >= 8 { return ("pending".into(), Expect::Unknown); } } }
        Call::AWrite(n) => { let b = vec![9u8; *n]; let r = Pin::new(&mut *o).poll_write(&mut cx, &b); (pres(&r), match r { Poll::Ready(Ok(k)) => Expect::Add(k as u64), _ => Expect::Same }) }
        Call::AFlush => { let r = Pin::new(&mut *o).poll_flush(&mut cx); (pres(&r), Expect::Same) }
        Call::AShutdown => { let r = Pin::new(&mut *o).poll_shutdown(&mut cx); (pres(&r), Expect::Same) }
    }
}
#[derive(Debug, Clone, Copy)]
enum Expect { Same, Add(u64), Set(u64), Unknown }

/// the call and its underlying outcome in the vocabulary of `Model/Adaptors`
fn token(c: &Call, r: &str, exp: Expect, last_fill: usize) -> String {
    let outcome = |r: &str| -> String { if r.starts_with("ok:") { let d: String = r[3..].chars().take_while(|ch| ch.is_ascii_digit()).collect(); format!("ok {}", if d.is_empty() { "0".into() } else { d }) } else if r.starts_with("pending") { "pending".into() } else { "err".into() } };
    let status = |r: &str| -> &'static str { if r.starts_with("ok:") { "ok" } else if r.starts_with("pending") { "pending" } else { "err" } };
    match c {
        Call::ReadToEnd(_) => format!("t ok {}", if let Expect::Add(k) = exp { k } else { 0 }),
        Call::Read(_) | Call::ReadVec(..) | Call::ReadToString | Call::Write(_) | Call::WriteVec(..) | Call::AWrite(_) => format!("t {}", outcome(r)),
        Call::ReadExact(n) => format!("rx {n} {}", status(r)),
        Call::ARead(_) => format!("pr {} {}", if let Expect::Add(k) = exp { k } else { 0 }, status(r)),
        Call::FillBuf | Call::StreamPos | Call::Flush | Call::AFlush | Call::AShutdown => "nc".into(),
        Call::Consume(_) => format!("co {}", if let Expect::Add(k) = exp { k } else { 0 }),
        Call::AConsume(_) => format!("ac {}", if let Expect::Add(k) = exp { k } else { 0 }),
        Call::Seek(..) => format!("sk {}", outcome(r)),
        Call::AFill => match status(r) { "ok" => format!("pf ok {last_fill}"), s => format!("pf {s}") },
        Call::ASeek(..) => if r.contains(" after ") { format!("pc {}", outcome(r)) } else if r.starts_with("pending") { "pc pending".into() } else { "nc".into() },
    }
}

fn gen_plan(rng: &mut Rng) -> Vec<Plan> { (0..rng.range(1, 6)).map(|_| match rng.below(8) { 0 => Plan::Err, 1 => Plan::Pending, 2 => Plan::Max(0), 3 => Plan::Max(1), _ => Plan::Max(rng.range(1, 9) as usize) }).collect() }

fn io_case(rng: &mut Rng) -> (String, String) {
    let data: Vec<u8> = (0..rng.below(40)).map(|_| b'a' + rng.below(26) as u8).collect();
    let obj = Obj { data, pos: 0, plan: gen_plan(rng), call: 0, cap: rng.range(1, 8) as usize, sink: vec![], seek_to: None };
    let calls: Vec<Call> = (0..rng.range(1, 14)).map(|_| match rng.below(19) {
        17 => Call::AFlush, 18 => Call::AShutdown,
        16 => Call::ReadToEnd(*rng.pick(&[0usize, 0, 1, 4, 16])),
        0 => Call::Read(rng.below(10) as usize), 1 => Call::ReadVec(rng.below(5) as usize, rng.below(5) as usize), 2 => Call::ReadExact(rng.below(6) as usize), 3 => Call::ReadToString,
        4 => Call::FillBuf, 5 => Call::Consume(rng.below(9) as usize), 6 => Call::Seek(rng.below(3) as u8, rng.below(50) as i64 - 10), 7 => Call::StreamPos,
        8 => Call::Write(rng.below(10) as usize), 9 => Call::WriteVec(rng.below(5) as usize, rng.below(5) as usize), 10 => Call::Flush,
        11 => Call::ARead(rng.below(10) as usize), 12 => Call::AFill, 13 => Call::AConsume(rng.below(9) as usize), 14 => Call::ASeek(rng.below(3) as u8, rng.below(50) as i64 - 10), _ => Call::AWrite(rng.below(10) as usize) }).collect();
    let case = format!("IO plan={:?} cap={} len={} calls={:?}", obj.plan, obj.cap, obj.data.len(), calls);
    let pb = ProgressBar::with_draw_target(Some(1000), ProgressDrawTarget::hidden());
    let mut bare = obj.clone();
    // the same wrapper type serves read, write, seek and the async traits: every constructor must hand out the same thing
    let mut wrapped = match rng.below(4) { 0 => pb.wrap_read(obj), 1 => pb.wrap_write(obj), 2 => pb.wrap_async_read(obj), _ => pb.wrap_async_write(obj) };
    let (mut lf1, mut lf2) = (0usize, 0usize);
    let mut verdict = String::from("ok");
    let mut toks: Vec<String> = Vec::new(); let mut positions: Vec<String> = Vec::new();
    for (i, c) in calls.iter().enumerate() {
        let before = pb.position();
        let (r1, _) = apply(&mut bare, c, &mut lf1);
        let (r2, exp) = apply(&mut wrapped, c, &mut lf2);
        let after = pb.position();
        toks.push(token(c, &r2, exp, lf2)); positions.push(after.to_string());
        if r1 != r2 && verdict == "ok" { verdict = format!("FAIL not-transparent call={i} {c:?} bare={r1} wrapped={r2}"); }
        let want = match exp { Expect::Same => Some(before), Expect::Add(k) => Some(before + k), Expect::Set(p) => Some(p), Expect::Unknown => None };
        if let Some(w) = want { if after != w && verdict == "ok" { verdict = format!("FAIL miscount call={i} {c:?} result={r2} position {before}->{after} expected {w}"); } }
    }
    let _ = case;
    (format!("ADAPT FX={} 0 ; {}", crate::common::fx("adapt"), toks.join(" ; ")), format!("{} ORACLE {verdict}", positions.join(" ")))
}

fn iter_case(rng: &mut Rng) -> (String, String) {
    let n = rng.below(12) as usize;
    let items = Items { n, next: 0, plan: gen_plan(rng), call: 0 };
    let stream = rng.chance(1, 2);
    let fin = match rng.below(3) { 0 => ProgressFinish::AndLeave, 1 => ProgressFinish::Abandon, _ => ProgressFinish::WithMessage("done".into()) };
    let extra = rng.range(0, 3) as usize;
    let case = format!("ITER stream={stream} n={n} plan={:?} extra-polls={extra} finish={fin:?}", items.plan);
    let pb = ProgressBar::with_draw_target(Some(n as u64 + 5), ProgressDrawTarget::hidden()).with_finish(fin.clone());
    let mut verdict = String::from("ok");
    let waker = Waker::noop(); let mut cx = Context::from_waker(&waker);
    let mut got = 0usize;
    if stream {
        use futures_core::Stream;
        let mut w = pb.wrap_stream(items.clone());
        let (lo, hi) = Stream::size_hint(&w); let (blo, bhi) = Stream::size_hint(&items);
        if (lo, hi) != (blo, bhi) { verdict = format!("FAIL not-transparent size_hint bare={:?} wrapped={:?}", (blo, bhi), (lo, hi)); }
        let mut ended = 0usize;
        for _ in 0..200 {
            match Pin::new(&mut w).poll_next(&mut cx) {
                Poll::Pending => { if pb.position() != got as u64 && ended == 0 { verdict = format!("FAIL miscount pending-poll position={} items={got}", pb.position()); break; } }
                Poll::Ready(Some(v)) => { if v != got { verdict = format!("FAIL not-transparent item {v} expected {got}"); break; } got += 1; if pb.position() != got as u64 { verdict = format!("FAIL miscount item position={} items={got}", pb.position()); break; } }
                Poll::Ready(None) => {
                    ended += 1;
                    if ended == 1 { if !pb.is_finished() { verdict = "FAIL not-finished-at-end".into(); break; } pb.set_position(1); pb.set_message("mine"); }
                    else if pb.position() != 1 || pb.message() != "mine" { verdict = format!("FAIL finish-applied-again poll-after-end={ended} position={} message={:?}", pb.position(), pb.message()); break; }
                    if ended > extra { break; }
                }
            }
        }
    } else {
        let mut w = pb.wrap_iter(items.clone());
        let (h1, h2) = (Iterator::size_hint(&w), Iterator::size_hint(&items));
        if h1 != h2 { verdict = format!("FAIL not-transparent size_hint bare={h2:?} wrapped={h1:?}"); }
        let mut ended = 0usize;
        loop {
            match w.next() {
                Some(v) => { if v != got { verdict = format!("FAIL not-transparent item {v} expected {got}"); break; } got += 1; if pb.position() != got as u64 { verdict = format!("FAIL miscount item position={} items={got}", pb.position()); break; } }
                None => {
                    ended += 1;
                    if ended == 1 { if !pb.is_finished() { verdict = "FAIL not-finished-at-end".into(); break; } pb.set_position(1); pb.set_message("mine"); }
                    else if pb.position() != 1 || pb.message() != "mine" { verdict = format!("FAIL finish-applied-again call-after-end={ended} position={} message={:?}", pb.position(), pb.message()); break; }
                    if ended > extra { break; }
                }
            }
        }
    }
    (case, verdict)
}

/// one bar, several passes: a wrapped iterator is driven to its end, the bar is reset, and a second wrapper around the same bar is
/// driven to its end — every pass finishes the bar by the behaviour it was configured with (position, message, finished), not only
/// the first one
fn iter_passes_case(rng: &mut Rng) -> (String, String) {
    let n = rng.range(1, 8);
    let fin = rng.below(5);
    let len: Option<u64> = match rng.below(3) { 0 => None, 1 => Some(n), _ => Some(n + rng.range(1, 5)) };
    let finish = match fin { 0 => ProgressFinish::AndLeave, 1 => ProgressFinish::AndClear, 2 => ProgressFinish::WithMessage("done".into()), 3 => ProgressFinish::Abandon, _ => ProgressFinish::AbandonWithMessage("stop".into()) };
    let pb = match len { Some(l) => ProgressBar::with_draw_target(Some(l), ProgressDrawTarget::hidden()), None => ProgressBar::with_draw_target(None, ProgressDrawTarget::hidden()) }.with_finish(finish);
    let by_drop = rng.chance(1, 3);
    let case = format!("ITERPASSES n={n} len={len:?} finish={fin} second_by_drop={by_drop}");
    let mut verdict = String::from("ok");
    for pass in 0..3 {
        pb.set_message("m");
        let got: u64 = if pass == 2 && by_drop { let mut it = pb.wrap_iter(0..n); let _ = it.next(); drop(it); 1 } else { pb.wrap_iter(0..n).count() as u64 };
        // (a wrapper dropped before its end does not finish the bar; only the last handle does, which this harness keeps)
        let exhausted = !(pass == 2 && by_drop);
        let want_pos = if !exhausted { got } else if fin <= 2 { len.unwrap_or(n) } else { n };
        let want_msg = if !exhausted { "m" } else { match fin { 2 => "done", 4 => "stop", _ => "m" } };
        if verdict == "ok" && (pb.is_finished() != exhausted || pb.position() != want_pos || pb.message() != want_msg) {
            verdict = format!("FAIL pass {pass}: after the iterator's end the bar has finished={} position={} message={:?}, its finish behaviour gives finished={exhausted} position={want_pos} message={want_msg:?}", pb.is_finished(), pb.position(), pb.message());
        }
        pb.reset();
    }
    std::mem::forget(pb);
    (case, verdict)
}

/// the `ProgressIterator` constructors (`progress`, `progress_count`, `progress_with_style`, `try_progress`) and the builder methods
/// of `ProgressBarIter` (`with_*`): the wrapper they give has the length / position / texts / finish behaviour asked for, hands out
/// the same items and the same `len()` / `size_hint()` as the bare iterator, and counts them
fn iter_ctor_case(rng: &mut Rng) -> (String, String) {
    let n = rng.below(9) as usize;
    let ctor = rng.below(4);
    let p0: u64 = *rng.pick(&[0u64, 0, 3, 100]);
    let abandon = rng.chance(1, 2);
    let take = rng.below(n as u64 + 2) as usize;
    let case = format!("ITERCTOR ctor={ctor} n={n} with_position={p0} abandon={abandon} take={take}");
    let base = || Counted { n, next: 0, pulled: std::sync::Arc::new(std::sync::atomic::AtomicUsize::new(0)) };
    let (mut w, want_len): (indicatif::ProgressBarIter<Counted>, Option<u64>) = match ctor {
        0 => (base().progress(), Some(n as u64)),
        1 => (base().progress_count(n as u64 + 7), Some(n as u64 + 7)),
        2 => (base().progress_with_style(indicatif::ProgressStyle::with_template("{pos}/{len} {msg}").unwrap()), Some(n as u64)),
        _ => match base().try_progress() { Some(w) => (w, Some(n as u64)), None => return (case, "FAIL try_progress gave None for an iterator with an upper size bound".into()) },
    };
    w = w.with_position(p0).with_message("m\tm").with_prefix("p").with_elapsed(std::time::Duration::from_secs(5));
    w = w.with_finish(if abandon { ProgressFinish::Abandon } else { ProgressFinish::AndLeave });
    if rng.chance(1, 2) { w = w.with_style(indicatif::ProgressStyle::with_template("{prefix} {pos}").unwrap()); }
    let pb = w.progress.clone();
    let mut verdict = String::from("ok");
    let mut fail = |v: &mut String, m: String| { if v == "ok" { *v = m; } };
    if pb.length() != want_len { fail(&mut verdict, format!("FAIL constructor length {:?}, expected {want_len:?}", pb.length())); }
    if pb.position() != p0 { fail(&mut verdict, format!("FAIL with_position {} instead of {p0}", pb.position())); }
    if pb.message() != "m        m" || pb.prefix() != "p" { fail(&mut verdict, format!("FAIL with_message/with_prefix: {:?} {:?}", pb.message(), pb.prefix())); }
    if pb.elapsed() < std::time::Duration::from_secs(5) { fail(&mut verdict, format!("FAIL with_elapsed: elapsed {:?}", pb.elapsed())); }
    if ExactSizeIterator::len(&w) != n || Iterator::size_hint(&w) != (n, Some(n)) { fail(&mut verdict, format!("FAIL not-transparent len/size_hint {} {:?} for {n} items", ExactSizeIterator::len(&w), Iterator::size_hint(&w))); }
    let mut got = Vec::new();
    for _ in 0..take { match w.next() { Some(x) => got.push(x), None => break } }
    let want: Vec<usize> = (0..n.min(take)).collect();
    if got != want { fail(&mut verdict, format!("FAIL not-transparent items {got:?} expected {want:?}")); }
    let ended = take > n;
    let want_pos = if ended && !abandon { want_len.unwrap() } else { p0 + want.len() as u64 };
    if pb.position() != want_pos { fail(&mut verdict, format!("FAIL miscount position {} expected {want_pos} (ended={ended})", pb.position())); }
    if pb.is_finished() != ended { fail(&mut verdict, format!("FAIL finish finished={} ended={ended}", pb.is_finished())); }
    if ExactSizeIterator::len(&w) != n - want.len() { fail(&mut verdict, format!("FAIL not-transparent len after {} items: {}", want.len(), ExactSizeIterator::len(&w))); }
    (case, verdict)
}

/// counts what is pulled out of the underlying iterator, however the caller consumes the wrapper
#[derive(Clone)]
struct Counted { n: usize, next: usize, pulled: std::sync::Arc<std::sync::atomic::AtomicUsize> }
impl Iterator for Counted {
    type Item = usize;
    fn next(&mut self) -> Option<usize> { if self.next < self.n { self.next += 1; self.pulled.fetch_add(1, std::sync::atomic::Ordering::SeqCst); Some(self.next - 1) } else { None } }
    fn size_hint(&self) -> (usize, Option<usize>) { (self.n - self.next, Some(self.n - self.next)) }
}
impl ExactSizeIterator for Counted {}
impl DoubleEndedIterator for Counted {
    fn next_back(&mut self) -> Option<usize> { if self.next < self.n { self.n -= 1; self.pulled.fetch_add(1, std::sync::atomic::Ordering::SeqCst); Some(self.n) } else { None } }
}

/// every way of consuming a wrapped iterator through the adaptor methods of `Iterator`: the caller sees the
/// same items as without the wrapper and the position equals the number of items pulled from the source
fn iter_modes_case(rng: &mut Rng) -> (String, String) {
    let n = rng.below(14) as usize;
    let k = rng.range(1, 6) as usize;
    let mode = rng.below(11);
    let name = ["next", "nth-loop", "step_by", "skip", "last", "count", "take", "rev", "nth-once", "zip-short", "skip-take"][mode as usize];
    let run = |it: &mut dyn FnMut() -> Box<dyn Iterator<Item = usize>>| -> Vec<usize> { it().collect() };
    let _ = run;
    let consume = |it: Box<dyn DoubleEndedIterator<Item = usize>>| -> Vec<usize> {
        let mut it = it;
        match mode {
            0 => it.collect(),
            1 => { let mut v = Vec::new(); while let Some(x) = it.nth(k - 1) { v.push(x); } v }
            2 => it.step_by(k).collect(),
            3 => it.skip(k).collect(),
            4 => it.last().into_iter().collect(),
            5 => vec![it.count()],
            6 => it.take(k).collect(),
            7 => it.rev().collect(),
            8 => it.nth(k).into_iter().collect(),
            9 => it.zip(0..k).map(|(a, _)| a).collect(),
            _ => it.skip(k).take(2).collect(),
        }
    };
    let bare_pulled = std::sync::Arc::new(std::sync::atomic::AtomicUsize::new(0));
    let bare = consume(Box::new(Counted { n, next: 0, pulled: bare_pulled.clone() }));
    let pulled = std::sync::Arc::new(std::sync::atomic::AtomicUsize::new(0));
    let pb = ProgressBar::with_draw_target(None, ProgressDrawTarget::hidden()).with_finish(ProgressFinish::Abandon);
    let got = consume(Box::new(pb.wrap_iter(Counted { n, next: 0, pulled: pulled.clone() })));
    let (p, b) = (pulled.load(std::sync::atomic::Ordering::SeqCst), bare_pulled.load(std::sync::atomic::Ordering::SeqCst));
    let verdict = if got != bare { format!("FAIL not-transparent iterator {name}({k}) over {n} items: {got:?} vs {bare:?}") }
        else if p != b { format!("FAIL not-transparent iterator {name}({k}) over {n} items pulls {p} items from the source, {b} without the wrapper") }
        else if pb.position() != p as u64 { format!("FAIL miscount iterator {name}({k}) over {n} items: position {} after {p} items were pulled", pb.position()) } else { "ok".into() };
    (format!("ITERMODE {name} k={k} n={n}"), verdict)
}

fn rayon_case(rng: &mut Rng) -> (String, String) {
    use rayon::prelude::*;
    let n = *rng.pick(&[0usize, 1, 2, 3, 7, 64, 100, 1000, 4097]);
    let min_len = *rng.pick(&[1usize, 2, 16, 5000]);
    let mode = rng.below(13);
    let target = if n == 0 { 0 } else { rng.below(n as u64) as usize };
    let case = format!("RAYON n={n} min_len={min_len} mode={mode} target={target}");
    let pb = ProgressBar::with_draw_target(Some(n as u64), ProgressDrawTarget::hidden());
    let v: Vec<usize> = (0..n).collect();
    #[allow(unused_assignments)]
    let mut verdict = String::from("ok");
    let max_seen = std::sync::atomic::AtomicU64::new(0);
    let see = |_: &usize| { let p = pb.position(); max_seen.fetch_max(p, std::sync::atomic::Ordering::Relaxed); };
    let consumed: usize = match mode {
        0 => v.par_iter().with_min_len(min_len).progress_with(pb.clone()).inspect(|x| see(x)).count(),
        1 => v.par_iter().with_min_len(min_len).progress_with(pb.clone()).enumerate().map(|(_, x)| { see(x); 1usize }).sum(),
        2 => v.par_iter().with_min_len(min_len).progress_with(pb.clone()).zip(v.par_iter()).map(|(x, _)| { see(x); 1usize }).sum(),
        3 => v.par_iter().filter(|x| **x % 3 != 1).progress_with(pb.clone()).inspect(|x| see(x)).count(),
        // an unindexed source (the consumer is split with split_off_left / to_reducer), reversed and chunked indexed ones (the producer is
        // driven from the back), collect_into_vec (the wrapper's own `drive`), and the trait constructors
        7 => (0..n).into_iter().par_bridge().progress_with(pb.clone()).inspect(|x| see(x)).count(),
        8 => v.par_iter().with_min_len(min_len).progress_with(pb.clone()).rev().inspect(|x| see(x)).count(),
        9 => { let mut o: Vec<usize> = Vec::new(); v.par_iter().with_min_len(min_len).progress_with(pb.clone()).map(|x| { see(x); *x }).collect_into_vec(&mut o); if o != v { verdict = format!("FAIL not-transparent collect_into_vec {} items of {n}", o.len()); } o.len() }
        10 => v.par_iter().flat_map_iter(|x| std::iter::once(*x)).progress_with(pb.clone()).inspect(|x| see(x)).count(),
        11 => { let o: Vec<usize> = v.par_iter().with_min_len(min_len).progress_with(pb.clone()).skip(target).step_by(2).map(|x| *x).collect(); let w: Vec<usize> = v.iter().skip(target).step_by(2).cloned().collect(); if o != w { verdict = format!("FAIL not-transparent skip/step_by {} items", o.len()); } n }
        12 => { let a: Vec<usize> = v.par_iter().progress_count(n as u64).map(|x| *x).collect(); let b: Vec<usize> = v.par_iter().progress().map(|x| *x).collect();
                let c: Vec<usize> = v.par_iter().progress_with_style(indicatif::ProgressStyle::with_template("{pos}").unwrap()).map(|x| *x).collect();
                if a != v || b != v || c != v { verdict = "FAIL not-transparent progress_count / progress / progress_with_style".into(); } pb.set_position(n as u64); n }
        // short-circuiting consumers stop in the middle of a split: the position is the number of items handed on
        4 => { let seen = std::sync::atomic::AtomicUsize::new(0); let _ = v.par_iter().with_min_len(min_len).progress_with(pb.clone()).map(|x| { seen.fetch_add(1, std::sync::atomic::Ordering::SeqCst); see(x); x }).find_first(|x| **x == target); seen.into_inner() }
        5 => { let seen = std::sync::atomic::AtomicUsize::new(0); let _ = v.par_iter().with_min_len(min_len).progress_with(pb.clone()).map(|x| { seen.fetch_add(1, std::sync::atomic::Ordering::SeqCst); see(x); x }).any(|x| *x == target); seen.into_inner() }
        _ => { let seen = std::sync::atomic::AtomicUsize::new(0); let _ = v.par_iter().with_min_len(min_len).progress_with(pb.clone()).map(|x| { seen.fetch_add(1, std::sync::atomic::Ordering::SeqCst); see(x); x }).try_for_each(|x| if *x == target { Err(()) } else { Ok(()) }); seen.into_inner() }
    };
    let max_seen = max_seen.load(std::sync::atomic::Ordering::Relaxed);
    let expect = consumed as u64;
    if pb.position() != expect && !(pb.is_finished() && pb.position() == n as u64) { verdict = format!("FAIL miscount final position={} consumed={consumed}", pb.position()); }
    else if max_seen > n as u64 { verdict = format!("FAIL miscount mid-run position {max_seen} exceeds the {n} items"); }
    (case, verdict)
}

/// a scripted double-ended iterator, not necessarily fused: `next` answers from the front script, `next_back` from the back
/// script, an exhausted script answers `None` (model: `IterWrap.scriptUnder`)
#[derive(Clone)]
struct Scripted { front: std::collections::VecDeque<Option<usize>>, back: std::collections::VecDeque<Option<usize>> }
impl Iterator for Scripted {
    type Item = usize;
    fn next(&mut self) -> Option<usize> { self.front.pop_front().flatten() }
    fn size_hint(&self) -> (usize, Option<usize>) { (self.front.len(), Some(self.front.len() + self.back.len())) }
}
impl DoubleEndedIterator for Scripted { fn next_back(&mut self) -> Option<usize> { self.back.pop_front().flatten() } }

/// a scripted stream: each poll consumes one script entry (`None` = `Pending`, `Some(x)` = `Ready(x)`), `Ready(None)` once exhausted
struct ScriptedStream { script: std::collections::VecDeque<Option<Option<usize>>> }
impl futures_core::Stream for ScriptedStream {
    type Item = usize;
    fn poll_next(mut self: Pin<&mut Self>, _cx: &mut Context<'_>) -> Poll<Option<usize>> {
        match self.script.pop_front() { None => Poll::Ready(None), Some(None) => Poll::Pending, Some(Some(x)) => Poll::Ready(x) }
    }
}

fn stream_model_case(rng: &mut Rng, out: &mut Out) {
    use futures_core::Stream;
    let script: std::collections::VecDeque<Option<Option<usize>>> = (0..rng.below(9)).map(|_| match rng.below(6) { 0 | 1 => None, 2 => Some(None), _ => Some(Some(rng.below(50) as usize)) }).collect();
    let len: Option<u64> = match rng.below(3) { 0 => None, 1 => Some(0), _ => Some(rng.below(30)) };
    let fin = rng.below(5);
    let finish = match fin { 0 => ProgressFinish::AndLeave, 1 => ProgressFinish::AndClear, 2 => ProgressFinish::WithMessage("done".into()), 3 => ProgressFinish::Abandon, _ => ProgressFinish::AbandonWithMessage("stop".into()) };
    let pos0: u64 = *rng.pick(&[0u64, 0, 2, u64::MAX]);
    let polls = rng.below(14) as usize;
    let enc = if script.is_empty() { "-".to_string() } else { script.iter().map(|e| match e { None => "P".to_string(), Some(None) => "_".to_string(), Some(Some(v)) => v.to_string() }).collect::<Vec<_>>().join(",") };
    let case = format!("ITERS {} {} {pos0} {enc} {polls}", len.map_or("none".to_string(), |l| l.to_string()), (fin <= 2) as u8);
    let pb = match len { Some(l) => ProgressBar::with_draw_target(Some(l), ProgressDrawTarget::hidden()), None => ProgressBar::with_draw_target(None, ProgressDrawTarget::hidden()) }.with_finish(finish).with_position(pos0);
    let mut bare = ScriptedStream { script: script.clone() };
    let mut w = pb.wrap_stream(ScriptedStream { script });
    let waker = Waker::noop(); let mut cx = Context::from_waker(&waker);
    let (mut obs, mut verdict) = (Vec::new(), String::from("ok"));
    let (mut items, mut ended) = (0u64, false);
    let show = |p: Poll<Option<usize>>| match p { Poll::Pending => "pending".to_string(), Poll::Ready(None) => "none".to_string(), Poll::Ready(Some(v)) => format!("some:{v}") };
    for i in 0..polls {
        let before = (pb.position(), pb.is_finished());
        let (a, b) = (show(Pin::new(&mut w).poll_next(&mut cx)), show(Pin::new(&mut bare).poll_next(&mut cx)));
        if a != b && verdict == "ok" { verdict = format!("FAIL not-transparent poll {i}: wrapped {a}, bare {b}"); }
        if a == "pending" && (pb.position(), pb.is_finished()) != before && verdict == "ok" { verdict = format!("FAIL miscount poll {i}: a Pending poll changed the bar"); }
        if a.starts_with("some") && !ended { items += 1; }
        if a == "none" { ended = true; }
        if !ended && pb.position() != pos0.wrapping_add(items) && verdict == "ok" { verdict = format!("FAIL miscount poll {i}: position {} after {items} items from {pos0}", pb.position()); }
        if pb.is_finished() != ended && verdict == "ok" { verdict = format!("FAIL finish poll {i}: finished={} but end-of-stream seen={ended}", pb.is_finished()); }
        obs.push(format!("{a}@{}:{}", pb.position(), pb.is_finished() as u8));
    }
    out.emit(&case, &format!("{} ORACLE {verdict}", obs.join(" ")));
}

/// C17I: a fixed sequence of `next` / `next_back` / `size_hint` calls on a wrapped scripted iterator; observation = every answer
/// with the bar's position and finished flag after it (compared with the Lean model `IterWrap.trace`), oracle = same answers as
/// the bare iterator, position = items handed out until the first `None`, finished exactly from the first `None` on
pub fn run_iter_model(seed: u64, tier: &str, out: &mut Out) {
    let mut rng = Rng::new(seed ^ 0x17E2);
    let n = if tier == "thorough" { 100_000 } else { 3_000 };
    for _ in 0..n {
        let script = |rng: &mut Rng| -> std::collections::VecDeque<Option<usize>> { (0..rng.below(7)).map(|_| if rng.chance(1, 6) { None } else { Some(rng.below(50) as usize) }).collect() };
        let (front, back) = (script(&mut rng), script(&mut rng));
        let len: Option<u64> = match rng.below(4) { 0 => None, 1 => Some(0), 2 => Some(front.len() as u64), _ => Some(rng.below(30)) };
        let fin = rng.below(5);
        let finish = match fin { 0 => ProgressFinish::AndLeave, 1 => ProgressFinish::AndClear, 2 => ProgressFinish::WithMessage("done".into()), 3 => ProgressFinish::Abandon, _ => ProgressFinish::AbandonWithMessage("stop".into()) };
        let moves = fin <= 2;
        let pos0: u64 = *rng.pick(&[0u64, 0, 0, 3, u64::MAX - 1, u64::MAX]);
        let calls: Vec<char> = (0..rng.below(16)).map(|_| *rng.pick(&['n', 'n', 'n', 'b', 'b', 's'])).collect();
        let fmt = |s: &std::collections::VecDeque<Option<usize>>| if s.is_empty() { "-".to_string() } else { s.iter().map(|x| x.map_or("_".to_string(), |v| v.to_string())).collect::<Vec<_>>().join(",") };
        let case = format!("ITERW {} {} {pos0} {} {} {}", len.map_or("none".to_string(), |l| l.to_string()), moves as u8, fmt(&front), fmt(&back),
            if calls.is_empty() { "-".to_string() } else { calls.iter().map(|c| c.to_string()).collect::<Vec<_>>().join(",") });
        let pb = match len { Some(l) => ProgressBar::with_draw_target(Some(l), ProgressDrawTarget::hidden()), None => ProgressBar::with_draw_target(None, ProgressDrawTarget::hidden()) }.with_finish(finish).with_position(pos0);
        let mut bare = Scripted { front: front.clone(), back: back.clone() };
        let mut w = pb.wrap_iter(Scripted { front, back });
        let (mut obs, mut verdict) = (Vec::new(), String::from("ok"));
        let (mut items, mut ended) = (0u64, false);
        for (i, c) in calls.iter().enumerate() {
            let (a, b) = match c {
                'n' => (w.next().map_or("none".to_string(), |v| format!("some:{v}")), bare.next().map_or("none".to_string(), |v| format!("some:{v}"))),
                'b' => (w.next_back().map_or("none".to_string(), |v| format!("some:{v}")), bare.next_back().map_or("none".to_string(), |v| format!("some:{v}"))),
                _ => { let f = |h: (usize, Option<usize>)| format!("hint:{}:{}", h.0, h.1.map_or("none".to_string(), |x| x.to_string())); (f(Iterator::size_hint(&w)), f(Iterator::size_hint(&bare))) }
            };
            if a != b && verdict == "ok" { verdict = format!("FAIL not-transparent call {i} ({c}): wrapped {a}, bare {b}"); }
            if a.starts_with("some") && !ended { items += 1; }
            if a == "none" { ended = true; }
            if !ended && pb.position() != pos0.wrapping_add(items) && verdict == "ok" { verdict = format!("FAIL miscount call {i}: position {} after {items} items from {pos0}", pb.position()); }
            if pb.is_finished() != ended && verdict == "ok" { verdict = format!("FAIL finish call {i}: finished={} but end-of-iteration seen={ended}", pb.is_finished()); }
            obs.push(format!("{a}@{}:{}", pb.position(), pb.is_finished() as u8));
        }
        out.emit(&case, &format!("{} ORACLE {verdict}", obs.join(" ")));
    }
    for _ in 0..n / 3 { stream_model_case(&mut rng, out); }
}

pub fn run(seed: u64, tier: &str, out: &mut Out) {
    let mut rng = Rng::new(seed);
    let n = if tier == "thorough" { 200_000 } else { 4_000 };
    for _ in 0..n { let (c, v) = io_case(&mut rng); out.emit(&c, &v); }
    for _ in 0..n / 4 { let (c, v) = iter_case(&mut rng); out.emit(&format!("NOMODEL {c}"), &format!(" ORACLE {v}")); }
    for _ in 0..n / 4 { let (c, v) = iter_modes_case(&mut rng); out.emit(&format!("NOMODEL {c}"), &format!(" ORACLE {v}")); }
    for _ in 0..n / 8 { let (c, v) = iter_ctor_case(&mut rng); out.emit(&format!("NOMODEL {c}"), &format!(" ORACLE {v}")); }
    for _ in 0..n / 8 { let (c, v) = iter_passes_case(&mut rng); out.emit(&format!("NOMODEL {c}"), &format!(" ORACLE {v}")); }
    for _ in 0..n / 40 { let (c, v) = rayon_case(&mut rng); out.emit(&format!("NOMODEL {c}"), &format!(" ORACLE {v}")); }
}

/// C04 (iterator-driven completion): whichever `Iterator` method drives a wrapped iterator to its end (also the
/// ones with their own provided implementation: `nth`, `step_by`, `skip`, `fold`-based consumers), the bar is
/// finished by its configured behaviour and the final state is painted - checked with a second handle kept alive,
/// so that dropping the wrapper cannot hide a missing finish.
pub fn run_finish_modes(seed: u64, tier: &str, out: &mut Out) {
    let mut rng = Rng::new(seed ^ 0xC041);
    let cases = if tier == "thorough" { 20_000 } else { 600 };
    for _ in 0..cases {
        let n = rng.below(12) as usize;
        let k = rng.range(1, 5) as usize;
        let mode = rng.below(10);
        let name = ["collect", "step_by", "skip", "last", "count", "sum", "for_each", "rev", "nth-loop", "nth-past-end"][mode as usize];
        let fin = rng.below(5);
        let finish = match fin { 0 => ProgressFinish::AndLeave, 1 => ProgressFinish::AndClear, 2 => ProgressFinish::Abandon, 3 => ProgressFinish::WithMessage("done".into()), _ => ProgressFinish::AbandonWithMessage("gone".into()) };
        let rec = crate::common::Recorder::new(6, 40, true);
        let pb = ProgressBar::with_draw_target(Some(n as u64 + 3), ProgressDrawTarget::term_like(Box::new(rec.clone()))).with_finish(finish);
        pb.set_style(indicatif::ProgressStyle::with_template("{prefix}{pos}/{len} {msg}").unwrap());
        let keep = pb.clone();
        let it = pb.wrap_iter(0..n);
        match mode {
            0 => { let _: Vec<usize> = it.collect(); }
            1 => { let _: Vec<usize> = it.step_by(k).collect(); }
            2 => { let _: Vec<usize> = it.skip(k).collect(); }
            3 => { let _ = it.last(); }
            4 => { let _ = it.count(); }
            5 => { let _: usize = it.sum(); }
            6 => { it.for_each(|_| {}); }
            7 => { let _: Vec<usize> = it.rev().collect(); }
            8 => { let mut it = it; while it.nth(k - 1).is_some() {} }
            _ => { let mut it = it; let _ = it.nth(n + k); }
        }
        let rows = rec.rows();
        let (pos, len, msg) = (keep.position(), keep.length().unwrap_or(0), keep.message());
        let want_row = format!("{pos}/{len} {msg}").trim_end().to_string();
        let verdict = if !keep.is_finished() { format!("FAIL not-finished after {name}({k}) over {n} items ran to the end (finish kind {fin})") }
            else if fin == 1 { if rows.iter().any(|r| !r.is_empty()) { format!("FAIL final-frame finish_and_clear left {rows:?} after {name}") } else { "ok".into() } }
            else if (fin == 0 || fin == 3) && pos != len { format!("FAIL final-state position {pos} of {len} after {name} with a finishing behaviour") }
            else if rows.last().map(|r| r.as_str()) != Some(want_row.as_str()) { format!("FAIL final-frame after {name}({k}) over {n}: screen {rows:?}, final state {want_row:?}") } else { "ok".into() };
        drop(keep);
        out.emit(&format!("NOMODEL FINISHMODE {name} k={k} n={n} fin={fin}"), &format!(" ORACLE {verdict}"));
    }
}
