//! C18: terminal I/O failures never panic, poison or corrupt logical state.
//! Every history is run once without faults and then once per fault plan (fail the k-th terminal
//! call once / from then on, for every k below the fault-free call count).  No model line is
//! compared here: the observation is the per-operation outcome and the logical state of every bar.
use crate::bar::{BOp, Fin, TEMPLATES};
use crate::common::{Out, Recorder, Rng};
use crate::multi::{self, Case, MOp};
use indicatif::verif_hooks as vh;
use indicatif::{MultiProgress, MultiProgressAlignment, ProgressBar, ProgressDrawTarget, ProgressFinish, ProgressStyle, TermLike};
use std::panic::{catch_unwind, AssertUnwindSafe};

const T0: u64 = 1_000_000_000_000;

fn fin_pf(f: &Fin) -> ProgressFinish { match f { Fin::Leave => ProgressFinish::AndLeave, Fin::Clear => ProgressFinish::AndClear, Fin::Abandon => ProgressFinish::Abandon, Fin::Msg(m) => ProgressFinish::WithMessage(m.clone().into()), Fin::AbandonMsg(m) => ProgressFinish::AbandonWithMessage(m.clone().into()) } }

/// outcome of one operation and the logical state afterwards
#[derive(PartialEq, Clone, Debug)]
pub struct Step { pub outcome: String, pub logical: String, pub io_ok: Option<bool>, pub failed_during: bool }

fn logical(bars: &[Option<ProgressBar>]) -> String {
    bars.iter().map(|b| match b {
        None => "-".to_string(),
        Some(pb) => match catch_unwind(AssertUnwindSafe(|| format!("{}/{:?}/{:?}/{:?}/{}", pb.position(), pb.length(), pb.message(), pb.prefix(), pb.is_finished()))) { Ok(s) => s, Err(_) => "PANIC".to_string() },
    }).collect::<Vec<_>>().join(",")
}

/// the kinds of error a terminal call may fail with (some are 'transient' kinds that code likes to special-case)
pub const KINDS: [std::io::ErrorKind; 5] = [std::io::ErrorKind::Other, std::io::ErrorKind::BrokenPipe, std::io::ErrorKind::WouldBlock, std::io::ErrorKind::Interrupted, std::io::ErrorKind::TimedOut];

pub fn exec(c: &Case, fault: Option<(usize, bool)>) -> (Vec<Step>, usize, String) { exec_kind(c, fault, std::io::ErrorKind::Other) }

pub fn exec_kind(c: &Case, fault: Option<(usize, bool)>, kind: std::io::ErrorKind) -> (Vec<Step>, usize, String) { let r = exec_full(c, fault, kind, true); (r.0, r.1, r.2) }

/// `tabw`: every set_message is followed by a set_tab_width (a call the fault model has no operation for);
/// also returns the number of failed terminal calls and position/length/finished of every bar at the end
pub fn exec_full(c: &Case, fault: Option<(usize, bool)>, kind: std::io::ErrorKind, tabw: bool) -> (Vec<Step>, usize, String, usize, String) {
    vh::set_auto_advance_ns(0);
    vh::set_now_ns(T0);
    let rec = Recorder::new(c.h, c.w, false);
    if let Some((k, sticky)) = fault { rec.set_fault(k, sticky); rec.set_fault_kind(kind); }
    let target = if c.hz == 0 { ProgressDrawTarget::term_like(Box::new(rec.clone())) } else { ProgressDrawTarget::term_like_with_hz(Box::new(rec.clone()), c.hz) };
    let mp = MultiProgress::with_draw_target(target);
    let mut bars: Vec<Option<ProgressBar>> = Vec::new();
    let mut removed: Vec<bool> = Vec::new();
    let mut now = T0;
    let mut steps = Vec::new();
    for op in &c.ops {
        let failed_before = rec.failed();
        let mut io_ok: Option<bool> = None;
        let r = catch_unwind(AssertUnwindSafe(|| {
            match op {
                MOp::Adv(d) => { now += d; vh::set_now_ns(now); }
                MOp::Add { loc, arg, len, tpl, prefix, fin } => {
                    let pb = ProgressBar::with_draw_target(*len, ProgressDrawTarget::hidden());
                    pb.set_style(ProgressStyle::with_template(TEMPLATES[*tpl]).unwrap());
                    let pb = pb.with_finish(fin_pf(fin)).with_prefix(prefix.clone());
                    let pb = match loc {
                        0 => mp.add(pb), 1 => mp.insert(*arg, pb), 2 => mp.insert_from_back(*arg, pb),
                        3 => { let a = bars[*arg].as_ref().unwrap().clone(); mp.insert_before(&a, pb) }
                        _ => { let a = bars[*arg].as_ref().unwrap().clone(); mp.insert_after(&a, pb) }
                    };
                    bars.push(Some(pb)); removed.push(false);
                }
                MOp::Remove(k) => { if let Some(pb) = bars[*k].as_ref() { mp.remove(pb); removed[*k] = true; } }
                MOp::MpPrintln(t) => { io_ok = Some(mp.println(t).is_ok()); }
                MOp::MpClear => { io_ok = Some(mp.clear().is_ok()); }
                MOp::MpSuspend(ls) => { let r2 = rec.clone(); let l2 = ls.clone(); mp.suspend(move || for l in &l2 { let _ = r2.write_line(l); }); }
                MOp::Retarget => mp.set_draw_target(if c.hz == 0 { ProgressDrawTarget::term_like(Box::new(rec.clone())) } else { ProgressDrawTarget::term_like_with_hz(Box::new(rec.clone()), c.hz) }),
                MOp::Align(b) => mp.set_alignment(if *b { MultiProgressAlignment::Bottom } else { MultiProgressAlignment::Top }),
                MOp::Bar(k, bop) => {
                    if let Some(pb) = bars[*k].as_ref() {
                        match bop {
                            BOp::Tick => pb.tick(), BOp::Inc(d) => pb.inc(*d), BOp::Dec(d) => pb.dec(*d), BOp::SetPos(p) => pb.set_position(*p),
                            // every set_message is followed by a set_tab_width so that this call is part of the histories
                            BOp::Msg(m) => { pb.set_message(m.clone()); if tabw { pb.set_tab_width(4); } }
                            // every set_prefix is followed by a set_tab_width so that this call is part of the histories
                            BOp::Prefix(m) => pb.set_prefix(m.clone()),
                            BOp::Len(None) => pb.unset_length(), BOp::Len(Some(l)) => pb.set_length(*l),
                            BOp::Println(m) => pb.println(m),
                            BOp::Suspend(ls) => { let r2 = rec.clone(); let l2 = ls.clone(); pb.suspend(move || for l in &l2 { let _ = r2.write_line(l); }); }
                            BOp::Reset => pb.reset(),
                            BOp::Finish(f) => match f { Fin::Leave => pb.finish(), Fin::Clear => pb.finish_and_clear(), Fin::Abandon => pb.abandon(), Fin::Msg(m) => pb.finish_with_message(m.clone()), Fin::AbandonMsg(m) => pb.abandon_with_message(m.clone()) },
                            BOp::FinishStyle => pb.finish_using_style(),
                            BOp::Adv(_) => {}
                            BOp::Iter(_) => {}
                            BOp::Drop => { bars[*k] = None; }
                        }
                    }
                }
            }
        }));
        // closures inside suspend write to the terminal themselves: their failures do not count as the call's
        let failed_during = rec.failed() > failed_before;
        let panicked = r.is_err();
        steps.push(Step { outcome: if r.is_ok() { "ok".into() } else { "panic".into() }, logical: logical(&bars), io_ok, failed_during });
        if panicked {
            // the first panic ends the run: what matters afterwards is only whether later calls still work
            let after = catch_unwind(AssertUnwindSafe(|| { for b in bars.iter().flatten() { b.tick(); let _ = b.message(); } let _ = mp.println("x"); }));
            let tail = if after.is_ok() { "later-calls-ok" } else { "later-calls-panic" }.to_string();
            let calls = rec.st.lock().unwrap().calls;
            // destructors of poisoned objects may panic while unwinding: leak them
            let failed = rec.failed();
            std::mem::forget(bars); std::mem::forget(mp);
            return (steps, calls, tail, failed, String::new());
        }
    }
    // (oracle stream only) two member bars move to a second MultiProgress over the same terminal, are used as anchors there and are
    // removed again: the move repaints the MultiProgress the bar leaves, and a fault in that repaint must not leave the bar half-moved
    if tabw {
        let mp2 = MultiProgress::with_draw_target(ProgressDrawTarget::term_like(Box::new(rec.clone())));
        let movers: Vec<ProgressBar> = bars.iter().flatten().take(2).cloned().collect();
        for b in movers {
            let failed_before = rec.failed();
            let r = catch_unwind(AssertUnwindSafe(|| { let moved = mp2.add(b.clone()); moved.tick(); let extra = mp2.insert_after(&moved, ProgressBar::with_draw_target(Some(1), ProgressDrawTarget::hidden())); extra.tick(); mp2.remove(&moved); extra.finish(); }));
            steps.push(Step { outcome: if r.is_ok() { "ok".into() } else { "panic".into() }, logical: logical(&bars), io_ok: None, failed_during: rec.failed() > failed_before });
            if r.is_err() { let calls = rec.st.lock().unwrap().calls; std::mem::forget(bars); std::mem::forget(mp); std::mem::forget(mp2); return (steps, calls, "panic-after-move".into(), rec.failed(), String::new()); }
        }
        drop(mp2);
    }
    // afterwards: one more call on every live bar and on the MultiProgress must still work
    let (calls_end, failed_end) = (rec.calls(), rec.failed());
    let plf: String = bars.iter().map(|b| match b { None => "-".to_string(), Some(pb) => format!("{}/{}/{}", pb.position(), pb.length().map_or("none".into(), |l| l.to_string()), pb.is_finished()) }).collect::<Vec<_>>().join(",");
    let after = catch_unwind(AssertUnwindSafe(|| { for b in bars.iter().flatten() { b.tick(); b.inc(1); let _ = b.message(); } let _ = mp.println("x"); }));
    let tail = if after.is_ok() { "ok" } else { "panic" }.to_string();
    // drop everything under catch_unwind as well
    let dropped = catch_unwind(AssertUnwindSafe(move || { drop(bars); drop(mp); }));
    let calls = if tabw { rec.st.lock().unwrap().calls } else { calls_end };
    (steps, calls, if dropped.is_ok() { tail } else { format!("{tail}+drop-panic") }, failed_end, plf)
}

pub fn run(seed: u64, tier: &str, out: &mut Out) {
    let mut rng = Rng::new(seed);
    let n = if tier == "thorough" { 5_000 } else { 150 };
    for _ in 0..n {
        // a third of the histories use bottom alignment, a third are the phase-structured scenarios around finished, dropped and reaped
        // bars (with bottom alignment in half of them): the frame bookkeeping there does arithmetic on counts that a failed draw left stale
        let mut c = match rng.below(3) { 0 => multi::gen_case(&mut rng, false), 1 => multi::gen_case(&mut rng, true),
            _ => { let mut c = multi::gen_scenario(&mut rng); if rng.chance(1, 2) { c.ops.insert(0, MOp::Align(true)); } c } };
        c.ops.truncate(if c.ops.first().map_or(false, |o| matches!(o, MOp::Align(_))) { 22 } else { 14 });
        // half of the histories change the draw target somewhere (a rarely used call with its own terminal traffic)
        if rng.chance(1, 2) { let at = rng.below(c.ops.len() as u64 + 1) as usize; c.ops.insert(at, MOp::Retarget); }
        let kind0 = rng.below(KINDS.len() as u64) as usize;
        let case = multi::encode(&c);
        let (base, calls, tail0) = exec(&c, None);
        let mut verdict = String::from("ok");
        let mut plans = 0usize;
        if base.iter().any(|s| s.outcome != "ok") || tail0 != "ok" { verdict = format!("FAIL fault-free-run-panics {tail0}"); }
        'plans: for k in 0..calls {
            for sticky in [false, true] {
                plans += 1;
                let kind = KINDS[(kind0 + k + sticky as usize) % KINDS.len()];
                let (st, _, tail) = exec_kind(&c, Some((k, sticky)), kind);
                for (i, (a, b)) in base.iter().zip(st.iter()).enumerate() {
                    if b.outcome != "ok" { verdict = format!("FAIL panic k={k} sticky={sticky} op={i} {} then {tail}", c.ops.get(i).map_or("move-to-second-multi".to_string(), |o| o.enc())); break 'plans; }
                    if b.logical.contains("PANIC") { verdict = format!("FAIL poisoned k={k} sticky={sticky} op={i} {}", c.ops.get(i).map_or("move-to-second-multi".to_string(), |o| o.enc())); break 'plans; }
                    if a.logical != b.logical { verdict = format!("FAIL logical-state k={k} sticky={sticky} op={i} {} without={} with={}", c.ops.get(i).map_or("move-to-second-multi".to_string(), |o| o.enc()), a.logical, b.logical); break 'plans; }
                    if let Some(ok) = b.io_ok { if ok == b.failed_during { verdict = format!("FAIL result-not-reported k={k} sticky={sticky} kind={kind:?} op={i} {} returned_ok={ok} failed_during={}", c.ops.get(i).map_or("move-to-second-multi".to_string(), |o| o.enc()), b.failed_during); break 'plans; } }
                }
                if tail != "ok" { verdict = format!("FAIL later-calls k={k} sticky={sticky} {tail}"); break 'plans; }
            }
        }
        out.emit(&case, &format!("calls={calls} plans={plans} ORACLE {verdict}"));
    }
    streaks(&mut rng, tier, out);
}

/// "at any point and any number of times": a terminal that is broken for good while the program keeps going. Hundreds of
/// consecutive failed draws of one kind (forced ones: println, draws of a finished bar, suspend; ordinary ones: messages; a
/// mix) on rate-limited and unlimited targets, single bars and MultiProgress members: no call panics, nothing is poisoned,
/// the logical state is what the calls say. (Counters that drift by one per failed draw only show after such a streak.)
fn streaks(rng: &mut Rng, tier: &str, out: &mut Out) {
    let n = if tier == "thorough" { 400 } else { 24 };
    for case in 0..n {
        vh::set_auto_advance_ns(0); vh::set_now_ns(T0);
        let hz = *rng.pick(&[0u8, 1, 20, 255]);
        let multi = case % 2 == 1;
        let kind = KINDS[case % KINDS.len()];
        let streak = *rng.pick(&[260usize, 300, 520, 700]);
        let mode = case % 4; // 0 println, 1 ticks of a finished bar, 2 messages, 3 mixed
        let rec = Recorder::new(10, 40, false);
        let target = || if hz == 0 { ProgressDrawTarget::term_like(Box::new(rec.clone())) } else { ProgressDrawTarget::term_like_with_hz(Box::new(rec.clone()), hz) };
        let mp = if multi { Some(MultiProgress::with_draw_target(target())) } else { None };
        let pb = match &mp { Some(m) => m.add(ProgressBar::new(1000)), None => ProgressBar::with_draw_target(Some(1000), target()) };
        let sib = mp.as_ref().map(|m| m.add(ProgressBar::new(5)));
        pb.tick();
        rec.set_fault(rec.calls(), true); rec.set_fault_kind(kind);
        let pb2 = pb.clone(); let mp2 = mp.clone();
        let r = catch_unwind(AssertUnwindSafe(move || {
            if mode == 1 { pb2.finish(); }
            for i in 0..streak {
                match if mode == 3 { i % 3 } else { mode } {
                    0 => pb2.println("x"),
                    1 => pb2.tick(),
                    _ => { pb2.set_message(format!("m{i}")); if let Some(m) = &mp2 { let _ = m.println("y"); } }
                }
                if mode != 1 { pb2.inc(1); }
            }
        }));
        let mut verdict = String::from("ok");
        if r.is_err() { verdict = format!("FAIL panic during a streak of {streak} failed draws (mode {mode}, hz {hz}, multi {multi}, {kind:?})"); }
        rec.clear_fault();
        let later = catch_unwind(AssertUnwindSafe(|| { pb.tick(); if let Some(s) = &sib { s.inc(1); } if let Some(m) = &mp { let _ = m.println("z"); } (pb.position(), pb.is_finished()) }));
        match later {
            Err(_) => if verdict == "ok" { verdict = format!("FAIL poisoned after a streak of {streak} failed draws (mode {mode}, hz {hz}, multi {multi}): later calls panic"); },
            Ok((pos, fin)) => { let want = if mode == 1 { 1000 } else { streak as u64 }; if verdict == "ok" && (pos != want || fin != (mode == 1)) { verdict = format!("FAIL logical-state after a streak: position {pos} finished {fin}, expected {want} {}", mode == 1); } }
        }
        std::mem::forget(pb); std::mem::forget(sib); std::mem::forget(mp);
        out.emit(&format!("NOMODEL STREAK n={streak} mode={mode} hz={hz} multi={multi} kind={kind:?}"), &format!(" ORACLE {verdict}"));
    }
}

/// C18 (fault model): the same histories under sampled fault plans, one line per (history, plan); the
/// observation is compared with `Model/Faults.lean`: per operation the reported result, whether a terminal
/// call failed during it and whether it panicked; then the terminal calls attempted and failed, and
/// position / length / finished of every bar that is still alive.
pub fn run_model(seed: u64, tier: &str, out: &mut Out) {
    let mut rng = Rng::new(seed ^ 0x18F);
    let n = if tier == "thorough" { 4_000 } else { 150 };
    for _ in 0..n {
        let mut c = multi::gen_case(&mut rng, false);
        c.ops.truncate(16);
        // dropped bars vanish from the harness's list but not from the model's: keep them out of this stream's histories
        c.ops.retain(|o| !matches!(o, MOp::Bar(_, BOp::Drop)));
        let (_, calls, _, _, _) = exec_full(&c, None, std::io::ErrorKind::Other, false);
        let mut plans: Vec<(usize, bool)> = vec![(0, false), (0, true)];
        if calls > 0 { plans.push((calls - 1, false)); plans.push((calls - 1, true)); }
        for _ in 0..8 { if calls > 0 { plans.push((rng.below(calls as u64) as usize, rng.chance(1, 2))); } }
        plans.push((calls + 5, false));   // a plan that never strikes
        for (k, sticky) in plans {
            let (steps, calls_f, _tail, failed, plf) = exec_full(&c, Some((k, sticky)), std::io::ErrorKind::Other, false);
            let ops: Vec<String> = steps.iter().map(|s| format!("{}:{}:{}", match s.io_ok { None => "-", Some(true) => "ok", Some(false) => "err" }, if s.failed_during { 1 } else { 0 }, if s.outcome == "ok" { "ok" } else { "panic" })).collect();
            let mut case = format!("MULTIF FX={} {k} {} 0 {} {} {} {}", crate::common::fx("draw"), if sticky { 1 } else { 0 }, c.w, c.h, c.hz, T0);
            for op in &c.ops { case.push_str(" ; "); case.push_str(&op.enc()); }
            out.emit(&case, &format!("{} calls={calls_f} failed={failed} log={plf} ORACLE ok", ops.join(" ")));
        }
    }
}
