//! Shared pieces of the correspondence harness.
use indicatif::TermLike;
use std::io;
use std::sync::{Arc, Mutex};

/// splitmix64: every random choice of a run derives from one seed.
#[derive(Clone)]
pub struct Rng(pub u64);
impl Rng {
    pub fn new(seed: u64) -> Self { Rng(seed ^ 0x9E37_79B9_7F4A_7C15) }
    pub fn next(&mut self) -> u64 {
        self.0 = self.0.wrapping_add(0x9E37_79B9_7F4A_7C15);
        let mut z = self.0;
        z = (z ^ (z >> 30)).wrapping_mul(0xBF58_476D_1CE4_E5B9);
        z = (z ^ (z >> 27)).wrapping_mul(0x94D0_49BB_1331_11EB);
        z ^ (z >> 31)
    }
    pub fn below(&mut self, n: u64) -> u64 { if n == 0 { 0 } else { self.next() % n } }
    pub fn range(&mut self, lo: u64, hi: u64) -> u64 { lo + self.below(hi - lo + 1) }
    pub fn pick<'a, T>(&mut self, xs: &'a [T]) -> &'a T { &xs[self.below(xs.len() as u64) as usize] }
    pub fn chance(&mut self, num: u64, den: u64) -> bool { self.below(den) < num }
}

/// One terminal operation as seen by the draw target.
#[derive(Clone, Debug, PartialEq)]
pub enum Op { Up(usize), Down(usize), Left(usize), Right(usize), Clear, Str(String), Line(String), Flush }

#[derive(Default)]
pub struct RecState {
    pub ops: Vec<Op>,
    pub flushes: usize,
    pub calls: usize,
    /// fail the k-th call (0-based); with `sticky` all later ones too
    pub fail_at: Option<usize>,
    pub sticky: bool,
    /// number of calls that returned the injected error
    pub failed: usize,
    pub parser: Option<vt100::Parser>,
    /// rows that scrolled off the top of the emulated screen, oldest first
    pub history: Vec<String>,
    pub sb_len: usize,
    /// screen snapshot (scrollback + screen rows, right-trimmed, trailing blank rows removed) per flush
    pub snapshots: Vec<Vec<String>>,
    pub cursor_at_flush: Vec<(u16, u16)>,
    /// a resized terminal: `width()` returns this instead of the width given at creation
    pub width_override: Option<u16>,
    /// kind of the injected error (`Other` unless set)
    pub fail_kind: Option<io::ErrorKind>,
    /// a terminal that takes the bytes but reports an error when flushed: 1 = every flush, 2 = every second one
    pub fail_flush: u8,
    /// flush calls made, failed ones included (a frame is complete when `flush` is called)
    pub flush_attempts: usize,
}

/// Recording (and optionally failing) terminal around a `vt100::Parser` with scrollback.
#[derive(Clone)]
pub struct Recorder { pub st: Arc<Mutex<RecState>>, pub w: u16, pub h: u16 }
impl std::fmt::Debug for Recorder { fn fmt(&self, f: &mut std::fmt::Formatter<'_>) -> std::fmt::Result { write!(f, "Recorder({}x{})", self.w, self.h) } }

impl Recorder {
    pub fn new(h: u16, w: u16, emulate: bool) -> Self {
        let mut st = RecState::default();
        if emulate { st.parser = Some(vt100::Parser::new(h, w, 10_000)); }
        Recorder { st: Arc::new(Mutex::new(st)), w, h }
    }
    fn call(&self, op: Op, bytes: &[u8]) -> io::Result<()> {
        let mut st = self.st.lock().unwrap();
        let k = st.calls;
        st.calls += 1;
        if let Op::Flush = op { st.flush_attempts += 1; if st.fail_flush == 1 || (st.fail_flush == 2 && st.flush_attempts % 2 == 0) { st.failed += 1; st.ops.push(op); let kind = st.fail_kind.unwrap_or(io::ErrorKind::Other); return Err(io::Error::new(kind, "injected")); } }
        if let Some(f) = st.fail_at { if k == f || (st.sticky && k > f) { st.failed += 1; let kind = st.fail_kind.unwrap_or(io::ErrorKind::Other); return Err(io::Error::new(kind, "injected")); } }
        if let Op::Flush = op {
            st.flushes += 1;
            if st.parser.is_some() {
                let (rows, cur) = snapshot(&st, self.w);
                st.snapshots.push(rows); st.cursor_at_flush.push(cur);
            }
        }
        if st.parser.is_some() { feed(&mut st, bytes, self.w); }
        if std::env::var("VERIF_TRACE").is_ok() { eprintln!("  term {:?} {:?}", op, String::from_utf8_lossy(bytes)); }
        st.ops.push(op);
        Ok(())
    }
    /// the terminal is resized: later `width()` queries return `w`
    pub fn set_width(&self, w: u16) { self.st.lock().unwrap().width_override = Some(w); }
    pub fn failed(&self) -> usize { self.st.lock().unwrap().failed }
    pub fn set_fault_kind(&self, kind: io::ErrorKind) { self.st.lock().unwrap().fail_kind = Some(kind); }
    pub fn set_fault(&self, k: usize, sticky: bool) { let mut st = self.st.lock().unwrap(); st.fail_at = Some(k); st.sticky = sticky; }
    /// the terminal works again
    pub fn clear_fault(&self) { let mut st = self.st.lock().unwrap(); st.fail_at = None; st.sticky = false; }
    pub fn set_flush_fault(&self, mode: u8) { self.st.lock().unwrap().fail_flush = mode; }
    pub fn flush_attempts(&self) -> usize { self.st.lock().unwrap().flush_attempts }
    pub fn flushes(&self) -> usize { self.st.lock().unwrap().flushes }
    pub fn calls(&self) -> usize { self.st.lock().unwrap().calls }
    /// (row, col) of the emulated cursor; col == width means the pending-wrap column
    pub fn cursor(&self) -> (u16, u16) { let st = self.st.lock().unwrap(); st.parser.as_ref().map_or((0, 0), |p| p.screen().cursor_position()) }
    pub fn rows(&self) -> Vec<String> { let st = self.st.lock().unwrap(); if st.parser.is_some() { snapshot(&st, self.w).0 } else { vec![] } }
    /// bytes a real terminal device received (stream C01P): straight into the emulator
    pub fn feed_raw(&self, bytes: &[u8]) { let mut st = self.st.lock().unwrap(); if st.parser.is_some() { feed(&mut st, bytes, self.w); } }
}

/// Feed bytes to the emulator one character (or escape sequence) at a time, saving every row that
/// scrolls off the top. (vt100 0.15 cannot show more than one screen of scrollback at once.)
fn feed(st: &mut RecState, bytes: &[u8], w: u16) {
    let text = std::str::from_utf8(bytes).unwrap_or("");
    let mut chunks: Vec<String> = Vec::new();
    let mut it = text.chars().peekable();
    while let Some(c) = it.next() {
        if c == '\x1b' {
            let mut seq = String::from(c);
            while let Some(&n) = it.peek() { seq.push(n); it.next(); if n.is_ascii_alphabetic() { break; } }
            chunks.push(seq);
        } else { chunks.push(c.to_string()); }
    }
    for ch in chunks {
        let p = st.parser.as_mut().unwrap();
        p.process(ch.as_bytes());
        p.set_scrollback(usize::MAX);
        let len = p.screen().scrollback();
        let k = len - st.sb_len;
        if k > 0 {
            // k is 0 or 1 for a single character; read the newest k scrolled rows
            p.set_scrollback(k);
            let newest: Vec<String> = p.screen().rows(0, w).take(k).map(|r| r.trim_end().to_string()).collect();
            st.history.extend(newest);
            st.sb_len = len;
        }
        st.parser.as_mut().unwrap().set_scrollback(0);
    }
}

/// history + screen, right-trimmed rows, trailing blank rows dropped; cursor (row, col) on screen
fn snapshot(st: &RecState, w: u16) -> (Vec<String>, (u16, u16)) {
    let p = st.parser.as_ref().unwrap();
    let cur = p.screen().cursor_position();
    let mut rows = st.history.clone();
    for r in p.screen().rows(0, w) { rows.push(r.trim_end().to_string()); }
    while rows.last().map_or(false, |r| r.is_empty()) { rows.pop(); }
    (rows, cur)
}

impl TermLike for Recorder {
    fn width(&self) -> u16 { self.st.lock().unwrap().width_override.unwrap_or(self.w) }
    fn height(&self) -> u16 { self.h }
    fn move_cursor_up(&self, n: usize) -> io::Result<()> { if n == 0 { return self.call(Op::Up(0), b""); } self.call(Op::Up(n), format!("\x1b[{n}A").as_bytes()) }
    fn move_cursor_down(&self, n: usize) -> io::Result<()> { if n == 0 { return self.call(Op::Down(0), b""); } self.call(Op::Down(n), format!("\x1b[{n}B").as_bytes()) }
    fn move_cursor_right(&self, n: usize) -> io::Result<()> { if n == 0 { return self.call(Op::Right(0), b""); } self.call(Op::Right(n), format!("\x1b[{n}C").as_bytes()) }
    fn move_cursor_left(&self, n: usize) -> io::Result<()> { if n == 0 { return self.call(Op::Left(0), b""); } self.call(Op::Left(n), format!("\x1b[{n}D").as_bytes()) }
    fn write_line(&self, s: &str) -> io::Result<()> { self.call(Op::Line(s.to_string()), format!("{s}\r\n").as_bytes()) }
    fn write_str(&self, s: &str) -> io::Result<()> { self.call(Op::Str(s.to_string()), s.as_bytes()) }
    fn clear_line(&self) -> io::Result<()> { self.call(Op::Clear, b"\r\x1b[2K") }
    fn flush(&self) -> io::Result<()> { self.call(Op::Flush, b"") }
}

/// Output files: one line per case, aligned between `cases` (model input) and `impl` (observations).
static CURRENT_PATH: std::sync::OnceLock<String> = std::sync::OnceLock::new();
/// where the history about to run is noted (`<observations file>.current`): if the crate aborts the process (a panic while another
/// unwinds, in a `Drop` that draws), the check reads the history from there
pub fn set_current_path(p: String) { let _ = std::fs::remove_file(&p); let _ = CURRENT_PATH.set(p); }
pub fn about_to_run(case: &str) { if let Some(p) = CURRENT_PATH.get() { let _ = std::fs::write(p, case); } }

pub struct Out { pub cases: std::io::BufWriter<std::fs::File>, pub imp: std::io::BufWriter<std::fs::File>, pub n: usize }
impl Out {
    pub fn new(cases: &str, imp: &str) -> Self {
        Out { cases: std::io::BufWriter::new(std::fs::File::create(cases).unwrap()), imp: std::io::BufWriter::new(std::fs::File::create(imp).unwrap()), n: 0 }
    }
    pub fn emit(&mut self, case: &str, obs: &str) {
        use std::io::Write;
        debug_assert!(!case.contains('\n') && !obs.contains('\n'));
        writeln!(self.cases, "{case}").unwrap();
        writeln!(self.imp, "{obs}").unwrap();
        self.n += 1;
    }
}

/// Which repairs (`fix:` commits) the repository under test contains. `current` makes the Lean driver
/// use the model's own `….current` constant, the value the property theorems are stated for.
/// `VERIF_FX=<letters>` overrides (used when the machinery is pointed at a tree without the repairs).
/// Letters: see DESIGN.md section 6.
pub fn fx(family: &str) -> String {
    if let Ok(v) = std::env::var("VERIF_FX") { return v; }
    match family {
        _ => "current",
    }.to_string()
}
