mod common;
mod c05;
mod bar;
mod multi;
mod c07;
mod c10;
mod c08;
mod c08s;
mod c14;
mod c15;
mod c16;
mod c12;
mod c09;
mod c18;
mod c17;
mod c13;
mod c11;
mod c06;
mod race;
mod pty;
fn main() {
    // run the harness on a thread named "main" regardless of how it was started
    let a: Vec<String> = std::env::args().collect();
    if a.len() < 6 { eprintln!("usage: verif-harness <prop> <tier> <seed> <cases-file> <impl-file>"); std::process::exit(2); }
    if std::env::var("VERIF_DEBUG").is_err() { std::panic::set_hook(Box::new(|_| {})); }
    let (prop, tier, seed) = (a[1].as_str(), a[2].as_str(), a[3].parse::<u64>().unwrap_or(0));
    if prop == "C06CHILD" { c06::child(seed, if tier == "thorough" { 100_000 } else { 3_000 }); return; }
    common::set_current_path(format!("{}.current", &a[5]));
    let mut out = common::Out::new(&a[4], &a[5]);
    match prop {
        "C05" => c05::run(seed, tier, &mut out),
        "C05P" => c05::run_pos(seed, tier, &mut out),
        "C05V" => c05::run_retarget(seed, tier, &mut out),
        "C07" => c07::run(seed, tier, &mut out),
        "C07T" => c07::run_threads(seed, tier, &mut out),
        "C07G" => c07::run_glue(seed, tier, &mut out),
        "C10" => c10::run(seed, tier, &mut out),
        "C10R" => c10::run_render(seed, tier, &mut out),
        "C08" => c08::run(seed, tier, &mut out),
        "C08S" => c08s::run(seed, tier, &mut out),
        "C14" => c14::run(seed, tier, &mut out),
        "C14U" => c14::run_clusters(seed, tier, &mut out),
        "C15" => c15::run(seed, tier, &mut out),
        "C16" => c16::run(seed, tier, &mut out),
        "C16C" => c16::run_concurrent(seed, tier, &mut out),
        "C12" => c12::run(seed, tier, &mut out),
        "C12W" => c12::run_wide(seed, tier, &mut out),
        "C09" => c09::run(seed, tier, &mut out),
        "C09K" => c09::run_ticker(seed, tier, &mut out),
        "C18" => c18::run(seed, tier, &mut out),
        "C18F" => c18::run_model(seed, tier, &mut out),
        "C17" => c17::run(seed, tier, &mut out),
        "C17I" => c17::run_iter_model(seed, tier, &mut out),
        "C04I" => c17::run_finish_modes(seed, tier, &mut out),
        "C13" => c13::run(seed, tier, &mut out),
        "C13R" => c13::run_resize(seed, tier, &mut out),
        "C11" => c11::run(seed, tier, &mut out),
        "C11T" => c11::run_trackers(seed, tier, &mut out),
        "C11R" => c11::run_render(seed, tier, &mut out),
        "C11C" => c11::run_concurrent(seed, tier, &mut out),
        "C06" => c06::run(seed, tier, &mut out),
        "C01" => bar::run(seed, tier, &mut out, true, false),
        "C19" => bar::run(seed, tier, &mut out, false, false),
        "C04B" => bar::run(seed, tier, &mut out, true, true),
        "C01F" => bar::run_outage(seed, tier, &mut out),
        "C03" | "C02" | "C04" => multi::run(seed, tier, &mut out, false),
        "C03b" => multi::run(seed, tier, &mut out, true),
        "C19M" => multi::run_small(seed, tier, &mut out),
        "C01P" => pty::run(seed, tier, &mut out),
        "C03P" => pty::run_multi(seed, tier, &mut out),
        "C19H" => pty::run_default_height(seed, tier, &mut out),
        "C01S" => race::run(seed, tier, &mut out, false),
        "C03S" => race::run(seed, tier, &mut out, true),
        "GIVEN" => multi::run_given(&mut out),
        "C03H" => multi::run_detour(seed, tier, &mut out),
        "ROWS" => multi::run_rows(seed, tier, &mut out),
        "ROWSW" => multi::run_rows_wrapping(seed, tier, &mut out),
        "C05M" => multi::run_limited(seed, tier, &mut out),
        _ => { eprintln!("unknown property {prop}"); std::process::exit(2); }
    }
    eprintln!("cases={}", out.n);
}
