//! Histories over one MultiProgress with several bars on a recording terminal (C02, C03, C04).
use crate::bar::{enc, BOp, Fin, TEMPLATES};
use crate::common::*;
use indicatif::verif_hooks as vh;
use indicatif::{MultiProgress, MultiProgressAlignment, ProgressBar, ProgressDrawTarget, ProgressFinish, ProgressStyle, TermLike};

pub const T0: u64 = 1_000_000_000_000;

#[derive(Clone, Debug)]
pub enum MOp {
    Adv(u64),
    Add { loc: u8, arg: usize, len: Option<u64>, tpl: usize, prefix: String, fin: Fin },
    Remove(usize), MpPrintln(String), MpClear, MpSuspend(Vec<String>), Align(bool),
    /// `MultiProgress::set_draw_target` with a new target over the same terminal (same rate)
    Retarget,
    Bar(usize, BOp),
}
fn fin_enc(f: &Fin) -> String { match f { Fin::Leave => "leave".into(), Fin::Clear => "clear".into(), Fin::Abandon => "abandon".into(), Fin::Msg(m) => format!("msg {}", enc(m)), Fin::AbandonMsg(m) => format!("abandonmsg {}", enc(m)) } }
fn fin_pf(f: &Fin) -> ProgressFinish { match f { Fin::Leave => ProgressFinish::AndLeave, Fin::Clear => ProgressFinish::AndClear, Fin::Abandon => ProgressFinish::Abandon, Fin::Msg(m) => ProgressFinish::WithMessage(m.clone().into()), Fin::AbandonMsg(m) => ProgressFinish::AbandonWithMessage(m.clone().into()) } }
impl MOp {
    pub fn enc(&self) -> String {
        match self {
            MOp::Adv(d) => format!("adv {d}"),
            MOp::Add { loc, arg, len, tpl, prefix, fin } => format!("add {loc} {arg} {} {tpl} {} {}", len.map_or("none".into(), |l| l.to_string()), enc(prefix), fin_enc(fin)),
            MOp::Remove(k) => format!("remove {k}"), MOp::MpPrintln(t) => format!("mpprintln {}", enc(t)), MOp::MpClear => "mpclear".into(),
            MOp::MpSuspend(ls) => format!("mpsuspend {}", ls.iter().map(|l| enc(l)).collect::<Vec<_>>().join(" ")),
            MOp::Align(b) => format!("align {}", if *b { "bottom" } else { "top" }),
            MOp::Retarget => "retarget".into(),
            MOp::Bar(k, op) => format!("bar {k} {}", op.enc()),
        }
    }
}

pub struct Case { pub w: u16, pub h: u16, pub hz: u8, pub ops: Vec<MOp>, pub small: bool }

fn short(rng: &mut Rng, w: u16, multiline: bool) -> String {
    let len = match rng.below(8) { 0 => 0, 1 => w as u64, 2 => w as u64 + 1, _ => rng.below(w as u64 + 2) };
    let mut s: String = (0..len).map(|_| (b'a' + rng.below(26) as u8) as char).collect();
    // double-width characters, which wrap early when only one column is left in a row
    if w >= 2 && rng.chance(1, 8) { s = s.chars().map(|c| if rng.chance(1, 3) { *rng.pick(&['日', '本', '語']) } else { c }).collect(); }
    if multiline && rng.chance(1, 5) { let at = crate::bar::boundary(&s, rng.below(s.len() as u64 + 1) as usize); s.insert(at, '\n'); }
    if rng.chance(1, 10) { let at = crate::bar::boundary(&s, rng.below(s.len() as u64 + 1) as usize); s.insert_str(at, *rng.pick(&["\x1b[32m", "\x1b[0m"])); }
    s
}

pub fn gen_case(rng: &mut Rng, bottom: bool) -> Case {
    let w = *rng.pick(&[6u16, 10, 14, 20]);
    let h = *rng.pick(&[16u16, 24, 40]);
    let hz = if rng.chance(1, 2) { *rng.pick(&[1u8, 1, 20, 255]) } else { 0 };
    let n = rng.range(3, 30) as usize;
    // after a burst that exhausts the refresh limiter (20 draws) the next few operations are the ones whose
    // bookkeeping must not depend on whether a draw was skipped: finish, texts, drop, println, clear
    let mut hot = 0u32;
    let mut ops = Vec::new();
    let mut nbars = 0usize;
    let mut alive: Vec<bool> = Vec::new();      // not dropped
    let mut member: Vec<bool> = Vec::new();     // not removed
    let mut logn = 0;
    if bottom && rng.chance(1, 2) { ops.push(MOp::Align(true)); }
    for _ in 0..n {
        let live: Vec<usize> = (0..nbars).filter(|&k| alive[k]).collect();
        let anchors: Vec<usize> = (0..nbars).filter(|&k| alive[k] && member[k]).collect();
        let mut r = rng.below(30);
        if hz != 0 && hot == 0 && !live.is_empty() && rng.chance(1, 8) {
            let k = *rng.pick(&live);
            for _ in 0..rng.range(21, 28) { ops.push(MOp::Bar(k, BOp::Tick)); }
            hot = rng.range(3, 7) as u32;
        }
        if hot > 0 { hot -= 1; r = *rng.pick(&[5u64, 12, 13, 13, 14, 16, 17, 17, 18, 19, 20, 21, 23, 10, 22, 28]); }
        let op = if nbars == 0 || r < 5 {
            let loc = if anchors.is_empty() { rng.below(3) as u8 } else { rng.below(5) as u8 };
            let arg = match loc { 1 | 2 => *rng.pick(&[0usize, 1, 2, 5, usize::MAX >> 1]), 3 | 4 => *rng.pick(&anchors), _ => 0 };
            let fin = match rng.below(6) { 0 | 1 => Fin::Leave, 2 => Fin::Clear, 3 => Fin::Abandon, 4 => Fin::Msg(short(rng, w, false)), _ => Fin::AbandonMsg(short(rng, w, false)) };
            let tpl = *rng.pick(&[1usize, 1, 2, 3]);
            nbars += 1; alive.push(true); member.push(true);
            MOp::Add { loc, arg, len: Some(*rng.pick(&[5u64, 10])), tpl, prefix: format!("{}", (b'A' + ((nbars - 1) % 26) as u8) as char), fin }
        } else if live.is_empty() { logn += 1; MOp::MpPrintln(format!("L{logn}")) } else {
            let k = *rng.pick(&live);
            match r {
                5..=9 => MOp::Bar(k, BOp::Tick),
                10 | 11 => MOp::Bar(k, BOp::Inc(1)),
                12 | 13 => MOp::Bar(k, BOp::Msg(short(rng, w, true))),
                14 | 15 => { logn += 1; MOp::MpPrintln(if rng.chance(1, 6) { short(rng, 2 * w, true) } else { format!("L{logn}") }) }
                16 => { logn += 1; MOp::Bar(k, BOp::Println(format!("P{logn}"))) }
                17 | 18 => MOp::Bar(k, BOp::Finish(match rng.below(4) { 0 => Fin::Clear, 1 => Fin::Msg(short(rng, w, false)), 2 => Fin::Abandon, _ => Fin::Leave })),
                19 | 20 | 21 => { alive[k] = false; MOp::Bar(k, BOp::Drop) }
                22 => { if member[k] { member[k] = false; MOp::Remove(k) } else { MOp::Bar(k, BOp::Tick) } }
                23 => MOp::MpClear,
                24 => { let c = rng.below(3) as usize; MOp::MpSuspend((0..c).map(|_| { logn += 1; format!("S{logn}") }).collect()) }
                25 => MOp::Adv(*rng.pick(&[0u64, 1, 1_000_000, 50_000_000, 1_000_000_000, 5_000_000_000])),
                26 => MOp::Bar(k, BOp::Reset),
                27 => if bottom { MOp::Align(rng.chance(1, 2)) } else if rng.chance(1, 2) { MOp::Retarget } else { MOp::Bar(k, BOp::Tick) },
                28 => MOp::Bar(k, BOp::Suspend(vec![])),
                _ => MOp::Bar(k, BOp::SetPos(rng.below(12))),
            }
        };
        ops.push(op);
    }
    // often: drop everything at the end (in random order)
    if rng.chance(2, 3) {
        let mut live: Vec<usize> = (0..nbars).filter(|&k| alive[k]).collect();
        while !live.is_empty() { let i = rng.below(live.len() as u64) as usize; let k = live.remove(i); ops.push(MOp::Bar(k, BOp::Drop)); }
    }
    Case { w, h, hz, ops, small: false }
}

/// Structured histories around the zombie / stale-frame bookkeeping: a few bars (some two rows high) are
/// drawn, the refresh limiter is (perhaps) exhausted, head bars finish, the frame is (perhaps) invalidated
/// by clear / remove, a tick is (perhaps) skipped, finished bars are dropped, and text is printed.
pub fn gen_scenario(rng: &mut Rng) -> Case {
    let w = *rng.pick(&[6u16, 10, 14]);
    let hz = *rng.pick(&[0u8, 1, 1, 1, 20]);
    let nb = rng.range(2, 4) as usize;
    let mut ops = vec![MOp::MpPrintln("L0".into()), MOp::MpPrintln("L1".into())];
    // a third of the scenarios have a status line: a `{msg}`-only bar, which renders nothing while its message is empty
    let status: Option<usize> = if rng.chance(1, 3) { Some(rng.below(nb as u64) as usize) } else { None };
    // (its messages are plain and not blank: a line made of colour codes or a lone line break has no text the frame oracles could find)
    let plain = |rng: &mut Rng| -> String { (0..rng.range(1, w as u64)).map(|_| (b'a' + rng.below(26) as u8) as char).collect() };
    for k in 0..nb {
        let fin = match rng.below(4) { 0 => Fin::Clear, 1 => Fin::Msg(if status == Some(k) { plain(rng) } else { short(rng, w, true) }), _ => Fin::Leave };
        ops.push(MOp::Add { loc: 0, arg: 0, len: Some(10), tpl: if status == Some(k) { 0 } else { *rng.pick(&[1usize, 3, 3]) }, prefix: format!("{}", (b'A' + k as u8) as char), fin });
    }
    if let Some(j) = status { let m = plain(rng); ops.push(MOp::Bar(j, BOp::Msg(m))); }
    for k in 0..nb { if rng.chance(4, 5) { ops.push(MOp::Bar(k, BOp::Tick)); } if rng.chance(1, 3) { let m = if status == Some(k) { plain(rng) } else { short(rng, w, true) }; ops.push(MOp::Bar(k, BOp::Msg(m))); } }
    if hz != 0 && rng.chance(3, 4) { let k = rng.below(nb as u64) as usize; for _ in 0..rng.range(20, 26) { ops.push(MOp::Bar(k, BOp::Tick)); } }
    let mut alive = vec![true; nb]; let mut member = vec![true; nb];
    let nfin = rng.range(1, nb as u64) as usize;
    let mut logn = 1;
    let rounds = rng.range(1, 2);
    for _ in 0..rounds {
        // A: head bars finish (visibly or not), some get a taller message afterwards
        for k in 0..nfin { if alive[k] && rng.chance(3, 4) {
            ops.push(MOp::Bar(k, BOp::Finish(match rng.below(5) { 0 => Fin::Clear, 1 => Fin::Msg(if status == Some(k) { plain(rng) } else { short(rng, 2 * w, true) }), 2 => Fin::Abandon, _ => Fin::Leave })));
            if rng.chance(1, 3) { let m = if status == Some(k) { plain(rng) } else { short(rng, 2 * w, true) }; ops.push(MOp::Bar(k, BOp::Msg(m))); } } }
        // B: the painted frame is invalidated, or not
        match rng.below(5) { 0 | 1 => ops.push(MOp::MpClear), 2 => { let k = rng.below(nb as u64) as usize; if alive[k] && member[k] { member[k] = false; ops.push(MOp::Remove(k)); } } 3 => ops.push(MOp::MpSuspend(vec![])), _ => {} }
        // B': the status line is emptied (an update the limiter may skip: the stored rendering is empty, the screen still shows the
        // old text) and removed right away
        if let Some(j) = status { if alive[j] && member[j] && rng.chance(1, 2) { ops.push(MOp::Bar(j, BOp::Msg(String::new()))); if rng.chance(3, 4) { member[j] = false; ops.push(MOp::Remove(j)); } } }
        // C: an ordinary redraw request that the limiter may skip, or time passes
        match rng.below(4) { 0 | 1 => { let j = rng.below(nb as u64) as usize; if alive[j] { ops.push(MOp::Bar(j, BOp::Tick)); } } 2 => ops.push(MOp::Adv(*rng.pick(&[1_000_000u64, 1_000_000_000]))), _ => {} }
        // D: finished bars are dropped, in some order
        let mut ks: Vec<usize> = (0..nfin).filter(|&k| alive[k]).collect();
        if rng.chance(1, 2) { ks.reverse(); }
        for k in ks { if rng.chance(4, 5) { alive[k] = false; ops.push(MOp::Bar(k, BOp::Drop)); } }
        // E: text and further draws
        for _ in 0..rng.range(1, 3) { match rng.below(4) {
            0 | 1 => { logn += 1; ops.push(MOp::MpPrintln(format!("L{logn}"))); }
            2 => { let j = rng.below(nb as u64) as usize; if alive[j] { logn += 1; ops.push(MOp::Bar(j, BOp::Println(format!("P{logn}")))); } }
            _ => { let j = rng.below(nb as u64) as usize; if alive[j] { ops.push(MOp::Bar(j, BOp::Tick)); } } } }
    }
    logn += 1; ops.push(MOp::MpPrintln(format!("L{logn}")));
    for k in 0..nb { if alive[k] && rng.chance(1, 2) { ops.push(MOp::Bar(k, BOp::Tick)); } }
    if rng.chance(1, 2) { for k in 0..nb { if alive[k] { ops.push(MOp::Bar(k, BOp::Drop)); } } }
    Case { w, h: 24, hz, ops, small: false }
}

/// bottom alignment around the blank rows of a frame that has shrunk (F35, F36): a rate-limited target with its burst used up, a
/// head bar that finishes with a tall rendering and then shrinks (forced draws), other bars added or changed afterwards whose draws
/// the limiter skips, then drops in some order, and more draws; no text afterwards, so that the final-rendering oracle judges the end
pub fn gen_bottom_scenario(rng: &mut Rng) -> Case {
    let w = *rng.pick(&[6u16, 10, 14]);
    let hz = *rng.pick(&[1u8, 1, 20]);
    let mut ops = vec![MOp::Align(true)];
    let nb = rng.range(1, 3) as usize;
    for k in 0..nb { ops.push(MOp::Add { loc: 0, arg: 0, len: Some(5), tpl: *rng.pick(&[1usize, 2, 3]), prefix: format!("{}", (b'A' + k as u8) as char), fin: Fin::Leave }); }
    for _ in 0..rng.range(18, 24) { ops.push(MOp::Bar(0, BOp::Tick)); }
    let mut alive = vec![true; nb];
    for k in 0..nb { if k == 0 || rng.chance(1, 2) {
        ops.push(MOp::Bar(k, BOp::Finish(match rng.below(3) { 0 => Fin::Msg(short(rng, 2 * w, true)), 1 => Fin::AbandonMsg(short(rng, 2 * w, true)), _ => Fin::Leave })));
        if rng.chance(2, 3) { ops.push(MOp::Bar(k, BOp::Msg(if rng.chance(1, 2) { String::new() } else { short(rng, w / 2, false) }))); } } }
    // bars that join or change after the last painted frame: the limiter skips their draws
    let mut n = nb;
    for _ in 0..rng.below(3) {
        let loc = rng.below(5) as u8;
        let arg = if loc >= 3 { rng.below(nb as u64) as usize } else { rng.below(3) as usize };
        ops.push(MOp::Add { loc, arg, len: Some(10), tpl: *rng.pick(&[1usize, 3]), prefix: format!("{}", (b'A' + n as u8) as char), fin: Fin::Abandon });
        alive.push(true);
        if rng.chance(2, 3) { ops.push(MOp::Bar(n, BOp::Msg(short(rng, 2 * w, true)))); }
        n += 1;
    }
    if rng.chance(1, 4) { ops.push(MOp::Adv(*rng.pick(&[1_000_000u64, 1_000_000_000]))); }
    let mut ks: Vec<usize> = (0..n).collect();
    if rng.chance(1, 3) { ks.reverse(); }
    for k in ks { if rng.chance(5, 6) { alive[k] = false; ops.push(MOp::Bar(k, BOp::Drop)); if rng.chance(1, 4) { let j = rng.below(n as u64) as usize; if alive[j] { ops.push(MOp::Bar(j, BOp::Tick)); } } } }
    for k in 0..n { if alive[k] { ops.push(MOp::Bar(k, BOp::Drop)); } }
    Case { w, h: 24, hz, ops, small: false }
}

pub fn encode(c: &Case) -> String {
    let mut s = format!("MULTI FX={} {} {} {} {}", crate::common::fx("draw"), c.w, c.h, c.hz, T0);
    for op in &c.ops { s.push_str(" ; "); s.push_str(&op.enc()); }
    s
}

fn show_rows(rows: &[String]) -> String { rows.iter().map(|r| r.chars().filter(|c| unicode_width::UnicodeWidthChar::width(*c).unwrap_or(0) > 0).map(|c| (c as u32).to_string()).collect::<Vec<_>>().join(".")).collect::<Vec<_>>().join("|") }
fn wrap(line: &str, w: usize) -> Vec<String> { crate::bar::wrap(line, w) }

struct BarInfo { pb: Option<ProgressBar>, tpl: usize, on_finish: Fin, removed: bool, hidden: bool, finished_visible_render: Option<Vec<String>>, ever_drawn: bool, acceptable: Vec<Vec<String>> }

fn render(tpl: usize, prefix: &str, msg: &str, pos: u64, len: Option<u64>) -> Vec<String> {
    let lenv = len.unwrap_or(pos);
    let mut out = Vec::new();
    let tls: Vec<&str> = TEMPLATES[tpl].split('\n').collect();
    for (i, tl) in tls.iter().enumerate() {
        let r = tl.replace("{msg}", msg).replace("{prefix}", prefix).replace("{pos}", &pos.to_string()).replace("{len}", &lenv.to_string());
        if i + 1 == tls.len() && r.is_empty() { continue; }
        out.extend(r.split('\n').map(|s| s.to_string()));
    }
    out
}

/// a generated history on which the crate panics outside the places the scenario itself watches: the panic is the verdict
/// of that history, not the end of the harness (re-runs of edited histories keep calling `run_case`: there a panic may be
/// the harness's own, on a history that refers to bars that no longer exist)
pub fn run_case_caught(c: &Case) -> (String, String) {
    crate::common::about_to_run(&encode(c));
    match std::panic::catch_unwind(std::panic::AssertUnwindSafe(|| run_case(c))) {
        Ok(x) => x,
        Err(_) => ("panic".to_string(), "FAIL panic: an operation of this history panics inside the crate".to_string()),
    }
}

pub fn run_case(c: &Case) -> (String, String) {
    vh::set_auto_advance_ns(0);
    vh::set_now_ns(T0);
    let rec = Recorder::new(c.h, c.w, true);
    let target = if c.hz == 0 { ProgressDrawTarget::term_like(Box::new(rec.clone())) } else { ProgressDrawTarget::term_like_with_hz(Box::new(rec.clone()), c.hz) };
    let mp = MultiProgress::with_draw_target(target);
    let mut bars: Vec<BarInfo> = Vec::new();
    let mut now = T0;
    let mut logs: Vec<String> = Vec::new();
    let mut verdict = String::from("ok");
    let w = c.w as usize;
    let mut order: Vec<usize> = Vec::new();          // logical order of current members (bar numbers)
    let mut disturbed_after_finish = false;          // println / clear / suspend / remove after the first finish or drop
    let mut any_finished = false;
    let mut bottom_used = false;
    let mut retargeted = false;
    let mut aligned = false;   // set_alignment was used: frames may contain blank rows (bottom alignment)
    let mut log_unjudged = false;
    let mut lingering: Vec<String> = Vec::new();      // rows of bars removed since the last draw (remove does not redraw by itself)
    let mut any_remove = false;
    let mut cleared_since_draw = false;               // after MultiProgress::clear nothing need be shown until the next draw
    let mut order_ambiguous = false;                  // index-based insert while a dropped bar may or may not still count as a member
    // every row a legitimate paint can have produced so far: the wrapped rows of every log line and of every rendering any bar has had
    let mut legit: std::collections::HashSet<String> = std::collections::HashSet::new();
    // C05 for a MultiProgress: instants of the frames painted by ordinary (non-forced) requests of unfinished members
    let mut ordinary_frames: Vec<u64> = Vec::new();
    for (k_op, op) in c.ops.iter().enumerate() {
        let flushes_before = rec.flushes();
        let ordinary = match op { MOp::Bar(k, BOp::Tick | BOp::Inc(_) | BOp::Dec(_) | BOp::SetPos(_) | BOp::Msg(_) | BOp::Prefix(_) | BOp::Len(_)) =>
            bars.get(*k).map_or(false, |b| !b.removed && !b.hidden && b.pb.as_ref().map_or(false, |p| !p.is_finished())), _ => false };
        if std::env::var("VERIF_TRACE").is_ok() { eprintln!("op {k_op}"); }
        match op {
            MOp::Adv(d) => { now += d; vh::set_now_ns(now); }
            MOp::Add { loc, arg, len, tpl, prefix, fin } => {
                let pb = ProgressBar::with_draw_target(*len, ProgressDrawTarget::hidden());
                pb.set_style(ProgressStyle::with_template(TEMPLATES[*tpl]).unwrap());
                let pb = pb.with_finish(fin_pf(fin)).with_prefix(prefix.clone());
                let pb = match loc {
                    0 => mp.add(pb), 1 => mp.insert(*arg, pb), 2 => mp.insert_from_back(*arg, pb),
                    3 => { let a = bars[*arg].pb.as_ref().unwrap().clone(); mp.insert_before(&a, pb) }
                    _ => { let a = bars[*arg].pb.as_ref().unwrap().clone(); mp.insert_after(&a, pb) }
                };
                let new_k = bars.len();
                // logical order per the documentation of add / insert / insert_from_back / insert_before / insert_after
                if (*loc == 1 || *loc == 2) && order.iter().any(|&x| bars[x].pb.is_none()) { order_ambiguous = true; }
                match loc {
                    0 => order.push(new_k),
                    1 => { let p = (*arg).min(order.len()); order.insert(p, new_k); }
                    2 => { let p = order.len().saturating_sub(*arg); order.insert(p, new_k); }
                    3 => { let p = order.iter().position(|x| x == arg).unwrap(); order.insert(p, new_k); }
                    _ => { let p = order.iter().position(|x| x == arg).unwrap(); order.insert(p + 1, new_k); }
                }
                bars.push(BarInfo { pb: Some(pb), tpl: *tpl, on_finish: fin.clone(), removed: false, hidden: false, finished_visible_render: None, ever_drawn: false, acceptable: vec![] });
            }
            MOp::Remove(k) => { if let Some(pb) = bars[*k].pb.as_ref() { mp.remove(pb); bars[*k].removed = true; any_remove = true; for r in bars[*k].acceptable.iter() { for l in r { lingering.extend(wrap(l, w)); } } order.retain(|x| x != k); if any_finished { disturbed_after_finish = true; } } }
            MOp::MpPrintln(t) => { if any_finished { disturbed_after_finish = true; } mp.println(t).unwrap(); if t.is_empty() { logs.push(String::new()) } else { logs.extend(t.lines().map(|l| l.to_string())) } }
            MOp::MpClear => { if any_finished { disturbed_after_finish = true; } cleared_since_draw = true; mp.clear().unwrap() }
            MOp::MpSuspend(ls) => { if any_finished { disturbed_after_finish = true; } let r2 = rec.clone(); let l2 = ls.clone(); mp.suspend(move || for l in &l2 { r2.write_line(l).unwrap(); }); logs.extend(ls.iter().cloned()); }
            // the old target's last frame stays on the screen: from here on only the log oracle and the model judge
            MOp::Retarget => { bottom_used = true; retargeted = true;
                // a frame that was cut off at the terminal height leaves the cursor in the middle of a row, and the new target cannot
                // know: what is printed next continues that row. Nothing printed after such a retarget is judged by the log oracle.
                let (_, col) = rec.cursor(); if col != 0 && col != c.w { log_unjudged = true; }
                mp.set_draw_target(if c.hz == 0 { ProgressDrawTarget::term_like(Box::new(rec.clone())) } else { ProgressDrawTarget::term_like_with_hz(Box::new(rec.clone()), c.hz) }); }
            MOp::Align(b) => { bottom_used = true; aligned = true; mp.set_alignment(if *b { MultiProgressAlignment::Bottom } else { MultiProgressAlignment::Top }) }
            MOp::Bar(k, bop) => {
                let info = &mut bars[*k];
                if let Some(pb) = info.pb.as_ref() {
                    match bop {
                        BOp::Tick => pb.tick(), BOp::Inc(d) => pb.inc(*d), BOp::Dec(d) => pb.dec(*d), BOp::SetPos(p) => pb.set_position(*p),
                        BOp::Msg(m) => pb.set_message(m.clone()), BOp::Prefix(m) => pb.set_prefix(m.clone()),
                        BOp::Len(None) => pb.unset_length(), BOp::Len(Some(l)) => pb.set_length(*l),
                        BOp::Println(m) => { pb.println(m); if !info.removed { if m.is_empty() { logs.push(String::new()) } else { logs.extend(m.lines().map(|l| l.to_string())) } } }
                        BOp::Suspend(ls) => { let r2 = rec.clone(); let l2 = ls.clone(); pb.suspend(move || for l in &l2 { r2.write_line(l).unwrap(); }); logs.extend(ls.iter().cloned()); }
                        BOp::Reset => { pb.reset(); info.hidden = false; }
                        BOp::Finish(f) => { match f { Fin::Leave => pb.finish(), Fin::Clear => pb.finish_and_clear(), Fin::Abandon => pb.abandon(), Fin::Msg(m) => pb.finish_with_message(m.clone()), Fin::AbandonMsg(m) => pb.abandon_with_message(m.clone()) }; info.hidden = matches!(f, Fin::Clear); }
                        BOp::FinishStyle => { pb.finish_using_style(); info.hidden = matches!(info.on_finish, Fin::Clear); }
                        BOp::Adv(_) | BOp::Iter(_) => {}
                        BOp::Drop => {
                            let (prefix, mut msg, mut pos, len, fin) = (pb.prefix(), pb.message(), pb.position(), pb.length(), pb.is_finished());
                            if !fin { match &info.on_finish { Fin::Leave => { if let Some(l) = len { pos = l } } Fin::Clear => { info.hidden = true; } Fin::Msg(m) => { if let Some(l) = len { pos = l }; msg = m.clone() } Fin::Abandon => {} Fin::AbandonMsg(m) => msg = m.clone() } }
                            if !info.hidden && !info.removed { info.finished_visible_render = Some(render(info.tpl, &prefix, &msg, pos, len)); }
                            info.pb = None;
                        }
                    }
                    if matches!(bop, BOp::Println(_) | BOp::Suspend(_)) && any_finished { disturbed_after_finish = true; }
                    if matches!(bop, BOp::Finish(_) | BOp::FinishStyle | BOp::Drop) { any_finished = true; }
                    if let Some(pb) = info.pb.as_ref() {
                        let cur = if info.hidden { vec![] } else { render(info.tpl, &pb.prefix(), &pb.message(), pb.position(), pb.length()) };
                        let gated = matches!(bop, BOp::Inc(_) | BOp::Dec(_) | BOp::SetPos(_));
                        if matches!(bop, BOp::Adv(_) | BOp::Suspend(_)) {} else if gated { if info.ever_drawn || true { info.acceptable.push(cur); } } else { info.acceptable = vec![cur]; info.ever_drawn = true; }
                        if gated { info.ever_drawn = info.ever_drawn || true; }
                    }
                }
            }
        }
        for b in bars.iter() {
            for r in b.acceptable.iter().chain(b.finished_visible_render.iter()) { for l in r { for ch in wrap(l, w) { legit.insert(ch); } } }
        }
        // ---- oracles on the screen after this operation (only meaningful once something was flushed)
        if verdict != "ok" || log_unjudged { continue; }
        let rows = rec.rows();
        // C19 / C01: no foreign rows. Whatever the terminal height, the limiter and the alignment, every non-blank row on the screen
        // (scrollback included) is a whole wrapped row of a printed line or of a rendering some bar has had; a row made of two
        // renderings, a truncated or a shifted row is the mark of a frame that was painted over something it did not erase
        for l in &logs { for ch in wrap(l, w) { legit.insert(ch); } }
        if let Some(r) = rows.iter().find(|r| !crate::bar::plain(r).trim().is_empty() && !legit.contains(*r)) {
            verdict = format!("FAIL C19 foreign-row op={k_op} {} row={r:?} screen={}", op.enc(), show_rows(&rows)); continue;
        }
        // C03: every log line present exactly once, in order
        let mut at = 0usize;
        // trailing blank rows are invisible in a snapshot: blank log lines at the very end cannot be checked
        let mut checkable = logs.len();
        while checkable > 0 && crate::bar::plain(&logs[checkable - 1]).is_empty() { checkable -= 1; }
        for l in &logs[..checkable] {
            let chunks = wrap(l, w);
            let found = (at..rows.len()).find(|&i| i + chunks.len() <= rows.len() && (0..chunks.len()).all(|j| rows[i + j] == chunks[j]));
            match found { Some(i) => at = i + chunks.len(), None => { verdict = format!("FAIL C03 log-missing op={k_op} {} line={l:?} screen={}", op.enc(), show_rows(&rows)); break; } }
        }
        if ordinary && rec.flushes() > flushes_before { ordinary_frames.push(now); }
        // C02 (only without rate limiting and bottom alignment): below the log, every live bar that has been
        // drawn appears exactly once, in logical order; every other row is the final rendering of a dropped bar
        if rec.flushes() > flushes_before && !matches!(op, MOp::MpClear) { cleared_since_draw = false; lingering.clear(); }
        // with a rate-limited target the screen shows the last painted frame, so the frame is judged at the
        // operations that painted one: every member's stored lines are refreshed by each of its draw requests,
        // painted or not, hence a painted frame shows every bar's latest requested rendering
        if verdict == "ok" && !c.small && (c.hz == 0 || rec.flushes() > flushes_before) && !bottom_used && !cleared_since_draw && checkable == logs.len() && rec.flushes() > 0 {
            let region: Vec<String> = rows[at.min(rows.len())..].to_vec();
            // a frame taller than the terminal is cut off at its height (C19's streams judge those): the members' latest renderings must fit
            // (counted generously: every bar that has ever been drawn and was not removed, dropped or not — a dropped bar stays in the frame until it is reaped)
            let needed: usize = bars.iter().filter(|b| !b.removed).filter_map(|b| b.acceptable.last().or(b.finished_visible_render.as_ref())).map(|r| r.iter().map(|l| wrap(l, w).len()).sum::<usize>()).sum();
            // (rows of finished, dropped members that are not reaped yet are part of the frame too: the whole region must be shorter than the terminal)
            let fits_terminal = needed <= c.h as usize && region.len() < c.h as usize;
            let mut pos_of: Vec<(usize, usize, usize)> = Vec::new();  // (bar, start, len)
            let mut claimed = vec![false; region.len()];
            let mut cursor = 0usize;
            for &k in &order {
                if !fits_terminal { break; }
                let info = &bars[k];
                if info.pb.is_none() || info.acceptable.is_empty() { continue; }
                let mut found: Option<(usize, usize)> = None;
                for cand in info.acceptable.iter().rev() {
                    let chunks: Vec<String> = cand.iter().flat_map(|l| wrap(l, w)).collect();
                    if chunks.is_empty() { found = Some((cursor, 0)); break; }
                    // (a row of this rendering may also occur elsewhere — the wrapped rest of another bar's line, a dropped bar's final row:
                    // positions at or below the bars found so far are tried first)
                    let fits = |i: usize| i + chunks.len() <= region.len() && (0..chunks.len()).all(|j| region[i + j] == chunks[j] && !claimed[i + j]);
                    if let Some(i) = (cursor..region.len()).find(|&i| fits(i)).or_else(|| (0..cursor.min(region.len())).find(|&i| fits(i))) { found = Some((i, chunks.len())); break; }
                }
                match found {
                    None => { verdict = format!("FAIL C02 live-bar-missing op={k_op} {} bar={k} region={}", op.enc(), show_rows(&region)); break; }
                    Some((i, n)) => { if n > 0 { if i < cursor && !order_ambiguous { verdict = format!("FAIL C02 order op={k_op} {} bar={k} region={}", op.enc(), show_rows(&region)); break; } for j in 0..n { claimed[i + j] = true; } cursor = i + n; } pos_of.push((k, i, n)); }
                }
            }
            if verdict == "ok" && fits_terminal {
                // unclaimed rows must come from final renderings of dropped, visibly finished bars
                let finals: Vec<String> = bars.iter().filter_map(|b| b.finished_visible_render.as_ref()).flat_map(|r| r.iter().flat_map(|l| wrap(l, w))).collect();
                for (i, r) in region.iter().enumerate() { if !claimed[i] && !r.is_empty() && !finals.contains(r) && !lingering.contains(r) { verdict = format!("FAIL C02 stale-row op={k_op} {} row={r:?} region={}", op.enc(), show_rows(&region)); break; } }
            }
        }
    }
    // (with bottom alignment blank rows may separate the renderings: the comparison ignores blank rows then)
    if verdict == "ok" && !c.small && (!bottom_used || (aligned && !retargeted)) && !any_remove && !order_ambiguous && !cleared_since_draw && !disturbed_after_finish && bars.iter().all(|b| b.pb.is_none()) && !bars.is_empty() {
        let rows = rec.rows();
        let mut at = 0usize;
        for l in &logs { let chunks = wrap(l, w); if let Some(i) = (at..rows.len()).find(|&i| i + chunks.len() <= rows.len() && (0..chunks.len()).all(|j| rows[i + j] == chunks[j])) { at = i + chunks.len(); } }
        let mut exp: Vec<String> = order.iter().filter_map(|&k| bars[k].finished_visible_render.as_ref()).flat_map(|r| r.iter().flat_map(|l| wrap(l, w))).collect();
        while exp.last().map_or(false, |r| r.is_empty()) { exp.pop(); }
        let mut region: Vec<String> = rows[at.min(rows.len())..].to_vec();
        if aligned { region.retain(|r| !r.is_empty()); exp.retain(|r| !r.is_empty()); }
        if region != exp { verdict = format!("FAIL C04 final-renderings got={} exp={}", show_rows(&region), show_rows(&exp)); }
    }
    if verdict == "ok" && !lingering.is_empty() && rec.flushes() > 0 && !retargeted {
        let rows = rec.rows();
        if let Some(r) = lingering.iter().find(|r| !r.is_empty() && rows.contains(r)) { verdict = format!("FAIL C02 removed-lines-linger row={r:?} screen={}", show_rows(&rows)); }
    }
    // the frame-rate bound of C05 over every window delimited by two such frames (one limiter: not after set_draw_target)
    if verdict == "ok" && c.hz > 0 && !retargeted {
        let r = c.hz as u128;
        'w: for i in 0..ordinary_frames.len() { for j in i..ordinary_frames.len() {
            let k = (j - i + 1) as u128; let t_ns = (ordinary_frames[j] - ordinary_frames[i]) as u128;
            if k > 21 && (k - 21) * 1_000_000_000 > r * t_ns { verdict = format!("FAIL C05 frame-rate {k} frames painted by ordinary requests within {t_ns} ns at {} Hz (bound 20 + R*T + 1)", c.hz); break 'w; }
        } }
    }
    let st = rec.st.lock().unwrap();
    let snaps: Vec<String> = st.snapshots.iter().zip(st.cursor_at_flush.iter()).map(|(rows, (r, cc))| format!("{r},{cc} {}", show_rows(rows))).collect();
    let obs = format!("calls={} panicked=false {}", st.calls, snaps.join(" ; "));
    drop(st);
    // everything was observed above; dropping (rather than leaking) the bars keeps a thorough run's memory flat
    let _ = std::panic::catch_unwind(std::panic::AssertUnwindSafe(|| { for b in bars.iter_mut() { b.pb.take(); } drop(mp); }));
    (obs, verdict)
}

/// Layer-1 stream: histories in which no line wraps and every frame fits (wide, tall terminal, short texts, top
/// alignment), for the row-level model `Model/Rows.lean`; observation = the screen at every painted frame
pub fn run_rows(seed: u64, tier: &str, out: &mut Out) {
    let mut rng = Rng::new(seed ^ 0x2025);
    let n = if tier == "thorough" { 100_000 } else { 3_000 };
    for _ in 0..n {
        let mut c = if rng.chance(1, 3) { gen_scenario(&mut rng) } else { gen_case(&mut rng, false) };
        // texts were generated for widths of at most 20 columns (at most 2w+1 = 41 characters) and at most 6-8 bars
        c.w = 60; c.h = 80;
        let case = encode(&c).replacen("MULTI", "ROWS", 1);
        let (obs, verdict) = run_case_caught(&c);
        // keep the screens only: "r,c rows ; r,c rows" -> "rows ; rows"
        let (head, snaps) = obs.split_once("panicked=false").unwrap_or(("", ""));
        let _ = head;
        let frames: Vec<String> = snaps.split(" ; ").map(|s| s.trim_start().split_once(' ').map_or(String::new(), |(_, r)| r.to_string())).collect();
        let frames = if snaps.trim().is_empty() { vec![] } else { frames };
        out.emit(&case, &format!("panicked=false {} ORACLE {verdict}", frames.join(" ; ")));
    }
}

/// Layer-1 stream with wrapping: the same histories on a narrow, very tall terminal (every frame fits, lines wrap into several rows:
/// texts are up to 2w+1 columns long, also with double-width glyphs and colour sequences), for the row-level model with `wrapW = w`
pub fn run_rows_wrapping(seed: u64, tier: &str, out: &mut Out) {
    let mut rng = Rng::new(seed ^ 0x2026);
    let n = if tier == "thorough" { 100_000 } else { 3_000 };
    for _ in 0..n {
        let mut c = if rng.chance(1, 3) { gen_scenario(&mut rng) } else { gen_case(&mut rng, false) };
        if c.w < 4 { c.w = 4 + (c.w % 3); }
        c.h = 400;
        let case = encode(&c).replacen("MULTI", "ROWS", 1);
        let (obs, verdict) = run_case_caught(&c);
        let (_, snaps) = obs.split_once("panicked=false").unwrap_or(("", ""));
        let frames: Vec<String> = snaps.split(" ; ").map(|s| s.trim_start().split_once(' ').map_or(String::new(), |(_, r)| r.to_string())).collect();
        let frames = if snaps.trim().is_empty() { vec![] } else { frames };
        out.emit(&case, &format!("panicked=false {} ORACLE {verdict}", frames.join(" ; ")));
    }
}

/// C05 on MultiProgress targets: always rate limited, so that "skipped draws lose nothing" is judged at every
/// painted frame (each member shows its latest requested rendering)
/// "skipped draws lose nothing": the bucket of a rate-limited MultiProgress is used up by one member; another member is updated
/// while its draws are skipped (messages: requests that always reach the limiter); then time passes for one token and the first
/// member paints the next frame — which must show the other member's latest message, not the one of the last painted frame
fn gen_throttle_scenario(rng: &mut Rng) -> Case {
    let w = *rng.pick(&[14u16, 20, 40]);
    let hz = *rng.pick(&[1u8, 2, 20]);
    let mut ops = vec![MOp::MpPrintln("L0".into())];
    ops.push(MOp::Add { loc: 0, arg: 0, len: Some(10), tpl: 1, prefix: "A".into(), fin: Fin::Leave });
    ops.push(MOp::Add { loc: 0, arg: 0, len: Some(10), tpl: 3, prefix: "B".into(), fin: Fin::Leave });
    ops.push(MOp::Bar(1, BOp::Msg("first".into())));
    for _ in 0..rng.range(21, 26) { ops.push(MOp::Bar(0, BOp::Tick)); }
    for r in 0..rng.range(1, 3) {
        for k in 0..rng.range(1, 3) { ops.push(MOp::Bar(1, BOp::Msg(format!("m{r}{k}")))); if rng.chance(1, 2) { ops.push(MOp::Bar(1, BOp::Tick)); } }
        ops.push(MOp::Adv(1_000_000_000 / hz as u64 + 1));
        ops.push(MOp::Bar(0, BOp::Tick));
    }
    // the bars are cleared now and then while they keep being updated: a cleared frame is not a reason to paint outside the budget
    if rng.chance(1, 2) { for _ in 0..rng.range(25, 40) { ops.push(MOp::MpClear); ops.push(MOp::Bar(0, BOp::Tick)); if rng.chance(1, 3) { ops.push(MOp::Bar(1, BOp::Msg("c".into()))); } } }
    if rng.chance(1, 2) { ops.push(MOp::MpPrintln("L1".into())); }
    Case { w, h: 24, hz, ops, small: false }
}

pub fn run_limited(seed: u64, tier: &str, out: &mut Out) {
    let mut rng = Rng::new(seed ^ 0x05);
    let n = if tier == "thorough" { 100_000 } else { 2_000 };
    for i in 0..n {
        let mut c = if i % 5 == 4 { gen_throttle_scenario(&mut rng) } else if rng.chance(1, 3) { gen_scenario(&mut rng) } else { gen_case(&mut rng, false) };
        if c.hz == 0 { c.hz = *rng.pick(&[1u8, 1, 20, 255]); }
        let case = encode(&c);
        let (obs, verdict) = run_case_caught(&c);
        out.emit(&case, &format!("{obs} ORACLE {verdict}"));
    }
}

/// C19: the same histories on terminals too small for all bars (the frame-level oracles need the whole frame and
/// are off; correspondence with the model and the log oracle remain)
pub fn run_small(seed: u64, tier: &str, out: &mut Out) {
    let mut rng = Rng::new(seed ^ 0x19);
    let n = if tier == "thorough" { 100_000 } else { 2_000 };
    let only: Option<usize> = std::env::var("VERIF_ONLY").ok().and_then(|v| v.parse().ok());
    for i in 0..n {
        let mut c = if rng.chance(1, 4) { gen_scenario(&mut rng) } else { gen_case(&mut rng, false) };
        c.small = true; c.h = *rng.pick(&[2u16, 3, 4, 5, 6]); c.w = *rng.pick(&[3u16, 4, 6, 10]);
        if only.map_or(false, |o| o != i) { continue; }
        let case = encode(&c);
        let (obs, verdict) = run_case_caught(&c);
        out.emit(&case, &format!("{obs} ORACLE {verdict}"));
    }
}

pub fn run(seed: u64, tier: &str, out: &mut Out, bottom: bool) {
    let mut rng = Rng::new(seed);
    let n = if tier == "thorough" { 200_000 } else { 3_000 };
    for _ in 0..n {
        let c = if !bottom && rng.chance(1, 4) { gen_scenario(&mut rng) } else if bottom && rng.chance(1, 5) { gen_bottom_scenario(&mut rng) } else { gen_case(&mut rng, bottom) };
        let case = encode(&c);
        let (obs, verdict) = run_case_caught(&c);
        out.emit(&case, &format!("{obs} ORACLE {verdict}"));
    }
}

/// C03 (hidden detour): the MultiProgress is switched to a hidden target and back to the terminal
/// (`set_draw_target`) while finished, dropped bars still have rows on the screen. Lines written to the
/// terminal in between (by `suspend` closures) and printed afterwards must all stay. Judged by the log oracle only.
pub fn run_detour(seed: u64, tier: &str, out: &mut Out) {
    let mut rng = Rng::new(seed ^ 0x0303);
    let n = if tier == "thorough" { 50_000 } else { 1_500 };
    for _ in 0..n {
        vh::set_auto_advance_ns(0); vh::set_now_ns(T0);
        let rec = Recorder::new(24, 40, true);
        let mp = MultiProgress::with_draw_target(ProgressDrawTarget::term_like(Box::new(rec.clone())));
        let nb = rng.range(1, 4) as usize;
        let mut case = format!("NOMODEL DETOUR bars={nb}");
        let mut logs: Vec<String> = Vec::new();
        let mut bars: Vec<Option<ProgressBar>> = (0..nb).map(|i| {
            let pb = ProgressBar::with_draw_target(Some(10), ProgressDrawTarget::hidden());
            pb.set_style(ProgressStyle::with_template(if i % 2 == 0 { "{prefix} {pos}/{len}" } else { "{prefix}\n{pos}" }).unwrap());
            Some(mp.add(pb.with_prefix(format!("B{i}")).with_finish(ProgressFinish::AndLeave)))
        }).collect();
        for b in bars.iter().flatten() { b.tick(); }
        let mut logn = 0;
        let mut hidden = false;
        let k = rng.range(3, 14);
        for _ in 0..k {
            match rng.below(8) {
                0 | 1 => { if let Some(i) = (0..nb).find(|&i| bars[i].is_some()) { case += &format!(" ; finishdrop {i}"); let b = bars[i].take().unwrap(); b.finish(); drop(b); } }
                2 => { logn += 1; let l = format!("L{logn}"); case += &format!(" ; println {l}"); mp.println(&l).unwrap(); if !hidden { logs.push(l); } }
                3 => { logn += 1; let l = format!("S{logn}"); case += &format!(" ; suspend {l}"); let r2 = rec.clone(); let l2 = l.clone(); mp.suspend(move || r2.write_line(&l2).unwrap()); logs.push(l); }
                4 => { case += " ; hide"; mp.set_draw_target(ProgressDrawTarget::hidden()); hidden = true; }
                5 => { case += " ; show"; mp.set_draw_target(ProgressDrawTarget::term_like(Box::new(rec.clone()))); hidden = false; }
                6 => { if let Some(b) = bars.iter().flatten().last() { case += " ; tick"; b.tick(); } }
                _ => { if let Some(b) = bars.iter().flatten().next() { logn += 1; let l = format!("P{logn}"); case += &format!(" ; barprintln {l}"); b.println(&l); if !hidden { logs.push(l); } } }
            }
        }
        let rows = rec.rows();
        let mut at = 0usize; let mut verdict = "ok".to_string();
        for l in &logs {
            match (at..rows.len()).find(|&i| rows[i] == *l) { Some(i) => at = i + 1, None => { verdict = format!("FAIL C03 log-missing-after-detour line={l:?} screen={}", show_rows(&rows)); break; } }
        }
        let _ = std::panic::catch_unwind(std::panic::AssertUnwindSafe(|| { drop(bars); drop(mp); }));
        out.emit(&case, &format!(" ORACLE {verdict}"));
    }
}

// ---- parsing of encoded cases (used to re-run edited cases: shrinking of failing histories)

pub fn parse_mop(toks: &[&str]) -> Option<MOp> {
    use crate::bar::{dec, parse_bop, parse_fin_pub};
    Some(match toks {
        ["adv", d] => MOp::Adv(d.parse().ok()?),
        ["add", loc, arg, len, tpl, prefix, fin @ ..] => MOp::Add { loc: loc.parse().ok()?, arg: arg.parse().ok()?, len: if *len == "none" { None } else { Some(len.parse().ok()?) },
            tpl: tpl.parse().ok()?, prefix: dec(prefix)?, fin: parse_fin_pub(fin)? },
        ["remove", k] => MOp::Remove(k.parse().ok()?), ["mpprintln", t] => MOp::MpPrintln(dec(t)?), ["mpclear"] => MOp::MpClear,
        ["mpsuspend", rest @ ..] => MOp::MpSuspend(rest.iter().map(|l| dec(l)).collect::<Option<Vec<_>>>()?),
        ["align", b] => MOp::Align(*b == "bottom"), ["retarget"] => MOp::Retarget,
        ["bar", k, rest @ ..] => MOp::Bar(k.parse().ok()?, parse_bop(rest)?),
        _ => return None })
}
/// `MULTI|ROWS FX=.. w h hz T0 ; op ; op`
pub fn parse_case(line: &str, small: bool) -> Option<Case> {
    let mut parts = line.split(" ; ");
    let hdr: Vec<&str> = parts.next()?.split_whitespace().collect();
    if hdr.len() != 6 { return None; }
    let mut ops = Vec::new();
    for p in parts { let t: Vec<&str> = p.split_whitespace().collect(); ops.push(parse_mop(&t)?); }
    Some(Case { w: hdr[2].parse().ok()?, h: hdr[3].parse().ok()?, hz: hdr[4].parse().ok()?, ops, small })
}

/// re-runs the cases of a file (one encoded case per line; env VERIF_CASES_IN) as the stream `VERIF_STREAM` would:
/// a case that cannot be parsed, or on which the harness itself trips (an edited history may refer to bars that
/// no longer exist), yields the observation `unrunnable`
pub fn run_given(out: &mut Out) {
    let path = std::env::var("VERIF_CASES_IN").expect("VERIF_CASES_IN");
    let stream = std::env::var("VERIF_STREAM").unwrap_or_default();
    for line in std::fs::read_to_string(path).unwrap().lines() {
        let r = std::panic::catch_unwind(|| {
            if line.starts_with("BAR ") {
                let c = crate::bar::parse_case(line)?;
                let (case, o) = crate::bar::run_given_case(&c, &stream);
                Some((case, o))
            } else {
                let c = parse_case(line, stream == "C19M")?;
                let (obs, verdict) = run_case(&c);
                if line.starts_with("ROWS ") {
                    let (_, snaps) = obs.split_once("panicked=false").unwrap_or(("", ""));
                    let frames: Vec<String> = snaps.split(" ; ").map(|s| s.trim_start().split_once(' ').map_or(String::new(), |(_, r)| r.to_string())).collect();
                    let frames = if snaps.trim().is_empty() { vec![] } else { frames };
                    Some((line.to_string(), format!("panicked=false {} ORACLE {verdict}", frames.join(" ; "))))
                } else { Some((line.to_string(), format!("{obs} ORACLE {verdict}"))) }
            }
        });
        match r { Ok(Some((c, o))) => out.emit(&c, &o), _ => out.emit(line, "unrunnable ORACLE skip") }
    }
}
