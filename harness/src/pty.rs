//! The default kind of target (`ProgressDrawTarget::term` over a `console::Term`, i.e. `TargetKind::Term` and `impl TermLike for Term`)
//! on a real terminal device: a pseudo-terminal whose slave side is the `Term` and whose master side is read back into the emulator.
//! Stream C01P runs the same single-bar history twice — on the recording `TermLike` target (validated against the model and the
//! oracles by the other streams) and on the pty-backed `Term` — and compares screen and cursor after every operation.
use crate::bar::{BOp, Case, Fin, TEMPLATES};
use crate::common::*;
use indicatif::verif_hooks as vh;
use indicatif::{ProgressBar, ProgressDrawTarget, ProgressStyle, TermLike};
use std::io::Read;
use std::os::fd::FromRawFd;

pub const T0: u64 = 1_000_000_000_000;

pub struct Pty { master: std::fs::File, pub term: console::Term, rec: Recorder, pending: Vec<u8> }

impl Pty {
    pub fn open(h: u16, w: u16) -> Option<Pty> {
        let (mut m, mut s) = (0i32, 0i32);
        let ws = libc::winsize { ws_row: h, ws_col: w, ws_xpixel: 0, ws_ypixel: 0 };
        let rc = unsafe { libc::openpty(&mut m, &mut s, std::ptr::null_mut(), std::ptr::null(), &ws) };
        if rc != 0 { return None; }
        unsafe { let fl = libc::fcntl(m, libc::F_GETFL); libc::fcntl(m, libc::F_SETFL, fl | libc::O_NONBLOCK); }
        let s2 = unsafe { libc::dup(s) };
        let (sr, sw) = unsafe { (std::fs::File::from_raw_fd(s), std::fs::File::from_raw_fd(s2)) };
        let master = unsafe { std::fs::File::from_raw_fd(m) };
        let term = console::Term::read_write_pair(sr, sw);
        Some(Pty { master, term, rec: Recorder::new(h, w, true), pending: Vec::new() })
    }
    /// everything the terminal device has received so far goes into the emulator
    pub fn drain(&mut self) {
        let mut buf = [0u8; 4096];
        loop {
            match self.master.read(&mut buf) { Ok(0) => break, Ok(n) => self.pending.extend_from_slice(&buf[..n]), Err(_) => break }
        }
        let upto = match std::str::from_utf8(&self.pending) { Ok(_) => self.pending.len(), Err(e) => e.valid_up_to() };
        let bytes: Vec<u8> = self.pending.drain(..upto).collect();
        self.rec.feed_raw(&bytes);
    }
    pub fn rows(&self) -> Vec<String> { self.rec.rows() }
    pub fn cursor(&self) -> (u16, u16) { self.rec.cursor() }
}

fn to_pf(f: &Fin) -> indicatif::ProgressFinish { f.to_pf() }

/// applies the history to a bar on `target`; `line` writes one line of ordinary output (a `suspend` closure), `snap` observes
fn drive(c: &Case, target: &mut dyn FnMut() -> ProgressDrawTarget, line: &dyn Fn(&str), snap: &mut dyn FnMut() -> String) -> Vec<String> {
    vh::set_auto_advance_ns(0);
    vh::set_now_ns(T0);
    // (the target is created on the reset clock: its refresh limiter remembers the instant of its creation)
    let pb = ProgressBar::with_draw_target(c.len, target());
    pb.set_style(ProgressStyle::with_template(TEMPLATES[c.tpl]).unwrap());
    let pb = pb.with_finish(to_pf(&c.on_finish));
    let mut pb = Some(pb);
    let mut now = T0;
    let mut obs = vec![snap()];
    for op in &c.ops {
        let Some(bar) = pb.as_ref() else { break };
        match op {
            BOp::Iter(n) => { for _ in bar.wrap_iter(0..*n) {} }
            BOp::Adv(d) => { now += d; vh::set_now_ns(now); }
            BOp::Tick => bar.tick(), BOp::Inc(d) => bar.inc(*d), BOp::Dec(d) => bar.dec(*d), BOp::SetPos(p) => bar.set_position(*p),
            BOp::Msg(m) => bar.set_message(m.clone()), BOp::Prefix(m) => bar.set_prefix(m.clone()),
            BOp::Len(None) => bar.unset_length(), BOp::Len(Some(l)) => bar.set_length(*l),
            BOp::Println(m) => bar.println(m),
            BOp::Suspend(ls) => bar.suspend(|| for l in ls { line(l); }),
            BOp::Reset => bar.reset(),
            BOp::Finish(f) => match f { Fin::Leave => bar.finish(), Fin::Clear => bar.finish_and_clear(), Fin::Abandon => bar.abandon(), Fin::Msg(m) => bar.finish_with_message(m.clone()), Fin::AbandonMsg(m) => bar.abandon_with_message(m.clone()) },
            BOp::FinishStyle => bar.finish_using_style(),
            BOp::Drop => { pb = None; }
        }
        // the refresh limiter of a `Term` target cannot be switched off: a little time passes between the calls
        now += 5_000_000; vh::set_now_ns(now);
        obs.push(snap());
    }
    drop(pb);
    obs.push(snap());
    obs
}

/// the same for a `MultiProgress`: its zombie / kept-lines accounting goes through the `Term` arms of the draw target
fn drive_multi(c: &crate::multi::Case, target: &mut dyn FnMut() -> ProgressDrawTarget, line: &dyn Fn(&str), snap: &mut dyn FnMut() -> String) -> Vec<String> {
    use crate::multi::MOp;
    use indicatif::{MultiProgress, MultiProgressAlignment};
    vh::set_auto_advance_ns(0);
    vh::set_now_ns(T0);
    let mp = MultiProgress::with_draw_target(target());
    let mut bars: Vec<Option<ProgressBar>> = Vec::new();
    let mut now = T0;
    let mut obs = vec![snap()];
    for op in &c.ops {
        match op {
            MOp::Adv(d) => { now += d; vh::set_now_ns(now); }
            MOp::Add { loc, arg, len, tpl, prefix, fin } => {
                let pb = ProgressBar::with_draw_target(*len, ProgressDrawTarget::hidden());
                pb.set_style(ProgressStyle::with_template(TEMPLATES[*tpl]).unwrap());
                let pb = pb.with_finish(fin.to_pf()).with_prefix(prefix.clone());
                let anchor = |k: usize| bars.get(k).and_then(|b: &Option<ProgressBar>| b.clone());
                let pb = match loc {
                    0 => mp.add(pb), 1 => mp.insert(*arg, pb), 2 => mp.insert_from_back(*arg, pb),
                    3 => match anchor(*arg) { Some(a) => mp.insert_before(&a, pb), None => mp.add(pb) },
                    _ => match anchor(*arg) { Some(a) => mp.insert_after(&a, pb), None => mp.add(pb) },
                };
                bars.push(Some(pb));
            }
            MOp::Remove(k) => { if let Some(Some(pb)) = bars.get(*k) { mp.remove(pb); } }
            MOp::MpPrintln(t) => { let _ = mp.println(t); }
            MOp::MpClear => { let _ = mp.clear(); }
            MOp::MpSuspend(ls) => mp.suspend(|| for l in ls { line(l); }),
            MOp::Retarget => mp.set_draw_target(target()),
            MOp::Align(b) => mp.set_alignment(if *b { MultiProgressAlignment::Bottom } else { MultiProgressAlignment::Top }),
            MOp::Bar(k, bop) => {
                let Some(slot) = bars.get_mut(*k) else { continue };
                let Some(bar) = slot.as_ref() else { continue };
                match bop {
                    BOp::Iter(_) | BOp::Adv(_) => {}
                    BOp::Tick => bar.tick(), BOp::Inc(d) => bar.inc(*d), BOp::Dec(d) => bar.dec(*d), BOp::SetPos(p) => bar.set_position(*p),
                    BOp::Msg(m) => bar.set_message(m.clone()), BOp::Prefix(m) => bar.set_prefix(m.clone()),
                    BOp::Len(None) => bar.unset_length(), BOp::Len(Some(l)) => bar.set_length(*l),
                    BOp::Println(m) => bar.println(m),
                    BOp::Suspend(ls) => bar.suspend(|| for l in ls { line(l); }),
                    BOp::Reset => bar.reset(),
                    BOp::Finish(f) => match f { Fin::Leave => bar.finish(), Fin::Clear => bar.finish_and_clear(), Fin::Abandon => bar.abandon(), Fin::Msg(m) => bar.finish_with_message(m.clone()), Fin::AbandonMsg(m) => bar.abandon_with_message(m.clone()) },
                    BOp::FinishStyle => bar.finish_using_style(),
                    BOp::Drop => { *slot = None; }
                }
            }
        }
        now += 5_000_000; vh::set_now_ns(now);
        obs.push(snap());
    }
    for b in bars.iter_mut() { b.take(); }
    drop(mp);
    obs.push(snap());
    obs
}

pub fn run_multi(seed: u64, tier: &str, out: &mut Out) {
    let mut rng = Rng::new(seed ^ 0x7e22);
    let n = if tier == "thorough" { 30_000 } else { 1_000 };
    for i in 0..n {
        let mut c = match i % 4 { 0 => crate::multi::gen_scenario(&mut rng), 1 => crate::multi::gen_bottom_scenario(&mut rng), 2 => crate::multi::gen_case(&mut rng, true), _ => crate::multi::gen_case(&mut rng, false) };
        if i % 5 == 0 { c.h = *rng.pick(&[2u16, 3, 4, 6]); }     // some terminals shorter than the frame
        if c.hz == 0 { c.hz = *rng.pick(&[20u8, 255]); }
        let case = format!("NOMODEL PTYMULTI w={} h={} hz={} ops={}", c.w, c.h, c.hz, c.ops.len());
        crate::common::about_to_run(&crate::multi::encode(&c));
        let rec = Recorder::new(c.h, c.w, true);
        let r2 = rec.clone();
        let a = drive_multi(&c, &mut || ProgressDrawTarget::term_like_with_hz(Box::new(rec.clone()), c.hz), &|l| { r2.write_line(l).unwrap(); },
                            &mut || format!("{:?} {:?}", rec.cursor(), rec.rows()));
        let verdict = match Pty::open(c.h, c.w) {
            None => "skip no-pty".to_string(),
            Some(pty) => {
                let term = pty.term.clone();
                let cell = std::cell::RefCell::new(pty);
                let t2 = term.clone();
                let b = drive_multi(&c, &mut || ProgressDrawTarget::term(term.clone(), c.hz), &|l| { t2.write_line(l).unwrap(); },
                                    &mut || { let mut p = cell.borrow_mut(); p.drain(); format!("{:?} {:?}", p.cursor(), p.rows()) });
                match a.iter().zip(b.iter()).position(|(x, y)| x != y) {
                    None if a.len() == b.len() => "ok".to_string(),
                    Some(i) => format!("FAIL term-target-differs after operation {i} ({}): TermLike target shows {} , console::Term on a pty shows {}", if i == 0 { "start".to_string() } else { c.ops.get(i - 1).map_or("drop".to_string(), |o| o.enc()) }, a[i], b[i]),
                    None => "FAIL term-target-differs number of observations".to_string(),
                }
            }
        };
        out.emit(&case, &format!(" ORACLE {verdict}"));
    }
}

pub fn run(seed: u64, tier: &str, out: &mut Out) {
    let mut rng = Rng::new(seed ^ 0x7e21);
    let n = if tier == "thorough" { 30_000 } else { 1_000 };
    for _ in 0..n {
        let mut c = crate::bar::gen_case(&mut rng, false);
        if c.h < 2 { c.h = 2; }
        c.hz = *rng.pick(&[20u8, 255]);
        let case = format!("NOMODEL PTY w={} h={} hz={} ops={}", c.w, c.h, c.hz, c.ops.len());
        crate::common::about_to_run(&crate::bar::encode(&c, &crate::bar::planned_ops(&c)));
        let rec = Recorder::new(c.h, c.w, true);
        let r2 = rec.clone();
        let a = drive(&c, &mut || ProgressDrawTarget::term_like_with_hz(Box::new(rec.clone()), c.hz), &|l| { r2.write_line(l).unwrap(); },
                      &mut || format!("{:?} {:?}", rec.cursor(), rec.rows()));
        let verdict = match Pty::open(c.h, c.w) {
            None => "skip no-pty".to_string(),
            Some(pty) => {
                let term = pty.term.clone();
                let cell = std::cell::RefCell::new(pty);
                let t2 = term.clone();
                let b = drive(&c, &mut || ProgressDrawTarget::term(term.clone(), c.hz), &|l| { t2.write_line(l).unwrap(); },
                              &mut || { let mut p = cell.borrow_mut(); p.drain(); format!("{:?} {:?}", p.cursor(), p.rows()) });
                match a.iter().zip(b.iter()).position(|(x, y)| x != y) {
                    None if a.len() == b.len() => "ok".to_string(),
                    Some(i) => format!("FAIL term-target-differs after operation {i} ({}): TermLike target shows {} , console::Term on a pty shows {}", if i == 0 { "start".to_string() } else { c.ops.get(i - 1).map_or("drop".to_string(), |o| o.enc()) }, a[i], b[i]),
                    None => "FAIL term-target-differs number of observations".to_string(),
                }
            }
        };
        out.emit(&case, &format!(" ORACLE {verdict}"));
    }
}

/// a `TermLike` that does not say how tall it is: the trait's default height (20 rows) is what limits the frame
#[derive(Debug, Clone)]
struct NoHeight(Recorder);
impl TermLike for NoHeight {
    fn width(&self) -> u16 { self.0.width() }
    fn move_cursor_up(&self, n: usize) -> std::io::Result<()> { self.0.move_cursor_up(n) }
    fn move_cursor_down(&self, n: usize) -> std::io::Result<()> { self.0.move_cursor_down(n) }
    fn move_cursor_right(&self, n: usize) -> std::io::Result<()> { self.0.move_cursor_right(n) }
    fn move_cursor_left(&self, n: usize) -> std::io::Result<()> { self.0.move_cursor_left(n) }
    fn write_line(&self, s: &str) -> std::io::Result<()> { self.0.write_line(s) }
    fn write_str(&self, s: &str) -> std::io::Result<()> { self.0.write_str(s) }
    fn clear_line(&self) -> std::io::Result<()> { self.0.clear_line() }
    fn flush(&self) -> std::io::Result<()> { self.0.flush() }
}

/// C19H: more bars than the default height of a `TermLike` (20 rows): only the leading bars that fit are painted, every redraw
/// erases them completely, and bars that were left out appear as soon as there is room
pub fn run_default_height(seed: u64, tier: &str, out: &mut Out) {
    use indicatif::MultiProgress;
    let mut rng = Rng::new(seed ^ 0x19aa);
    let n = if tier == "thorough" { 2_000 } else { 60 };
    for _ in 0..n {
        let nb = rng.range(18, 30) as usize;
        let rec = Recorder::new(40, 30, true);
        let mp = MultiProgress::with_draw_target(ProgressDrawTarget::term_like(Box::new(NoHeight(rec.clone()))));
        let bars: Vec<ProgressBar> = (0..nb).map(|k| { let pb = mp.add(ProgressBar::new(9)); pb.set_style(ProgressStyle::with_template("{prefix} {pos}/{len}").unwrap()); pb.set_prefix(format!("b{k}")); pb }).collect();
        let mut verdict = String::from("ok");
        for round in 0..3u64 {
            for b in &bars { b.set_position(round); }
            let rows = rec.rows();
            let want: Vec<String> = (0..nb.min(20)).map(|k| format!("b{k} {round}/9")).collect();
            if rows != want && verdict == "ok" { verdict = format!("FAIL default-height round {round}: {} rows on screen, first differing row {:?}", rows.len(), rows.iter().zip(want.iter()).find(|(a, b)| a != b)); }
        }
        // finish and drop the leading bars: the ones that did not fit take their place
        let gone = rng.range(1, 6) as usize;
        let mut bars = bars;
        for b in bars.drain(..gone) { b.finish_and_clear(); drop(b); }
        for b in &bars { b.tick(); }
        let rows = rec.rows();
        let want: Vec<String> = (gone..nb.min(gone + 20)).map(|k| format!("b{k} 2/9")).collect();
        if rows != want && verdict == "ok" { verdict = format!("FAIL omitted-bars-do-not-appear after {gone} of {nb} bars were cleared: {} rows, expected {}", rows.len(), want.len()); }
        out.emit(&format!("NOMODEL DEFAULTHEIGHT bars={nb} gone={gone}"), &format!(" ORACLE {verdict}"));
    }
}
