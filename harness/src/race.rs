//! Schedules around `suspend`: while the closure of `suspend` runs, another thread updates the same bar (through a
//! clone) or a sibling bar of the same MultiProgress. The property texts say that what the closure writes stays
//! above the progress region exactly once; that requires the other thread's draw to wait until the closure has
//! returned and the frame has been repainted. The closure gives the other thread 60 ms to get its draw in: with the
//! locks held as they are it cannot, and the draw happens afterwards.
use crate::common::*;
use indicatif::{MultiProgress, ProgressBar, ProgressDrawTarget, ProgressStyle, TermLike};
use std::sync::atomic::{AtomicBool, Ordering};
use std::sync::Arc;

fn wait_for(flag: &AtomicBool, ms: u64) { let t0 = std::time::Instant::now(); while !flag.load(Ordering::SeqCst) && t0.elapsed().as_millis() < ms as u128 { std::thread::sleep(std::time::Duration::from_millis(1)); } }

/// variant 0: single bar, update through a clone; 1: member bar suspends, sibling ticks; 2: `MultiProgress::suspend`, a member ticks;
/// 3: member bar suspends, the same bar is updated through a clone
fn one(variant: u64, via: u64) -> (String, String) {
    indicatif::verif_hooks::set_auto_advance_ns(1_000_000);
    let rec = Recorder::new(12, 40, true);
    let mk = |p: &str| { let pb = ProgressBar::with_draw_target(Some(10), ProgressDrawTarget::hidden()); pb.set_style(ProgressStyle::with_template("{prefix} {msg}").unwrap()); pb.with_prefix(p.to_string()) };
    let (started, done) = (Arc::new(AtomicBool::new(false)), Arc::new(AtomicBool::new(false)));
    let case = format!("NOMODEL RACE variant={variant} via={via}");
    let update = move |b: &ProgressBar| match via { 0 => b.set_message("later"), 1 => b.inc(1), 2 => b.tick(), _ => b.println("other") };
    let mut logs = vec!["log line".to_string()];
    if via == 3 { logs.push("other".into()); }
    let rows: Vec<String>;
    if variant == 0 {
        let pb = ProgressBar::with_draw_target(Some(10), ProgressDrawTarget::term_like(Box::new(rec.clone())));
        pb.set_style(ProgressStyle::with_template("{prefix} {msg}").unwrap()); pb.set_prefix("A"); pb.set_message("first");
        let other = pb.clone(); let (s2, d2) = (started.clone(), done.clone());
        let t = std::thread::spawn(move || { wait_for(&s2, 5000); update(&other); d2.store(true, Ordering::SeqCst); });
        let r2 = rec.clone(); let (s3, d3) = (started.clone(), done.clone());
        pb.suspend(move || { s3.store(true, Ordering::SeqCst); wait_for(&d3, 60); r2.write_line("log line").unwrap(); });
        t.join().unwrap(); pb.tick();
        rows = rec.rows(); pb.abandon();
    } else {
        let mp = MultiProgress::with_draw_target(ProgressDrawTarget::term_like(Box::new(rec.clone())));
        let a = mp.add(mk("A")); let b = mp.add(mk("B"));
        a.set_message("first"); b.set_message("second");
        let other = if variant == 3 { a.clone() } else { b.clone() };
        let (s2, d2) = (started.clone(), done.clone());
        let t = std::thread::spawn(move || { wait_for(&s2, 5000); update(&other); d2.store(true, Ordering::SeqCst); });
        let r2 = rec.clone(); let (s3, d3) = (started.clone(), done.clone());
        let f = move || { s3.store(true, Ordering::SeqCst); wait_for(&d3, 60); r2.write_line("log line").unwrap(); };
        if variant == 2 { mp.suspend(f) } else { a.suspend(f) }
        t.join().unwrap(); a.tick(); b.tick();
        rows = rec.rows(); a.abandon(); b.abandon();
    }
    // every log line exactly once; below them every bar exactly once
    let mut verdict = "ok".to_string();
    for l in &logs { let n = rows.iter().filter(|r| *r == l).count(); if n != 1 { verdict = format!("FAIL suspend-race log line {l:?} appears {n} times: {rows:?}"); } }
    for p in ["A ", "B "] { let n = rows.iter().filter(|r| r.starts_with(p)).count(); let want = if variant == 0 && p == "B " { 0 } else { 1 }; if verdict == "ok" && n != want { verdict = format!("FAIL suspend-race bar {p:?} appears {n} times: {rows:?}"); } }
    if verdict == "ok" { let last_log = rows.iter().rposition(|r| logs.contains(r)).unwrap_or(0); let first_bar = rows.iter().position(|r| r.starts_with("A ") || r.starts_with("B ")).unwrap_or(usize::MAX); if first_bar < last_log { verdict = format!("FAIL suspend-race a bar above a log line: {rows:?}"); } }
    (case, verdict)
}

pub fn run(_seed: u64, tier: &str, out: &mut Out, multi: bool) {
    let reps = if tier == "thorough" { 10 } else { 1 };
    for _ in 0..reps { for variant in if multi { vec![1u64, 2, 3] } else { vec![0u64] } { for via in 0..4u64 {
        let (c, v) = one(variant, via);
        out.emit(&c, &format!(" ORACLE {v}"));
    } } }
    indicatif::verif_hooks::set_auto_advance_ns(0);
}
