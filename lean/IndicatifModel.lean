-- This module serves as the root of the `IndicatifModel` library.
-- Import modules here that should be built as part of the library.
import IndicatifModel.Basic
