import IndicatifModel.Props.C01
open IndicatifModel
#print axioms C01_redraw_integrity
#print axioms C01_wrapped_height
#print axioms drawStep_eq
#print axioms items_snd
#print axioms barRows_items
#print axioms headNonEmpty_items
