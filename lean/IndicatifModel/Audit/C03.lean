import IndicatifModel.Props.C03
open IndicatifModel
#print axioms C03_redraw_keeps_rows_above_partial
#print axioms drawReq_raw
