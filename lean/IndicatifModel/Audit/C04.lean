import IndicatifModel.Props.C04
open IndicatifModel
#print axioms finalState_finished
#print axioms finalState_target
#print axioms finalState_pos
#print axioms C04_finish_paints
#print axioms C04_drop
#print axioms C04_clear_paints_nothing
