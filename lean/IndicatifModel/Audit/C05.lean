import IndicatifModel.Props.C05
open IndicatifModel.Limiter
#print axioms C05_window_bound_I
#print axioms C05_allow_of_interval
#print axioms C05_prev_le_last
#print axioms C05_window_bound_tight_fails
