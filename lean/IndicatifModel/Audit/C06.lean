import IndicatifModel.Props.C06
open IndicatifModel
#print axioms draw_hidden
#print axioms draw_logical
#print axioms draw_target_none
#print axioms draw_silent
#print axioms tickInner_silent
#print axioms posAllow_target
#print axioms afterPosChange_silent
#print axioms finishUsing_silent
#print axioms C06_silent
#print axioms C06_silent_history
#print axioms draw_core
#print axioms upd_congr
#print axioms draw_corefn
#print axioms tickInner_corefn
#print axioms afterPosChange_corefn
#print axioms finishUsing_corefn
#print axioms step_corefn
#print axioms C06_equivalent
#print axioms C06_logical_equal
