import IndicatifModel.Props.C07
open IndicatifModel.Position
#print axioms U64_pos
#print axioms C07_pos_valid
#print axioms mod_add_mod_right
#print axioms step_inc
#print axioms step_dec
#print axioms step_incdec
#print axioms run_incdec
#print axioms perm_sum
#print axioms C07_concurrent
#print axioms C07_finish
#print axioms C07_length
