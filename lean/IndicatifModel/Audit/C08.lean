import IndicatifModel.Props.C08
open IndicatifModel.Locks
#print axioms C08_calls_ordered
#print axioms C08_ticker_high
#print axioms C08_update_unordered
