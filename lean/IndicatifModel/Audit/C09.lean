import IndicatifModel.Props.C09
open IndicatifModel.EstimatorLaws
#print axioms steady_step
