import IndicatifModel.Props.C10
open IndicatifModel.Template
#print axioms step1_ne_panic
#print axioms step2_ne_panic
#print axioms step_ne_panic
#print axioms run_ne_panic
#print axioms C10_total
#print axioms C10_total_fails_unrepaired
#print axioms C10_brace_order
