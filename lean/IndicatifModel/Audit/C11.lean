import IndicatifModel.Props.C11
open IndicatifModel.Generated
#print axioms C11_keys_total
#print axioms C11_keys_documented
#print axioms C11_keys_nodup
