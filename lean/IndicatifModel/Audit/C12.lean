import IndicatifModel.Props.C12
open IndicatifModel.Pad
#print axioms cols_spaces
#print axioms cols_append
#print axioms C12_pad
#print axioms C12_no_trunc
#print axioms C12_trunc_fails_non_ascii
