import IndicatifModel.Props.C13
open IndicatifModel.BarGeo
#print axioms C13_cells_partial
#print axioms C13_head_iff
#print axioms C13_cur_in_range
#print axioms C13_zero
#print axioms fraction_range
#print axioms fraction_complete
#print axioms fraction_mono
#print axioms C13_cells
#print axioms C13_full
#print axioms C13_monotone
#print axioms exactIEEE
#print axioms IEEE.rnd_zero
#print axioms IEEE.rnd_one
#print axioms IEEE.rnd_nat_pos
#print axioms fill_range
#print axioms clamp_val
