import IndicatifModel.Props.C14
open IndicatifModel.StyleBuilder
#print axioms default_good
#print axioms build_good
#print axioms C14_render_total
#print axioms C14_fails_unrepaired
