import IndicatifModel.Props.C15
open IndicatifModel.Format
#print axioms C15_formatted_duration_fields
#print axioms C15_never_one_unit
#print axioms C15_round_nearest
