import IndicatifModel.Props.C16
open IndicatifModel.Tab
#print axioms expand_no_tab
#print axioms new_ok
#print axioms setTabWidth_ok
#print axioms expanded_ok
#print axioms init_inv
#print axioms step_inv
#print axioms C16_no_tab
