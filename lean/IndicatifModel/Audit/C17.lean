import IndicatifModel.Props.C17
open IndicatifModel.Adaptors
#print axioms C17_counts_step
#print axioms C17_counts
#print axioms C17_fails_unrepaired_fill
#print axioms C17_fails_unrepaired_seek
