import IndicatifModel.Props.C18
open IndicatifModel
#print axioms C18_logical_unaffected_partial
