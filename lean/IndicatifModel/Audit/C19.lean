import IndicatifModel.Props.C19
open IndicatifModel
#print axioms paintLoop_real_bounds
#print axioms C19_llc_le_H
#print axioms C19_history
