def hello := "world"
