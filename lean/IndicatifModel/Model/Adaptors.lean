/-! Position bookkeeping of the I/O adaptors (`src/iter.rs`): what each wrapped call does to the
bar's position, given the call and what the underlying object returned.  `f16`/`f28` select the
repaired behaviour of `AsyncBufRead` / `AsyncSeek`. -/
namespace IndicatifModel.Adaptors

structure AFix where
  f16 : Bool := false   -- count in `consume`, not in `poll_fill_buf`
  f28 : Bool := false   -- `poll_complete` sets the position
deriving Repr, DecidableEq

/-- the repairs the repository contains now; the harness runs the model with this value (`FX=current`) -/
def AFix.current : AFix := { f16 := true, f28 := true }

inductive Res where
  | ok (n : Nat) | err | pending
deriving Repr, DecidableEq

/-- one wrapped call together with the underlying result (`n` = bytes transferred, offset, or amount) -/
inductive Ev where
  | transfer (r : Res)        -- read, read_vectored, read_to_string, write, write_vectored, poll_write
  | readExact (len : Nat) (r : Res)
  | pollRead (filled : Nat) (r : Res)   -- bytes appended to the ReadBuf, result
  | noCount                   -- fill_buf, stream_position, flush, failed start_seek
  | consume (amt : Nat)
  | seek (r : Res)
  | pollFillBuf (r : Res)
  | aconsume (amt : Nat)
  | pollComplete (r : Res)
deriving Repr, DecidableEq

def U64 : Nat := 2 ^ 64

def posAfter (fx : AFix) (pos : Nat) : Ev → Nat
  | .transfer (.ok n) => (pos + n) % U64
  | .transfer _ => pos
  | .readExact len (.ok _) => (pos + len) % U64
  | .readExact _ _ => pos
  | .pollRead filled .pending => let _ := filled; pos
  | .pollRead filled _ => (pos + filled) % U64
  | .noCount => pos
  | .consume amt => (pos + amt) % U64
  | .seek (.ok p) => p
  | .seek _ => pos
  | .pollFillBuf (.ok n) => if fx.f16 then pos else (pos + n) % U64
  | .pollFillBuf _ => pos
  | .aconsume amt => if fx.f16 then (pos + amt) % U64 else pos
  | .pollComplete (.ok p) => if fx.f28 then p else pos
  | .pollComplete _ => pos

def run (fx : AFix) (pos : Nat) (evs : List Ev) : List Nat :=
  match evs with
  | [] => []
  | e :: es => let p := posAfter fx pos e; p :: run fx p es

/-- what the property demands: bytes actually transferred / consumed are added, a successful seek
sets the position, everything else (errors, `Pending`, peeking at the buffer) leaves it alone -/
def specAfter (pos : Nat) : Ev → Nat
  | .transfer (.ok n) => (pos + n) % U64
  | .readExact len (.ok _) => (pos + len) % U64
  | .pollRead filled .pending => let _ := filled; pos
  | .pollRead filled _ => (pos + filled) % U64
  | .consume amt => (pos + amt) % U64
  | .aconsume amt => (pos + amt) % U64
  | .seek (.ok p) => p
  | .pollComplete (.ok p) => p
  | _ => pos

end IndicatifModel.Adaptors
