import IndicatifModel.Model.DrawTarget
/-!
# `BarState` for one stand-alone bar on a terminal-like target (`src/state.rs`, `src/progress_bar.rs`)

Templates are restricted to literals, `{msg}`, `{prefix}`, `{pos}`, `{len}` and newlines; time is
`Nat` ns on the virtual clock. Every operation returns the terminal calls it makes, in order.
-/
namespace IndicatifModel

inductive TPart where
  | lit (t : Text) | msg | prefix | pos | len | newline
deriving Repr, DecidableEq

inductive Status where
  | inProgress | doneVisible | doneHidden
deriving Repr, DecidableEq

inductive Finish where
  | andLeave | withMessage (m : Text) | andClear | abandon | abandonWithMessage (m : Text)
deriving Repr, DecidableEq

structure Bar where
  pos : Nat := 0                    -- u64, wrapping
  len : Option Nat := none
  msg : Text := []
  pfx : Text := []
  tick : Nat := 0
  status : Status := .inProgress
  tpl : List TPart := []
  onFinish : Finish := .andClear
  start : Nat := 0                  -- creation time (AtomicPosition.start)
  posLim : Limiter.St := { cap := 10, prev := 0 }
  target : Option TermTarget := none    -- `none` = hidden
  /-- (row-level model of a MultiProgress only, `Model/Rows`) the width at which this bar's lines wrap on the multi's
  terminal; 0 = they never wrap. No single-bar operation reads it. -/
  wrapW : Nat := 0
deriving Repr

def U64 : Nat := 2 ^ 64
def posCfg : Limiter.Cfg := Limiter.posCfg Limiter.LFix.current

def Bar.finished (b : Bar) : Bool := b.status ≠ .inProgress

/-- `ProgressStyle::push_line`: one bar line per `\n`-separated piece -/
def pushLine (cur : Text) : List Line := (splitNl cur).map (fun t => { kind := .bar, gs := t })

/-- `ProgressStyle::format_state` for the restricted templates -/
def formatState (b : Bar) : List Line :=
  let lenv := b.len.getD b.pos
  let rec go (cur : Text) (acc : List Line) : List TPart → List Line
    | [] => if cur ≠ [] then acc ++ pushLine cur else acc
    | .lit t :: ps => go (cur ++ t) acc ps
    | .msg :: ps => go (cur ++ b.msg) acc ps
    | .prefix :: ps => go (cur ++ b.pfx) acc ps
    | .pos :: ps => go (cur ++ natText b.pos) acc ps
    | .len :: ps => go (cur ++ natText lenv) acc ps
    | .newline :: ps => go [] (acc ++ pushLine cur) ps
  go [] [] b.tpl

/-- `BarState::draw(force, now)` -/
def Bar.draw (b : Bar) (force : Bool) (now : Nat) : Bar × List TOp :=
  let force := force || b.finished
  match b.target with
  | none => (b, [])
  | some tt =>
    let (go, tt) := tt.drawable force now
    if !go then ({ b with target := some tt }, []) else
    let lines := if b.status = .doneHidden then [] else formatState b
    let ds := { tt.ds with lines := lines }
    let (ops, llc) := drawToTerm tt.fx ds tt.W tt.H tt.llc
    ({ b with target := some { tt with ds := ds.after tt.fx tt.W tt.H tt.llc, llc := llc } }, ops)

/-- `tick_inner` (no steady ticker installed) -/
def Bar.tickInner (b : Bar) (now : Nat) : Bar × List TOp :=
  { b with tick := if b.tick + 1 < U64 then b.tick + 1 else b.tick }.draw false now

def Bar.posAllow (b : Bar) (now : Nat) : Bool × Bar :=
  if now < b.start then (false, b) else
  let r := Limiter.allow posCfg b.posLim (now - b.start)
  (r.1, { b with posLim := r.2 })

def Bar.afterPosChange (b : Bar) (now : Nat) : Bar × List TOp :=
  let (ok, b) := b.posAllow now
  if ok then b.tickInner now else (b, [])

def toLines (t : Text) : List Line :=
  let ls := splitLines t
  if ls = [] then [{ kind := .empty, gs := [] }] else ls.map (fun l => { kind := .text, gs := l })

def Bar.finishUsing (b : Bar) (now : Nat) (f : Finish) : Bar × List TOp :=
  let b := { b with status := .doneVisible }
  let toLen (b : Bar) : Bar := match b.len with | some l => { b with pos := l } | none => b
  let b := match f with
    | .andLeave => toLen b
    | .withMessage m => { toLen b with msg := m }
    | .andClear => { toLen b with status := .doneHidden }
    | .abandon => b
    | .abandonWithMessage m => { b with msg := m }
  b.draw true now

inductive BarOp where
  | adv (dt : Nat)
  | tick | inc (d : Nat) | dec (d : Nat) | setPos (p : Nat)
  | setMsg (t : Text) | setPrefix (t : Text) | setLen (l : Nat) | unsetLen
  | println (t : Text) | suspend (out : List Text) | reset
  | finish (f : Finish) | finishUsingStyle | drop
deriving Repr

/-- one public call; `now` is the virtual clock at the call -/
def Bar.step (b : Bar) (now : Nat) : BarOp → Bar × List TOp
  | .adv _ => (b, [])
  | .tick => b.tickInner now
  | .inc d => { b with pos := (b.pos + d) % U64 }.afterPosChange now
  | .dec d => { b with pos := (b.pos + U64 - d % U64) % U64 }.afterPosChange now
  | .setPos p => { b with pos := p }.afterPosChange now
  | .setMsg t => { b with msg := t }.draw false now
  | .setPrefix t => { b with pfx := t }.draw false now
  | .setLen l => { b with len := some l }.draw false now
  | .unsetLen => { b with len := none }.draw false now
  | .println t =>
    match b.target with
    | none => (b, [])
    | some tt =>
      let lines := toLines t ++ (if b.status = .doneHidden then [] else formatState b)
      let ds := { tt.ds with lines := lines }
      let (ops, llc) := drawToTerm tt.fx ds tt.W tt.H tt.llc
      ({ b with target := some { tt with ds := ds.after tt.fx tt.W tt.H tt.llc, llc := llc } }, ops)
  | .suspend out =>
    match b.target with
    | none => (b, [])
    | some tt =>
      let ds := { tt.ds with lines := [] }
      let (ops1, llc) := drawToTerm tt.fx ds tt.W tt.H tt.llc
      let b := { b with target := some { tt with ds := ds.after tt.fx tt.W tt.H tt.llc, llc := llc } }
      let mid := out.map TOp.writeLine
      let (b, ops2) := b.draw true now
      (b, ops1 ++ mid ++ ops2)
  | .reset =>
    { b with pos := 0, posLim := { b.posLim with prev := now - b.start }, status := .inProgress }.draw false now
  | .finish f => b.finishUsing now f
  | .finishUsingStyle => b.finishUsing now b.onFinish
  | .drop => if b.finished then (b, []) else b.finishUsing now b.onFinish

end IndicatifModel
