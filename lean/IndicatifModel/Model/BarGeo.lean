/-! Geometry of `{bar:N}` / `{wide_bar}`: transcription of `ProgressState::fraction` (src/state.rs)
and `ProgressStyle::format_bar` (src/style.rs), over an abstract `f32` arithmetic so that the
theorems can be stated for any arithmetic with the IEEE rounding properties and the driver can run
it on the hardware `Float32`. -/
namespace IndicatifModel.BarGeo

structure Arith (α : Type) where
  ofNat : Nat → α          -- `n as f32`
  mul : α → α → α
  div : α → α → α
  fract : α → α            -- `f32::fract`
  trunc : α → Nat          -- `x as usize` (toward zero, saturating)
  lt : α → α → Bool
  zero : α
  one : α

/-- `ProgressState::fraction` -/
def fraction {α} (A : Arith α) (pos : Nat) (len : Option Nat) : α :=
  match len with
  | none => A.zero
  | some 0 => A.one
  | some l =>
    if pos = 0 then A.zero else
    let q := A.div (A.ofNat pos) (A.ofNat l)
    if A.lt q A.zero then A.zero else if A.lt A.one q then A.one else q

structure BarOut where
  filled : Nat
  cur : Option Nat
  bg : Nat
deriving Repr, DecidableEq

/-- `ProgressStyle::format_bar`: `cw` is the common width of the progress characters, `nchars` their number -/
def formatBar {α} (A : Arith α) (fract : α) (width cw nchars : Nat) : BarOut :=
  let cells := width / cw
  let fill := A.mul fract (A.ofNat cells)
  let filled := A.trunc fill
  let head := if A.lt A.zero fill && decide (filled < cells) then 1 else 0
  let cur := if head = 1 then
      let n := nchars - 2
      some (if n ≤ 1 then 1 else n - A.trunc (A.mul (A.fract fill) (A.ofNat n)))
    else none
  { filled := filled, cur := cur, bg := (cells - filled) - head }

/-- the cluster indices written for the bar, left to right -/
def BarOut.cells (b : BarOut) (nchars : Nat) : List Nat :=
  List.replicate b.filled 0 ++ (match b.cur with | some c => [c] | none => []) ++ List.replicate b.bg (nchars - 1)

/-- the hardware arithmetic used by the driver -/
def f32 : Arith Float32 where
  ofNat n := (UInt64.ofNat n).toFloat32
  mul := (· * ·)
  div := (· / ·)
  fract x := x - (if x < 0 then x.ceil else x.floor)
  trunc x := x.toUInt64.toNat
  lt a b := a < b
  zero := 0
  one := 1

end IndicatifModel.BarGeo
