/-! Basic vocabulary shared by the rendering model. -/
namespace IndicatifModel

/-- A glyph as the terminal sees it: code point and display width (0, 1 or 2 columns), as measured by
the harness with the same `unicode-width` the crate links. -/
structure Glyph where
  cp : Nat
  w : Nat
deriving DecidableEq, Repr, BEq

abbrev Text := List Glyph

def Text.cols (t : Text) : Nat := (t.map (·.w)).sum

/-- `LineType::padded_width` (repair of F5): the display width plus the columns a terminal of `W` columns
leaves empty at the end of a row because the next glyph is two columns wide and moves to the next row as a
whole. State of the fold: (column reached, padding so far). -/
def Text.padStep (W : Nat) (acc : Nat × Nat) (g : Glyph) : Nat × Nat :=
  if g.w = 0 ∨ g.w > W then acc else
  let rest := W - acc.1 % W
  if acc.1 % W ≠ 0 ∧ g.w > rest then (acc.1 + rest + g.w, acc.2 + rest) else (acc.1 + g.w, acc.2)
def Text.padded (W : Nat) (t : Text) : Nat := t.cols + (t.foldl (Text.padStep W) (0, 0)).2

def space : Glyph := { cp := 32, w := 1 }
def nl : Nat := 10

/-- `str.lines()`-like split on code point 10 (a trailing newline does not produce an empty last line) -/
def splitLines (t : Text) : List Text :=
  let rec go (cur : Text) (acc : List Text) : Text → List Text
    | [] => if cur = [] then acc.reverse else (cur.reverse :: acc).reverse
    | g :: gs => if g.cp = nl then go [] (cur.reverse :: acc) gs else go (g :: cur) acc gs
  go [] [] t

/-- `str.split('\n')`: always at least one piece -/
def splitNl (t : Text) : List Text :=
  let rec go (cur : Text) (acc : List Text) : Text → List Text
    | [] => (cur.reverse :: acc).reverse
    | g :: gs => if g.cp = nl then go [] (cur.reverse :: acc) gs else go (g :: cur) acc gs
  go [] [] t

inductive LineKind where
  | text | bar | empty
deriving DecidableEq, Repr

structure Line where
  kind : LineKind
  gs : Text
deriving DecidableEq, Repr

def Line.cols (l : Line) : Nat := l.gs.cols
/-- the columns the line takes on a terminal of `W` columns, early wraps of double-width glyphs included -/
def Line.padded (W : Nat) (l : Line) : Nat := l.gs.padded W
def Line.isBar (l : Line) : Bool :=
  match l.kind with
  | .bar => true
  | _ => false

/-- decimal digits of a number as unit-width glyphs -/
def natText (n : Nat) : Text := (toString n).toList.map (fun c => { cp := c.toNat, w := 1 })
def strText (s : String) : Text := s.toList.map (fun c => { cp := c.toNat, w := 1 })

end IndicatifModel
