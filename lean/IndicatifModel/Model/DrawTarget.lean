import IndicatifModel.Model.Term
import IndicatifModel.Model.Limiter
/-!
# `DrawState::draw_to_term` and the terminal draw target (`src/draw_target.rs`)
-/
namespace IndicatifModel

inductive Alignment where
  | top | bottom
deriving DecidableEq, Repr

structure DrawState where
  lines : List Line := []
  moveCursor : Bool := false
  alignment : Alignment := .top
  /-- F33 repair: the last frame was cut off at the terminal height and no filler was written, so the
  cursor sits behind the last bar row painted -/
  unparked : Bool := false
deriving Repr

/-- `LineType::wrapped_height`: `max(1, ceil(cols / W))` (`W ≥ 1`) -/
def wrappedHeight (W : Nat) (l : Line) : Nat := max 1 ((l.padded W + W - 1) / W)

def visualLineCount (W : Nat) (ls : List Line) : Nat := (ls.map (wrappedHeight W)).sum

def clearLoop : Nat → List TOp
  | 0 => []
  | 1 => [.clearLine]
  | k + 2 => .clearLine :: .down 1 :: clearLoop (k + 1)

/-- fork of `console::clear_last_lines`: up, (clear, down)*, up -/
def clearOps (n : Nat) : List TOp := .up (n - 1) :: clearLoop n ++ [.up (n - 1)]

/-- Which of the repairs of DESIGN.md Appendix C the modelled code contains. `Fixes.none` is the
pinned commit as it is. -/
structure Fixes where
  f4 : Bool := false       -- a zero-width first line occupies its row
  f23 : Bool := false      -- the filler goes to the last line written
  f22 : Bool := false      -- bottom alignment: shift rows above text are not counted; clear uses top alignment
  fzomb : Bool := false    -- F1–F3: zombie accounting in `MultiState::draw`
  fstale : Bool := false   -- F26/F27: immediate reap only while the painted frame is in sync
  f31 : Bool := false      -- `MultiProgress::remove` repaints without the removed bar
  fkept : Bool := false    -- F32: only rows that were painted are kept (and counted) as zombie rows
  fpark : Bool := false    -- F33: a frame after a cut-off frame whose rows were all kept starts on a fresh row
  fbottom : Bool := false   -- F35: blank rows of a shrunk bottom-aligned frame stay with a reaped first bar
  fretarget : Bool := false -- F34: `MultiProgress::set_draw_target` forgets the zombie rows of the old target
  fblank : Bool := false    -- F36: the blank rows kept with an immediately reaped first bar are those of the painted frame
deriving Repr, DecidableEq

def Fixes.none : Fixes := {}
def Fixes.all : Fixes := { f4 := true, f23 := true, f22 := true, fzomb := true, fstale := true, f31 := true, fkept := true, fpark := true, fretarget := true, fbottom := true, fblank := true }

/-- the repairs the repository contains now (`fix:` commits); the correspondence harness runs the model
with exactly this value (`FX=current`), and the property theorems are stated for it -/
def Fixes.current : Fixes := Fixes.all

/-- the painting loop: returns the calls made, `real_height`, and for the last line written the
pair (number of lines written, filler needed on it) -/
def paintLoop (fx : Fixes) (W H total : Nat) (nothingCleared : Bool) (unparked : Bool) : Nat → Nat → List Line → List TOp × Nat × Option (Nat × Nat)
  | _, real, [] => ([], real, none)
  | idx, real, l :: ls =>
    let h := wrappedHeight W l
    if l.isBar && decide (real + h > H) then ([], real, none)
    else
      let real' := if l.isBar then real + h else real
      let pre := if idx ≠ 0 then [TOp.writeLine []] else if fx.fpark && nothingCleared && unparked then [TOp.writeLine []] else []
      let blank := fx.f4 && idx == 0 && nothingCleared && l.cols == 0 && decide (total > 1)
      let used := if blank then 1 else l.padded W
      let extra := if blank then [TOp.writeStr [space]] else []
      let fill := if !fx.f23 && idx + 1 == total then [TOp.writeStr (List.replicate (h * W - l.padded W) space)] else []
      let rest := paintLoop fx W H total nothingCleared unparked (idx + 1) real' ls
      let last := match rest.2.2 with
        | some x => some x
        | none => some (idx + 1, h * W - used)
      (pre ++ [TOp.writeStr l.gs] ++ extra ++ fill ++ rest.1, rest.2.1, last)

/-- the terminal calls of one `draw_to_term` (in order) and the new `last_line_count` -/
def drawToTerm (fx : Fixes) (ds : DrawState) (W H n : Nat) : List TOp × Nat :=
  let head := if ds.lines ≠ [] ∧ ds.moveCursor then [TOp.up (n - 1), TOp.cr] else clearOps n
  let full := visualLineCount W ds.lines
  let shift := if ds.alignment = .bottom ∧ full < n then n - full else 0
  let shiftOps := List.replicate shift (TOp.writeLine [])
  let p := paintLoop fx W H ds.lines.length (n == 0) ds.unparked 0 0 ds.lines
  let real := p.2.1
  let tail := if fx.f23 then
      match p.2.2 with
      | some (written, fill) =>
        if written == ds.lines.length || real + shift == 0 then [TOp.writeStr (List.replicate fill space)] else []
      | none => []
    else []
  let textDrawn := match ds.lines.head? with
    | some l => !l.isBar
    | none => false
  let count := if fx.f22 && textDrawn then real else real + shift
  (head ++ shiftOps ++ p.1 ++ tail ++ [TOp.flush], count)

/-- the `cursor_unparked` flag after one `draw_to_term` (F33 repair) -/
def unparkedAfter (fx : Fixes) (ds : DrawState) (W H n : Nat) : Bool :=
  if !fx.fpark then ds.unparked else
  let full := visualLineCount W ds.lines
  let shift := if ds.alignment = .bottom ∧ full < n then n - full else 0
  let p := paintLoop fx W H ds.lines.length (n == 0) ds.unparked 0 0 ds.lines
  match p.2.2 with
  | some (written, _) => !(written == ds.lines.length || p.2.1 + shift == 0)
  | none => if n == 0 then ds.unparked else false

/-- the draw state as `draw_to_term` leaves it -/
def DrawState.after (ds : DrawState) (fx : Fixes) (W H n : Nat) : DrawState :=
  { ds with unparked := unparkedAfter fx ds W H n }

/-- A terminal-like draw target (`TargetKind::TermLike`) -/
structure TermTarget where
  W : Nat
  H : Nat
  llc : Nat := 0
  /-- `None` = no rate limiting (`term_like`), `Some (cfg, st)` = `term_like_with_hz` -/
  limiter : Option (Limiter.Cfg × Limiter.St) := none
  ds : DrawState := {}
  fx : Fixes := {}
deriving Repr

/-- `drawable(force, now)`: whether a draw happens, and the limiter after the question -/
def TermTarget.drawable (tt : TermTarget) (force : Bool) (now : Nat) : Bool × TermTarget :=
  if force then (true, tt) else
  match tt.limiter with
  | none => (true, tt)
  | some (c, s) =>
    let r := Limiter.allow c s now
    (r.1, { tt with limiter := some (c, r.2) })

end IndicatifModel
