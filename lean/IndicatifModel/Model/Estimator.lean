/-!
# The rate / ETA estimator (`Estimator` in `src/state.rs`), generic in the number type

`Ops α` packages the arithmetic the code uses, so that the same definitions are executed on `Float`
(driver, correspondence with the `f64` implementation) and reasoned about over an ordered field
(`Props/C09.lean`). `w age` is `estimator_weight(age) = 0.1 ^ (age / 15)`.
-/
namespace IndicatifModel.Estimator

structure Ops (α : Type) where
  add : α → α → α
  sub : α → α → α
  mul : α → α → α
  div : α → α → α
  zero : α
  one : α
  w : α → α
  ofNat : Nat → α

structure Est (α : Type) where
  smoothed : α
  doubleSmoothed : α
  prevSteps : Nat
  prevTime : Nat      -- ns
  startTime : Nat     -- ns

/-- `duration_to_secs`: whole seconds plus nanoseconds / 1e9 -/
def secs {α : Type} (o : Ops α) (ns : Nat) : α :=
  o.add (o.ofNat (ns / 1000000000)) (o.div (o.ofNat (ns % 1000000000)) (o.ofNat 1000000000))

def new {α : Type} (o : Ops α) (now : Nat) : Est α :=
  { smoothed := o.zero, doubleSmoothed := o.zero, prevSteps := 0, prevTime := now, startTime := now }

def reset {α : Type} (o : Ops α) (e : Est α) (now : Nat) : Est α :=
  { e with smoothed := o.zero, doubleSmoothed := o.zero, prevTime := now, startTime := now }

def record {α : Type} (o : Ops α) (e : Est α) (newSteps now : Nat) : Est α :=
  if newSteps ≤ e.prevSteps ∨ now ≤ e.prevTime then
    (if newSteps < e.prevSteps then reset o { e with prevSteps := newSteps } now else e)
  else
    let deltaSteps := newSteps - e.prevSteps
    let deltaT := secs o (now - e.prevTime)
    let rate := o.div (o.ofNat deltaSteps) deltaT
    let weight := o.w deltaT
    let sm := o.add (o.mul e.smoothed weight) (o.mul rate (o.sub o.one weight))
    let total := o.sub o.one (o.w (secs o (now - e.startTime)))
    let norm := o.div sm total
    let dsm := o.add (o.mul e.doubleSmoothed weight) (o.mul norm (o.sub o.one weight))
    { e with smoothed := sm, doubleSmoothed := dsm, prevSteps := newSteps, prevTime := now }

def stepsPerSecond {α : Type} (o : Ops α) (e : Est α) (now : Nat) : α :=
  let deltaT := secs o (now - e.prevTime)
  let reweight := o.w deltaT
  let total := o.sub o.one (o.w (secs o (now - e.startTime)))
  let sps := o.div (o.mul e.smoothed reweight) total
  let dsps := o.add (o.mul e.doubleSmoothed reweight) (o.mul sps (o.sub o.one reweight))
  o.div dsps total

def floatOps : Ops Float :=
  { add := (· + ·), sub := (· - ·), mul := (· * ·), div := (· / ·), zero := 0.0, one := 1.0,
    w := fun age => Float.pow 0.1 (age / 15.0), ofNat := Float.ofNat }

end IndicatifModel.Estimator
