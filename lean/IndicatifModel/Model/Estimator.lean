/-!
# The rate / ETA estimator (`Estimator` in `src/state.rs`), generic in the number type

`Ops α` packages the arithmetic the code uses, so that the same definitions are executed on `Float`
(driver, correspondence with the `f64` implementation) and reasoned about over an ordered field
(`Props/C09.lean`). `w age` is `estimator_weight(age) = 0.1 ^ (age / 15)`.
-/
namespace IndicatifModel.Estimator

structure Ops (α : Type) where
  add : α → α → α
  sub : α → α → α
  mul : α → α → α
  div : α → α → α
  zero : α
  one : α
  w : α → α
  ofNat : Nat → α

structure Est (α : Type) where
  smoothed : α
  doubleSmoothed : α
  prevSteps : Nat
  prevTime : Nat      -- ns
  startTime : Nat     -- ns

/-- `duration_to_secs`: whole seconds plus nanoseconds / 1e9 -/
def secs {α : Type} (o : Ops α) (ns : Nat) : α :=
  o.add (o.ofNat (ns / 1000000000)) (o.div (o.ofNat (ns % 1000000000)) (o.ofNat 1000000000))

def new {α : Type} (o : Ops α) (now : Nat) : Est α :=
  { smoothed := o.zero, doubleSmoothed := o.zero, prevSteps := 0, prevTime := now, startTime := now }

def reset {α : Type} (o : Ops α) (e : Est α) (now : Nat) : Est α :=
  { e with smoothed := o.zero, doubleSmoothed := o.zero, prevTime := now, startTime := now }

def record {α : Type} (o : Ops α) (e : Est α) (newSteps now : Nat) : Est α :=
  if newSteps ≤ e.prevSteps ∨ now ≤ e.prevTime then
    (if newSteps < e.prevSteps then reset o { e with prevSteps := newSteps } now else e)
  else
    let deltaSteps := newSteps - e.prevSteps
    let deltaT := secs o (now - e.prevTime)
    let rate := o.div (o.ofNat deltaSteps) deltaT
    let weight := o.w deltaT
    let sm := o.add (o.mul e.smoothed weight) (o.mul rate (o.sub o.one weight))
    let total := o.sub o.one (o.w (secs o (now - e.startTime)))
    let norm := o.div sm total
    let dsm := o.add (o.mul e.doubleSmoothed weight) (o.mul norm (o.sub o.one weight))
    { e with smoothed := sm, doubleSmoothed := dsm, prevSteps := newSteps, prevTime := now }

def stepsPerSecond {α : Type} (o : Ops α) (e : Est α) (now : Nat) : α :=
  let deltaT := secs o (now - e.prevTime)
  let reweight := o.w deltaT
  let total := o.sub o.one (o.w (secs o (now - e.startTime)))
  let sps := o.div (o.mul e.smoothed reweight) total
  let dsps := o.add (o.mul e.doubleSmoothed reweight) (o.mul sps (o.sub o.one reweight))
  o.div dsps total

def floatOps : Ops Float :=
  { add := (· + ·), sub := (· - ·), mul := (· * ·), div := (· / ·), zero := 0.0, one := 1.0,
    w := fun age => Float.pow 0.1 (age / 15.0), ofNat := Float.ofNat }

end IndicatifModel.Estimator

/-! ## The estimator inside a bar: which public calls record a sample, and the derived getters
(`ProgressState::{per_sec, eta, duration, elapsed}`, `BarState::{reset, tick, update}`,
`ProgressBar::{inc, set_position}` with the position gate of `AtomicPosition::allow`). -/
namespace IndicatifModel.Estimator

structure EW (α : Type) where
  est : Est α
  pos : Nat := 0
  len : Option Nat := none
  started : Nat            -- `ProgressState::started`
  gateStart : Nat          -- `AtomicPosition::start`
  gateCap : Nat := 10
  gatePrev : Nat := 0      -- ns after `gateStart`
  finished : Bool := false

inductive EOp where
  | upd (p : Nat)          -- `update(|s| s.set_pos(p))`: always ticks, hence records
  | inc (d : Nat) | setPos (p : Nat)     -- gated by `AtomicPosition::allow`
  | resetEta | resetElapsed | reset | finish | setLen (l : Option Nat)
deriving Repr

def U64 : Nat := 2 ^ 64

/-- `AtomicPosition::allow` (interval 1 ms, burst 10), times relative to `gateStart` -/
def gateAllow {α : Type} (w : EW α) (now : Nat) : Bool × EW α :=
  if now < w.gateStart then (false, w) else
  let elapsed := now - w.gateStart
  let diff := elapsed - w.gatePrev
  if w.gateCap = 0 ∧ diff < 1000000 then (false, w) else
  (true, { w with gateCap := min 10 (w.gateCap + diff / 1000000 - 1), gatePrev := elapsed - diff % 1000000 })

def tick {α : Type} (o : Ops α) (w : EW α) (now : Nat) : EW α := { w with est := record o w.est w.pos now }

def step {α : Type} (o : Ops α) (w : EW α) (now : Nat) : EOp → EW α
  | .upd p => tick o { w with pos := p } now
  | .inc d => let w := { w with pos := (w.pos + d) % U64 }; let (ok, w) := gateAllow w now; if ok then tick o w now else w
  | .setPos p => let w := { w with pos := p }; let (ok, w) := gateAllow w now; if ok then tick o w now else w
  | .resetEta => { w with est := reset o { w.est with prevSteps := w.pos } now }
  | .resetElapsed => { w with est := reset o { w.est with prevSteps := w.pos } now, started := now }
  -- (the position starts again at zero and so does the estimator's view of it: repair of F37)
  | .reset => { w with est := reset o { w.est with prevSteps := 0 } now, started := now, pos := 0,
                       gatePrev := now - w.gateStart, finished := false }
  | .finish => { w with finished := true, pos := w.len.getD w.pos }
  | .setLen l => tick o { w with len := l } now

/-! ### The derived getters `ProgressState::{eta, duration, elapsed}` (generic: `isZero` is `sps == 0.0`, `toDur` is
`secs_to_duration`, both supplied by the instance; the driver runs them on `Float`) -/

/-- `Duration::MAX` in ns: (2^64 − 1) s + 999_999_999 ns -/
def durMax : Nat := (2 ^ 64 - 1) * 1000000000 + 999999999

/-- `Duration::saturating_add` -/
def durSatAdd (a b : Nat) : Nat := min (a + b) durMax

/-- `ProgressState::elapsed` (ns) -/
def elapsedOf {α : Type} (w : EW α) (now : Nat) : Nat := now - w.started

/-- `ProgressState::eta` (ns) -/
def etaOf {α : Type} (o : Ops α) (isZero : α → Bool) (toDur : α → Nat) (w : EW α) (now : Nat) : Nat :=
  if w.finished then 0 else
  match w.len with
  | none => 0
  | some len =>
    let sps := stepsPerSecond o w.est now
    if isZero sps then 0 else toDur (o.div (o.ofNat (len - w.pos)) sps)

/-- `ProgressState::duration` (ns) -/
def durationOf {α : Type} (o : Ops α) (isZero : α → Bool) (toDur : α → Nat) (w : EW α) (now : Nat) : Nat :=
  if w.len.isNone || w.finished then 0 else durSatAdd (elapsedOf w now) (etaOf o isZero toDur w now)

end IndicatifModel.Estimator
