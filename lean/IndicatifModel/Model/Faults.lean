import IndicatifModel.Model.Multi
/-!
# A MultiProgress whose terminal fails (C18)

The operations of `Model/Multi.lean` (the repaired code: `drawFixed`, `clear`, `suspend`, `println`,
`barStep`, `step`) once more, with every terminal call going through a *fault plan*: the `k`-th call
from now on returns an I/O error (and, if `sticky`, every later one too). What a failing call does is
taken from the code: `draw_to_term` returns at the first error (`?`), i.e. before `last_line_count` is
updated; every caller of a draw discards the result (`let _ =`) except `MultiProgress::println` /
`clear`, which return it — and, in the pinned code (`unwrapSites`), `MultiState::suspend`, which
`unwrap()`s both of its draws while it holds the write lock.

The bookkeeping around the draw (zombie reaping, `frame_stale`, orphan lines, limiter) runs whether or
not the draw failed, exactly as in the code.
-/
namespace IndicatifModel.Faults
open IndicatifModel

/-- the fault plan and what has happened so far -/
structure FS where
  /-- `some (k, sticky)`: `k` more terminal calls succeed, the next one fails (and all later ones if
  `sticky`); `none`: no (further) failure -/
  fault : Option (Nat × Bool) := none
  calls : Nat := 0      -- terminal calls attempted
  failed : Nat := 0     -- of which returned the error
deriving Repr, DecidableEq

/-- one `draw_to_term` under the plan: the calls up to and including the first failing one are
attempted; on failure `last_line_count` keeps its old value, and the `cursor_unparked` flag is only
up to date when the failing call was the final `flush` -/
def paintF (tt : TermTarget) (ds : DrawState) (s : FS) : TermTarget × FS × Bool :=
  let r := drawToTerm tt.fx ds tt.W tt.H tt.llc
  let n := r.1.length
  let good : TermTarget := { tt with ds := ds.after tt.fx tt.W tt.H tt.llc, llc := r.2 }
  match s.fault with
  | none => (good, { s with calls := s.calls + n }, true)
  | some (k, sticky) =>
    if n ≤ k then (good, { s with calls := s.calls + n, fault := some (k - n, sticky) }, true)
    else
      ({ tt with ds := if k + 1 = n then ds.after tt.fx tt.W tt.H tt.llc else ds },
       { calls := s.calls + k + 1, failed := s.failed + 1, fault := if sticky then some (0, true) else none }, false)

/-- `n` independent terminal calls (the lines a `suspend` closure writes): every one is attempted -/
def closureCalls (s : FS) (n : Nat) : FS :=
  match s.fault with
  | none => { s with calls := s.calls + n }
  | some (k, sticky) =>
    if n ≤ k then { s with calls := s.calls + n, fault := some (k - n, sticky) }
    else if sticky then { calls := s.calls + n, failed := s.failed + (n - k), fault := some (0, true) }
    else { calls := s.calls + n, failed := s.failed + 1, fault := none }

/-- the part of `MultiState::draw` after the limiter has let the draw through -/
def drawGo (m : Multi) (extra : Option (List Line)) (hasText : Bool) (reap : List Nat) (adjust : Nat) (s : FS) : Multi × FS × Bool :=
  let m := if hasText then { m with target := { m.target with llc := m.target.llc + m.z }, z := 0 } else m
  let lines := extra.getD [] ++ m.orphan ++ m.ordering.flatMap m.memberLines
  let ds : DrawState := { m.target.ds with lines := lines, alignment := m.alignment }
  let r := paintF m.target ds s
  let m := { m with target := r.1, orphan := [] }
  let adjust := adjust + (if reap = [] then 0 else m.blankOnTop)
  let m := reap.foldl Multi.removeIdx m
  let kept := if m.target.fx.fkept then min m.target.llc adjust else adjust
  let m := if !hasText then { m with z := m.z + kept, target := { m.target with llc := m.target.llc - adjust } } else m
  ({ m with stale := false, blankPainted := if m.target.fx.fblank then m.blankOnTop else m.blankPainted }, r.2.1, r.2.2)

def hasTextOf (m : Multi) (extra : Option (List Line)) : Bool := extra.isSome || decide (visualLineCount m.target.W m.orphan > 0)
def reapOf (m : Multi) (extra : Option (List Line)) : List Nat :=
  if hasTextOf m extra then [] else m.ordering.takeWhile (fun i => (m.members.getD i ({} : Member)).zombie)

/-- `MultiState::draw` (repaired code) under the plan; the flag is the `io::Result` -/
def drawF (m : Multi) (force : Bool) (extra : Option (List Line)) (now : Nat) (s : FS) : Multi × FS × Bool :=
  let force := force || decide (visualLineCount m.target.W m.orphan > 0)
  let r := m.target.drawable force now
  if !r.1 then ({ m with target := r.2 }, s, true) else
  drawGo { m with target := r.2 } extra (hasTextOf m extra) (reapOf m extra) (((reapOf m extra).map m.memberRows).sum) s

def printlnF (m : Multi) (t : Text) (now : Nat) (s : FS) : Multi × FS × Bool :=
  let lines : List Line := if t = [] then [{ kind := .empty, gs := [] }] else (splitLines t).map (fun l => { kind := .text, gs := l })
  drawF m true (some lines) now s

def clearF (m : Multi) (s : FS) : Multi × FS × Bool :=
  let tt := { m.target with llc := m.target.llc + m.z }
  let ds : DrawState := { tt.ds with lines := [], alignment := if tt.fx.f22 then .top else tt.ds.alignment }
  let r := paintF tt ds s
  ({ m with z := 0, stale := true, target := r.1 }, r.2.1, r.2.2)

/-- `MultiState::suspend`; the last flag: an `unwrap()` of a failed draw panicked (pinned code only) -/
def suspendF (m : Multi) (out : List Text) (now : Nat) (s : FS) (unwrapSites : Bool) : Multi × FS × Bool :=
  let c := clearF m s
  if unwrapSites && !c.2.2 then (c.1, c.2.1, true) else
  let d := drawF c.1 true none now (closureCalls c.2.1 out.length)
  (d.1, d.2.1, unwrapSites && !d.2.2)

structure FW where
  multi : Multi
  bars : List MBar := []
  now : Nat
  fs : FS := {}
  panicked : Bool := false
  /-- the pinned code: `MultiState::suspend` unwraps the results of its two draws -/
  unwrapSites : Bool := false
deriving Repr

/-- what a call reports: the `io::Result` of `MultiProgress::println` / `clear` (`none` for calls that
return nothing) -/
abbrev Res := Option Bool

namespace FW

def slotOf (w : FW) (k : Nat) : Option Nat := (w.bars[k]?).bind (·.slot)

def setBar (w : FW) (k : Nat) (b : Bar) : FW := { w with bars := w.bars.modify k (fun mb => { mb with b := b }) }

def barDraw (w : FW) (k : Nat) (force : Bool) (textLines : List Line) : FW :=
  match w.bars[k]? with
  | none => w
  | some mb =>
    match mb.slot with
    | none => w
    | some idx =>
      let force := force || mb.b.finished
      let barLines := if mb.b.status = .doneHidden then [] else formatState mb.b
      let m := { w.multi with members := w.multi.members.modify idx (fun mem => { mem with ds := some barLines }),
                              orphan := w.multi.orphan ++ textLines }
      let r := drawF m force none w.now w.fs
      { w with multi := r.1, fs := r.2.1 }

def finishWith (w : FW) (k : Nat) (b : Bar) (f : Finish) : FW :=
  let b := { b with status := .doneVisible }
  let toLen (b : Bar) : Bar := match b.len with | some l => { b with pos := l } | none => b
  let b := match f with
    | .andLeave => toLen b
    | .withMessage m => { toLen b with msg := m }
    | .andClear => { toLen b with status := .doneHidden }
    | .abandon => b
    | .abandonWithMessage m => { b with msg := m }
  (w.setBar k b).barDraw k true []

def tickInner (w : FW) (k : Nat) (b : Bar) : FW :=
  (w.setBar k { b with tick := if b.tick + 1 < U64 then b.tick + 1 else b.tick }).barDraw k false []

def afterPos (w : FW) (k : Nat) (b : Bar) : FW :=
  let r := b.posAllow w.now
  if r.1 then tickInner w k r.2 else w.setBar k r.2

def barStep (w : FW) (k : Nat) (op : BarOp) : FW :=
  match w.bars[k]? with
  | none => w
  | some mb =>
    if !mb.alive then w else
    let b := mb.b
    match op with
    | .adv _ => w
    | .tick => tickInner w k b
    | .inc d => afterPos w k { b with pos := (b.pos + d) % U64 }
    | .dec d => afterPos w k { b with pos := (b.pos + U64 - d % U64) % U64 }
    | .setPos p => afterPos w k { b with pos := p }
    | .setMsg t => (w.setBar k { b with msg := t }).barDraw k false []
    | .setPrefix t => (w.setBar k { b with pfx := t }).barDraw k false []
    | .setLen l => (w.setBar k { b with len := some l }).barDraw k false []
    | .unsetLen => (w.setBar k { b with len := none }).barDraw k false []
    | .println t => if mb.slot.isNone then w else w.barDraw k true (toLines t)
    | .suspend out =>
      if mb.slot.isNone then { w with fs := closureCalls w.fs out.length } else
      let r := suspendF w.multi out w.now w.fs w.unwrapSites
      { w with multi := r.1, fs := r.2.1, panicked := r.2.2 }
    | .reset =>
      (w.setBar k { b with pos := 0, posLim := { b.posLim with prev := w.now - b.start }, status := .inProgress }).barDraw k false []
    | .finish f => finishWith w k b f
    | .finishUsingStyle => finishWith w k b b.onFinish
    | .drop =>
      let w := if b.finished then w else finishWith w k b b.onFinish
      let w := match mb.slot with
        | some idx => { w with multi := w.multi.markZombie idx }
        | none => w
      { w with bars := w.bars.modify k (fun mb => { mb with alive := false }) }

def ilocOf (w : FW) (loc arg : Nat) : Option InsertLoc :=
  match loc with
  | 0 => some .atEnd | 1 => some (.index arg) | 2 => some (.fromBack arg)
  | 3 => (w.slotOf arg).map .before | _ => (w.slotOf arg).map .after

def stepGo (w : FW) (op : MOp) : FW × Res :=
  match op with
  | .adv dt => ({ w with now := w.now + dt }, none)
  | .add loc arg len tpl fin pfx =>
    match (w.ilocOf loc arg).bind w.multi.insert with
    | none => ({ w with panicked := true }, none)
    | some (m, idx) =>
      let b : Bar := { len := len, tpl := templates.getD tpl [], onFinish := fin, pfx := pfx, start := w.now }
      ({ w with multi := m, bars := w.bars ++ [{ b := b, slot := some idx }] }, none)
  | .remove k =>
    match w.slotOf k with
    | none => (w, none)
    | some idx =>
      let m := { w.multi.removeIdx idx with stale := true }
      let r := drawF m true none w.now w.fs
      ({ w with multi := r.1, fs := r.2.1, bars := w.bars.modify k (fun mb => { mb with slot := none }) }, none)
  | .mpPrintln t => let r := printlnF w.multi t w.now w.fs; ({ w with multi := r.1, fs := r.2.1 }, some r.2.2)
  | .mpClear => let r := clearF w.multi w.fs; ({ w with multi := r.1, fs := r.2.1 }, some r.2.2)
  | .mpSuspend out =>
    let r := suspendF w.multi out w.now w.fs w.unwrapSites
    ({ w with multi := r.1, fs := r.2.1, panicked := r.2.2 }, none)
  | .align bottom => ({ w with multi := { w.multi with alignment := if bottom then .bottom else .top } }, none)
  | .retarget => ({ w with multi := w.multi.retarget w.now }, none)
  | .bar k op => (w.barStep k op, none)

/-- a panic poisons the lock: every later call panics too and changes nothing -/
def step (w : FW) (op : MOp) : FW × Res := if w.panicked then (w, none) else stepGo w op

def run (w : FW) (ops : List MOp) : FW := ops.foldl (fun w op => (w.step op).1) w

/-- position, length, message, prefix and status of every bar: what the getters return -/
def logical (w : FW) : List (Nat × Option Nat × Text × Text × Status) :=
  w.bars.map (fun mb => (mb.b.pos, mb.b.len, mb.b.msg, mb.b.pfx, mb.b.status))

end FW
end IndicatifModel.Faults
