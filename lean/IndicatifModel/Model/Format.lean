/-!
# Human-readable formatters (`src/format.rs`), integer parts

`HumanCount`, `FormattedDuration`, and `HumanDuration` (unit selection is exact `Duration`
arithmetic in the code; the count is `round(d / unit)` computed in `f64`, modelled here with exact
rational rounding — the two agree away from astronomically large durations, see DESIGN.md C15).
Durations are `Nat` nanoseconds.
-/
namespace IndicatifModel.Format

def digitChar (d : Nat) : Char := Char.ofNat (48 + d)

/-- decimal digits, most significant first -/
def digits (n : Nat) : List Char :=
  if n < 10 then [digitChar n] else digits (n / 10) ++ [digitChar (n % 10)]
termination_by n
decreasing_by omega

/-- `HumanCount`: walk the digits, a comma after every digit whose distance to the end is a positive multiple of 3 -/
def humanCount (n : Nat) : List Char :=
  let ds := digits n
  let len := ds.length
  (List.range len).flatMap (fun idx =>
    let pos := len - idx - 1
    [ds.getD idx '0'] ++ (if pos > 0 && pos % 3 == 0 then [','] else []))

def pad2 (n : Nat) : List Char := if n < 10 then '0' :: digits n else digits n

/-- `FormattedDuration` of whole seconds -/
def formattedDuration (secs : Nat) : List Char :=
  let s := secs % 60
  let t := secs / 60
  let m := t % 60
  let t := t / 60
  let h := t % 24
  let d := t / 24
  let hms := pad2 h ++ [':'] ++ pad2 m ++ [':'] ++ pad2 s
  if d > 0 then digits d ++ ['d', ' '] ++ hms else hms

def NS : Nat := 1000000000
def SECOND := NS
def MINUTE := 60 * NS
def HOUR := 3600 * NS
def DAY := 86400 * NS
def WEEK := 7 * 86400 * NS
def YEAR := 365 * 86400 * NS

/-- (unit in ns, name, short name), largest first — regenerated from `UNITS` by the translator -/
def units : List (Nat × String × String) :=
  [(YEAR, "year", "y"), (WEEK, "week", "w"), (DAY, "day", "d"), (HOUR, "hour", "h"), (MINUTE, "minute", "m"), (SECOND, "second", "s")]

/-- index of the unit `HumanDuration` chooses (durations saturate at `Duration::MAX`, irrelevant here) -/
def unitIndex (d : Nat) : Nat :=
  let rec go (i : Nat) : List (Nat × String × String) → Nat
    | (cur, _, _) :: (next, n2, a2) :: rest =>
      if d + next / 2 ≥ cur + cur / 2 then i else go (i + 1) ((next, n2, a2) :: rest)
    | _ => i
  go 0 units

/-- round half away from zero of `d / unit` -/
def roundDiv (d unit : Nat) : Nat := (2 * d + unit) / (2 * unit)

def humanDurationCount (d : Nat) : Nat × Nat :=
  let idx := unitIndex d
  let unit := (units.getD idx (SECOND, "", "")).1
  let t := roundDiv d unit
  (idx, if idx < units.length - 1 then max t 2 else t)

def humanDuration (d : Nat) (alternate : Bool) : List Char :=
  let r := humanDurationCount d
  let u := units.getD r.1 (SECOND, "second", "s")
  if alternate then digits r.2 ++ u.2.2.toList
  else if r.2 = 1 then digits r.2 ++ [' '] ++ u.2.1.toList
  else digits r.2 ++ [' '] ++ u.2.1.toList ++ ['s']

/-- the duration a `HumanDuration` rendering stands for -/
def humanDurationValue (d : Nat) : Nat :=
  let (idx, t) := humanDurationCount d
  t * (units.getD idx (SECOND, "", "")).1


/-! ## Floating-point formatters: `HumanFloatCount`, `HumanBytes`, `BinaryBytes`, `DecimalBytes`

An `f64` is given by its IEEE-754 bit pattern (a `Nat` below `2^64`), decoded here by integer
arithmetic, so that the decimal expansion is exact and the definitions reduce in the kernel.
`{:.p}` of Rust's standard library is the exact value rounded half-to-even to `p` decimals. -/

inductive F64Class where
  | nan | inf (neg : Bool)
  | fin (neg : Bool) (mant : Nat) (exp : Int)     -- value = ± mant · 2^exp
deriving Repr, DecidableEq

def decodeF64 (bits : Nat) : F64Class :=
  let neg := bits / 2 ^ 63 % 2 == 1
  let e := bits / 2 ^ 52 % 2048
  let m := bits % 2 ^ 52
  if e = 2047 then (if m = 0 then .inf neg else .nan)
  else if e = 0 then .fin neg m (-1074)
  else .fin neg (2 ^ 52 + m) (Int.ofNat e - 1075)

/-- round half to even of `num / den` -/
def roundHalfEven (num den : Nat) : Nat :=
  let q := num / den
  let r := num % den
  if 2 * r > den ∨ (2 * r = den ∧ q % 2 = 1) then q + 1 else q

/-- `mant · 2^exp · 10^prec`, rounded half to even -/
def scaledRound (mant : Nat) (exp : Int) (prec : Nat) : Nat :=
  match exp with
  | .ofNat k => mant * 2 ^ k * 10 ^ prec
  | .negSucc k => roundHalfEven (mant * 10 ^ prec) (2 ^ (k + 1))

def padLeftZeros (n : Nat) (ds : List Char) : List Char := List.replicate (n - ds.length) '0' ++ ds

/-- integer digits and fraction digits of `format!("{:.prec}", |x|)` -/
def fixedParts (mant : Nat) (exp : Int) (prec : Nat) : List Char × List Char :=
  let ds := padLeftZeros (prec + 1) (digits (scaledRound mant exp prec))
  (ds.take (ds.length - prec), ds.drop (ds.length - prec))

/-- commas after every third digit from the right (`ds` are the integer digits) -/
def group3 (ds : List Char) : List Char :=
  let len := ds.length
  (List.range len).flatMap (fun idx =>
    let pos := len - idx - 1
    [ds.getD idx '0'] ++ (if pos > 0 && pos % 3 == 0 then [','] else []))

def trimZeros (ds : List Char) : List Char := (ds.reverse.dropWhile (· == '0')).reverse

/-- `HumanFloatCount` as it is in the repository now: sign, grouped integer digits of the correctly
rounded fixed-precision decimal, trimmed fraction; NaN and the infinities pass through -/
def humanFloatCount (bits prec : Nat) : List Char :=
  match decodeF64 bits with
  | .nan => "NaN".toList
  | .inf neg => (if neg then ['-'] else []) ++ "inf".toList
  | .fin neg mant exp =>
    let (ip, fp) := fixedParts mant exp prec
    let fr := trimZeros fp
    (if neg then ['-'] else []) ++ group3 ip ++ (if fr = [] then [] else '.' :: fr)

/-- `format!("{:.prec}", x)` for a finite or non-finite `f64` -/
def fmtFixed (bits prec : Nat) : List Char :=
  match decodeF64 bits with
  | .nan => "NaN".toList
  | .inf neg => (if neg then ['-'] else []) ++ "inf".toList
  | .fin neg mant exp =>
    let (ip, fp) := fixedParts mant exp prec
    (if neg then ['-'] else []) ++ ip ++ (if prec = 0 then [] else '.' :: fp)

def binaryPrefixes : List String := ["Ki", "Mi", "Gi", "Ti", "Pi", "Ei", "Zi", "Yi"]
def decimalPrefixes : List String := ["k", "M", "G", "T", "P", "E", "Z", "Y"]

/-- `number_prefix`'s loop: divide by `kilo` while the amount is at least `kilo`, at most 8 times; generic in
the arithmetic, so that it runs on hardware `f64` (as in the crate) and is reasoned about over an ordered field -/
def prefixLoopG {α : Type} (ge : α → α → Bool) (div : α → α → α) (kilo : α) : Nat → α → Nat → α × Nat
  | 0, a, p => (a, p)
  | fuel + 1, a, p => if ge a kilo && decide (p < 8) then prefixLoopG ge div kilo fuel (div a kilo) (p + 1) else (a, p)

def prefixLoop (kilo : Float) (fuel : Nat) (a : Float) (p : Nat) : Float × Nat :=
  prefixLoopG (fun x y => x >= y) (· / ·) kilo fuel a p

/-- `HumanBytes` / `BinaryBytes` (`binary = true`) and `DecimalBytes` of a `u64` -/
def humanBytes (n : Nat) (binary : Bool) : List Char :=
  let x := (UInt64.ofNat n).toFloat
  let (a, p) := prefixLoop (if binary then 1024.0 else 1000.0) 8 x 0
  if p = 0 then fmtFixed a.toBits.toNat 0 ++ " B".toList
  else fmtFixed a.toBits.toNat 2 ++ [' '] ++ ((if binary then binaryPrefixes else decimalPrefixes).getD (p - 1) "?").toList ++ ['B']

end IndicatifModel.Format
