/-!
# Human-readable formatters (`src/format.rs`), integer parts

`HumanCount`, `FormattedDuration`, and `HumanDuration` (unit selection is exact `Duration`
arithmetic in the code; the count is `round(d / unit)` computed in `f64`, modelled here with exact
rational rounding — the two agree away from astronomically large durations, see DESIGN.md C15).
Durations are `Nat` nanoseconds.
-/
namespace IndicatifModel.Format

def digitChar (d : Nat) : Char := Char.ofNat (48 + d)

/-- decimal digits, most significant first -/
def digits (n : Nat) : List Char :=
  if n < 10 then [digitChar n] else digits (n / 10) ++ [digitChar (n % 10)]
termination_by n
decreasing_by omega

/-- `HumanCount`: walk the digits, a comma after every digit whose distance to the end is a positive multiple of 3 -/
def humanCount (n : Nat) : List Char :=
  let ds := digits n
  let len := ds.length
  (List.range len).flatMap (fun idx =>
    let pos := len - idx - 1
    [ds.getD idx '0'] ++ (if pos > 0 && pos % 3 == 0 then [','] else []))

def pad2 (n : Nat) : List Char := if n < 10 then '0' :: digits n else digits n

/-- `FormattedDuration` of whole seconds -/
def formattedDuration (secs : Nat) : List Char :=
  let s := secs % 60
  let t := secs / 60
  let m := t % 60
  let t := t / 60
  let h := t % 24
  let d := t / 24
  let hms := pad2 h ++ [':'] ++ pad2 m ++ [':'] ++ pad2 s
  if d > 0 then digits d ++ ['d', ' '] ++ hms else hms

def NS : Nat := 1000000000
def SECOND := NS
def MINUTE := 60 * NS
def HOUR := 3600 * NS
def DAY := 86400 * NS
def WEEK := 7 * 86400 * NS
def YEAR := 365 * 86400 * NS

/-- (unit in ns, name, short name), largest first — regenerated from `UNITS` by the translator -/
def units : List (Nat × String × String) :=
  [(YEAR, "year", "y"), (WEEK, "week", "w"), (DAY, "day", "d"), (HOUR, "hour", "h"), (MINUTE, "minute", "m"), (SECOND, "second", "s")]

/-- index of the unit `HumanDuration` chooses (durations saturate at `Duration::MAX`, irrelevant here) -/
def unitIndex (d : Nat) : Nat :=
  let rec go (i : Nat) : List (Nat × String × String) → Nat
    | (cur, _, _) :: (next, n2, a2) :: rest =>
      if d + next / 2 ≥ cur + cur / 2 then i else go (i + 1) ((next, n2, a2) :: rest)
    | _ => i
  go 0 units

/-- round half away from zero of `d / unit` -/
def roundDiv (d unit : Nat) : Nat := (2 * d + unit) / (2 * unit)

def humanDurationCount (d : Nat) : Nat × Nat :=
  let idx := unitIndex d
  let unit := (units.getD idx (SECOND, "", "")).1
  let t := roundDiv d unit
  (idx, if idx < units.length - 1 then max t 2 else t)

def humanDuration (d : Nat) (alternate : Bool) : List Char :=
  let (idx, t) := humanDurationCount d
  let (_, name, alt) := units.getD idx (SECOND, "second", "s")
  if alternate then digits t ++ alt.toList
  else if t = 1 then digits t ++ [' '] ++ name.toList
  else digits t ++ [' '] ++ name.toList ++ ['s']

/-- the duration a `HumanDuration` rendering stands for -/
def humanDurationValue (d : Nat) : Nat :=
  let (idx, t) := humanDurationCount d
  t * (units.getD idx (SECOND, "", "")).1

end IndicatifModel.Format
