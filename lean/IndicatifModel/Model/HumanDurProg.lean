import IndicatifModel.Model.Format
/-!
# `<HumanDuration as Display>::fmt` as a small program

`tools/gen_duration.py` reads the numbers, the comparison, the jumps, the rounding, the clamp and the format strings of the function
from the source (`Generated/HumanDur.lean`); this file says what such a program computes. `Proofs/GenBridgeDur.lean` proves that the
program read from the current source computes the hand-written `humanDuration` of `Model/Format.lean`, about which the C15 theorems
are stated. Durations are whole nanoseconds; `saturating_add` never saturates below `Duration::MAX` (not modelled).
-/
namespace IndicatifModel.Format

inductive HDCmp | ge | gt | le | lt | eq
  deriving DecidableEq, Repr
inductive HDJump | brk | cont
  deriving DecidableEq, Repr
inductive HDRound | round | floor | ceil | trunc
  deriving DecidableEq, Repr

structure HDProg where
  /-- `let mut idx = …` -/
  startIdx : Nat
  /-- `UNITS.get(i + …)` -/
  lookAhead : Nat
  /-- `self.0.saturating_add(next.0 / …)` -/
  addDen : Nat
  cmp : HDCmp
  /-- `cur + cur / …` -/
  thrDen : Nat
  /-- the arm `Some(&next) if … =>` -/
  onHit : HDJump
  /-- the arm `_ =>` -/
  onMiss : HDJump
  rounding : HDRound
  /-- `if idx < UNITS.len() - off` (strict) or `<=` -/
  clampStrict : Bool
  clampOff : Nat
  /-- `t = Ord::max(t, …)` -/
  clampMin : Nat
  deriving Repr

inductive HDPiece | count | short | name | text (cps : List Nat)
  deriving Repr
structure HDArm where
  alt : Option Bool
  count : Option Nat
  pieces : List HDPiece
  deriving Repr

def HDCmp.holds : HDCmp → Nat → Nat → Bool
  | .ge, a, b => decide (a ≥ b)
  | .gt, a, b => decide (a > b)
  | .le, a, b => decide (a ≤ b)
  | .lt, a, b => decide (a < b)
  | .eq, a, b => decide (a = b)

/-- the `for (i, &(cur, _, _)) in UNITS.iter().enumerate()` loop from entry `i` on, `n` entries left; `idx` is the variable the
loop assigns (`idx = i` first thing in the body) -/
def hdLoop (p : HDProg) (us : List (Nat × String × String)) (d : Nat) : Nat → Nat → Nat → Nat
  | _, idx, 0 => idx
  | i, _, n + 1 =>
    let cur := (us.getD i (0, "", "")).1
    let jump := match us[i + p.lookAhead]? with
      | some next => if p.cmp.holds (d + next.1 / p.addDen) (cur + cur / p.thrDen) then p.onHit else p.onMiss
      | none => p.onMiss
    match jump with
    | .brk => i
    | .cont => hdLoop p us d (i + 1) i n

def hdRoundDiv : HDRound → Nat → Nat → Nat
  | .round, d, u => roundDiv d u
  | .floor, d, u => d / u
  | .trunc, d, u => d / u
  | .ceil, d, u => (d + u - 1) / u

def hdCount (p : HDProg) (us : List (Nat × String × String)) (d : Nat) : Nat × Nat :=
  let idx := hdLoop p us d 0 p.startIdx us.length
  let unit := (us.getD idx (SECOND, "", "")).1
  let t := hdRoundDiv p.rounding d unit
  let clamp := if p.clampStrict then decide (idx < us.length - p.clampOff) else decide (idx ≤ us.length - p.clampOff)
  (idx, if clamp then max t p.clampMin else t)

def hdPiece (t : Nat) (name alt : String) : HDPiece → List Char
  | .count => digits t
  | .short => alt.toList
  | .name => name.toList
  | .text cps => cps.map Char.ofNat

def hdArmMatches (a : HDArm) (alternate : Bool) (t : Nat) : Bool :=
  (match a.alt with | none => true | some b => b == alternate) && (match a.count with | none => true | some n => n == t)

/-- what the program writes for a duration of `d` nanoseconds -/
def hdRun (p : HDProg) (arms : List HDArm) (us : List (Nat × String × String)) (d : Nat) (alternate : Bool) : List Char :=
  let r := hdCount p us d
  let u := us.getD r.1 (SECOND, "second", "s")
  match arms.find? (hdArmMatches · alternate r.2) with
  | some a => (a.pieces.map (hdPiece r.2 u.2.1 u.2.2)).flatten
  | none => []

end IndicatifModel.Format
