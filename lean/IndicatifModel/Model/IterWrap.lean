import IndicatifModel.Model.Position
/-!
# `ProgressBarIter` as an `Iterator` / `DoubleEndedIterator` / `ExactSizeIterator` (`src/iter.rs`)

The underlying iterator is any state machine `U` (not necessarily fused, finite or exact): `next`, `next_back` and
`size_hint` are parameters. The wrapper adds the bar: every `Some` item is one `inc(1)`; a `None` finishes the bar
with its configured finish behaviour unless it is finished already. Methods the wrapper does not override
(`nth`, `fold`, `count`, `last`, `step_by`, ...) are std's defaults, which reach the underlying iterator only through
these calls: a *client* below is any program that chooses its next call from the answers it got so far.
-/
namespace IndicatifModel.IterWrap
open Position

/-- the underlying iterator -/
structure Under (U α : Type) where
  next : U → Option α × U
  nextBack : U → Option α × U
  sizeHint : U → Nat × Option Nat

inductive Call where
  | next | nextBack | sizeHint
deriving Repr, DecidableEq

/-- what a call answers -/
inductive Ans (α : Type) where
  | item (r : Option α)
  | hint (lo : Nat) (hi : Option Nat)
deriving Repr, DecidableEq

/-- the bar's reaction to an answered item -/
def onItem {α : Type} (b : St) : Option α → St
  | some _ => step b (.inc 1)
  | none => if b.finished then b else step b .finishStyle

/-- one call on the bare iterator -/
def bareCall {U α : Type} (I : Under U α) (u : U) : Call → Ans α × U
  | .next => (.item (I.next u).1, (I.next u).2)
  | .nextBack => (.item (I.nextBack u).1, (I.nextBack u).2)
  | .sizeHint => (.hint (I.sizeHint u).1 (I.sizeHint u).2, u)

/-- one call on the wrapped iterator: `ProgressBarIter::{next, next_back, size_hint}` -/
def wrapCall {U α : Type} (I : Under U α) (u : U) (b : St) : Call → Ans α × U × St
  | .next => (.item (I.next u).1, (I.next u).2, onItem b (I.next u).1)
  | .nextBack => (.item (I.nextBack u).1, (I.nextBack u).2, onItem b (I.nextBack u).1)
  | .sizeHint => (.hint (I.sizeHint u).1 (I.sizeHint u).2, u, b)

/-- a client: from the answers so far (latest first) to the next call, or stop -/
abbrev Client (α : Type) := List (Ans α) → Option Call

/-- the transcript (latest first) of a client running for at most `fuel` calls on the bare iterator -/
def runBare {U α : Type} (I : Under U α) (c : Client α) : Nat → U → List (Ans α) → List (Ans α) × U
  | 0, u, tr => (tr, u)
  | fuel + 1, u, tr =>
    match c tr with
    | none => (tr, u)
    | some call => runBare I c fuel (bareCall I u call).2 ((bareCall I u call).1 :: tr)

/-- the same client on the wrapped iterator -/
def runWrap {U α : Type} (I : Under U α) (c : Client α) : Nat → U → St → List (Ans α) → List (Ans α) × U × St
  | 0, u, b, tr => (tr, u, b)
  | fuel + 1, u, b, tr =>
    match c tr with
    | none => (tr, u, b)
    | some call => runWrap I c fuel (wrapCall I u b call).2.1 (wrapCall I u b call).2.2 ((wrapCall I u b call).1 :: tr)

/-- number of items (`Some`) in a transcript -/
def items {α : Type} : List (Ans α) → Nat
  | [] => 0
  | .item (some _) :: tr => items tr + 1
  | _ :: tr => items tr

/-- whether the transcript contains an end-of-iteration answer -/
def ended {α : Type} : List (Ans α) → Bool
  | [] => false
  | .item none :: _ => true
  | _ :: tr => ended tr

/-- the bar after a history of answered items, oldest first -/
def barAfter {α : Type} (b : St) (answers : List (Option α)) : St := answers.foldl onItem b

/-- a list iterator (fused, exact) for the correspondence stream and the examples -/
def listUnder (α : Type) : Under (List α) α where
  next := fun l => match l with | [] => (none, []) | x :: xs => (some x, xs)
  nextBack := fun l => match l.getLast? with | none => (none, []) | some x => (some x, l.dropLast)
  sizeHint := fun l => (l.length, some l.length)

/-- a scripted double-ended iterator (not necessarily fused): `next` answers from the front script, `next_back` from the
back script, an exhausted script answers `None`; used by the correspondence stream -/
def scriptUnder : Under (List (Option Nat) × List (Option Nat)) Nat where
  next := fun s => match s.1 with | [] => (none, ([], s.2)) | r :: rs => (r, (rs, s.2))
  nextBack := fun s => match s.2 with | [] => (none, (s.1, [])) | r :: rs => (r, (s.1, rs))
  sizeHint := fun s => (s.1.length, some (s.1.length + s.2.length))

/-- a fixed call sequence on the wrapped scripted iterator: answer and bar state after every call -/
def trace (u : List (Option Nat) × List (Option Nat)) (b : St) : List Call → List (Ans Nat × St)
  | [] => []
  | c :: cs => ((wrapCall scriptUnder u b c).1, (wrapCall scriptUnder u b c).2.2) ::
      trace (wrapCall scriptUnder u b c).2.1 (wrapCall scriptUnder u b c).2.2 cs

/-! ### The `Stream` wrapper (`poll_next`): a poll answers `Pending`, or what an iterator's `next` would answer -/

/-- the bar's reaction to one poll: `none` = `Poll::Pending` -/
def onPoll {α : Type} (b : St) : Option (Option α) → St
  | none => b
  | some r => onItem b r

/-- polls of the wrapped scripted stream: the script's entries in order, `Ready(None)` once it is exhausted;
answer and bar state after every poll -/
def tracePolls (script : List (Option (Option Nat))) (b : St) : Nat → List (Option (Option Nat) × St)
  | 0 => []
  | n + 1 =>
    match script with
    | [] => (some none, onPoll b (some (none : Option Nat))) :: tracePolls [] (onPoll b (some (none : Option Nat))) n
    | p :: ps => (p, onPoll b p) :: tracePolls ps (onPoll b p) n

end IndicatifModel.IterWrap
