/-!
# What an arm of `ProgressStyle::format_state` computes (C11)

The translator `tools/gen_keys.py` reads every `"key" => …` arm of the `match key.as_str()` in
`src/style.rs` and records which value of the bar it takes (`Src`), which public formatter it passes it
through (`Wrap`), and the format flags. `Props/C11.lean` compares the regenerated table with the table
written from the crate documentation.
-/
namespace IndicatifModel.Generated

/-- where the value comes from -/
inductive Src where
  | pos          -- `pos` (= `state.pos()`)
  | len          -- `len` (= `state.len().unwrap_or(pos)`)
  | fraction     -- `state.fraction()`
  | elapsed | eta | duration    -- `state.elapsed()`, `state.eta()`, `state.duration()`
  | perSec       -- `state.per_sec()` (f64)
  | perSecU64    -- `state.per_sec() as u64`
  | message | prefix | tick     -- the expanded message / prefix, the current tick string
  | wideBar | wideMsg           -- placeholders filled once the rest of the line is known
  | unknown
deriving DecidableEq, Repr

/-- the public formatter the value is passed through -/
inductive Wrap where
  | plain | humanCount | humanBytes | decimalBytes | binaryBytes | formattedDuration | humanDuration
  | humanFloatCount | bar
deriving DecidableEq, Repr

structure Arm where
  key : List Nat
  src : Src
  wrap : Wrap
  /-- the alternate flag `{:#}` (compact `HumanDuration`) -/
  alt : Bool := false
  /-- the literal `/s` after the value -/
  perS : Bool := false
  /-- `value * 100` with a fixed number of fraction digits (`{:.*}`) -/
  percentDigits : Option Nat := none
deriving DecidableEq, Repr

end IndicatifModel.Generated
