import IndicatifModel.Model.KeyArm
/-!
# The documented placeholder keys as a table (`src/lib.rs`, "The following keys exist")

Written by hand from the crate documentation: which value of the bar a key shows, through which public formatter,
with which flags. `Props/C11.lean` proves that the table regenerated from `src/style.rs` on every run equals it;
`Model/KeyValue.lean` gives it its meaning (what text an arm produces from the getter values).
-/
namespace IndicatifModel.Generated

/-- the documentation of the keys (`src/lib.rs`, "The following keys exist"), as a table: which value, which
public formatter, which flags -/
def documentedArms : List Arm := [
  { key := [98, 97, 114], src := .fraction, wrap := .bar, alt := false, perS := false, percentDigits := none } /- bar: a progress bar of the completed fraction -/,
  { key := [119, 105, 100, 101, 95, 98, 97, 114], src := .wideBar, wrap := .plain, alt := false, perS := false, percentDigits := none } /- wide_bar: like bar, filling the remaining space -/,
  { key := [115, 112, 105, 110, 110, 101, 114], src := .tick, wrap := .plain, alt := false, perS := false, percentDigits := none } /- spinner: the current tick string -/,
  { key := [112, 114, 101, 102, 105, 120], src := .prefix, wrap := .plain, alt := false, perS := false, percentDigits := none } /- prefix: the prefix -/,
  { key := [109, 115, 103], src := .message, wrap := .plain, alt := false, perS := false, percentDigits := none } /- msg: the message -/,
  { key := [119, 105, 100, 101, 95, 109, 115, 103], src := .wideMsg, wrap := .plain, alt := false, perS := false, percentDigits := none } /- wide_msg: like msg, filling the remaining space -/,
  { key := [112, 111, 115], src := .pos, wrap := .plain, alt := false, perS := false, percentDigits := none } /- pos: the position as an integer -/,
  { key := [104, 117, 109, 97, 110, 95, 112, 111, 115], src := .pos, wrap := .humanCount, alt := false, perS := false, percentDigits := none } /- human_pos: the position with thousands separators -/,
  { key := [108, 101, 110], src := .len, wrap := .plain, alt := false, perS := false, percentDigits := none } /- len: the length as an integer -/,
  { key := [104, 117, 109, 97, 110, 95, 108, 101, 110], src := .len, wrap := .humanCount, alt := false, perS := false, percentDigits := none } /- human_len: the length with thousands separators -/,
  { key := [112, 101, 114, 99, 101, 110, 116], src := .fraction, wrap := .plain, alt := false, perS := false, percentDigits := some 0 } /- percent: percentage as an integer -/,
  { key := [112, 101, 114, 99, 101, 110, 116, 95, 112, 114, 101, 99, 105, 115, 101], src := .fraction, wrap := .plain, alt := false, perS := false, percentDigits := some 3 } /- percent_precise: percentage with 3 fraction digits -/,
  { key := [98, 121, 116, 101, 115], src := .pos, wrap := .humanBytes, alt := false, perS := false, percentDigits := none } /- bytes: the position as bytes -/,
  { key := [116, 111, 116, 97, 108, 95, 98, 121, 116, 101, 115], src := .len, wrap := .humanBytes, alt := false, perS := false, percentDigits := none } /- total_bytes: the length as bytes -/,
  { key := [100, 101, 99, 105, 109, 97, 108, 95, 98, 121, 116, 101, 115], src := .pos, wrap := .decimalBytes, alt := false, perS := false, percentDigits := none } /- decimal_bytes: the position, power-of-10 units -/,
  { key := [100, 101, 99, 105, 109, 97, 108, 95, 116, 111, 116, 97, 108, 95, 98, 121, 116, 101, 115], src := .len, wrap := .decimalBytes, alt := false, perS := false, percentDigits := none } /- decimal_total_bytes: the length, power-of-10 units -/,
  { key := [98, 105, 110, 97, 114, 121, 95, 98, 121, 116, 101, 115], src := .pos, wrap := .binaryBytes, alt := false, perS := false, percentDigits := none } /- binary_bytes: the position, power-of-two units -/,
  { key := [98, 105, 110, 97, 114, 121, 95, 116, 111, 116, 97, 108, 95, 98, 121, 116, 101, 115], src := .len, wrap := .binaryBytes, alt := false, perS := false, percentDigits := none } /- binary_total_bytes: the length, power-of-two units -/,
  { key := [101, 108, 97, 112, 115, 101, 100, 95, 112, 114, 101, 99, 105, 115, 101], src := .elapsed, wrap := .formattedDuration, alt := false, perS := false, percentDigits := none } /- elapsed_precise: elapsed time as HH:MM:SS -/,
  { key := [101, 108, 97, 112, 115, 101, 100], src := .elapsed, wrap := .humanDuration, alt := true, perS := false, percentDigits := none } /- elapsed: elapsed time as 42s, 1m -/,
  { key := [112, 101, 114, 95, 115, 101, 99], src := .perSec, wrap := .humanFloatCount, alt := false, perS := true, percentDigits := none } /- per_sec: steps per second -/,
  { key := [98, 121, 116, 101, 115, 95, 112, 101, 114, 95, 115, 101, 99], src := .perSecU64, wrap := .humanBytes, alt := false, perS := true, percentDigits := none } /- bytes_per_sec: bytes per second -/,
  { key := [100, 101, 99, 105, 109, 97, 108, 95, 98, 121, 116, 101, 115, 95, 112, 101, 114, 95, 115, 101, 99], src := .perSecU64, wrap := .decimalBytes, alt := false, perS := true, percentDigits := none } /- decimal_bytes_per_sec: bytes per second, power-of-10 units -/,
  { key := [98, 105, 110, 97, 114, 121, 95, 98, 121, 116, 101, 115, 95, 112, 101, 114, 95, 115, 101, 99], src := .perSecU64, wrap := .binaryBytes, alt := false, perS := true, percentDigits := none } /- binary_bytes_per_sec: bytes per second, power-of-two units -/,
  { key := [101, 116, 97, 95, 112, 114, 101, 99, 105, 115, 101], src := .eta, wrap := .formattedDuration, alt := false, perS := false, percentDigits := none } /- eta_precise: remaining time like elapsed_precise -/,
  { key := [101, 116, 97], src := .eta, wrap := .humanDuration, alt := true, perS := false, percentDigits := none } /- eta: remaining time like elapsed -/,
  { key := [100, 117, 114, 97, 116, 105, 111, 110, 95, 112, 114, 101, 99, 105, 115, 101], src := .duration, wrap := .formattedDuration, alt := false, perS := false, percentDigits := none } /- duration_precise: extrapolated total duration like elapsed_precise -/,
  { key := [100, 117, 114, 97, 116, 105, 111, 110], src := .duration, wrap := .humanDuration, alt := true, perS := false, percentDigits := none } /- duration: extrapolated total duration like elapsed -/
]


end IndicatifModel.Generated
