import IndicatifModel.Model.KeyDoc
import IndicatifModel.Model.Format
import IndicatifModel.Model.BarGeo
import IndicatifModel.Model.Render
/-!
# What a documented key renders: the arm table given its meaning

`Vals` holds what the public getters of `ProgressState` return at the instant of the draw (`pos()`, `len()`,
`elapsed()`, `eta()`, `duration()`, `per_sec()`, the expanded message and prefix, the current tick string) and the
style's progress characters. `armText` turns an arm (`Src` × `Wrap` × flags) into the text of the key: the value the
arm names, passed through the public formatter it names (`Model/Format.lean`). `envOf` makes this the `builtin` function
of the rendering walk (`Model/Render.lean`), so that a whole template — every documented key, fields, wide elements,
several lines — is rendered from the getter values by the model and compared with the crate (stream C11R).
-/
namespace IndicatifModel.KeyValue
open Generated (Arm Src Wrap)

structure Vals where
  pos : Nat
  len : Option Nat
  /-- nanoseconds -/
  elapsed : Nat
  eta : Nat
  duration : Nat
  /-- `per_sec()` as IEEE-754 binary64 bits -/
  perSecBits : Nat
  msg : List Char
  pfx : List Char
  tick : List Char
  /-- the progress characters (clusters) and their common width -/
  progChars : List (List Char)
  charWidth : Nat

/-- `x as u64` of an `f64`: toward zero, saturating, NaN ↦ 0 -/
def f64AsU64 (bits : Nat) : Nat := (Float.ofBits bits.toUInt64).toUInt64.toNat

/-- `state.fraction() * 100f32`, widened to binary64 (exact), as bits -/
def percentBits (pos : Nat) (len : Option Nat) : Nat :=
  ((BarGeo.fraction BarGeo.f32 pos len * (100 : Float32)).toFloat).toBits.toNat

/-- `format_bar(state.fraction(), width, _)` with colours off -/
def barText (v : Vals) (width : Nat) : List Char :=
  if v.charWidth = 0 then [] else
  let b := BarGeo.formatBar BarGeo.f32 (BarGeo.fraction BarGeo.f32 v.pos v.len) width v.charWidth v.progChars.length
  (b.cells v.progChars.length).flatMap (fun i => v.progChars.getD i [])

def bytesText (w : Wrap) (n : Nat) : Option (List Char) :=
  match w with
  | .plain => some (Format.digits n)
  | .humanCount => some (Format.humanCount n)
  | .humanBytes | .binaryBytes => some (Format.humanBytes n true)
  | .decimalBytes => some (Format.humanBytes n false)
  | _ => none

/-- the text an arm of the key match writes, given the width field of the placeholder; `none` for the two wide keys
(filled in by the rendering walk) and for combinations no arm has -/
def armText (v : Vals) (a : Arm) (width : Option Nat) : Option (List Char) :=
  let sfx (t : List Char) : List Char := if a.perS then t ++ ['/', 's'] else t
  let num (n : Nat) : Option (List Char) := (bytesText a.wrap n).map sfx
  let dur (d : Nat) : Option (List Char) :=
    match a.wrap with
    | .formattedDuration => some (Format.formattedDuration (d / Format.NS))
    | .humanDuration => some (Format.humanDuration d a.alt)
    | _ => none
  match a.src with
  | .pos => num v.pos
  | .len => num (v.len.getD v.pos)
  | .perSecU64 => num (f64AsU64 v.perSecBits)
  | .fraction =>
    (match a.wrap, a.percentDigits with
     | .plain, some d => some (Format.fmtFixed (percentBits v.pos v.len) d)
     | .bar, none => some (barText v (width.getD 20))
     | _, _ => none)
  | .elapsed => dur v.elapsed
  | .eta => dur v.eta
  | .duration => dur v.duration
  | .perSec =>
    (match a.wrap with
     | .humanFloatCount => some (sfx (Format.humanFloatCount v.perSecBits (width.getD 4)))
     | _ => none)
  | .message => some v.msg
  | .prefix => some v.pfx
  | .tick => some v.tick
  | .wideBar | .wideMsg | .unknown => none

def keyCodes (k : List Char) : List Nat := k.map Char.toNat

/-- the text of a key according to a table of arms -/
def keyText (table : List Arm) (v : Vals) (k : List Char) (width : Option Nat) : Option (List Char) :=
  match table.find? (fun a => a.key == keyCodes k) with
  | some a => armText v a width
  | none => none

/-- the rendering environment of a bar: the documented arms give the built-in keys -/
def envOf (table : List Arm) (v : Vals) (W tab : Nat) (cw : Nat → Nat) (custom : List Char → Option (List Pad.G)) : Render.Env :=
  let g (c : Char) : Pad.G := { cp := c.toNat, w := cw c.toNat, b := Render.utf8Len c.toNat }
  { W := W, tab := tab, cw := cw, custom := custom,
    builtin := fun k width => (keyText table v k width).map (·.map g),
    msg := v.msg.map g,
    bar := fun n => (barText v n).map g }

end IndicatifModel.KeyValue
