/-!
# Token bucket (`RateLimiter::allow` in `src/draw_target.rs`, `AtomicPosition::allow` in `src/state.rs`)

Time is `Nat` nanoseconds. `I` is the refill interval in ns, `B` the burst size.
* draw target: `I = (1000 / rate) * 1_000_000`, `B = 20`, `prev` = creation time;
* position updates: `I = 1_000_000`, `B = 10`, times relative to `start`, `prev = 0`.
-/
namespace IndicatifModel.Limiter

/-- repairs: `f6` — a full bucket keeps no remainder (both limiters); `f7` — the draw interval is
`⌈10^9 / rate⌉` ns instead of `⌊1000 / rate⌋` ms -/
structure LFix where
  f6 : Bool := false
  f7 : Bool := false
deriving Repr, DecidableEq

/-- the repairs the repository contains now; the harness runs the model with this value (`FX=current`) -/
def LFix.current : LFix := { f6 := true, f7 := true }

structure Cfg where
  I : Nat
  B : Nat
  f6 : Bool
deriving Repr, DecidableEq

structure St where
  cap : Nat
  prev : Nat
deriving Repr, DecidableEq

/-- one call of `allow(now)`; returns the verdict and the new state -/
def allow (c : Cfg) (s : St) (now : Nat) : Bool × St :=
  if now < s.prev then (false, s) else
  let el := now - s.prev
  if s.cap = 0 ∧ el < c.I then (false, s) else
  if c.f6 = true ∧ c.B ≤ s.cap + el / c.I - 1 then (true, { cap := c.B, prev := now })
  else (true, { cap := min c.B (s.cap + el / c.I - 1), prev := now - el % c.I })

/-- a history of calls at the given times; verdicts in order, final state -/
def run (c : Cfg) (s : St) : List Nat → List Bool × St
  | [] => ([], s)
  | t :: ts =>
    ((allow c s t).1 :: (run c (allow c s t).2 ts).1, (run c (allow c s t).2 ts).2)

def count (bs : List Bool) : Nat := (bs.filter id).length

/-- credit available at time `t`, in nanoseconds -/
def avail (c : Cfg) (s : St) (t : Nat) : Nat := s.cap * c.I + (t - s.prev)

/-- interval used by the draw target for refresh rate `rate` (integer division as in the code) -/
def drawInterval (fx : LFix) (rate : Nat) : Nat :=
  if fx.f7 then (1000000000 + rate - 1) / rate else (1000 / rate) * 1000000

/-- the draw target's limiter for a refresh rate -/
def drawCfg (fx : LFix) (rate : Nat) : Cfg := { I := drawInterval fx rate, B := 20, f6 := fx.f6 }

/-- the position gate of `AtomicPosition` -/
def posCfg (fx : LFix) : Cfg := { I := 1000000, B := 10, f6 := fx.f6 }

end IndicatifModel.Limiter
