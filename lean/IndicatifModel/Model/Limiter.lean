/-!
# Token bucket (`RateLimiter::allow` in `src/draw_target.rs`, `AtomicPosition::allow` in `src/state.rs`)

Time is `Nat` nanoseconds. `I` is the refill interval in ns, `B` the burst size.
* draw target: `I = (1000 / rate) * 1_000_000`, `B = 20`, `prev` = creation time;
* position updates: `I = 1_000_000`, `B = 10`, times relative to `start`, `prev = 0`.
-/
namespace IndicatifModel.Limiter

structure Cfg where
  I : Nat
  B : Nat
deriving Repr, DecidableEq

structure St where
  cap : Nat
  prev : Nat
deriving Repr, DecidableEq

/-- one call of `allow(now)`; returns the verdict and the new state -/
def allow (c : Cfg) (s : St) (now : Nat) : Bool × St :=
  if now < s.prev then (false, s) else
  let el := now - s.prev
  if s.cap = 0 ∧ el < c.I then (false, s) else
  (true, { cap := min c.B (s.cap + el / c.I - 1), prev := now - el % c.I })

/-- a history of calls at the given times; verdicts in order, final state -/
def run (c : Cfg) (s : St) : List Nat → List Bool × St
  | [] => ([], s)
  | t :: ts =>
    ((allow c s t).1 :: (run c (allow c s t).2 ts).1, (run c (allow c s t).2 ts).2)

def count (bs : List Bool) : Nat := (bs.filter id).length

/-- credit available at time `t`, in nanoseconds -/
def avail (c : Cfg) (s : St) (t : Nat) : Nat := s.cap * c.I + (t - s.prev)

/-- interval used by the draw target for refresh rate `rate` (integer division as in the code) -/
def drawInterval (rate : Nat) : Nat := (1000 / rate) * 1000000

end IndicatifModel.Limiter
