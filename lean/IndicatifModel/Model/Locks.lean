/-!
# Lock programs of the public calls (`src/progress_bar.rs`, `src/multi.rs`, `src/state.rs`)

Lock classes: `T` ticker slot (`Mutex<Option<Ticker>>`), `S` bar state (`Mutex<BarState>`),
`M` multi state (`RwLock<MultiState>`), `C` stop flag (`Mutex<bool>` + condvar). `J` is the pseudo
resource "the ticker thread has exited" that `join` waits for. Each public call is a straight-line
program of acquire / release / notify / spawn / join steps, depending on whether the bar is a member
of a `MultiProgress` and whether a steady ticker is installed.
-/
namespace IndicatifModel.Locks

inductive LockClass where
  | T | J | S | M | C
deriving DecidableEq, Repr

def rank : LockClass → Nat
  | .T => 0 | .J => 1 | .S => 2 | .M => 3 | .C => 4

inductive LAct where
  | acq (c : LockClass) | rel (c : LockClass) | racq (c : LockClass) | rrel (c : LockClass)
  | notify | spawn | join
deriving DecidableEq, Repr

inductive Call where
  | tick | inc | setPosition | setMessage | setPrefix | setLength | incLength | unsetLength | println | suspend
  | reset | resetEta | update | finish | finishAndClear | abandon | finishUsingStyle
  | position | length | message | isFinished | isHidden | eta | elapsed | style | setStyle | setTabWidth | forceDraw
  | enableSteadyTick | disableSteadyTick | cloneDrop | dropLast
  | mpPrintln | mpClear | mpSuspend | mpRemove | mpAdd | mpInsertBefore | mpSetAlignment | mpIsHidden
deriving DecidableEq, Repr

open LockClass LAct

/-- a draw through the bar's target: members of a multi take the multi's write lock -/
def drawM (inMulti : Bool) : List LAct := if inMulti then [acq M, rel M] else []

/-- stopping and joining the installed ticker: `stop()`, then `Drop` stops again and joins -/
def stopTicker (ticker : Bool) : List LAct :=
  if ticker then [acq C, rel C, notify, acq C, rel C, notify, join] else []

/-- the `update()` repair is in the repository now; the harness runs the model with this value (`FX=current`) -/
def currentF8 : Bool := true

/-- `f8 = false`: the pinned `update()` (bar state first, then the ticker slot, which stays locked
until the end of the statement); `f8 = true`: the repaired order -/
def program (f8 : Bool) (call : Call) (inMulti ticker : Bool) : List LAct :=
  let withS (body : List LAct) : List LAct := [acq S] ++ body ++ [rel S]
  let tickInner : List LAct := [acq T, rel T] ++ (if ticker then [] else withS (drawM inMulti))
  match call with
  | .tick | .inc | .setPosition => tickInner
  | .setMessage | .setPrefix | .setLength | .incLength | .unsetLength | .reset
  | .finish | .finishAndClear | .abandon | .finishUsingStyle | .setTabWidth | .forceDraw => withS (drawM inMulti)
  | .suspend => withS (drawM inMulti)
  | .println => withS ((if inMulti then [racq M, rrel M] else []) ++ drawM inMulti)
  | .resetEta | .position | .length | .message | .isFinished | .eta | .elapsed | .style | .setStyle => withS []
  | .isHidden => withS (if inMulti then [racq M, rrel M] else [])
  | .update =>
    if f8 then [acq T, rel T] ++ withS (if ticker then [] else drawM inMulti)
    else [acq S, acq T] ++ (if ticker then [] else drawM inMulti) ++ [rel T, rel S]
  | .enableSteadyTick => [acq T] ++ stopTicker ticker ++ [spawn, rel T]
  | .disableSteadyTick => [acq T] ++ stopTicker ticker ++ [rel T]
  | .cloneDrop => []
  | .dropLast => (if inMulti then [acq M, rel M, acq M, rel M] else []) ++ (if ticker then [acq C, rel C, notify, join] else [])
  | .mpPrintln | .mpClear | .mpSuspend | .mpSetAlignment => [acq M, rel M]
  | .mpRemove => [acq S, acq M, rel M, rel S]
  | .mpAdd => [acq M, rel M, acq S, rel S]
  | .mpInsertBefore => [acq S, rel S, acq M, rel M, acq S, rel S]
  | .mpIsHidden => [racq M, rrel M]

/-- the steady-ticker thread: one loop iteration (bar still alive and unfinished) -/
def tickerIteration (inMulti : Bool) : List LAct :=
  [acq S] ++ drawM inMulti ++ [rel S, acq C, rel C]

/-- executable lock-order check: every acquisition (and `join`) happens above everything held -/
def ordered : List LockClass → List LAct → Bool
  | held, [] => held.isEmpty
  | held, .acq c :: p => held.all (fun h => rank h < rank c) && ordered (c :: held) p
  | held, .racq c :: p => held.all (fun h => rank h < rank c) && ordered (c :: held) p
  | held, .rel c :: p => held.contains c && ordered (held.erase c) p
  | held, .rrel c :: p => held.contains c && ordered (held.erase c) p
  | held, .join :: p => held.all (fun h => rank h < rank J) && ordered held p
  | held, .notify :: p => ordered held p
  | held, .spawn :: p => ordered held p

def allCalls : List Call := [.tick, .inc, .setPosition, .setMessage, .setPrefix, .setLength, .incLength, .unsetLength, .println, .suspend,
  .reset, .resetEta, .update, .finish, .finishAndClear, .abandon, .finishUsingStyle, .position, .length, .message, .isFinished, .isHidden,
  .eta, .elapsed, .style, .setStyle, .setTabWidth, .forceDraw, .enableSteadyTick, .disableSteadyTick, .cloneDrop, .dropLast,
  .mpPrintln, .mpClear, .mpSuspend, .mpRemove, .mpAdd, .mpInsertBefore, .mpSetAlignment, .mpIsHidden]

end IndicatifModel.Locks

/-! ## The stop / wake-up protocol of the steady ticker (`Ticker::stop`, `TickerControl::run`)

`stopping: (Mutex<bool>, Condvar)`. The ticker thread, after each tick, locks the flag and calls
`wait_timeout_while(guard, interval, |stopped| !*stopped)`: while the flag is false it waits on the
condvar (atomically releasing the mutex), re-checking the flag under the mutex after every wake-up.
`stop()` sets the flag under the mutex, releases it, and then notifies. The model makes the *timeout
transition optional*, to show that a stop request is never lost even if the interval is infinite. -/
namespace IndicatifModel.StopProtocol

inductive TK where
  | run          -- outside the protocol (ticking the bar), about to lock the flag
  | check        -- holds the mutex, evaluates the condition
  | waiting      -- blocked in the condvar wait, mutex released
  | woken        -- left the wait queue (notified or timed out), must re-acquire the mutex
  | exited
deriving DecidableEq, Repr

inductive ST where
  | idle | locked | unlocked | done
deriving DecidableEq, Repr

inductive Owner where
  | free | ticker | stopper
deriving DecidableEq, Repr

structure PS where
  flag : Bool := false
  tk : TK := .run
  own : Owner := .free
  st : ST := .idle
  /-- how many more times `stop()` will be called after the current one (`disable` + `Drop` call it twice) -/
  again : Nat := 1
deriving DecidableEq, Repr

/-- ticker transitions (`timeout = true` adds the timed-out wake-up) -/
def tickerSteps (timeout : Bool) (s : PS) : List PS :=
  match s.tk with
  | .run => if s.own = .free then [{ s with tk := .check, own := .ticker }] else []
  | .check => if s.flag then [{ s with tk := .exited, own := .free }] else [{ s with tk := .waiting, own := .free }]
  | .waiting => if timeout then [{ s with tk := .woken }] else []     -- a notification moves it to `woken`
  | .woken => if s.own = .free then [{ s with tk := .check, own := .ticker }] else []
  | .exited => []

/-- stopper transitions: lock, set the flag and unlock, notify one waiter -/
def stopperSteps (s : PS) : List PS :=
  match s.st with
  | .idle => if s.own = .free then [{ s with st := .locked, own := .stopper }] else []
  | .locked => [{ s with st := .unlocked, flag := true, own := .free }]
  | .unlocked =>
    let s' := if s.tk = .waiting then { s with tk := .woken } else s
    [if s.again = 0 then { s' with st := .done } else { s' with st := .idle, again := s.again - 1 }]
  | .done => []

def steps (timeout : Bool) (s : PS) : List PS := tickerSteps timeout s ++ stopperSteps s

/-- all states reachable from `frontier` within `fuel` rounds -/
def reach (timeout : Bool) : Nat → List PS → List PS → List PS
  | 0, _, seen => seen
  | fuel + 1, frontier, seen =>
    let next := (frontier.flatMap (steps timeout)).eraseDups.filter (fun s => !seen.contains s)
    if next.isEmpty then seen else reach timeout fuel next (seen ++ next)

def allStates (timeout : Bool) : List PS := reach timeout 40 [{}] [{}]

/-- run the ticker alone for `n` steps (deterministic without timeouts) -/
def tickerAlone : Nat → PS → PS
  | 0, s => s
  | n + 1, s => match tickerSteps false s with
    | s' :: _ => tickerAlone n s'
    | [] => s

end IndicatifModel.StopProtocol
