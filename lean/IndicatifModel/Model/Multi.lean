import IndicatifModel.Model.World
/-!
# `MultiState` (`src/multi.rs`) and bars drawing through it, as the code is

One `MultiProgress` on a terminal-like target; any number of member bars. Every operation returns
the terminal calls it makes.
-/
namespace IndicatifModel

structure Member where
  ds : Option (List Line) := none
  zombie : Bool := false
deriving Repr

inductive InsertLoc where
  | atEnd | index (i : Nat) | fromBack (i : Nat) | after (idx : Nat) | before (idx : Nat)
deriving Repr

structure Multi where
  members : List Member := []
  free : List Nat := []          -- `Vec`: push at the end, pop from the end
  ordering : List Nat := []
  target : TermTarget
  alignment : Alignment := .top
  orphan : List Line := []
  z : Nat := 0
  /-- (repaired code only) members changed or screen cleared since the last painted frame -/
  stale : Bool := false
  /-- `blank_lines_painted` (repair of F36): the blank rows the last painted frame starts with (bottom alignment) -/
  blankPainted : Nat := 0
deriving Repr

namespace Multi

def memberLines (m : Multi) (idx : Nat) : List Line := ((m.members.getD idx ({} : Member)).ds).getD []
def memberRows (m : Multi) (idx : Nat) : Nat := visualLineCount m.target.W (m.memberLines idx)

def insertAt (l : List Nat) (pos : Nat) (x : Nat) : List Nat := l.take pos ++ [x] ++ l.drop pos

/-- `MultiState::insert`; `none` models the `unwrap()` panic on an unknown anchor -/
def insert (m : Multi) (loc : InsertLoc) : Option (Multi × Nat) :=
  let (m, idx) := match m.free.getLast? with
    | some idx => ({ m with members := m.members.set idx ({} : Member), free := m.free.dropLast }, idx)
    | none => ({ m with members := m.members ++ [({} : Member)] }, m.members.length)
  match loc with
  | .atEnd => some ({ m with ordering := m.ordering ++ [idx] }, idx)
  | .index pos => some ({ m with ordering := insertAt m.ordering (min pos m.ordering.length) idx }, idx)
  | .fromBack pos => some ({ m with ordering := insertAt m.ordering (m.ordering.length - pos) idx }, idx)
  | .after a => match m.ordering.idxOf? a with
    | some p => some ({ m with ordering := insertAt m.ordering (p + 1) idx }, idx)
    | none => none
  | .before a => match m.ordering.idxOf? a with
    | some p => some ({ m with ordering := insertAt m.ordering p idx }, idx)
    | none => none

def removeIdx (m : Multi) (idx : Nat) : Multi :=
  if m.free.contains idx then m else
  { m with members := m.members.set idx ({} : Member), free := m.free ++ [idx], ordering := m.ordering.filter (· ≠ idx) }

/-- `MultiState::blank_lines_on_top` (repair of F35): with bottom alignment a frame that has shrunk starts
with blank rows; they are above the first bar and stay on the screen with it when it is reaped -/
def blankOnTop (m : Multi) : Nat :=
  if m.target.fx.fbottom ∧ m.alignment = .bottom then m.target.llc - (m.ordering.map m.memberRows).sum else 0

def markZombie (m : Multi) (idx : Nat) : Multi :=
  if m.ordering.head? ≠ some idx ∨ (m.target.fx.fstale ∧ m.stale) then
    { m with members := m.members.modify idx (fun mem => { mem with zombie := true }) }
  else
    -- the blank rows above the first bar: those of the frame on the screen (F36); before that repair they were derived from
    -- the members' stored lines, which a draw skipped by the limiter changes without touching the screen
    let lc := m.memberRows idx + (if m.target.fx.fblank then m.blankPainted else m.blankOnTop)
    let kept := if m.target.fx.fkept then min m.target.llc lc else lc
    ({ m with z := m.z + kept, target := { m.target with llc := m.target.llc - lc },
              blankPainted := if m.target.fx.fblank then 0 else m.blankPainted }).removeIdx idx

/-- `MultiState::draw(force, extra_lines, now)` of the pinned commit -/
def drawOrig (m : Multi) (force : Bool) (extra : Option (List Line)) (now : Nat) : Multi × List TOp :=
  let reap := m.ordering.takeWhile (fun i => (m.members.getD i ({} : Member)).zombie)
  let adjust := (reap.map m.memberRows).sum
  let m := { m with z := m.z + adjust }
  let m := if extra.isSome then { m with target := { m.target with llc := m.target.llc + m.z }, z := 0 } else m
  let force := force || decide (visualLineCount m.target.W m.orphan > 0)
  let (go, tt) := m.target.drawable force now
  let m := { m with target := tt }
  if !go then (m, []) else
  let lines := extra.getD [] ++ m.orphan ++ m.ordering.flatMap m.memberLines
  let ds : DrawState := { m.target.ds with lines := lines, alignment := m.alignment }
  let (ops, llc) := drawToTerm m.target.fx ds m.target.W m.target.H m.target.llc
  let m := { m with target := { m.target with ds := ds.after m.target.fx m.target.W m.target.H m.target.llc, llc := llc }, orphan := [] }
  let m := reap.foldl removeIdx m
  let m := if extra.isNone then { m with target := { m.target with llc := m.target.llc - adjust } } else m
  (m, ops)

/-- `MultiState::draw` with the repair for F1–F3 (and the `frame_stale` reset of F26/F27) -/
def drawFixed (m : Multi) (force : Bool) (extra : Option (List Line)) (now : Nat) : Multi × List TOp :=
  let orphanRows := visualLineCount m.target.W m.orphan
  let hasText := extra.isSome || decide (orphanRows > 0)
  let reap := if hasText then [] else m.ordering.takeWhile (fun i => (m.members.getD i ({} : Member)).zombie)
  let adjust := (reap.map m.memberRows).sum
  let force := force || decide (orphanRows > 0)
  let (go, tt) := m.target.drawable force now
  let m := { m with target := tt }
  if !go then (m, []) else
  let m := if hasText then { m with target := { m.target with llc := m.target.llc + m.z }, z := 0 } else m
  let lines := extra.getD [] ++ m.orphan ++ m.ordering.flatMap m.memberLines
  let ds : DrawState := { m.target.ds with lines := lines, alignment := m.alignment }
  let (ops, llc) := drawToTerm m.target.fx ds m.target.W m.target.H m.target.llc
  let m := { m with target := { m.target with ds := ds.after m.target.fx m.target.W m.target.H m.target.llc, llc := llc }, orphan := [] }
  let adjust := adjust + (if reap = [] then 0 else m.blankOnTop)
  let m := reap.foldl removeIdx m
  let kept := if m.target.fx.fkept then min m.target.llc adjust else adjust
  let m := if !hasText then { m with z := m.z + kept, target := { m.target with llc := m.target.llc - adjust } } else m
  ({ m with stale := false, blankPainted := if m.target.fx.fblank then m.blankOnTop else m.blankPainted }, ops)

def draw (m : Multi) (force : Bool) (extra : Option (List Line)) (now : Nat) : Multi × List TOp :=
  if m.target.fx.fzomb then m.drawFixed force extra now else m.drawOrig force extra now

def println (m : Multi) (t : Text) (now : Nat) : Multi × List TOp :=
  let lines := if t = [] then [{ kind := .empty, gs := [] }] else (splitLines t).map (fun l => { kind := .text, gs := l })
  m.draw true (some lines) now

def clear (m : Multi) : Multi × List TOp :=
  let tt := { m.target with llc := m.target.llc + m.z }
  let ds := { tt.ds with lines := [], alignment := if tt.fx.f22 then .top else tt.ds.alignment }
  let (ops, llc) := drawToTerm tt.fx ds tt.W tt.H tt.llc
  ({ m with z := 0, stale := true, target := { tt with ds := ds.after tt.fx tt.W tt.H tt.llc, llc := llc } }, ops)

/-- `MultiProgress::set_draw_target` with a new terminal target of the same geometry and rate: nothing
is painted or erased (`disconnect` does nothing for a terminal target); the new target starts with an
empty frame and a fresh limiter. The repaired code also forgets the zombie rows, which are on the old
target's screen, and marks the frame stale. -/
def retarget (m : Multi) (now : Nat) : Multi :=
  let tt : TermTarget := { m.target with llc := 0, ds := {}, limiter := m.target.limiter.map (fun p => (p.1, ({ cap := 20, prev := now } : Limiter.St))) }
  if m.target.fx.fretarget then { m with target := tt, z := 0, stale := true } else { m with target := tt }

def suspend (m : Multi) (out : List Text) (now : Nat) : Multi × List TOp :=
  let (m, ops1) := m.clear
  let (m, ops2) := m.draw true none now
  (m, ops1 ++ out.map TOp.writeLine ++ ops2)

end Multi

/-- a bar that may be a member of the multi (`slot`) or detached / hidden (`none`) -/
structure MBar where
  b : Bar
  slot : Option Nat := none
  alive : Bool := true
deriving Repr

structure MWorld where
  multi : Multi
  bars : List MBar := []
  term : Term
  now : Nat
  snaps : List Snap := []
  calls : Nat := 0
  panicked : Bool := false

inductive MOp where
  | adv (dt : Nat)
  | add (loc : Nat) (arg : Nat) (len : Option Nat) (tpl : Nat) (fin : Finish) (pfx : Text)
      -- loc: 0 end, 1 index arg, 2 fromBack arg, 3 before bar arg, 4 after bar arg
  | remove (k : Nat)
  | mpPrintln (t : Text) | mpClear | mpSuspend (out : List Text) | align (bottom : Bool)
  | retarget
  | bar (k : Nat) (op : BarOp)
deriving Repr

namespace MWorld

/-- store the bar's rendering in its member slot (the `DrawStateWrapper` round trip) and draw the multi -/
def barDraw (w : MWorld) (k : Nat) (force : Bool) (textLines : List Line) : MWorld × List TOp :=
  match w.bars[k]? with
  | none => (w, [])
  | some mb =>
    match mb.slot with
    | none => (w, [])
    | some idx =>
      let force := force || mb.b.finished
      let barLines := if mb.b.status = .doneHidden then [] else formatState mb.b
      let m := { w.multi with members := w.multi.members.modify idx (fun mem => { mem with ds := some barLines }),
                              orphan := w.multi.orphan ++ textLines }
      let (m, ops) := m.draw force none w.now
      ({ w with multi := m }, ops)

def setBar (w : MWorld) (k : Nat) (b : Bar) : MWorld :=
  { w with bars := w.bars.modify k (fun mb => { mb with b := b }) }

/-- the bar-level state change of an operation, without drawing (drawing goes through the multi) -/
def barStep (w : MWorld) (k : Nat) (op : BarOp) : MWorld × List TOp :=
  match w.bars[k]? with
  | none => (w, [])
  | some mb =>
    if !mb.alive then (w, []) else
    let b := mb.b
    let tickInner (w : MWorld) (b : Bar) : MWorld × List TOp :=
      (w.setBar k { b with tick := if b.tick + 1 < U64 then b.tick + 1 else b.tick }).barDraw k false []
    let afterPos (w : MWorld) (b : Bar) : MWorld × List TOp :=
      let (ok, b) := b.posAllow w.now
      if ok then tickInner w b else (w.setBar k b, [])
    let finishWith (w : MWorld) (b : Bar) (f : Finish) : MWorld × List TOp :=
      let b := { b with status := .doneVisible }
      let toLen (b : Bar) : Bar := match b.len with | some l => { b with pos := l } | none => b
      let b := match f with
        | .andLeave => toLen b
        | .withMessage m => { toLen b with msg := m }
        | .andClear => { toLen b with status := .doneHidden }
        | .abandon => b
        | .abandonWithMessage m => { b with msg := m }
      (w.setBar k b).barDraw k true []
    match op with
    | .adv _ => (w, [])
    | .tick => tickInner w b
    | .inc d => afterPos w { b with pos := (b.pos + d) % U64 }
    | .dec d => afterPos w { b with pos := (b.pos + U64 - d % U64) % U64 }
    | .setPos p => afterPos w { b with pos := p }
    | .setMsg t => (w.setBar k { b with msg := t }).barDraw k false []
    | .setPrefix t => (w.setBar k { b with pfx := t }).barDraw k false []
    | .setLen l => (w.setBar k { b with len := some l }).barDraw k false []
    | .unsetLen => (w.setBar k { b with len := none }).barDraw k false []
    | .println t => if mb.slot.isNone then (w, []) else w.barDraw k true (toLines t)
    | .suspend out =>
      if mb.slot.isNone then (w, out.map TOp.writeLine) else
      let (m, ops) := w.multi.suspend out w.now
      ({ w with multi := m }, ops)
    | .reset =>
      (w.setBar k { b with pos := 0, posLim := { b.posLim with prev := w.now - b.start }, status := .inProgress }).barDraw k false []
    | .finish f => finishWith w b f
    | .finishUsingStyle => finishWith w b b.onFinish
    | .drop =>
      let (w, ops) := if b.finished then (w, []) else finishWith w b b.onFinish
      let w := match mb.slot with
        | some idx => { w with multi := w.multi.markZombie idx }
        | none => w
      ({ w with bars := w.bars.modify k (fun mb => { mb with alive := false }) }, ops)

def slotOf (w : MWorld) (k : Nat) : Option Nat := (w.bars[k]?).bind (·.slot)

def step (w : MWorld) (op : MOp) : MWorld :=
  if w.panicked then w else
  let (w, ops) : MWorld × List TOp := match op with
    | .adv dt => ({ w with now := w.now + dt }, [])
    | .add loc arg len tpl fin pfx =>
      let iloc : Option InsertLoc := match loc with
        | 0 => some .atEnd | 1 => some (.index arg) | 2 => some (.fromBack arg)
        | 3 => (w.slotOf arg).map .before | _ => (w.slotOf arg).map .after
      match iloc.bind w.multi.insert with
      | none => ({ w with panicked := true }, [])
      | some (m, idx) =>
        let b : Bar := { len := len, tpl := templates.getD tpl [], onFinish := fin, pfx := pfx, start := w.now }
        ({ w with multi := m, bars := w.bars ++ [{ b := b, slot := some idx }] }, [])
    | .remove k =>
      match w.slotOf k with
      | none => (w, [])
      | some idx =>
        let m := { w.multi.removeIdx idx with stale := true }
        let (m, ops) := if m.target.fx.f31 then m.draw true none w.now else (m, [])
        ({ w with multi := m, bars := w.bars.modify k (fun mb => { mb with slot := none }) }, ops)
    | .mpPrintln t => let (m, ops) := w.multi.println t w.now; ({ w with multi := m }, ops)
    | .mpClear => let (m, ops) := w.multi.clear; ({ w with multi := m }, ops)
    | .mpSuspend out => let (m, ops) := w.multi.suspend out w.now; ({ w with multi := m }, ops)
    | .align bottom => ({ w with multi := { w.multi with alignment := if bottom then .bottom else .top } }, [])
    | .retarget => ({ w with multi := w.multi.retarget w.now }, [])
    | .bar k op => w.barStep k op
  let (t, ss) := execSnap w.term ops
  { w with term := t, snaps := w.snaps ++ ss, calls := w.calls + ops.length }

def run (w : MWorld) (ops : List MOp) : MWorld := ops.foldl step w

end MWorld
end IndicatifModel
