import IndicatifModel.Model.Basic
/-!
# `PaddedStringDisplay` (`src/style.rs`): pad or truncate a field to a width

Content is a list of glyphs with display width `w` and UTF-8 length `b` (bytes); the code computes
the excess in *columns* but slices the string by *byte* offsets (`str.get(start..end)` fails off a
character boundary and the code then falls back to the whole string).
-/
namespace IndicatifModel.Pad

structure G where
  cp : Nat
  w : Nat
  b : Nat
deriving Repr, DecidableEq

inductive Align where
  | left | center | right
deriving Repr, DecidableEq

def cols (s : List G) : Nat := (s.map (·.w)).sum
def bytes (s : List G) : Nat := (s.map (·.b)).sum

/-- `str.get(start..end)` on byte offsets: `none` unless both are character boundaries and `start ≤ end ≤ len` -/
def byteSlice (s : List G) (start stop : Nat) : Option (List G) :=
  let rec go (off : Nat) (acc : List G) : List G → Option (List G)
    | [] => if off = stop ∧ (start ≤ off) then (if start = off ∧ acc = [] then some [] else some acc.reverse) else none
    | g :: gs =>
      if off = stop then (if start ≤ off then some acc.reverse else none)
      else if off < start then (if off + g.b ≤ start then go (off + g.b) acc gs else none)
      else -- off ≥ start
        (if off + g.b ≤ stop then go (off + g.b) (g :: acc) gs else none)
  if start > stop ∨ stop > bytes s then none else go 0 [] s

def spaces (n : Nat) : List G := List.replicate n { cp := 32, w := 1, b := 1 }

/-- `PaddedStringDisplay::fmt` -/
def pad (s : List G) (width : Nat) (align : Align) (truncate : Bool) : List G :=
  let c := cols s
  let excess := c - width
  if excess > 0 ∧ ¬ truncate then s
  else if excess > 0 then
    let len := bytes s
    let (start, stop) := match align with
      | .left => (0, len - excess)
      | .right => (excess, len)
      | .center => (excess / 2, len - (excess - excess / 2))
    (byteSlice s start stop).getD s
  else
    let diff := width - c
    let (l, r) := match align with
      | .left => (0, diff)
      | .right => (diff, 0)
      | .center => (diff / 2, diff - diff / 2)
    spaces l ++ s ++ spaces r

end IndicatifModel.Pad
