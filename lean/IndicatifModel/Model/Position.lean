/-!
# Position and length bookkeeping (`AtomicPosition`, `ProgressState.len`, `BarState` length ops)

`u64` values are `Nat` below `2^64`; position arithmetic wraps (atomic `fetch_add`/`fetch_sub`),
length arithmetic saturates.
-/
namespace IndicatifModel.Position

def U64 : Nat := 2 ^ 64

inductive Op where
  | inc (d : Nat) | dec (d : Nat) | setPos (p : Nat) | reset
  | setLen (l : Nat) | incLen (d : Nat) | decLen (d : Nat) | unsetLen
  | finish          -- finish / finish_with_message / finish_and_clear: position := length if set
  | abandon         -- abandon / abandon_with_message: position unchanged
  | resetElapsed    -- reset_elapsed: position, length and status unchanged
  | resetEta        -- reset_eta: position, length and status unchanged
  | finishStyle     -- finish_using_style: the behaviour configured with `with_finish`
deriving Repr, DecidableEq

structure St where
  pos : Nat := 0
  len : Option Nat := none
  finished : Bool := false
  /-- the configured `ProgressFinish` moves the position to the length (`AndLeave`, `WithMessage`,
  `AndClear`) or keeps it (`Abandon`, `AbandonWithMessage`); it is never changed by any operation -/
  moves : Bool := true
deriving Repr, DecidableEq

def wrapAdd (a b : Nat) : Nat := (a + b) % U64
def wrapSub (a b : Nat) : Nat := (a + U64 - b % U64) % U64
def satAdd (a b : Nat) : Nat := min (a + b) (U64 - 1)
def satSub (a b : Nat) : Nat := a - b

def step (s : St) : Op → St
  | .inc d => { s with pos := wrapAdd s.pos d }
  | .dec d => { s with pos := wrapSub s.pos d }
  | .setPos p => { s with pos := p }
  | .reset => { s with pos := 0, finished := false }
  | .setLen l => { s with len := some l }
  | .incLen d => { s with len := s.len.map (satAdd · d) }
  | .decLen d => { s with len := s.len.map (satSub · d) }
  | .unsetLen => { s with len := none }
  | .finish => { s with pos := s.len.getD s.pos, finished := true }
  | .abandon => { s with finished := true }
  | .resetElapsed => s
  | .resetEta => s
  | .finishStyle => if s.moves then { s with pos := s.len.getD s.pos, finished := true } else { s with finished := true }

def run (s : St) (ops : List Op) : St := ops.foldl step s

/-- the position deltas of a list of `inc`/`dec` calls, as integers mod 2^64 -/
def delta : Op → Nat
  | .inc d => d % U64
  | .dec d => (U64 - d % U64) % U64
  | _ => 0

def isIncDec : Op → Bool
  | .inc _ | .dec _ => true
  | _ => false

end IndicatifModel.Position
