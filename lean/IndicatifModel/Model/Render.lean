import IndicatifModel.Model.Template
import IndicatifModel.Model.Pad
/-!
# `ProgressStyle::format_state`, `push_line` and `WideElement::expand` (`src/style.rs`)

From the parsed template (`Template.Part`) and what the bar holds to the lines handed to the draw target.
Text is a list of glyphs (`Pad.G`: code point, display columns, UTF-8 bytes); the walk over the parts, the
field padding, the NUL marker of the wide element and its replacement, the trimming of a wide message at the
end of its line and the split at line breaks are transcribed as the code has them.

Not modelled: colours (`Style::apply_to`; the correspondence runs with colours off, where it is the identity) —
the `style`/`alt_style` fields of a placeholder are therefore ignored.
-/
namespace IndicatifModel.Render
open Template (Part)
open Pad (G cols pad spaces)

def utf8Len (cp : Nat) : Nat := if cp < 128 then 1 else if cp < 2048 then 2 else if cp < 65536 then 3 else 4

/-- what `format_state` reads -/
structure Env where
  /-- `target_width` -/
  W : Nat
  /-- tab width of the style's literals -/
  tab : Nat := 8
  /-- display columns of a code point (`console::measure_text_width`, for texts whose width is the sum) -/
  cw : Nat → Nat
  /-- `format_map`: output of a `with_key` tracker, after `TabRewriter` -/
  custom : List Char → Option (List G)
  /-- the arms of the key match other than the two wide ones, given the width field (`bar`, `per_sec` read it);
  `none`: the `_ => ()` arm -/
  builtin : List Char → Option Nat → Option (List G)
  /-- `state.message.expanded()` -/
  msg : List G
  /-- `format_bar(state.fraction(), width, _)` -/
  bar : Nat → List G

def glyph (env : Env) (c : Char) : G := { cp := c.toNat, w := env.cw c.toNat, b := utf8Len c.toNat }

/-- `TabExpandedString::expanded` of a literal -/
def litText (env : Env) (s : List Char) : List G :=
  s.flatMap (fun c => if c = '\t' then spaces env.tab else [glyph env c])

def toPad : Template.Align → Pad.Align
  | .left => .left | .center => .center | .right => .right

inductive Wide where
  | bar
  | msg (a : Pad.Align)
deriving Repr, DecidableEq

/-- the marker `'\x00'`; in a string `unicode-width` 0.2 counts every character up to U+00A0, control characters
included, as one column, so a padded field holding only the marker has one column less padding than its width -/
def nul : G := { cp := 0, w := 1, b := 1 }
def isNul (g : G) : Bool := g.cp == 0

def wideBarKey : List Char := ['w', 'i', 'd', 'e', '_', 'b', 'a', 'r']
def wideMsgKey : List Char := ['w', 'i', 'd', 'e', '_', 'm', 's', 'g']

/-- what a placeholder writes into `buf`, and the wide element it declares -/
def fieldText (env : Env) (key : List Char) (a : Pad.Align) (width : Option Nat) : List G × Option Wide :=
  match env.custom key with
  | some t => (t, none)
  | none =>
    if key = wideBarKey then ([nul], some .bar)
    else if key = wideMsgKey then ([nul], some (.msg a))
    else ((env.builtin key width).getD [], none)

structure Acc where
  cur : List G := []
  wide : Option Wide := none
  lines : List (List G) := []
deriving Repr

/-- `str::replace('\x00', by)` -/
def replaceNul (cur by_ : List G) : List G := cur.flatMap (fun g => if isNul g then by_ else [g])

/-- code points with the Unicode property White_Space (`str::trim_end`) -/
def wsCp (cp : Nat) : Bool :=
  (9 ≤ cp && cp ≤ 13) || cp == 32 || cp == 0x85 || cp == 0xA0 || cp == 0x1680 || (0x2000 ≤ cp && cp ≤ 0x200A)
    || cp == 0x2028 || cp == 0x2029 || cp == 0x202F || cp == 0x205F || cp == 0x3000
def trimEnd (s : List G) : List G := (s.reverse.dropWhile (fun g => wsCp g.cp)).reverse

/-- `WideElement::expand` -/
def expandWide (env : Env) (w : Wide) (cur : List G) : List G :=
  let left := env.W - cols (cur.filter (fun g => !isNul g))
  match w with
  | .bar => replaceNul cur (env.bar left)
  | .msg a =>
    let buf := pad env.msg left a true
    let trimmed := if cur.getLast?.map isNul = some true then trimEnd buf else buf
    replaceNul cur trimmed

/-- `str::split('\n')`: always at least one piece -/
def splitNl (t : List G) : List (List G) :=
  let rec go (cur : List G) (acc : List (List G)) : List G → List (List G)
    | [] => (cur.reverse :: acc).reverse
    | g :: gs => if g.cp = 10 then go [] (cur.reverse :: acc) gs else go (g :: cur) acc gs
  go [] [] t

/-- `push_line` -/
def pushLine (env : Env) (acc : Acc) : Acc :=
  let expanded := match acc.wide with
    | some w => expandWide env w acc.cur
    | none => acc.cur
  { acc with cur := [], lines := acc.lines ++ splitNl expanded }

/-- one iteration of the loop over `self.template.parts` -/
def stepPart (env : Env) (acc : Acc) : Part → Acc
  | .lit s => { acc with cur := acc.cur ++ litText env s }
  | .newline => pushLine env acc
  | .ph key a width trunc _ _ =>
    let ft := fieldText env key (toPad a) width
    let wide := match ft.2 with
      | some x => some x
      | none => acc.wide
    let out := match width with
      | some n => pad ft.1 n (toPad a) trunc
      | none => ft.1
    { acc with cur := acc.cur ++ out, wide := wide }

/-- `format_state`: the lines of one bar -/
def formatState (env : Env) (parts : List Part) : List (List G) :=
  let acc := parts.foldl (stepPart env) {}
  if acc.cur ≠ [] then (pushLine env acc).lines else acc.lines

end IndicatifModel.Render
