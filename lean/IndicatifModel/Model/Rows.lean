import IndicatifModel.Model.Multi
/-!
# Row-level model of a `MultiProgress` (Layer 1 of DESIGN.md section 3)

The same operations as `Model/Multi.lean`, but the terminal is abstracted to what `draw_to_term` is
*meant* to do when no line wraps and the frame fits the terminal (top alignment): erase the last
`n` rows, append the text lines, append the bar lines. The screen is a ghost list of rows; `log` is
the ghost list of everything printed so far; `painted` remembers, per bar, which rows of the last
painted frame are its own. All of `MultiState`'s bookkeeping — `last_line_count` (`n`),
`zombie_lines_count` (`z`), `Keep` / `Clear`, orphan lines, reaping, `frame_stale`, the refresh
limiter — is as in the code with all repairs (`Fixes.current`).

This model is executable: the driver runs it on the non-wrapping `ROWS` stream and its screens are
compared with the real terminal at every painted frame.
-/
namespace IndicatifModel.Rows

abbrev Row := Text

/-- the rows a terminal of `W` columns shows for one line: a glyph that does not fit the rest of the row starts the next one
(zero-width glyphs stay where they are; a double-width glyph moves to the next row as a whole); `W = 0`: no wrapping -/
def wrapText (W : Nat) (t : Text) : List Row :=
  if W = 0 then [t] else
  let r := t.foldl (fun (acc : List Row × Row × Nat) g =>
    if g.w > 0 ∧ acc.2.2 + g.w > W then (acc.1 ++ [acc.2.1], [g], g.w) else (acc.1, acc.2.1 ++ [g], acc.2.2 + g.w)) ([], [], 0)
  r.1 ++ [r.2.1]

def wrapRows (W : Nat) (rows : List Row) : List Row := rows.flatMap (wrapText W)

structure RBar where
  b : Bar
  lines : List Row := []      -- the member's stored rendering
  painted : List Row := []    -- ghost: this bar's rows in the last painted frame
  zombie : Bool := false
  member : Bool := true       -- attached to the multi (not removed)
  alive : Bool := true        -- the last handle has not been dropped
deriving Repr

structure RW where
  bars : List RBar := []
  ordering : List Nat := []   -- bar numbers in visual order (reaped bars are gone, flagged zombies still there)
  orphan : List Row := []
  z : Nat := 0
  n : Nat := 0
  stale : Bool := false
  scr : List Row := []        -- ghost: the rows on the terminal above the cursor row, plus the cursor row unless it is blank
  /-- the cursor sits in column 0 of a blank row below `scr` (fresh terminal, after a draw that erased rows and
  painted nothing, after output that ended with a newline): an erase of `k ≥ 1` rows then removes only `k - 1`
  rows of `scr`, because the blank cursor row is the first of the `k` -/
  blank : Bool := true
  log : List Row := []        -- ghost: every line printed so far, in order
  limiter : Option (Limiter.Cfg × Limiter.St) := none
  now : Nat := 0
  frames : List (List Row) := []   -- observation: the screen after every painted draw
  panicked : Bool := false
  /-- width of the terminal (lines wrap at it); 0 = wide enough that nothing wraps -/
  wrapW : Nat := 0
deriving Repr

def RW.barAt (w : RW) (k : Nat) : RBar := w.bars.getD k { b := {} }
def linesOf (w : RW) (ks : List Nat) : List Row := ks.flatMap (fun k => (w.barAt k).lines)
def paintedOf (w : RW) (ks : List Nat) : List Row := ks.flatMap (fun k => (w.barAt k).painted)

/-- `drawable(force, now)` of the multi's own target -/
def allow (w : RW) (force : Bool) : Bool × RW :=
  if force then (true, w) else
  match w.limiter with
  | none => (true, w)
  | some (c, s) => let r := Limiter.allow c s w.now; (r.1, { w with limiter := some (c, r.2) })

/-- the part of `MultiState::draw` after the refresh limiter has let the draw through -/
def paint (w : RW) (extra : List Row) : RW :=
  let hasText := decide (extra ≠ []) || decide (w.orphan ≠ [])
  let zs := if hasText then [] else w.ordering.takeWhile (fun k => (w.barAt k).zombie)
  let n1 := if hasText then w.n + w.z else w.n
  let z1 := if hasText then 0 else w.z
  let text := extra ++ w.orphan
  let bars := linesOf w w.ordering
  let adjust := (linesOf w zs).length
  let k := if w.blank && decide (1 ≤ n1) then n1 - 1 else n1
  let scr := w.scr.take (w.scr.length - k) ++ text ++ bars
  { w with
    scr := scr
    blank := decide (text ++ bars = []) && (decide (1 ≤ n1) || w.blank)
    log := w.log ++ text
    bars := w.bars.map (fun rb => { rb with painted := rb.lines })
    ordering := w.ordering.drop zs.length
    orphan := []
    n := bars.length - adjust
    z := z1 + adjust
    stale := false
    frames := w.frames ++ [scr] }

/-- `MultiState::draw(force, extra_lines, now)` at the level of rows -/
def draw (w : RW) (force : Bool) (extra : List Row) : RW :=
  let r := allow w (force || decide (w.orphan ≠ []))
  if !r.1 then r.2 else paint r.2 extra

/-- `MultiState::clear` -/
def clear (w : RW) : RW :=
  let n1 := w.n + w.z
  let k := if w.blank && decide (1 ≤ n1) then n1 - 1 else n1
  let scr := w.scr.take (w.scr.length - k)
  { w with scr := scr, blank := decide (1 ≤ n1) || w.blank, n := 0, z := 0, stale := true, frames := w.frames ++ [scr] }

/-- `MultiState::suspend`: clear, the closure's output, forced redraw -/
def suspend (w : RW) (out : List Row) : RW :=
  let w := clear w
  draw { w with scr := w.scr ++ out, log := w.log ++ out, blank := decide (out ≠ []) || w.blank } true []

/-- `MultiState::mark_zombie` for bar `k` -/
def markZombie (w : RW) (k : Nat) : RW :=
  if w.ordering.head? ≠ some k ∨ w.stale then
    { w with bars := w.bars.modify k (fun rb => { rb with zombie := true }) }
  else
    let lc := (w.barAt k).lines.length
    { w with z := w.z + min w.n lc, n := w.n - lc, ordering := w.ordering.tail }

def setBar (w : RW) (k : Nat) (b : Bar) : RW := { w with bars := w.bars.modify k (fun rb => { rb with b := b }) }

/-- what a bar renders: nothing once it is finished-and-cleared -/
def barRows (rb : RBar) : List Row :=
  if rb.b.status = .doneHidden then [] else wrapRows rb.b.wrapW ((formatState rb.b).map (·.gs))

/-- the `DrawStateWrapper` round trip: the member's stored lines are replaced, its text lines are queued -/
def store (w : RW) (k : Nat) (rows : List Row) (text : List Row) : RW :=
  { w with bars := w.bars.modify k (fun rb => { rb with lines := rows }), orphan := w.orphan ++ text }

/-- a draw request of bar `k`: store its rendering in its slot, queue its text lines, draw the multi -/
def barDraw (w : RW) (k : Nat) (force : Bool) (textLines : List Row) : RW :=
  if !(w.barAt k).member then w else
  draw (store w k (barRows (w.barAt k)) textLines) (force || (w.barAt k).b.finished) []

/-- the logical state after `finish_using_style(f)`: finished; position at the length for the finishing
variants, unchanged for the abandoning ones; the message if one is given; hidden for the clearing one -/
def finalBar (b : Bar) (f : Finish) : Bar :=
  let b := { b with status := .doneVisible }
  let toLen (b : Bar) : Bar := match b.len with | some l => { b with pos := l } | none => b
  match f with
  | .andLeave => toLen b
  | .withMessage m => { toLen b with msg := m }
  | .andClear => { toLen b with status := .doneHidden }
  | .abandon => b
  | .abandonWithMessage m => { b with msg := m }

def finishWith (w : RW) (k : Nat) (b : Bar) (f : Finish) : RW := barDraw (setBar w k (finalBar b f)) k true []

/-- dropping the last handle: an unfinished bar is finished by its configured behaviour (forced draw) -/
def finishIfNot (w : RW) (k : Nat) : RW :=
  if (w.barAt k).b.finished then w else finishWith w k (w.barAt k).b (w.barAt k).b.onFinish

/-- `Drop for BarState`: finish if need be, tell the multi (`mark_zombie`), the handle is gone -/
def dropBar (w : RW) (k : Nat) : RW :=
  let w1 := finishIfNot w k
  let w2 := if (w.barAt k).member then markZombie w1 k else w1
  { w2 with bars := w2.bars.modify k (fun rb => { rb with alive := false }) }

def textRows (t : Text) : List Row := let ls := splitLines t; if ls = [] then [[]] else ls

/-- the rows of a printed text on a terminal of `W` columns -/
def textRowsW (W : Nat) (t : Text) : List Row := wrapRows W (textRows t)

def barStep (w : RW) (k : Nat) (op : BarOp) : RW :=
  if k ≥ w.bars.length then w else
  let rb := w.barAt k
  if !rb.alive then w else
  let b := rb.b
  let tickInner (w : RW) (b : Bar) : RW :=
    barDraw (setBar w k { b with tick := if b.tick + 1 < U64 then b.tick + 1 else b.tick }) k false []
  let afterPos (w : RW) (b : Bar) : RW :=
    let (ok, b) := b.posAllow w.now
    if ok then tickInner w b else setBar w k b
  match op with
  | .adv _ => w
  | .tick => tickInner w b
  | .inc d => afterPos w { b with pos := (b.pos + d) % U64 }
  | .dec d => afterPos w { b with pos := (b.pos + U64 - d % U64) % U64 }
  | .setPos p => afterPos w { b with pos := p }
  | .setMsg t => barDraw (setBar w k { b with msg := t }) k false []
  | .setPrefix t => barDraw (setBar w k { b with pfx := t }) k false []
  | .setLen l => barDraw (setBar w k { b with len := some l }) k false []
  | .unsetLen => barDraw (setBar w k { b with len := none }) k false []
  | .println t => if !rb.member then w else barDraw w k true (textRowsW w.wrapW t)
  | .suspend out =>
    let out := wrapRows w.wrapW out
    if !rb.member then { w with scr := w.scr ++ out, log := w.log ++ out, blank := decide (out ≠ []) || w.blank } else suspend w out
  | .reset =>
    barDraw (setBar w k { b with pos := 0, posLim := { b.posLim with prev := w.now - b.start }, status := .inProgress }) k false []
  | .finish f => finishWith w k b f
  | .finishUsingStyle => finishWith w k b b.onFinish
  | .drop => dropBar w k

def insertAt (l : List Nat) (pos : Nat) (x : Nat) : List Nat := l.take pos ++ [x] ++ l.drop pos

def step (w : RW) (op : MOp) : RW :=
  if w.panicked then w else
  match op with
  | .adv dt => { w with now := w.now + dt }
  | .add loc arg len tpl fin pfx =>
    let k := w.bars.length
    let pos : Option Nat := match loc with
      | 0 => some w.ordering.length
      | 1 => some (min arg w.ordering.length)
      | 2 => some (w.ordering.length - arg)
      | 3 => if (w.barAt arg).member && arg < k then w.ordering.idxOf? arg else none
      | _ => if (w.barAt arg).member && arg < k then (w.ordering.idxOf? arg).map (· + 1) else none
    match pos with
    | none => { w with panicked := true }
    | some p =>
      let b : Bar := { len := len, tpl := templates.getD tpl [], onFinish := fin, pfx := pfx, start := w.now, wrapW := w.wrapW }
      { w with bars := w.bars ++ [{ b := b }], ordering := insertAt w.ordering p k }
  | .remove k =>
    if k ≥ w.bars.length ∨ !(w.barAt k).member then w else
    let w := { w with bars := w.bars.modify k (fun rb => { rb with member := false }),
                      ordering := w.ordering.filter (· ≠ k), stale := true }
    draw w true []
  | .mpPrintln t => draw w true (textRowsW w.wrapW t)
  | .mpClear => clear w
  | .mpSuspend out => suspend w (wrapRows w.wrapW out)
  | .align _ => w      -- bottom alignment is outside this abstraction (the ROWS stream never uses it)
  | .retarget =>       -- a new target: nothing on the screen is managed any more
    { w with n := 0, z := 0, stale := true, limiter := w.limiter.map (fun p => (p.1, ({ cap := 20, prev := w.now } : Limiter.St))) }
  | .bar k op => barStep w k op

def run (w : RW) (ops : List MOp) : RW := ops.foldl step w

end IndicatifModel.Rows
