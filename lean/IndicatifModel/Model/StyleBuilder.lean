/-!
# `ProgressStyle` builder assertions and the indexing done at draw time (`src/style.rs`)

Only what can panic is modelled: the number of tick strings, the progress-character clusters with
their display widths, `char_width`.
-/
namespace IndicatifModel.StyleBuilder

structure SFix where
  f12 : Bool := false   -- `tick_strings` asserts on the tick strings (pinned code: on the progress chars)
  f13 : Bool := false   -- zero-width progress characters are rejected when the style is built
deriving Repr, DecidableEq

/-- the repairs the repository contains now; the harness runs the model with this value (`FX=current`) -/
def SFix.current : SFix := { f12 := true, f13 := true }

structure Style where
  tickN : Nat := 30          -- default spinner: 30 tick strings
  progWidths : List Nat := [1, 1]
  charWidth : Nat := 1
deriving Repr, DecidableEq

inductive BuildOp where
  | tickChars (n : Nat) | tickStrings (n : Nat) | progressChars (widths : List Nat)
deriving Repr, DecidableEq

/-- `none` = the builder panicked (explicit assertion at build time) -/
def build (fx : SFix) (s : Style) : BuildOp → Option Style
  | .tickChars n => if n ≥ 2 then some { s with tickN := n } else none
  | .tickStrings n =>
    let s' := { s with tickN := n }
    if fx.f12 then (if n ≥ 2 then some s' else none)
    else (if s.progWidths.length ≥ 2 then some s' else none)
  | .progressChars ws =>
    if ws.length < 2 then none else
    match ws with
    | [] => none
    | w :: rest =>
      if rest.all (· == w) then
        (if fx.f13 && w == 0 then none else some { s with progWidths := ws, charWidth := w })
      else none

def buildAll (fx : SFix) (s : Style) : List BuildOp → Option Style
  | [] => some s
  | op :: ops => match build fx s op with
    | some s' => buildAll fx s' ops
    | none => none

/-- what a draw does with the tables; `false` = panic inside the draw -/
def renderOk (s : Style) (tick : Nat) (barWidth : Nat) (finished : Bool) : Bool :=
  -- get_tick_str: idx % (len - 1) ; get_final_tick_str: [len - 1] ; format_bar: width / char_width, chars[n-1]
  let spinnerOk := if finished then decide (s.tickN ≥ 1) else decide (s.tickN ≥ 2)
  let _ := tick
  let _ := barWidth
  spinnerOk && decide (s.charWidth ≥ 1) && decide (s.progWidths.length ≥ 1)

end IndicatifModel.StyleBuilder
