/-!
# Tab expansion (`TabExpandedString`, `BarState::set_tab_width`, `BarState::set_style`,
`ProgressStyle::set_tab_width`, `TabRewriter`) — `src/state.rs`, `src/style.rs`

Texts are lists of code points; 9 is TAB, 32 is space.
-/
namespace IndicatifModel.Tab

def expand (t : List Nat) (w : Nat) : List Nat := t.flatMap (fun c => if c = 9 then List.replicate w 32 else [c])

/-- `TabExpandedString` -/
inductive TES where
  | noTabs (s : List Nat)
  | withTabs (original : List Nat) (cache : Option (List Nat)) (tabWidth : Nat)
deriving Repr, DecidableEq

def TES.new (s : List Nat) (w : Nat) : TES := if s.contains 9 then .withTabs s none w else .noTabs s

/-- `expanded()`: fills the cache on first use -/
def TES.expanded : TES → List Nat × TES
  | .noTabs s => (s, .noTabs s)
  | .withTabs o (some c) w => (c, .withTabs o (some c) w)
  | .withTabs o none w => (expand o w, .withTabs o (some (expand o w)) w)

def TES.setTabWidth : TES → Nat → TES
  | .noTabs s, _ => .noTabs s
  | .withTabs o c w, nw => if w ≠ nw then .withTabs o none nw else .withTabs o c w

structure StyleT where
  literals : List TES          -- the template's literal parts, in order
  tabWidth : Nat := 8          -- used by `TabRewriter` for custom keys
  customKey : List Nat := []   -- what the custom key writes (may contain tabs)
deriving Repr

structure BarT where
  tabWidth : Nat := 8
  msg : TES := .noTabs []
  pfx : TES := .noTabs []
  style : StyleT := { literals := [] }
deriving Repr

inductive Op where
  | setTabWidth (w : Nat)
  | setStyle (literals : List (List Nat)) (customKey : List Nat)   -- a style freshly built from a template (default width 8)
  | setMessage (s : List Nat) | setPrefix (s : List Nat)
  | draw                                                          -- renders (fills caches)
deriving Repr

def StyleT.setTabWidth (s : StyleT) (w : Nat) : StyleT :=
  { s with tabWidth := w, literals := s.literals.map (·.setTabWidth w) }

def step (b : BarT) : Op → BarT
  | .setTabWidth w => { b with tabWidth := w, msg := b.msg.setTabWidth w, pfx := b.pfx.setTabWidth w, style := b.style.setTabWidth w }
  | .setStyle lits ck =>
    let st : StyleT := { literals := lits.map (TES.new · 8), tabWidth := 8, customKey := ck }
    { b with style := st.setTabWidth b.tabWidth }
  | .setMessage s => { b with msg := TES.new s b.tabWidth }
  | .setPrefix s => { b with pfx := TES.new s b.tabWidth }
  | .draw => { b with msg := b.msg.expanded.2, pfx := b.pfx.expanded.2,
                      style := { b.style with literals := b.style.literals.map (·.expanded.2) } }

/-- the texts that reach the terminal in a draw: literals, message, prefix, custom key output -/
def rendered (b : BarT) : List (List Nat) :=
  b.style.literals.map (·.expanded.1) ++ [b.msg.expanded.1, b.pfx.expanded.1, expand b.style.customKey b.style.tabWidth]

end IndicatifModel.Tab
