/-! Template parser model: transcription of `Template::from_str_with_tab_width` (as the code is). -/
namespace IndicatifModel.Template

inductive PState where
  | literal | maybeOpen | doubleClose | key | align | width | firstStyle | altStyle
deriving DecidableEq, Repr

inductive Align where | left | center | right
deriving DecidableEq, Repr

inductive Part where
  | lit (s : List Char)
  | ph (key : List Char) (align : Align) (width : Option Nat) (truncate : Bool)
       (style : Option (List Char)) (alt : Option (List Char))
  | newline
deriving DecidableEq, Repr

inductive Outcome (α : Type) where
  | ok (a : α)
  | err (st : PState) (c : Char)
  | panic
deriving Repr, DecidableEq

/-- repairs of DESIGN.md Appendix C contained in the modelled parser -/
structure PFix where
  f9 : Bool := false    -- width beyond u16 is an error, not a panic
  f10 : Bool := false   -- `{`+whitespace keeps the pending literal in front
deriving Repr, DecidableEq

/-- the repairs the repository contains now (`fix:` commits); the correspondence harness runs the
model with exactly this value (`FX=current`), and the property theorems are stated for it -/
def PFix.current : PFix := { f9 := true, f10 := true }

structure St where
  state : PState := .literal
  parts : List Part := []      -- in order
  buf : List Char := []
deriving Repr

def isAsciiWs (c : Char) : Bool := c = ' ' || c = '\t' || c = '\n' || c = '\x0C' || c = '\r'
def isDigit (c : Char) : Bool := '0' ≤ c && c ≤ '9'

def digitsToNat (cs : List Char) : Nat := cs.foldl (fun n c => n * 10 + (c.toNat - '0'.toNat)) 0

/-- update the last part if it is a placeholder -/
def updLast (parts : List Part) (f : Part → Part) : List Part :=
  match parts.reverse with
  | [] => []
  | p :: rest => (f p :: rest).reverse

def setAlign (a : Align) : Part → Part
  | .ph k _ w t s al => .ph k a w t s al
  | p => p
def setTrunc : Part → Part
  | .ph k a w _ s al => .ph k a w true s al
  | p => p
def setWidth (n : Nat) : Part → Part
  | .ph k a _ t s al => .ph k a (some n) t s al
  | p => p
def setStyle (st : List Char) : Part → Part
  | .ph k a w t _ al => .ph k a w t (some st) al
  | p => p
def setAlt (st : List Char) : Part → Part
  | .ph k a w t s _ => .ph k a w t s (some st)
  | p => p
def lastIsPh (parts : List Part) : Bool :=
  match parts.getLast? with
  | some (.ph ..) => true
  | _ => false

/-- first phase: the big `match (state, c)`; returns new state, optional pushed char, updated parts/buf -/
def step1 (fx : PFix) (s : St) (c : Char) : Outcome (PState × Option Char × List Part × List Char) :=
  let parts := s.parts
  let buf := s.buf
  match s.state with
  | .literal =>
    if c = '{' then .ok (.maybeOpen, none, parts, buf)
    else if c = '\n' then
      let parts := if buf ≠ [] then parts ++ [.lit buf] else parts
      .ok (.literal, none, parts ++ [.newline], [])
    else if c = '}' then .ok (.doubleClose, some '}', parts, buf)
    else .ok (.literal, some c, parts, buf)
  | .doubleClose =>
    if c = '}' then .ok (.literal, none, parts, buf) else .err .doubleClose c
  | .maybeOpen =>
    if c = '{' then .ok (.literal, some '{', parts, buf)
    else if isAsciiWs c then
      -- backtrack: the pinned code builds "{" ++ buf ++ [c], the repaired one buf ++ "{" ++ [c]
      let l := if fx.f10 then buf ++ ['{', c] else '{' :: (buf ++ [c])
      .ok (.literal, none, parts ++ [.lit l], [])
    else if c ≠ '}' && c ≠ ':' then .ok (.key, some c, parts, buf)
    else .err .maybeOpen c
  | .key =>
    if isAsciiWs c then .ok (.literal, none, parts ++ [.lit ('{' :: (buf ++ [c]))], [])
    else if c ≠ '}' && c ≠ ':' then .ok (.key, some c, parts, buf)
    else if c = ':' then .ok (.align, none, parts, buf)
    else .ok (.literal, none, parts, buf)        -- '}'
  | .align =>
    if c = '<' || c = '^' || c = '>' then
      let a := if c = '<' then Align.left else if c = '^' then Align.center else Align.right
      .ok (.width, none, updLast parts (setAlign a), buf)
    else if isDigit c then .ok (.width, some c, parts, buf)
    else if c = '!' then .ok (.width, none, updLast parts setTrunc, buf)
    else if c = '.' then .ok (.firstStyle, none, parts, buf)
    else if c = '}' then .ok (.literal, none, parts, buf)
    else .err .align c
  | .width =>
    if c = '!' then .ok (.width, none, updLast parts setTrunc, buf)
    else if isDigit c then .ok (.width, some c, parts, buf)
    else if c = '.' then .ok (.firstStyle, none, parts, buf)
    else if c = '}' then .ok (.literal, none, parts, buf)
    else .err .width c
  | .firstStyle =>
    if c = '/' then .ok (.altStyle, none, parts, buf)
    else if c = '}' then .ok (.literal, none, parts, buf)
    else .ok (.firstStyle, some c, parts, buf)
  | .altStyle =>
    if c = '}' then .ok (.literal, none, parts, buf)
    else .ok (.altStyle, some c, parts, buf)

/-- second phase: the `match (state, new.0)` on transitions -/
def step2 (fx : PFix) (c : Char) (old new : PState) (parts : List Part) (buf : List Char) : Outcome (List Part × List Char) :=
  if old = .maybeOpen ∧ new = .key ∧ buf ≠ [] then .ok (parts ++ [.lit buf], [])
  else if old = .key ∧ (new = .align ∨ new = .literal) ∧ buf ≠ [] then
    .ok (parts ++ [.ph buf .left none false none none], [])
  else if old = .width ∧ (new = .firstStyle ∨ new = .literal) ∧ buf ≠ [] then
    if lastIsPh parts then
      let n := digitsToNat buf
      if n > 65535 then (if fx.f9 then .err old c else .panic) else .ok (updLast parts (setWidth n), [])
    else .ok (parts, buf)
  else if old = .firstStyle ∧ (new = .altStyle ∨ new = .literal) ∧ buf ≠ [] then
    if lastIsPh parts then .ok (updLast parts (setStyle buf), []) else .ok (parts, buf)
  else if old = .altStyle ∧ new = .literal ∧ buf ≠ [] then
    if lastIsPh parts then .ok (updLast parts (setAlt buf), []) else .ok (parts, buf)
  else .ok (parts, buf)

def step (fx : PFix) (s : St) (c : Char) : Outcome St :=
  match step1 fx s c with
  | .err st ch => .err st ch
  | .panic => .panic
  | .ok (new, push, parts, buf) =>
    match step2 fx c s.state new parts buf with
    | .err st ch => .err st ch
    | .panic => .panic
    | .ok (parts, buf) =>
      .ok { state := new, parts := parts, buf := match push with | some ch => buf ++ [ch] | none => buf }

def run (fx : PFix) (s : St) : List Char → Outcome St
  | [] => .ok s
  | c :: cs => match step fx s c with
    | .ok s' => run fx s' cs
    | .err st ch => .err st ch
    | .panic => .panic

def parse (fx : PFix) (cs : List Char) : Outcome (List Part) :=
  match run fx {} cs with
  | .ok s =>
    if (s.state = .literal ∨ s.state = .doubleClose) ∧ s.buf ≠ [] then .ok (s.parts ++ [.lit s.buf]) else .ok s.parts
  | .err st c => .err st c
  | .panic => .panic

end IndicatifModel.Template
