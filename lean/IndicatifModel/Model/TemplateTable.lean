import IndicatifModel.Model.Template
/-!
# The template parser as a table of match arms

`tools/gen_template.py` reads the two `match` expressions of `Template::from_str_with_tab_width` (`src/style.rs`) arm by
arm and writes them down as data (`Generated/TemplateArms.lean`): which states and which character an arm accepts, its
guard, the state it moves to, the character it pushes into `buf`, and which of the known block bodies it runs. This file
gives such a table its meaning — first matching arm wins, as in Rust — so that `Proofs/GenBridgeTpl.lean` can prove
that the table regenerated from the source *is* the hand-written parser model the C10 theorems are about.
-/
namespace IndicatifModel.Template

/-- the character pattern of an arm -/
inductive CharPat where
  | lit (c : Char)          -- `'x'`
  | any                     -- `c`
  | digit                   -- `c @ '0'..='9'`
deriving Repr, DecidableEq

/-- the `if` guard of an arm -/
inductive Guard where
  | none
  | isWs                    -- `c.is_ascii_whitespace()`
  | notCloseColon           -- `c != '}' && c != ':'`
  | bufNonEmpty             -- `!buf.is_empty()`
  | alignChar               -- `c == '<' || c == '^' || c == '>'`
deriving Repr, DecidableEq

/-- the second component of the arm's value -/
inductive Push where
  | none                    -- `None`
  | same                    -- `Some(c)`
  | lit (c : Char)          -- `Some('x')`
deriving Repr, DecidableEq

/-- the block an arm runs before its value (recognised by its text; an unknown block stops the translator) -/
inductive Act where
  | none
  | newline                 -- flush `buf` as a literal if non-empty, push `NewLine`
  | backtrack               -- brace + whitespace: the pending text, the brace and the whitespace become a literal
  | phTruncate              -- `(Key, '!')`: push a truncating placeholder
  | setAlign                -- set the alignment of the last part if it is a placeholder
  | setTrunc                -- set its truncate flag
deriving Repr, DecidableEq

structure PArm where
  states : List PState
  pat : CharPat
  guard : Guard
  next : PState
  push : Push
  act : Act
deriving Repr, DecidableEq

/-- what the second `match (state, new.0)` does on a transition -/
inductive Act2 where
  | pushLit                 -- `parts.push(Literal(take(buf)))`
  | pushPh                  -- `parts.push(Placeholder { key: take(buf), Left, None, false, None, None })`
  | setWidth                -- last placeholder: `width = buf.parse()?` (an error of `parse` is the `Err` of the parser), clear
  | setStyle                -- last placeholder: `style = Some(from_dotted_str(buf))`, clear
  | setAlt                  -- last placeholder: `alt_style = …`, clear
deriving Repr, DecidableEq

/-- an arm of the second match; every arm but the catch-all has the guard `!buf.is_empty()` -/
structure TArm where
  olds : List PState
  news : List PState
  act : Act2
deriving Repr, DecidableEq

def CharPat.accepts : CharPat → Char → Bool
  | .lit x, c => c = x
  | .any, _ => true
  | .digit, c => isDigit c

def Guard.holds : Guard → St → Char → Bool
  | .none, _, _ => true
  | .isWs, _, c => isAsciiWs c
  | .notCloseColon, _, c => c ≠ '}' && c ≠ ':'
  | .bufNonEmpty, s, _ => s.buf ≠ []
  | .alignChar, _, c => c = '<' || c = '^' || c = '>'

def PArm.accepts (a : PArm) (s : St) (c : Char) : Bool :=
  a.states.contains s.state && a.pat.accepts c && a.guard.holds s c

def doAct (s : St) (c : Char) : Act → List Part × List Char
  | .none => (s.parts, s.buf)
  | .newline => ((if s.buf ≠ [] then s.parts ++ [.lit s.buf] else s.parts) ++ [.newline], [])
  | .backtrack =>
    (match s.state with
     | .maybeOpen => (s.parts ++ [.lit (s.buf ++ ['{', c])], [])
     | _ => (s.parts ++ [.lit ('{' :: (s.buf ++ [c]))], []))
  | .phTruncate => (s.parts ++ [.ph s.buf .left none true none none], [])
  | .setAlign =>
    (updLast s.parts (setAlign (if c = '<' then Align.left else if c = '^' then Align.center else Align.right)), s.buf)
  | .setTrunc => (updLast s.parts setTrunc, s.buf)

/-- the first match: the first arm that accepts `(state, c)`; the catch-all arm is the error -/
def step1T (arms : List PArm) (s : St) (c : Char) : Outcome (PState × Option Char × List Part × List Char) :=
  match arms.find? (fun a => a.accepts s c) with
  | some a =>
    let r := doAct s c a.act
    .ok (a.next, (match a.push with | .none => none | .same => some c | .lit x => some x), r.1, r.2)
  | none => .err s.state c

def doAct2 (c : Char) (old : PState) (parts : List Part) (buf : List Char) : Act2 → Outcome (List Part × List Char)
  | .pushLit => .ok (parts ++ [.lit buf], [])
  | .pushPh => .ok (parts ++ [.ph buf .left none false none none], [])
  | .setWidth =>
    if lastIsPh parts then
      (if digitsToNat buf > 65535 then .err old c else .ok (updLast parts (setWidth (digitsToNat buf)), []))
    else .ok (parts, buf)
  | .setStyle => if lastIsPh parts then .ok (updLast parts (setStyle buf), []) else .ok (parts, buf)
  | .setAlt => if lastIsPh parts then .ok (updLast parts (setAlt buf), []) else .ok (parts, buf)

/-- the second match -/
def step2T (arms : List TArm) (c : Char) (old new : PState) (parts : List Part) (buf : List Char) : Outcome (List Part × List Char) :=
  match arms.find? (fun a => a.olds.contains old && a.news.contains new && decide (buf ≠ [])) with
  | some a => doAct2 c old parts buf a.act
  | none => .ok (parts, buf)

def stepT (arms : List PArm) (tarms : List TArm) (s : St) (c : Char) : Outcome St :=
  match step1T arms s c with
  | .err st ch => .err st ch
  | .panic => .panic
  | .ok (new, push, parts, buf) =>
    match step2T tarms c s.state new parts buf with
    | .err st ch => .err st ch
    | .panic => .panic
    | .ok (parts, buf) =>
      .ok { state := new, parts := parts, buf := match push with | some ch => buf ++ [ch] | none => buf }

def runT (arms : List PArm) (tarms : List TArm) (s : St) : List Char → Outcome St
  | [] => .ok s
  | c :: cs => match stepT arms tarms s c with
    | .ok s' => runT arms tarms s' cs
    | .err st ch => .err st ch
    | .panic => .panic

/-- the whole parser from the tables; `flush` are the states in which pending text is a final literal -/
def parseT (arms : List PArm) (tarms : List TArm) (flush : List PState) (cs : List Char) : Outcome (List Part) :=
  match runT arms tarms {} cs with
  | .ok s => if flush.contains s.state ∧ s.buf ≠ [] then .ok (s.parts ++ [.lit s.buf]) else .ok s.parts
  | .err st c => .err st c
  | .panic => .panic

end IndicatifModel.Template
