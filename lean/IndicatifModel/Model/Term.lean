import IndicatifModel.Model.Basic
/-!
# Terminal model (trusted base, validated against the `vt100` crate)

Rows are absolute (scrollback ++ screen). `top` is the index of the first screen row, `a` the
absolute cursor row, `c` the column, `c = W` meaning "pending wrap". Cells hold code points; 32 is
blank; 0 marks the second cell of a double-width glyph.
-/
namespace IndicatifModel

abbrev Row := List Nat

structure Term where
  W : Nat
  H : Nat
  rows : List Row
  top : Nat
  a : Nat
  c : Nat
deriving Repr, DecidableEq

inductive TOp where
  | up (n : Nat) | down (n : Nat) | left (n : Nat) | right (n : Nat)
  | clearLine | writeStr (gs : Text) | writeLine (gs : Text) | cr | flush
deriving Repr, DecidableEq

namespace Term

def init (W H : Nat) : Term := { W, H, rows := List.replicate H [], top := 0, a := 0, c := 0 }

def up (t : Term) (n : Nat) : Term := { t with a := t.a - min n (t.a - t.top) }
def down (t : Term) (n : Nat) : Term := { t with a := min (t.a + n) (t.top + t.H - 1) }
def clearLine (t : Term) : Term := { t with rows := t.rows.set t.a [], c := 0 }
def lf (t : Term) : Term :=
  if t.a + 1 = t.top + t.H then { t with rows := t.rows ++ [[]], top := t.top + 1, a := t.a + 1 }
  else { t with a := t.a + 1 }
def newline (t : Term) : Term := { t.lf with c := 0 }
def cr (t : Term) : Term := { t with c := 0 }

def setCell (r : Row) (c : Nat) (g : Nat) : Row :=
  if c < r.length then r.set c g else r ++ List.replicate (c - r.length) 32 ++ [g]

/-- write one single-width cell -/
def put (t : Term) (g : Nat) : Term :=
  let t := if t.c ≥ t.W then t.newline else t
  { t with rows := t.rows.set t.a (setCell (t.rows.getD t.a []) t.c g), c := t.c + 1 }

/-- write one double-width glyph: wraps early when only one column is left -/
def putWide (t : Term) (g : Nat) : Term :=
  let t := if t.c + 2 > t.W then t.newline else t
  let r := setCell (setCell (t.rows.getD t.a []) t.c g) (t.c + 1) 0
  { t with rows := t.rows.set t.a r, c := t.c + 2 }

def putG (t : Term) (g : Glyph) : Term :=
  if g.w = 0 then t else if g.w = 1 then t.put g.cp else t.putWide g.cp

def write (t : Term) (gs : List Nat) : Term := gs.foldl put t
def writeG (t : Term) (gs : Text) : Term := gs.foldl putG t

def exec (t : Term) : TOp → Term
  | .up n => t.up n
  | .down n => t.down n
  | .left n => { t with c := (min t.c (t.W - 1)) - min n (min t.c (t.W - 1)) }
  | .right n => { t with c := min (t.c + n) (t.W - 1) }
  | .clearLine => t.clearLine
  | .writeStr gs => t.writeG gs
  | .writeLine gs => (t.writeG gs).newline
  | .cr => t.cr
  | .flush => t

def execAll (t : Term) (ops : List TOp) : Term := ops.foldl exec t

/-- right-trim blanks and drop continuation cells -/
def showRow (r : Row) : List Nat :=
  ((r.filter (· ≠ 0)).reverse.dropWhile (· == 32)).reverse

/-- all rows (scrollback included) with trailing blank rows removed -/
def shownRows (t : Term) : List (List Nat) :=
  ((t.rows.map showRow).reverse.dropWhile (· == [])).reverse

end Term
end IndicatifModel
