import IndicatifModel.Model.Bar
/-! Interpreter for histories of public calls on one stand-alone bar, with screen snapshots at every flush. -/
namespace IndicatifModel

structure Snap where
  r : Nat
  c : Nat
  rows : List (List Nat)
deriving Repr, DecidableEq

def Term.snap (t : Term) : Snap := { r := t.a - t.top, c := t.c, rows := t.shownRows }

/-- execute terminal calls, taking a snapshot *before* each flush takes effect (as the recorder does) -/
def execSnap (t : Term) (ops : List TOp) : Term × List Snap :=
  ops.foldl (fun (acc : Term × List Snap) op =>
    match op with
    | .flush => (acc.1, acc.2 ++ [acc.1.snap])
    | _ => (acc.1.exec op, acc.2)) (t, [])

structure World where
  bar : Bar
  term : Term
  now : Nat
  snaps : List Snap := []
  calls : Nat := 0            -- terminal calls made so far

def World.step (w : World) (op : BarOp) : World :=
  match op with
  | .adv dt => { w with now := w.now + dt }
  | _ =>
    let (b, ops) := w.bar.step w.now op
    let (t, ss) := execSnap w.term ops
    { w with bar := b, term := t, snaps := w.snaps ++ ss, calls := w.calls + ops.length }

def World.run (w : World) (ops : List BarOp) : World := ops.foldl World.step w

def templates : List (List TPart) := [
  [.msg],
  [.prefix, .lit (strText " "), .pos, .lit (strText "/"), .len],
  [.prefix, .lit (strText "|"), .msg, .lit (strText "|"), .pos, .lit (strText "/"), .len],
  [.msg, .newline, .prefix, .lit (strText ":"), .pos],
  [.newline, .msg],
  [.pos],
  -- `"{\n{msg}:{pos}"`: a brace followed by a line break stands for itself, as one literal that holds the line break
  [.lit [{ cp := 123, w := 1 }, { cp := 10, w := 0 }], .msg, .lit (strText ":"), .pos]
]

end IndicatifModel
