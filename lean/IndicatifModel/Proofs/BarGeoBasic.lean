import IndicatifModel.Model.BarGeo
/-!
# C13 — Progress-bar geometry (arithmetic-independent part)

These statements hold for *every* arithmetic `A` plugged into the transcription of `format_bar`;
the clauses that depend on the rounding behaviour of `f32` (monotone, full exactly when complete)
are stated over the IEEE properties in a separate file.
-/
namespace IndicatifModel.BarGeo

variable {α : Type} (A : Arith α)

/-- the bar occupies exactly `⌊N/c⌋` cells as soon as the truncated fill does not exceed them -/
theorem C13_cells_partial (f : α) (w cw n : Nat)
    (h : A.trunc (A.mul f (A.ofNat (w / cw))) ≤ w / cw) :
    ((formatBar A f w cw n).cells n).length = w / cw := by
  unfold formatBar BarOut.cells
  simp only [List.length_append, List.length_replicate]
  by_cases hh : (A.lt A.zero (A.mul f (A.ofNat (w / cw))) && decide (A.trunc (A.mul f (A.ofNat (w / cw))) < w / cw)) = true
  · have hlt : A.trunc (A.mul f (A.ofNat (w / cw))) < w / cw := by
      simp only [Bool.and_eq_true, decide_eq_true_eq] at hh; exact hh.2
    simp only [hh, if_true]
    simp only [List.length_cons, List.length_nil]
    omega
  · simp only [hh]
    simp only [Bool.false_eq_true, if_false, Nat.zero_ne_one, List.length_nil]
    omega

/-- a partial cell is drawn exactly when the fill is positive and not all cells are filled -/
theorem C13_head_iff (f : α) (w cw n : Nat) :
    ((formatBar A f w cw n).cur.isSome = true) ↔
      (A.lt A.zero (A.mul f (A.ofNat (w / cw))) = true ∧ A.trunc (A.mul f (A.ofNat (w / cw))) < w / cw) := by
  unfold formatBar
  by_cases hh : (A.lt A.zero (A.mul f (A.ofNat (w / cw))) && decide (A.trunc (A.mul f (A.ofNat (w / cw))) < w / cw)) = true
  · simp only [hh, if_true, Option.isSome_some, true_iff]
    simpa only [Bool.and_eq_true, decide_eq_true_eq] using hh
  · simp only [hh]
    simp only [Bool.false_eq_true, if_false, Nat.zero_ne_one, Option.isSome_none, false_iff]
    intro hc
    apply hh
    simp only [Bool.and_eq_true, decide_eq_true_eq]
    exact hc

/-- the partial cell is always one of the configured characters, and never the "filled" one when
there is no fine-grained character -/
theorem C13_cur_in_range (f : α) (w cw n c : Nat) (hn : 2 ≤ n)
    (hc : (formatBar A f w cw n).cur = some c) : c ≤ n - 1 := by
  unfold formatBar at hc
  dsimp only at hc
  split at hc
  · injection hc with hc
    split at hc <;> omega
  · cases hc

/-- position 0 of a bar with a non-zero length: nothing filled, no partial cell, all background -/
theorem C13_zero (w cw n l : Nat) (hl : l ≠ 0)
    (hmul : ∀ x, A.mul A.zero x = A.zero) (htr : A.trunc A.zero = 0) (hlt : A.lt A.zero A.zero = false) :
    formatBar A (fraction A 0 (some l)) w cw n = { filled := 0, cur := none, bg := w / cw } := by
  have hf : fraction A 0 (some l) = A.zero := by
    unfold fraction
    cases l with
    | zero => exact absurd rfl hl
    | succ k => simp
  rw [hf]
  unfold formatBar
  simp [hmul, htr, hlt]

/- The hypotheses of `C13_zero` are plain computations for the hardware instance (`0 * x = 0` for
finite `x`, `(0 : f32) as usize = 0`, `¬ 0 < 0`); `Float32` is opaque to the kernel, so for that
instance they are covered by the correspondence stream, not by a proof. -/

end IndicatifModel.BarGeo
