import IndicatifModel.Proofs.Bridge
import IndicatifModel.Model.Bar
/-!
# From bar operations to draw requests

`C01_redraw_integrity` is about histories of *draw requests*. Here the executable single-bar model (`Model/Bar`, the
transcription of `BarState` validated against the crate by the BAR stream) is connected to it: every terminal emission of
a bar operation is one `draw_to_term` whose lines are text lines followed by the bar's rendering, so — for unit-width
text, frames that fit and a non-empty first line — it preserves the redraw-integrity invariant with the printed lines
appended to the log and the rendering as the new frame.
-/
namespace IndicatifModel
open Term

/-- what the proofs need to know about the bar's terminal target -/
structure TInv (W H : Nat) (fx : Fixes) (tt : TermTarget) : Prop where
  hW : tt.W = W
  hH : tt.H = H
  hfx : tt.fx = fx
  hmc : tt.ds.moveCursor = false
  hal : tt.ds.alignment = .top
  hup : tt.ds.unparked = false

theorem barRows_split (W : Nat) : ∀ (ti bi : List Item), (∀ p ∈ ti, p.1 ≠ .bar) → (∀ p ∈ bi, p.1 = .bar) →
    barRows W (ti ++ bi) = (wrapAll W (bi.map (·.2))).length
  | [], [], _, _ => by simp [barRows, wrapAll]
  | [], p :: bi, ht, hb => by
    have hp : p.1 = .bar := hb p (by simp)
    have ih := barRows_split W [] bi (by simp) (fun q hq => hb q (by simp [hq]))
    simp only [List.nil_append] at ih ⊢
    simp only [barRows, hp, if_true, ih, List.map_cons, wrapAll, List.flatMap_cons, List.length_append]
  | p :: ti, bi, ht, hb => by
    have hp : p.1 ≠ .bar := ht p (by simp)
    have ih := barRows_split W ti bi (fun q hq => ht q (by simp [hq])) hb
    simp only [List.cons_append, barRows, hp, if_false, Nat.zero_add, ih]

/-- **one emission**: a `draw_to_term` of text items followed by bar items on a terminal in the integrity state -/
theorem emit_integrity (W H : Nat) (fx : Fixes) (hW : 0 < W) (tt : TermTarget) (t : Term) (logs frame : List (List Nat))
    (hT : TInv W H fx tt) (hI : Integrity W H t tt.llc logs frame)
    (ti bi : List Item) (hti : ∀ p ∈ ti, p.1 ≠ .bar) (hbi : ∀ p ∈ bi, p.1 = .bar)
    (hfit : (wrapAll W (bi.map (·.2))).length ≤ H) (hhead : headNonEmpty (ti ++ bi)) :
    let ds : DrawState := { tt.ds with lines := (ti ++ bi).map Item.line }
    let out := drawToTerm tt.fx ds tt.W tt.H tt.llc
    Integrity W H (t.execAll out.1) out.2 (logs ++ ti.map (·.2)) (bi.map (·.2)) ∧
    TInv W H fx { tt with ds := ds.after tt.fx tt.W tt.H tt.llc, llc := out.2 } := by
  intro ds out
  obtain ⟨h1, h2, h3, h4, h5, h6⟩ := hT
  have hbr := barRows_split W ti bi hti hbi
  have hfit' : barRows W (ti ++ bi) ≤ H := by rw [hbr]; exact hfit
  have hout : out = (drawOps W tt.llc ((ti ++ bi).map (·.2)), barRows W (ti ++ bi)) := by
    show drawToTerm tt.fx ds tt.W tt.H tt.llc = _
    rw [h1, h2]
    exact drawToTerm_fit tt.fx W H tt.llc hW (ti ++ bi) ds rfl h4 h5 hfit' hhead h6
  have hup' : unparkedAfter tt.fx ds tt.W tt.H tt.llc = false := by
    rw [h1, h2]
    exact unparkedAfter_fit tt.fx W H tt.llc hW (ti ++ bi) ds rfl h5 hfit' hhead h6
  have htW : t.W = W := hI.1
  constructor
  · rw [hout]
    have hreq := drawReq_integrity W H t tt.llc logs frame ⟨ti.map (·.2), bi.map (·.2)⟩ hI hfit
      (fun _ _ => by
        show firstNonEmpty (ti.map (·.2) ++ bi.map (·.2))
        rw [← List.map_append]
        cases hx : ti ++ bi with
        | nil => simp [firstNonEmpty]
        | cons p ps => rw [hx] at hhead; simpa [firstNonEmpty, headNonEmpty] using hhead)
    simp only [drawReq, Req.lines, htW, ← List.map_append] at hreq
    rw [hbr]
    exact hreq
  · exact ⟨h1, h2, h3, h4, h5, hup'⟩

/-! ## Unit-width text and the lines a bar draws -/

def UnitT (t : Text) : Prop := ∀ g ∈ t, g.w = 1
def cps (t : Text) : List Nat := t.map (·.cp)
def itemOf (l : Line) : Item := (l.kind, cps l.gs)

theorem utext_cps (t : Text) (h : UnitT t) : utext (cps t) = t := by
  induction t with
  | nil => rfl
  | cons g gs ih =>
    have hg : g.w = 1 := h g (by simp)
    have := ih (fun x hx => h x (by simp [hx]))
    simp only [utext, cps, List.map_cons, List.map_map] at this ⊢
    rw [this]
    cases g with
    | mk cp w => simp only at hg; subst hg; rfl

theorem itemOf_line (l : Line) (h : UnitT l.gs) : Item.line (itemOf l) = l := by
  cases l with
  | mk k gs => simp only [Item.line, itemOf, mkLine]; rw [utext_cps gs h]

theorem map_itemOf_line : ∀ (ls : List Line), (∀ l ∈ ls, UnitT l.gs) → (ls.map itemOf).map Item.line = ls
  | [], _ => rfl
  | l :: ls, h => by
    simp only [List.map_cons, itemOf_line l (h l (by simp)), map_itemOf_line ls (fun x hx => h x (by simp [hx]))]

/-- the bar lines of a frame: nothing once the bar is finished-and-cleared -/
def frameLines (b : Bar) : List Line := if b.status = .doneHidden then [] else formatState b
/-- … as rows of code points -/
def frameRows (b : Bar) : List (List Nat) := (frameLines b).map (fun l => cps l.gs)

theorem pushLine_bar (cur : Text) : ∀ l ∈ pushLine cur, l.kind = .bar := by
  intro l hl; simp only [pushLine, List.mem_map] at hl; obtain ⟨_, _, rfl⟩ := hl; rfl

theorem formatState_go_bar (b : Bar) (lv : Nat) : ∀ (ps : List TPart) (cur : Text) (acc : List Line), (∀ l ∈ acc, l.kind = .bar) →
    ∀ l ∈ formatState.go b lv cur acc ps, l.kind = .bar
  | [], cur, acc, h => by
    unfold formatState.go
    split
    · intro l hl; rcases List.mem_append.1 hl with h1 | h1
      · exact h l h1
      · exact pushLine_bar cur l h1
    · exact h
  | .lit t :: ps, cur, acc, h => by unfold formatState.go; exact formatState_go_bar b lv ps _ acc h
  | .msg :: ps, cur, acc, h => by unfold formatState.go; exact formatState_go_bar b lv ps _ acc h
  | .prefix :: ps, cur, acc, h => by unfold formatState.go; exact formatState_go_bar b lv ps _ acc h
  | .pos :: ps, cur, acc, h => by unfold formatState.go; exact formatState_go_bar b lv ps _ acc h
  | .len :: ps, cur, acc, h => by unfold formatState.go; exact formatState_go_bar b lv ps _ acc h
  | .newline :: ps, cur, acc, h => by
    unfold formatState.go
    exact formatState_go_bar b lv ps [] _ (fun l hl => by
      rcases List.mem_append.1 hl with h1 | h1
      · exact h l h1
      · exact pushLine_bar cur l h1)

theorem frameLines_bar (b : Bar) : ∀ l ∈ frameLines b, l.kind = .bar := by
  unfold frameLines
  split
  · intro l hl; cases hl
  · exact formatState_go_bar b _ b.tpl [] [] (fun l hl => by cases hl)

/-- side conditions under which a frame of `b` can be drawn inside the theorem's scope: unit-width glyphs, the frame fits the
terminal height, its first line is not empty -/
structure FrameOk (W H : Nat) (b : Bar) : Prop where
  unit : ∀ l ∈ frameLines b, UnitT l.gs
  fit : (wrapAll W (frameRows b)).length ≤ H
  head : firstNonEmpty (frameRows b)

theorem drawable_inv (W H : Nat) (fx : Fixes) (tt : TermTarget) (force : Bool) (now : Nat) (h : TInv W H fx tt) :
    TInv W H fx (tt.drawable force now).2 ∧ (tt.drawable force now).2.llc = tt.llc := by
  unfold TermTarget.drawable
  split
  · exact ⟨h, rfl⟩
  · split
    · exact ⟨h, rfl⟩
    · exact ⟨⟨h.hW, h.hH, h.hfx, h.hmc, h.hal, h.hup⟩, rfl⟩

/-- a draw of text lines `texts` (none of kind `bar`) followed by the frame of `b`, as `println` and `draw` make it -/
theorem emit_frame (W H : Nat) (fx : Fixes) (hW : 0 < W) (b : Bar) (tt : TermTarget) (t : Term) (logs frame : List (List Nat))
    (hT : TInv W H fx tt) (hI : Integrity W H t tt.llc logs frame) (hF : FrameOk W H b)
    (texts : List Line) (htk : ∀ l ∈ texts, l.kind ≠ .bar) (htu : ∀ l ∈ texts, UnitT l.gs)
    (hth : firstNonEmpty (texts.map (fun l => cps l.gs))) :
    let ds : DrawState := { tt.ds with lines := texts ++ frameLines b }
    let out := drawToTerm tt.fx ds tt.W tt.H tt.llc
    Integrity W H (t.execAll out.1) out.2 (logs ++ texts.map (fun l => cps l.gs)) (frameRows b) ∧
    TInv W H fx { tt with ds := ds.after tt.fx tt.W tt.H tt.llc, llc := out.2 } := by
  have hl : texts ++ frameLines b = (texts.map itemOf ++ (frameLines b).map itemOf).map Item.line := by
    rw [List.map_append, map_itemOf_line texts htu, map_itemOf_line (frameLines b) hF.unit]
  have e1 : (texts.map itemOf).map (·.2) = texts.map (fun l => cps l.gs) := by simp [itemOf]
  have e2 : ((frameLines b).map itemOf).map (·.2) = frameRows b := by simp [itemOf, frameRows]
  have h := emit_integrity W H fx hW tt t logs frame hT hI (texts.map itemOf) ((frameLines b).map itemOf)
    (fun p hp => by obtain ⟨l, hl', rfl⟩ := List.mem_map.1 hp; exact htk l hl')
    (fun p hp => by obtain ⟨l, hl', rfl⟩ := List.mem_map.1 hp; exact frameLines_bar b l hl')
    (by rw [e2]; exact hF.fit)
    (by
      cases hx : texts with
      | nil =>
        simp only [List.map_nil, List.nil_append]
        have := hF.head
        cases hy : frameLines b with
        | nil => simp [headNonEmpty]
        | cons l ls => simp only [frameRows, hy, List.map_cons, firstNonEmpty] at this; simpa [headNonEmpty, itemOf] using this
      | cons l ls => rw [hx] at hth; simpa [headNonEmpty, itemOf, firstNonEmpty] using hth)
  simp only [← hl, e1, e2] at h
  exact h

theorem drawToTerm_ne_nil (fx : Fixes) (ds : DrawState) (W H n : Nat) : (drawToTerm fx ds W H n).1 ≠ [] := by
  unfold drawToTerm; simp

/-- the bar draws on a terminal target of the given geometry, and the terminal is in the integrity state for `logs` / `frame` -/
def BInv (W H : Nat) (fx : Fixes) (b : Bar) (t : Term) (logs frame : List (List Nat)) : Prop :=
  ∃ tt, b.target = some tt ∧ TInv W H fx tt ∧ Integrity W H t tt.llc logs frame

/-- what `BarState::draw` does on the terminal: nothing (the limiter skipped it), or one completed draw after which the
terminal shows the log followed by the rendering of the bar's state -/
theorem draw_binv (W H : Nat) (fx : Fixes) (hW : 0 < W) (b : Bar) (t : Term) (logs frame : List (List Nat))
    (hB : BInv W H fx b t logs frame) (hF : FrameOk W H b) (force : Bool) (now : Nat) :
    ((b.draw force now).2 = [] ∧ BInv W H fx (b.draw force now).1 t logs frame) ∨
    ((b.draw force now).2 ≠ [] ∧ BInv W H fx (b.draw force now).1 (t.execAll (b.draw force now).2) logs (frameRows b)) := by
  obtain ⟨tt, htt, hT, hI⟩ := hB
  obtain ⟨hT', hllc⟩ := drawable_inv W H fx tt (force || b.finished) now hT
  unfold Bar.draw
  simp only [htt]
  by_cases hgo : (tt.drawable (force || b.finished) now).1 = true
  · right
    simp only [hgo, Bool.not_true, Bool.false_eq_true, if_false]
    have h := emit_frame W H fx hW b (tt.drawable (force || b.finished) now).2 t logs frame hT' (by rw [hllc]; exact hI) hF
      [] (fun _ h => by cases h) (fun _ h => by cases h) (by simp [firstNonEmpty])
    simp only [List.nil_append, List.map_nil, List.append_nil] at h
    exact ⟨drawToTerm_ne_nil _ _ _ _ _, _, rfl, h.2, h.1⟩
  · left
    have hgo' : (tt.drawable (force || b.finished) now).1 = false := by simpa using hgo
    simp only [hgo', Bool.not_false, if_true]
    exact ⟨trivial, _, rfl, hT', by rw [hllc]; exact hI⟩

theorem go_congr (b b' : Bar) (lv : Nat) (hm : b'.msg = b.msg) (hp : b'.pfx = b.pfx) (hpos : b'.pos = b.pos) :
    ∀ (ps : List TPart) (cur : Text) (acc : List Line), formatState.go b' lv cur acc ps = formatState.go b lv cur acc ps
  | [], cur, acc => by unfold formatState.go; rfl
  | .lit t :: ps, cur, acc => by unfold formatState.go; exact go_congr b b' lv hm hp hpos ps _ _
  | .msg :: ps, cur, acc => by unfold formatState.go; rw [hm]; exact go_congr b b' lv hm hp hpos ps _ _
  | .prefix :: ps, cur, acc => by unfold formatState.go; rw [hp]; exact go_congr b b' lv hm hp hpos ps _ _
  | .pos :: ps, cur, acc => by unfold formatState.go; rw [hpos]; exact go_congr b b' lv hm hp hpos ps _ _
  | .len :: ps, cur, acc => by unfold formatState.go; exact go_congr b b' lv hm hp hpos ps _ _
  | .newline :: ps, cur, acc => by unfold formatState.go; exact go_congr b b' lv hm hp hpos ps _ _

/-- the frame depends on the logical state only -/
theorem frameLines_congr (b b' : Bar) (hm : b'.msg = b.msg) (hp : b'.pfx = b.pfx) (hpos : b'.pos = b.pos) (hl : b'.len = b.len)
    (ht : b'.tpl = b.tpl) (hs : b'.status = b.status) : frameLines b' = frameLines b := by
  unfold frameLines formatState
  rw [hs, hl, hpos, ht]
  split
  · rfl
  · exact go_congr b b' _ hm hp hpos _ _ _

theorem draw_frameLines (b : Bar) (force : Bool) (now : Nat) : frameLines (b.draw force now).1 = frameLines b := by
  apply frameLines_congr <;>
  · unfold Bar.draw
    cases b.target with
    | none => rfl
    | some tt => simp only []; split <;> rfl

/-- the fields a frame is made of -/
def Lg (b : Bar) : Text × Text × Nat × Option Nat × List TPart × Status := (b.msg, b.pfx, b.pos, b.len, b.tpl, b.status)

theorem frameLines_lg {b b' : Bar} (h : Lg b' = Lg b) : frameLines b' = frameLines b := by
  simp only [Lg, Prod.mk.injEq] at h
  exact frameLines_congr b b' h.1 h.2.1 h.2.2.1 h.2.2.2.1 h.2.2.2.2.1 h.2.2.2.2.2

theorem frameRows_lg {b b' : Bar} (h : Lg b' = Lg b) : frameRows b' = frameRows b := by
  unfold frameRows; rw [frameLines_lg h]

theorem frameOk_lg {W H : Nat} {b b' : Bar} (h : Lg b' = Lg b) (hF : FrameOk W H b) : FrameOk W H b' :=
  ⟨by rw [frameLines_lg h]; exact hF.unit, by rw [frameRows_lg h]; exact hF.fit, by rw [frameRows_lg h]; exact hF.head⟩

theorem draw_lg (b : Bar) (force : Bool) (now : Nat) : Lg (b.draw force now).1 = Lg b := by
  unfold Bar.draw
  cases b.target with
  | none => rfl
  | some tt => simp only []; split <;> rfl

theorem binv_target {W H : Nat} {fx : Fixes} {b b' : Bar} {t : Term} {logs frame : List (List Nat)} (h : b'.target = b.target)
    (hB : BInv W H fx b t logs frame) : BInv W H fx b' t logs frame := by
  obtain ⟨tt, h1, h2, h3⟩ := hB
  exact ⟨tt, by rw [h, h1], h2, h3⟩

/-- the common shape of the drawing operations: modify the logical state (`u`, target untouched), then `draw` -/
theorem upd_draw_binv (W H : Nat) (fx : Fixes) (hW : 0 < W) (b ub : Bar) (t : Term) (logs frame : List (List Nat))
    (hB : BInv W H fx b t logs frame) (hu : ub.target = b.target) (force : Bool) (now : Nat)
    (hF : FrameOk W H (ub.draw force now).1) :
    ((ub.draw force now).2 = [] ∧ BInv W H fx (ub.draw force now).1 t logs frame) ∨
    ((ub.draw force now).2 ≠ [] ∧ BInv W H fx (ub.draw force now).1 (t.execAll (ub.draw force now).2) logs (frameRows (ub.draw force now).1)) := by
  have hF' : FrameOk W H ub := frameOk_lg (draw_lg ub force now).symm hF
  rcases draw_binv W H fx hW ub t logs frame (binv_target hu hB) hF' force now with h | h
  · exact Or.inl h
  · right; rw [frameRows_lg (draw_lg ub force now)]; exact h

/-- a forced draw on a terminal target is never skipped -/
theorem draw_forced_ne_nil (b : Bar) (tt : TermTarget) (h : b.target = some tt) (now : Nat) : (b.draw true now).2 ≠ [] := by
  unfold Bar.draw
  simp only [h, Bool.true_or, TermTarget.drawable, if_true, Bool.not_true, Bool.false_eq_true, if_false]
  exact drawToTerm_ne_nil _ _ _ _ _

/-! ### Ordinary output between two draws (`suspend`) -/

/-- one non-empty line of ordinary output on a terminal that shows the log and no frame -/
theorem writeLine_integrity (W H : Nat) (t : Term) (logs : List (List Nat)) (l : List Nat) (hl : l ≠ [])
    (hI : Integrity W H t 0 logs []) :
    Integrity W H (t.exec (.writeLine (utext l))) 0 (logs ++ [l]) [] := by
  obtain ⟨hW, hH, _, pre, hpre, hcur⟩ := hI
  have hexec : t.exec (.writeLine (utext l)) = (t.write l).newline := by
    simp only [Term.exec, writeG_utext]
  -- a fresh terminal at `pre` on which the line is written, then a newline
  have fresh_case : ∀ u : Term, Fresh u pre → u.W = W → u.H = H →
      Integrity W H (u.write l).newline 0 (logs ++ [l]) [] := by
    intro u hf huW huH
    obtain ⟨hw, hwW, hwH, _⟩ := write_line_fresh u pre l hf
    obtain ⟨hn, _, _⟩ := newline_painted (u.write l) _ hw.painted
    have hnW := newline_W (u.write l)
    refine ⟨by rw [hnW.1, hwW, huW], by rw [hnW.2, hwH, huH], by simp [wrapAll], pre ++ wrap u.W l, ?_, .fresh hn rfl⟩
    rw [norm_append, hpre, wrapAll_append, norm_append, huW]
    simp [wrapAll, norm]
  rw [hexec]
  cases hcur with
  | fresh hf _ => exact fresh_case t hf hW hH
  | edge hp hc _ =>
    obtain ⟨g, gs, rfl⟩ : ∃ g gs, l = g :: gs := by
      cases l with
      | nil => exact absurd rfl hl
      | cons g gs => exact ⟨g, gs, rfl⟩
    rw [write_pending t g gs hp.wf.hW hc]
    obtain ⟨hn, _, _⟩ := newline_painted t pre hp
    have hnW := newline_W t
    exact fresh_case t.newline hn (by rw [hnW.1, hW]) (by rw [hnW.2, hH])

/-- the lines a closure writes, one after the other -/
theorem writeLines_integrity (W H : Nat) : ∀ (out : List (List Nat)) (t : Term) (logs : List (List Nat)),
    (∀ l ∈ out, l ≠ []) → Integrity W H t 0 logs [] →
    Integrity W H (t.execAll (out.map (fun l => TOp.writeLine (utext l)))) 0 (logs ++ out) []
  | [], t, logs, _, h => by simpa [Term.execAll] using h
  | l :: ls, t, logs, hne, h => by
    have h1 := writeLine_integrity W H t logs l (hne l (by simp)) h
    have h2 := writeLines_integrity W H ls _ _ (fun x hx => hne x (by simp [hx])) h1
    simpa [Term.execAll, List.append_assoc] using h2

/-- **`suspend`**: the frame is cleared, the closure's lines (unit-width, non-empty) are written below the log, and the forced
redraw shows the log — now with those lines — followed by the bar's rendering -/
theorem suspend_binv (W H : Nat) (fx : Fixes) (hW : 0 < W) (b : Bar) (t : Term) (logs frame : List (List Nat)) (now : Nat)
    (out : List Text) (hB : BInv W H fx b t logs frame) (hF : FrameOk W H b)
    (hu : ∀ l ∈ out, UnitT l) (hne : ∀ l ∈ out, l ≠ []) :
    (b.step now (.suspend out)).2 ≠ [] ∧
    BInv W H fx (b.step now (.suspend out)).1 (t.execAll (b.step now (.suspend out)).2) (logs ++ out.map cps)
      (frameRows (b.step now (.suspend out)).1) := by
  obtain ⟨tt, htt, hT, hI⟩ := hB
  -- the clearing draw
  have hclear := emit_integrity W H fx hW tt t logs frame hT hI [] [] (fun _ h => by cases h) (fun _ h => by cases h)
    (by simp [wrapAll]) (by simp [headNonEmpty])
  simp only [List.append_nil, List.map_nil] at hclear
  obtain ⟨hI1, hT1⟩ := hclear
  have hllc1 : (drawToTerm tt.fx { tt.ds with lines := [] } tt.W tt.H tt.llc).2 = 0 := by
    have := hI1.2.2.1; simpa [wrapAll] using this
  -- the closure's output
  have hout : out.map TOp.writeLine = (out.map cps).map (fun l => TOp.writeLine (utext l)) := by
    rw [List.map_map]
    apply List.map_congr_left
    intro l hl
    simp only [Function.comp, utext_cps l (hu l hl)]
  have hI2 := writeLines_integrity W H (out.map cps) _ logs
    (fun l hl => by
      obtain ⟨x, hx, rfl⟩ := List.mem_map.1 hl
      intro he
      have : x = [] := by cases x with
        | nil => rfl
        | cons g gs => simp [cps] at he
      exact hne x hx this)
    (by rw [hllc1] at hI1; exact hI1)
  -- the forced redraw
  let ds1 : DrawState := ({ tt.ds with lines := [] } : DrawState).after tt.fx tt.W tt.H tt.llc
  let n1 : Nat := (drawToTerm tt.fx { tt.ds with lines := [] } tt.W tt.H tt.llc).2
  let b1 : Bar := { b with target := some { tt with ds := ds1, llc := n1 } }
  have hlg1 : Lg b1 = Lg b := rfl
  have hB1 : BInv W H fx b1 ((t.execAll (drawToTerm tt.fx { tt.ds with lines := [] } tt.W tt.H tt.llc).1).execAll (out.map TOp.writeLine))
      (logs ++ out.map cps) [] :=
    ⟨_, rfl, hT1, by rw [hout]; show Integrity W H _ (drawToTerm tt.fx { tt.ds with lines := [] } tt.W tt.H tt.llc).2 _ _; rw [hllc1]; exact hI2⟩
  have hd := draw_binv W H fx hW b1 _ _ _ hB1 (frameOk_lg hlg1 hF) true now
  have hne1 := draw_forced_ne_nil b1 _ rfl now
  have hstep : b.step now (.suspend out) =
      ((b1.draw true now).1, (drawToTerm tt.fx { tt.ds with lines := [] } tt.W tt.H tt.llc).1 ++ out.map TOp.writeLine ++ (b1.draw true now).2) := by
    simp only [Bar.step, htt]
    rfl
  rcases hd with h | h
  · exact absurd h.1 hne1
  · rw [hstep]
    refine ⟨by simp [hne1], ?_⟩
    simp only [execAll_append]
    rw [frameRows_lg ((draw_lg b1 true now).trans hlg1)]
    rw [← frameRows_lg hlg1]
    exact h.2

/-- the lines an operation prints above the bar -/
def printedBy : BarOp → List (List Nat)
  | .println t => (toLines t).map (fun l => cps l.gs)
  | .suspend out => out.map cps
  | _ => []

/-- side conditions of one operation: the frame of the state it leaves can be drawn inside the theorem's scope, printed text is
unit-width with a non-empty first line; the lines a `suspend` closure writes are unit-width and non-empty (an empty line written
while the cursor is parked in the last column is finding F30) -/
def OpOk (W H : Nat) (b : Bar) (now : Nat) (op : BarOp) : Prop :=
  FrameOk W H (b.step now op).1 ∧
  (match op with
   | .println t => (∀ l ∈ toLines t, UnitT l.gs) ∧ firstNonEmpty ((toLines t).map (fun l => cps l.gs))
   | .suspend out => (∀ l ∈ out, UnitT l) ∧ (∀ l ∈ out, l ≠ [])
   | _ => True)

theorem toLines_kind (t : Text) : ∀ l ∈ toLines t, l.kind ≠ .bar := by
  intro l hl
  by_cases h : splitLines t = []
  · simp only [toLines, h, if_true, List.mem_singleton] at hl; subst hl; intro hk; cases hk
  · simp only [toLines, h, if_false, List.mem_map] at hl; obtain ⟨_, _, rfl⟩ := hl; intro hk; cases hk

/-- the logical state `finish_using_style(f)` leaves, before its (forced) draw -/
def finBar (b : Bar) (f : Finish) : Bar :=
  let b := { b with status := .doneVisible }
  let toLen (b : Bar) : Bar := match b.len with | some l => { b with pos := l } | none => b
  match f with
    | .andLeave => toLen b
    | .withMessage m => { toLen b with msg := m }
    | .andClear => { toLen b with status := .doneHidden }
    | .abandon => b
    | .abandonWithMessage m => { b with msg := m }

theorem finishUsing_finBar (b : Bar) (now : Nat) (f : Finish) : b.finishUsing now f = (finBar b f).draw true now := by
  unfold Bar.finishUsing finBar; cases f <;> rfl

theorem finBar_target (b : Bar) (f : Finish) : (finBar b f).target = b.target := by
  unfold finBar
  cases f <;> simp only [] <;> (try split) <;> rfl

theorem finishUsing_eq (b : Bar) (now : Nat) (f : Finish) :
    ∃ ub : Bar, ub.target = b.target ∧ b.finishUsing now f = ub.draw true now :=
  ⟨finBar b f, finBar_target b f, finishUsing_finBar b now f⟩

theorem posAllow_target (b : Bar) (now : Nat) : (b.posAllow now).2.target = b.target := by
  unfold Bar.posAllow; split <;> rfl

/-- **one bar operation**: it makes no terminal call and leaves the screen as it is (hidden by the
limiter or the position gate), or it completes one draw after which the terminal shows the log — extended by what the
operation printed — followed by the rendering of the state the operation leaves -/
theorem step_binv (W H : Nat) (fx : Fixes) (hW : 0 < W) (b : Bar) (t : Term) (logs frame : List (List Nat)) (now : Nat) (op : BarOp)
    (hB : BInv W H fx b t logs frame) (hok : OpOk W H b now op) :
    ((b.step now op).2 = [] ∧ BInv W H fx (b.step now op).1 t logs frame) ∨
    ((b.step now op).2 ≠ [] ∧
      BInv W H fx (b.step now op).1 (t.execAll (b.step now op).2) (logs ++ printedBy op) (frameRows (b.step now op).1)) := by
  obtain ⟨hF, hx⟩ := hok
  have gen : ∀ (ub : Bar) (force : Bool), b.step now op = ub.draw force now → ub.target = b.target → printedBy op = [] →
      ((b.step now op).2 = [] ∧ BInv W H fx (b.step now op).1 t logs frame) ∨
      ((b.step now op).2 ≠ [] ∧
        BInv W H fx (b.step now op).1 (t.execAll (b.step now op).2) (logs ++ printedBy op) (frameRows (b.step now op).1)) := by
    intro ub force he hu hp
    rw [hp, List.append_nil, he]
    exact upd_draw_binv W H fx hW b ub t logs frame hB hu force now (by rw [← he]; exact hF)
  have gate : ∀ (ub : Bar), b.step now op = ub.afterPosChange now → ub.target = b.target → printedBy op = [] →
      ((b.step now op).2 = [] ∧ BInv W H fx (b.step now op).1 t logs frame) ∨
      ((b.step now op).2 ≠ [] ∧
        BInv W H fx (b.step now op).1 (t.execAll (b.step now op).2) (logs ++ printedBy op) (frameRows (b.step now op).1)) := by
    intro ub he hu hp
    have hpt := posAllow_target ub now
    by_cases hok : (ub.posAllow now).1 = true
    · have e2 : ub.afterPosChange now = ({ (ub.posAllow now).2 with tick := if (ub.posAllow now).2.tick + 1 < U64 then (ub.posAllow now).2.tick + 1 else (ub.posAllow now).2.tick }).draw false now := by
        unfold Bar.afterPosChange Bar.tickInner; simp only [hok, if_true]
      exact gen _ false (he.trans e2) (by show (ub.posAllow now).2.target = b.target; rw [hpt, hu]) hp
    · have e2 : ub.afterPosChange now = ((ub.posAllow now).2, []) := by
        unfold Bar.afterPosChange
        have : (ub.posAllow now).1 = false := by simpa using hok
        simp only [this, Bool.false_eq_true, if_false]
      left
      rw [he, e2]
      exact ⟨rfl, binv_target (by show (ub.posAllow now).2.target = b.target; rw [hpt, hu]) hB⟩
  cases op with
  | adv dt => left; exact ⟨rfl, hB⟩
  | tick => exact gen _ false rfl rfl rfl
  | inc d => exact gate _ rfl rfl rfl
  | dec d => exact gate _ rfl rfl rfl
  | setPos p => exact gate _ rfl rfl rfl
  | setMsg m => exact gen _ false rfl rfl rfl
  | setPrefix m => exact gen _ false rfl rfl rfl
  | setLen l => exact gen _ false rfl rfl rfl
  | unsetLen => exact gen _ false rfl rfl rfl
  | reset => exact gen _ false rfl rfl rfl
  | finish f => obtain ⟨ub, hu, he⟩ := finishUsing_eq b now f; exact gen ub true he hu rfl
  | finishUsingStyle => obtain ⟨ub, hu, he⟩ := finishUsing_eq b now b.onFinish; exact gen ub true he hu rfl
  | drop =>
    by_cases hfin : b.finished = true
    · left
      have : b.step now .drop = (b, []) := by simp only [Bar.step, hfin, if_true]
      rw [this]; exact ⟨rfl, hB⟩
    · obtain ⟨ub, hu, he⟩ := finishUsing_eq b now b.onFinish
      have : b.step now .drop = ub.draw true now := by simp only [Bar.step, hfin, if_false]; exact he
      exact gen ub true this hu rfl
  | suspend out =>
    right
    have hlg : Lg (b.step now (.suspend out)).1 = Lg b := by
      obtain ⟨tt, htt, _, _⟩ := hB
      simp only [Bar.step, htt]
      exact draw_lg _ true now
    exact suspend_binv W H fx hW b t logs frame now out hB (frameOk_lg hlg.symm hF) hx.1 hx.2
  | println txt =>
    right
    obtain ⟨tt, htt, hT, hI⟩ := hB
    have hlg : Lg (b.step now (.println txt)).1 = Lg b := by simp only [Bar.step, htt]; rfl
    have hFb : FrameOk W H b := frameOk_lg hlg.symm hF
    have h := emit_frame W H fx hW b tt t logs frame hT hI hFb (toLines txt) (toLines_kind txt) hx.1 hx.2
    rw [frameRows_lg hlg]
    simp only [Bar.step, htt]
    simp only [frameLines] at h
    exact ⟨drawToTerm_ne_nil _ _ _ _ _, _, rfl, h.2, h.1⟩

/-- **finishing always paints**: whatever the limiter and the position gate say, a `finish*` / `abandon*` /
`finish_using_style` call on a bar with a terminal target completes a draw, after which the terminal shows the log followed
by the rendering of the final state -/
theorem finish_binv (W H : Nat) (fx : Fixes) (hW : 0 < W) (b : Bar) (t : Term) (logs frame : List (List Nat)) (now : Nat) (f : Finish)
    (hB : BInv W H fx b t logs frame) (hF : FrameOk W H (b.finishUsing now f).1) :
    (b.finishUsing now f).2 ≠ [] ∧
    BInv W H fx (b.finishUsing now f).1 (t.execAll (b.finishUsing now f).2) logs (frameRows (b.finishUsing now f).1) := by
  obtain ⟨tt, htt, _, _⟩ := hB
  rw [finishUsing_finBar] at hF ⊢
  have hne := draw_forced_ne_nil (finBar b f) tt (by rw [finBar_target, htt]) now
  rcases upd_draw_binv W H fx hW b (finBar b f) t logs frame ⟨tt, htt, by assumption, by assumption⟩ (finBar_target b f) true now hF with h | h
  · exact absurd h.1 hne
  · exact h

instance (l : List (List Nat)) : Decidable (firstNonEmpty l) := by
  cases l with
  | nil => exact isTrue trivial
  | cons x xs => unfold firstNonEmpty; exact inferInstance

instance (t : Text) : Decidable (UnitT t) := by unfold UnitT; exact inferInstance

/-- the rows of a frame, computed by the arithmetic the code uses (for concrete instances) -/
theorem wrapAll_len (W : Nat) (hW : 0 < W) (rows : List (List Nat)) :
    (wrapAll W rows).length = (rows.map (fun cs => wrappedHeight W (mkLine .bar cs))).sum := by
  induction rows with
  | nil => simp [wrapAll]
  | cons r rs ih =>
    simp only [wrapAll, List.flatMap_cons, List.length_append, List.map_cons, List.sum_cons] at ih ⊢
    rw [ih, wrappedHeight_eq W hW]

end IndicatifModel
