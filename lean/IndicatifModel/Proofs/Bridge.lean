import IndicatifModel.Proofs.Seq
/-!
Bridge between the executable `drawToTerm` of `Model/DrawTarget.lean` and the proof-side
`drawOps` of `Proofs/Draw.lean`: for unit-width text, top alignment, `move_cursor = false` and
bars that fit the terminal height they produce the same terminal calls and the same line count.
-/
namespace IndicatifModel
open Term

def mkLine (k : LineKind) (cs : List Nat) : Line := { kind := k, gs := utext cs }

theorem utext_cols (cs : List Nat) : (utext cs).cols = cs.length := by
  induction cs with
  | nil => rfl
  | cons c cs ih =>
    simp only [utext, Text.cols, List.map_cons, List.sum_cons, List.length_cons] at ih ⊢
    omega

theorem mkLine_cols (k : LineKind) (cs : List Nat) : (mkLine k cs).cols = cs.length := utext_cols cs

/-- single-width glyphs never wrap early: no padding -/
theorem utext_padStep (W : Nat) : ∀ (cs : List Nat) (acc : Nat × Nat), ((utext cs).foldl (Text.padStep W) acc).2 = acc.2 := by
  intro cs
  induction cs with
  | nil => intro acc; rfl
  | cons c cs ih =>
    intro acc
    simp only [utext, List.map_cons, List.foldl_cons]
    have hstep : (Text.padStep W acc { cp := c, w := 1 }).2 = acc.2 := by
      unfold Text.padStep
      simp only []
      split
      · rfl
      · split
        · rename_i h1 h2
          exfalso
          have hW : ¬ (1 > W) := fun h => h1 (Or.inr h)
          have : acc.1 % W < W := Nat.mod_lt _ (by omega)
          omega
        · rfl
    have := ih (Text.padStep W acc { cp := c, w := 1 })
    simp only [utext] at this
    rw [this, hstep]

theorem mkLine_padded (W : Nat) (k : LineKind) (cs : List Nat) : (mkLine k cs).padded W = cs.length := by
  unfold Line.padded Text.padded
  show (utext cs).cols + ((utext cs).foldl (Text.padStep W) (0, 0)).2 = cs.length
  rw [utext_padStep, utext_cols]
  rfl

theorem wrap_last_pos (W : Nat) (hW : 0 < W) : ∀ (n : Nat) (cs : List Nat), cs.length = n → cs ≠ [] →
    0 < ((wrap W cs).getLast?.getD []).length := by
  intro n
  induction n using Nat.strongRecOn with
  | _ n ih =>
    intro cs hn hne
    by_cases hfit : cs.length ≤ W
    · rw [wrap_fits hfit]
      simp only [List.getLast?_singleton, Option.getD_some]
      exact List.length_pos_iff.2 hne
    · have hlong : W < cs.length := by omega
      have hlt : (cs.drop W).length < n := by simp [List.length_drop]; omega
      have hdne : cs.drop W ≠ [] := by
        intro h; have := congrArg List.length h; simp at this; omega
      rw [wrap_long hW hlong, List.getLast?_cons_of_ne_nil (wrap_ne_nil _ _)]
      exact ih _ hlt (cs.drop W) rfl hdne

/-- `wrapped_height` is the number of rows `wrap` produces -/
theorem wrappedHeight_eq (W : Nat) (hW : 0 < W) (k : LineKind) (cs : List Nat) :
    wrappedHeight W (mkLine k cs) = (wrap W cs).length := by
  obtain ⟨k', h1, h2, h3⟩ := wrap_arith W hW cs.length cs rfl
  unfold wrappedHeight
  rw [mkLine_padded, h1]
  by_cases h0 : cs.length = 0
  · have hk : k' = 0 := by
      cases k' with
      | zero => rfl
      | succ j =>
        have : 0 < (j + 1) * W := Nat.mul_pos (by omega) hW
        omega
    subst hk
    rw [h0]
    have : (0 + W - 1) / W = 0 := Nat.div_eq_of_lt (by omega)
    rw [this]; rfl
  · -- cs.length = last + k' * W with 0 < last ≤ W
    have hlast : 0 < ((wrap W cs).getLast?.getD []).length := by
      apply Nat.pos_of_ne_zero
      intro hz
      -- if the last chunk were empty the text would be empty
      rw [hz] at h2
      have hne : cs ≠ [] := by intro h; rw [h] at h0; exact h0 rfl
      have := wrap_last_pos W hW cs.length cs rfl hne
      omega
    have hdiv : (cs.length + W - 1) / W = k' + 1 := by
      have e : cs.length + W - 1 = (((wrap W cs).getLast?.getD []).length - 1) + (k' + 1) * W := by
        rw [Nat.succ_mul]; omega
      rw [e, Nat.add_mul_div_right _ _ hW, Nat.div_eq_of_lt (by omega)]
      omega
    rw [hdiv]; omega


abbrev Item := LineKind × List Nat
def Item.line (p : Item) : Line := mkLine p.1 p.2

/-- rows needed by the bar lines among `items` -/
def barRows (W : Nat) : List Item → Nat
  | [] => 0
  | p :: ps => (if p.1 = .bar then (wrap W p.2).length else 0) + barRows W ps

theorem utext_replicate (k : Nat) : utext (List.replicate k 32) = List.replicate k space := by
  simp [utext, space]

/-- the calls `paintLoop` makes when nothing is cut off -/
def opsFrom (W total : Nat) : Nat → List Item → List TOp
  | _, [] => []
  | idx, p :: ps =>
    (if idx ≠ 0 then [TOp.writeLine []] else []) ++ [TOp.writeStr (utext p.2)] ++
    (if idx + 1 = total then [TOp.writeStr (utext (List.replicate (fillerLen W p.2) 32))] else []) ++
    opsFrom W total (idx + 1) ps

theorem isBar_mkLine_bar (cs : List Nat) : (mkLine .bar cs).isBar = true := rfl
theorem isBar_mkLine_other (k : LineKind) (cs : List Nat) (h : k ≠ .bar) : (mkLine k cs).isBar = false := by
  cases k <;> simp_all [mkLine, Line.isBar]

/-- first line non-empty (the case in which the F4 repair changes nothing) -/
def headNonEmpty : List Item → Prop
  | [] => True
  | p :: _ => p.2 ≠ []

/-- inline filler placement (`f23 = false`) or none (`f23 = true`, the filler comes after the loop) -/
def opsFromF (f23 : Bool) (W total : Nat) : Nat → List Item → List TOp
  | _, [] => []
  | idx, p :: ps =>
    (if idx ≠ 0 then [TOp.writeLine []] else []) ++ [TOp.writeStr (utext p.2)] ++
    (if !f23 && idx + 1 == total then [TOp.writeStr (utext (List.replicate (fillerLen W p.2) 32))] else []) ++
    opsFromF f23 W total (idx + 1) ps

/-- what `paintLoop` reports about the last line written when nothing is cut off -/
def lastOf (W : Nat) : Nat → List Item → Option (Nat × Nat)
  | _, [] => none
  | idx, p :: ps => match lastOf W (idx + 1) ps with
    | some x => some x
    | none => some (idx + 1, fillerLen W p.2)

theorem paintLoop_fit (fx : Fixes) (W H total : Nat) (nc up : Bool) (hW : 0 < W) : ∀ (items : List Item) (idx real : Nat),
    real + barRows W items ≤ H → (idx = 0 → headNonEmpty items ∧ up = false) →
    paintLoop fx W H total nc up idx real (items.map Item.line) =
      (opsFromF fx.f23 W total idx items, real + barRows W items, lastOf W idx items) := by
  intro items
  induction items with
  | nil => intro idx real _ _; simp [paintLoop, opsFromF, barRows, lastOf]
  | cons p ps ih =>
    intro idx real hfit hhead
    obtain ⟨k, cs⟩ := p
    have hblank : (fx.f4 && idx == 0 && nc && cs.length == 0 && decide (total > 1)) = false := by
      by_cases h0 : idx = 0
      · have hne : cs ≠ [] := (hhead h0).1
        have : ¬ (cs.length = 0) := by
          intro h; exact hne (List.eq_nil_of_length_eq_zero h)
        simp [this]
      · simp [h0]
    have hpark : (fx.fpark && nc && up) = false ∨ idx ≠ 0 := by
      by_cases h0 : idx = 0
      · left; rw [(hhead h0).2]; simp
      · right; exact h0
    have hpre : (if idx ≠ 0 then [TOp.writeLine []] else if (fx.fpark && nc && up) = true then [TOp.writeLine []] else []) =
        (if idx ≠ 0 then [TOp.writeLine []] else []) := by
      rcases hpark with h | h
      · rw [h]; simp
      · simp [h]
    simp only [List.map_cons, paintLoop, Item.line, wrappedHeight_eq W hW, mkLine_cols, mkLine_padded]
    simp only [hblank, hpre, Bool.false_eq_true, if_false, List.append_nil]
    simp only [barRows] at hfit
    by_cases hb : k = .bar
    · subst hb
      simp only [if_true] at hfit
      have hno : ¬ (real + (wrap W cs).length > H) := by omega
      simp only [isBar_mkLine_bar, Bool.true_and, hno, decide_false, Bool.false_eq_true, if_false, if_true]
      rw [ih (idx + 1) (real + (wrap W cs).length) (by omega) (by intro h; omega)]
      simp only [opsFromF, barRows, if_true, mkLine, fillerLen, utext_replicate, Nat.add_assoc, lastOf]
      try rfl
    · simp only [hb, if_false, Nat.zero_add] at hfit
      simp only [isBar_mkLine_other k cs hb, Bool.false_and, Bool.false_eq_true, if_false]
      rw [ih (idx + 1) real hfit (by intro h; omega)]
      simp only [opsFromF, barRows, hb, if_false, Nat.zero_add, mkLine, fillerLen, utext_replicate, lastOf]
      try rfl

def fillerOp (W : Nat) (cs : List Nat) : TOp := .writeStr (utext (List.replicate (fillerLen W cs) 32))

theorem lastOf_snoc (W : Nat) : ∀ (items : List Item) (idx : Nat) (last : Item),
    lastOf W idx (items ++ [last]) = some (idx + (items ++ [last]).length, fillerLen W last.2) := by
  intro items
  induction items with
  | nil => intro idx last; simp [lastOf]
  | cons p ps ih =>
    intro idx last
    simp only [List.cons_append, lastOf, ih (idx + 1) last, List.length_cons, List.length_append, List.length_nil]
    congr 2; omega

/-- with the filler after the loop the calls are just the lines -/
theorem opsFromF_true_rest (W total : Nat) : ∀ (items : List Item) (idx : Nat), 0 < idx →
    opsFromF true W total idx items = paintRest (items.map (·.2)) := by
  intro items
  induction items with
  | nil => intro idx _; simp [opsFromF, paintRest]
  | cons p ps ih =>
    intro idx hidx
    have h1 : idx ≠ 0 := by omega
    simp [opsFromF, paintRest, h1, ih (idx + 1) (by omega)]

theorem opsFromF_true_zero (W total : Nat) (items : List Item) :
    opsFromF true W total 0 items = paintLines (items.map (·.2)) := by
  cases items with
  | nil => simp [opsFromF, paintLines]
  | cons p ps => simp [opsFromF, paintLines, opsFromF_true_rest W total ps 1 (by omega)]

theorem opsFromF_false_rest (W : Nat) : ∀ (items : List Item) (idx : Nat) (last : Item), 0 < idx →
    opsFromF false W (idx + (items ++ [last]).length) idx (items ++ [last]) =
      paintRest ((items ++ [last]).map (·.2)) ++ [fillerOp W last.2] := by
  intro items
  induction items with
  | nil =>
    intro idx last hidx
    have h1 : idx ≠ 0 := by omega
    simp [opsFromF, paintRest, fillerOp, h1]
  | cons p ps ih =>
    intro idx last hidx
    have h1 : idx ≠ 0 := by omega
    have hlen : idx + ((p :: ps) ++ [last]).length = (idx + 1) + (ps ++ [last]).length := by
      simp only [List.cons_append, List.length_cons]; omega
    have h2 : (idx + 1 == idx + (p :: (ps ++ [last])).length) = false := by simp
    simp only [List.cons_append, opsFromF, h1, ne_eq, not_false_eq_true, if_true, List.map_cons, paintRest,
      Bool.not_false, Bool.true_and, h2, Bool.false_eq_true, if_false, List.append_nil]
    have := ih (idx + 1) last (by omega)
    rw [← hlen] at this
    simp only [List.cons_append] at this
    rw [this]
    simp [List.append_assoc]

theorem opsFromF_false_zero (W : Nat) (items : List Item) (last : Item) :
    opsFromF false W (items ++ [last]).length 0 (items ++ [last]) =
      paintLines ((items ++ [last]).map (·.2)) ++ [fillerOp W last.2] := by
  cases items with
  | nil => simp [opsFromF, paintLines, paintRest, fillerOp]
  | cons p ps =>
    have h2 : (0 + 1 == (p :: (ps ++ [last])).length) = false := by simp
    simp only [List.cons_append, opsFromF, ne_eq, not_true_eq_false, if_false, List.nil_append, List.map_cons, paintLines,
      Bool.not_false, Bool.true_and, h2, Bool.false_eq_true, List.append_nil]
    have := opsFromF_false_rest W ps 1 last (by omega)
    have hlen : (p :: (ps ++ [last])).length = 1 + (ps ++ [last]).length := by simp; omega
    rw [hlen, this]

theorem visual_items (W : Nat) (hW : 0 < W) (items : List Item) :
    visualLineCount W (items.map Item.line) = (wrapAll W (items.map (·.2))).length := by
  induction items with
  | nil => simp [visualLineCount, wrapAll]
  | cons p ps ih =>
    simp only [visualLineCount, List.map_cons, List.sum_cons, Item.line, wrappedHeight_eq W hW] at ih ⊢
    simp only [wrapAll, List.flatMap_cons, List.length_append] at ih ⊢
    omega

/-- **Bridge.** With top alignment, `move_cursor = false`, unit-width text, bars that fit and a
non-empty first line, the executable `drawToTerm` — of the pinned code or with any of the repairs —
makes exactly the calls `drawOps` and returns the rows of the bar lines. -/
theorem drawToTerm_fit (fx : Fixes) (W H n : Nat) (hW : 0 < W) (items : List Item) (ds : DrawState)
    (hlines : ds.lines = items.map Item.line) (hmc : ds.moveCursor = false) (hal : ds.alignment = .top)
    (hfit : barRows W items ≤ H) (hhead : headNonEmpty items) (hup : ds.unparked = false) :
    drawToTerm fx ds W H n = (drawOps W n (items.map (·.2)), barRows W items) := by
  unfold drawToTerm
  have hne : ¬ (Alignment.top = Alignment.bottom) := by intro h; cases h
  simp only [hmc, hal, Bool.false_eq_true, and_false, if_false, hne, false_and, List.replicate_zero,
    List.append_nil, Nat.add_zero, hlines, List.length_map]
  rw [paintLoop_fit fx W H items.length (n == 0) ds.unparked hW items 0 0 (by omega) (fun _ => ⟨hhead, hup⟩)]
  simp only [Nat.zero_add, drawOps, Bool.and_eq_true, ite_self]
  cases hitems : items.reverse with
  | nil =>
    have : items = [] := by simpa using hitems
    subst this
    cases fx.f23 <;> simp [opsFromF, paintOps, lastOf, barRows]
  | cons last rinit =>
    have : items = rinit.reverse ++ [last] := by
      have := congrArg List.reverse hitems
      simpa using this
    subst this
    have hlast : ((rinit.reverse ++ [last]).map (·.2)).getLast? = some last.2 := by simp
    cases hf : fx.f23 with
    | false =>
      simp only [hf, Bool.false_eq_true, if_false, List.append_nil]
      rw [opsFromF_false_zero]
      simp only [paintOps, hlast, fillerOp, List.append_assoc]
    | true =>
      simp only [hf, if_true]
      rw [opsFromF_true_zero, lastOf_snoc]
      simp only [Nat.zero_add, beq_self_eq_true, Bool.true_or, if_true, paintOps, hlast, utext_replicate, List.append_assoc]

/-- a frame that fits leaves the cursor parked: the `cursor_unparked` flag of the F33 repair stays
`false` along every history of fitting frames (which is why `drawToTerm_fit` may assume it) -/
theorem unparkedAfter_fit (fx : Fixes) (W H n : Nat) (hW : 0 < W) (items : List Item) (ds : DrawState)
    (hlines : ds.lines = items.map Item.line) (hal : ds.alignment = .top)
    (hfit : barRows W items ≤ H) (hhead : headNonEmpty items) (hup : ds.unparked = false) :
    unparkedAfter fx ds W H n = false := by
  unfold unparkedAfter
  cases hfp : fx.fpark with
  | false => simpa using hup
  | true =>
    simp only [Bool.not_true, Bool.false_eq_true, if_false, hlines, List.length_map]
    rw [paintLoop_fit fx W H items.length (n == 0) ds.unparked hW items 0 0 (by omega) (fun _ => ⟨hhead, hup⟩)]
    cases hitems : items.reverse with
    | nil =>
      have : items = [] := by simpa using hitems
      subst this
      simp [lastOf, hup]
    | cons last rinit =>
      have : items = rinit.reverse ++ [last] := by
        have := congrArg List.reverse hitems
        simpa using this
      subst this
      rw [lastOf_snoc]
      simp

end IndicatifModel
