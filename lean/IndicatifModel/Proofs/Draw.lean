import IndicatifModel.Proofs.Term
import IndicatifModel.Model.DrawTarget
/-! Lemmas about `draw_to_term` on the terminal model (unit-width glyphs, top alignment, frames fitting). -/
namespace IndicatifModel
open Term

/-- unit-width text from code points -/
def utext (cs : List Nat) : Text := cs.map (fun c => { cp := c, w := 1 })

theorem writeG_utext (t : Term) (cs : List Nat) : t.writeG (utext cs) = t.write cs := by
  simp only [Term.writeG, Term.write, utext, List.foldl_map]
  rfl

theorem writeG_nil (t : Term) : t.writeG [] = t := rfl

theorem exec_writeStr (t : Term) (cs : List Nat) : t.exec (.writeStr (utext cs)) = t.write cs := by
  simp [Term.exec, writeG_utext]

theorem exec_writeLine_nil (t : Term) : t.exec (.writeLine []) = t.newline := by
  simp [Term.exec, Term.writeG]

/-- set rows a .. a+k-1 to blank -/
def blankRange (rows : List Row) (a : Nat) : Nat → List Row
  | 0 => rows
  | k + 1 => blankRange (rows.set a []) (a + 1) k

theorem execAll_cons (t : Term) (o : TOp) (os : List TOp) : t.execAll (o :: os) = (t.exec o).execAll os := rfl
theorem execAll_append (t : Term) (xs ys : List TOp) : t.execAll (xs ++ ys) = (t.execAll xs).execAll ys := by
  simp [Term.execAll, List.foldl_append]

theorem clearLoop_spec : ∀ (k : Nat) (t : Term), WF t → t.a + k < t.top + t.H →
    t.execAll (clearLoop (k + 1)) =
      { t with rows := blankRange t.rows t.a (k + 1), a := t.a + k, c := 0 } := by
  intro k
  induction k with
  | zero =>
    intro t _ _
    simp [clearLoop, Term.execAll, Term.exec, Term.clearLine, blankRange]
  | succ k ih =>
    intro t hwf hlt
    have hstep : t.execAll (clearLoop (k + 2)) = ((t.clearLine).down 1).execAll (clearLoop (k + 1)) := by
      simp [clearLoop, Term.execAll, Term.exec]
    have hd : (t.clearLine).down 1 = { t with rows := t.rows.set t.a [], a := t.a + 1, c := 0 } := by
      simp only [Term.clearLine, Term.down]
      have : min (t.a + 1) (t.top + t.H - 1) = t.a + 1 := by omega
      rw [this]
    rw [hstep, hd]
    have hwf' : WF ({ t with rows := t.rows.set t.a [], a := t.a + 1, c := 0 } : Term) :=
      ⟨hwf.hW, hwf.hH, by simp [hwf.hlen], by have := hwf.hlo; simp; omega, by simp; omega⟩
    rw [ih _ hwf' (by simp; omega)]
    simp [blankRange, Nat.add_assoc, Nat.add_comm 1]

theorem blankRange_mid : ∀ (R A B : List Row),
    blankRange (A ++ R ++ B) A.length R.length = A ++ List.replicate R.length [] ++ B := by
  intro R
  induction R with
  | nil => intro A B; simp [blankRange]
  | cons r R ih =>
    intro A B
    simp only [List.length_cons, blankRange]
    have hset : (A ++ r :: R ++ B).set A.length [] = (A ++ [[]]) ++ R ++ B := by
      rw [List.append_assoc, List.set_append_right _ _ (Nat.le_refl _)]
      simp
    rw [hset]
    have := ih (A ++ [[]]) B
    simp only [List.length_append, List.length_singleton] at this
    rw [this]
    simp [List.replicate_succ, List.append_assoc]

/-- terminal after a completed paint: `pre` are all rows down to the cursor row, the rest is blank -/
structure Painted (t : Term) (pre : List Row) : Prop where
  wf : WF t
  hrows : t.rows = pre ++ List.replicate (t.top + t.H - pre.length) []
  hne : pre ≠ []
  ha : t.a + 1 = pre.length

/-- clearing the bottom `n` rows of a painted terminal gives a fresh terminal -/
theorem clear_painted (t : Term) (pre : List Row) (n : Nat) (hp : Painted t pre)
    (hn : 0 < n) (hle : n ≤ pre.length) (hreach : n ≤ t.a - t.top + 1) :
    Fresh (t.execAll (clearOps n)) (pre.take (pre.length - n)) := by
  have hwf := hp.wf
  have ha := hp.ha
  have hlo := hwf.hlo
  have hhi := hwf.hhi
  obtain ⟨k, rfl⟩ : ∃ k, n = k + 1 := ⟨n - 1, by omega⟩
  simp only [clearOps, Nat.add_sub_cancel, execAll_cons, execAll_append]
  -- first move up
  have hup : t.exec (.up k) = { t with a := t.a - k } := by
    simp only [Term.exec, Term.up]
    have : min k (t.a - t.top) = k := by omega
    rw [this]
  rw [hup]
  have hwf1 : WF ({ t with a := t.a - k } : Term) :=
    ⟨hwf.hW, hwf.hH, hwf.hlen, by simp; omega, by simp; omega⟩
  rw [clearLoop_spec k _ hwf1 (by simp; omega)]
  simp only [Term.execAll, List.foldl_cons, List.foldl_nil, Term.exec, Term.up]
  have hmin : min k (t.a - k + k - t.top) = k := by omega
  simp only [hmin]
  -- rows
  have hsplit : pre = pre.take (pre.length - (k+1)) ++ pre.drop (pre.length - (k+1)) := (List.take_append_drop _ _).symm
  have hlA : (pre.take (pre.length - (k+1))).length = pre.length - (k+1) := by simp [List.length_take]
  have hlR : (pre.drop (pre.length - (k+1))).length = k + 1 := by simp [List.length_drop]; omega
  have hrows : blankRange t.rows (t.a - k) (k + 1) =
      pre.take (pre.length - (k+1)) ++ List.replicate (k + 1) [] ++ List.replicate (t.top + t.H - pre.length) [] := by
    have h1 : t.a - k = (pre.take (pre.length - (k+1))).length := by rw [hlA]; omega
    rw [hp.hrows, h1]
    conv => lhs; rw [hsplit]
    have := blankRange_mid (pre.drop (pre.length - (k+1))) (pre.take (pre.length - (k+1))) (List.replicate (t.top + t.H - pre.length) [])
    rw [hlR] at this
    simpa [List.append_assoc, List.take_append_drop] using this
  refine ⟨⟨hwf.hW, hwf.hH, ?_, ?_, ?_⟩, ?_, ?_, rfl⟩
  · simp [hrows, hlA]; omega
  · simp; omega
  · simp; omega
  · simp only [hrows, hlA]
    rw [List.append_assoc, List.replicate_append_replicate]
    congr 2
    omega
  · simp [hlA]; omega


/-- a painted terminal whose column is the length of its last row -/
structure Written (t : Term) (P : List Row) : Prop where
  painted : Painted t P
  hc : t.c = (P.getLast?.getD []).length

theorem wrap_ne_nil (W : Nat) (gs : List Nat) : wrap W gs ≠ [] := by
  intro h; have := wrap_length_pos W gs; rw [h] at this; simp at this

theorem wrap_nil (W : Nat) : wrap W [] = [[]] := by
  unfold wrap; split <;> simp

/-- L1: writing a line on a fresh terminal -/
theorem write_line_fresh (t : Term) (pre : List Row) (gs : List Nat) (hf : Fresh t pre) :
    Written (t.write gs) (pre ++ wrap t.W gs) ∧ (t.write gs).W = t.W ∧ (t.write gs).H = t.H ∧
    (t.write gs).top = max t.top ((t.write gs).a + 1 - t.H) := by
  by_cases hgs : gs = []
  · subst hgs
    have hhi := hf.wf.hhi
    have ha := hf.ha
    simp only [Term.write, List.foldl_nil, wrap_nil]
    refine ⟨⟨⟨hf.wf, ?_, by simp, by simp [ha]⟩, by simp [hf.hc]⟩, trivial, trivial, by omega⟩
    rw [hf.hrows]
    have : t.top + t.H - pre.length = (t.top + t.H - (pre ++ [[]]).length) + 1 := by simp; omega
    rw [this, List.replicate_succ]
    simp
  · have h := write_fresh gs.length gs t pre rfl hgs hf
    simp only at h
    obtain ⟨h1, h2, h3, h4, h5, h6, h7, h8, h9⟩ := h
    have hk := wrap_length_pos t.W gs
    refine ⟨⟨⟨h4, ?_, by simp [wrap_ne_nil], ?_⟩, ?_⟩, h5, h6, h9⟩
    · rw [h1]; simp [List.append_assoc]
    · rw [h2]; simp; omega
    · rw [h3, List.getLast?_append]
      cases hl : (wrap t.W gs).getLast? with
      | none => exact absurd (List.getLast?_eq_none_iff.1 hl) (wrap_ne_nil _ _)
      | some r => simp

/-- L2: newline on a painted terminal gives a fresh terminal below it -/
theorem newline_painted (t : Term) (P : List Row) (hp : Painted t P) :
    Fresh t.newline P ∧ t.newline.top = max t.top (t.newline.a + 1 - t.H) ∧ t.newline.a = t.a + 1 := by
  have hwf := hp.wf
  have hlo := hwf.hlo
  have hhi := hwf.hhi
  have ha := hp.ha
  have hlen := hwf.hlen
  unfold Term.newline Term.lf
  simp only []
  split
  · rename_i heq
    refine ⟨⟨⟨hwf.hW, hwf.hH, ?_, ?_, ?_⟩, ?_, ?_, rfl⟩, ?_, rfl⟩
    · simp [hlen]; omega
    · simp; omega
    · simp; omega
    · simp only [hp.hrows]
      have h1 : t.top + t.H - P.length = 0 := by omega
      have h2 : t.top + 1 + t.H - P.length = 1 := by omega
      rw [h1, h2]; simp
    · simp; omega
    · simp; omega
  · rename_i hne
    refine ⟨⟨⟨hwf.hW, hwf.hH, ?_, ?_, ?_⟩, ?_, ?_, rfl⟩, ?_, rfl⟩
    · simp [hlen]
    · simp; omega
    · simp; omega
    · simp only [hp.hrows]
    · simp; omega
    · simp; omega


def wrapAll (W : Nat) (lines : List (List Nat)) : List Row := lines.flatMap (wrap W)

def paintRest : List (List Nat) → List TOp
  | [] => []
  | l :: ls => .writeLine [] :: .writeStr (utext l) :: paintRest ls

theorem newline_W (t : Term) : t.newline.W = t.W ∧ t.newline.H = t.H := by
  unfold Term.newline Term.lf; split <;> exact ⟨rfl, rfl⟩

/-- painting the 2nd, 3rd, ... lines below an already written first line -/
theorem paintRest_spec : ∀ (ls : List (List Nat)) (t : Term) (P : List Row), Written t P →
    Written (t.execAll (paintRest ls)) (P ++ wrapAll t.W ls) ∧
    (t.execAll (paintRest ls)).W = t.W ∧ (t.execAll (paintRest ls)).H = t.H ∧
    (t.execAll (paintRest ls)).top = max t.top ((t.execAll (paintRest ls)).a + 1 - t.H) ∧
    t.a ≤ (t.execAll (paintRest ls)).a := by
  intro ls
  induction ls with
  | nil =>
    intro t P hw
    have := hw.painted.wf.hhi
    refine ⟨by simpa [paintRest, Term.execAll, wrapAll] using hw, rfl, rfl, ?_, Nat.le_refl _⟩
    simp only [paintRest, Term.execAll, List.foldl_nil]; omega
  | cons l ls ih =>
    intro t P hw
    simp only [paintRest, execAll_cons, Term.exec, writeG_utext, writeG_nil]
    have ⟨hf, htop0, ha0⟩ := newline_painted t P hw.painted
    have ⟨hW, hH⟩ := newline_W t
    have ⟨hw1, hW1, hH1, htop1⟩ := write_line_fresh t.newline P l hf
    have ha1 : t.newline.a ≤ (t.newline.write l).a := by
      have h1 := hw1.painted.ha
      have h2 := hf.ha
      have := wrap_length_pos t.newline.W l
      simp only [List.length_append] at h1
      omega
    have ⟨hw2, hW2, hH2, htop2, ha2⟩ := ih _ _ hw1
    rw [hW1, hW] at hW2
    rw [hH1, hH] at hH2
    refine ⟨?_, hW2, hH2, ?_, by omega⟩
    · rw [hW1, hW] at hw2
      simpa [wrapAll, List.append_assoc] using hw2
    · rw [htop2, htop1, htop0, hH1, hH]
      omega


/-- arithmetic of `wrap`: `k'+1` rows, the last one holds what is left over -/
theorem wrap_arith (W : Nat) (hW : 0 < W) : ∀ (n : Nat) (gs : List Nat), gs.length = n →
    ∃ k' : Nat, (wrap W gs).length = k' + 1 ∧
      ((wrap W gs).getLast?.getD []).length + k' * W = gs.length ∧
      ((wrap W gs).getLast?.getD []).length ≤ W := by
  intro n
  induction n using Nat.strongRecOn with
  | _ n ih =>
    intro gs hn
    by_cases hfit : gs.length ≤ W
    · exact ⟨0, by simp [wrap_fits hfit], by simp [wrap_fits hfit], by simp [wrap_fits hfit, hfit]⟩
    · have hlong : W < gs.length := by omega
      have hlt : (gs.drop W).length < n := by simp [List.length_drop]; omega
      obtain ⟨k', h1, h2, h3⟩ := ih _ hlt (gs.drop W) rfl
      have hne := wrap_ne_nil W (gs.drop W)
      refine ⟨k' + 1, ?_, ?_, ?_⟩
      · simp [wrap_long hW hlong, h1]
      · rw [wrap_long hW hlong, List.getLast?_cons_of_ne_nil hne]
        simp only [List.length_drop] at h2
        rw [Nat.succ_mul]
        omega
      · rw [wrap_long hW hlong, List.getLast?_cons_of_ne_nil hne]; exact h3

/-- the right-edge filler brings the cursor to the pending-wrap column -/
theorem filler_written (t : Term) (P : List Row) (hw : Written t P) (hcW : t.c ≤ t.W) :
    let t' := t.write (List.replicate (t.W - t.c) 32)
    Painted t' (P.dropLast ++ [(P.getLast?.getD []) ++ List.replicate (t.W - t.c) 32]) ∧ t'.c = t.W ∧
    t'.a = t.a ∧ t'.top = t.top ∧ t'.W = t.W ∧ t'.H = t.H := by
  have hp := hw.painted
  have hwf := hp.wf
  have ha := hp.ha
  have hhi := hwf.hhi
  -- the row under the cursor is the last row of P
  obtain ⟨init, last, hPl⟩ : ∃ init last, P = init ++ [last] :=
    ⟨P.dropLast, P.getLast hp.hne, (List.dropLast_concat_getLast hp.hne).symm⟩
  subst hPl
  have hlast : (init ++ [last]).getLast?.getD [] = last := by simp
  have hdl : (init ++ [last]).dropLast = init := by simp
  have hc : t.c = last.length := by rw [hw.hc, hlast]
  have hrow : t.rows[t.a]? = some last := by
    rw [hp.hrows]
    have hai : t.a = init.length := by simp at ha; omega
    rw [hai, List.append_assoc, List.getElem?_append_right (Nat.le_refl _)]
    simp
  have hwa := write_aux (List.replicate (t.W - t.c) 32) t last hrow hc (by simp; omega)
  simp only [hlast, hdl]
  rw [hwa]
  refine ⟨⟨⟨hwf.hW, hwf.hH, by simp [hwf.hlen], hwf.hlo, hwf.hhi⟩, ?_, by simp, by simpa using ha⟩, ?_, rfl, rfl, rfl, rfl⟩
  · simp only [hp.hrows]
    have hai : t.a = init.length := by simp at ha; omega
    rw [hai, List.append_assoc, List.set_append_right _ _ (Nat.le_refl _)]
    simp
  · simp; omega


def fillerLen (W : Nat) (gs : List Nat) : Nat := (wrap W gs).length * W - gs.length

/-- all lines but the filler: first line, then `newline; line` for the others -/
def paintLines : List (List Nat) → List TOp
  | [] => []
  | l :: ls => .writeStr (utext l) :: paintRest ls

def paintOps (W : Nat) (lines : List (List Nat)) : List TOp :=
  match lines.getLast? with
  | none => []
  | some ll => paintLines lines ++ [.writeStr (utext (List.replicate (fillerLen W ll) 32))]

def padLast (W : Nat) (P : List Row) : List Row :=
  P.dropLast ++ [(P.getLast?.getD []) ++ List.replicate (W - (P.getLast?.getD []).length) 32]

theorem wrapAll_append (W : Nat) (xs ys : List (List Nat)) : wrapAll W (xs ++ ys) = wrapAll W xs ++ wrapAll W ys := by
  simp [wrapAll]

theorem wrapAll_last (W : Nat) (ls : List (List Nat)) (ll : List Nat) (pre : List Row) :
    (pre ++ wrapAll W (ls ++ [ll])).getLast?.getD [] = (wrap W ll).getLast?.getD [] := by
  rw [wrapAll_append]
  have : wrapAll W [ll] = wrap W ll := by simp [wrapAll]
  rw [this, ← List.append_assoc, List.getLast?_append]
  cases h : (wrap W ll).getLast? with
  | none => exact absurd (List.getLast?_eq_none_iff.1 h) (wrap_ne_nil _ _)
  | some r => simp

/-- painting a non-empty frame on a fresh terminal -/
theorem paint_fresh (t : Term) (pre : List Row) (ls : List (List Nat)) (ll : List Nat) (hf : Fresh t pre) :
    let t' := t.execAll (paintOps t.W (ls ++ [ll]))
    Painted t' (padLast t.W (pre ++ wrapAll t.W (ls ++ [ll]))) ∧ t'.c = t.W ∧
    t'.W = t.W ∧ t'.H = t.H ∧ t'.top = max t.top (t'.a + 1 - t.H) := by
  have hW0 := hf.wf.hW
  -- shape of the op list
  have hops : paintOps t.W (ls ++ [ll]) =
      paintLines (ls ++ [ll]) ++ [.writeStr (utext (List.replicate (fillerLen t.W ll) 32))] := by
    simp [paintOps]
  obtain ⟨l0, rest, hl0⟩ : ∃ l0 rest, ls ++ [ll] = l0 :: rest := by
    cases ls with
    | nil => exact ⟨ll, [], rfl⟩
    | cons a b => exact ⟨a, b ++ [ll], rfl⟩
  simp only [hops, execAll_append]
  -- first line
  have ⟨hw0, hW1, hH1, htop1⟩ := write_line_fresh t pre l0 hf
  have ha1 : t.a ≤ (t.write l0).a := by
    have h1 := hw0.painted.ha
    have h2 := hf.ha
    have := wrap_length_pos t.W l0
    simp only [List.length_append] at h1
    omega
  -- remaining lines
  have ⟨hw2, hW2, hH2, htop2, ha2⟩ := paintRest_spec rest (t.write l0) _ hw0
  have hlines : t.execAll (paintLines (ls ++ [ll])) = (t.write l0).execAll (paintRest rest) := by
    rw [hl0]; simp only [paintLines, execAll_cons, Term.exec, writeG_utext]
  rw [hlines]
  rw [hW1] at hw2
  have hP : pre ++ wrap t.W l0 ++ wrapAll t.W rest = pre ++ wrapAll t.W (ls ++ [ll]) := by
    rw [hl0]; simp [wrapAll, List.append_assoc]
  rw [hP] at hw2
  -- filler
  have hcol : ((t.write l0).execAll (paintRest rest)).c = ((wrap t.W ll).getLast?.getD []).length := by
    rw [hw2.hc, wrapAll_last]
  obtain ⟨k', hk1, hk2, hk3⟩ := wrap_arith t.W hW0 ll.length ll rfl
  have hfl : fillerLen t.W ll = ((t.write l0).execAll (paintRest rest)).W - ((t.write l0).execAll (paintRest rest)).c := by
    rw [hW2, hW1, hcol, fillerLen, hk1, Nat.succ_mul]
    omega
  have hcW : ((t.write l0).execAll (paintRest rest)).c ≤ ((t.write l0).execAll (paintRest rest)).W := by
    rw [hW2, hW1, hcol]; exact hk3
  have hfin := filler_written _ _ hw2 hcW
  simp only at hfin
  obtain ⟨f1, f2, f3, f4, f5, f6⟩ := hfin
  simp only [Term.execAll, List.foldl_cons, List.foldl_nil, Term.exec, writeG_utext] at *
  rw [hfl]
  refine ⟨?_, by rw [f2, hW2, hW1], by rw [f5, hW2, hW1], by rw [f6, hH2, hH1], ?_⟩
  · have : padLast t.W (pre ++ wrapAll t.W (ls ++ [ll])) =
        (pre ++ wrapAll t.W (ls ++ [ll])).dropLast ++
          [((pre ++ wrapAll t.W (ls ++ [ll])).getLast?.getD []) ++
            List.replicate ((List.foldl Term.exec (t.write l0) (paintRest rest)).W - (List.foldl Term.exec (t.write l0) (paintRest rest)).c) 32] := by
      unfold padLast
      rw [hW2, hW1, hw2.hc]
    rw [this]; exact f1
  · rw [f4, f3, htop2, htop1, hH1]
    omega


def drawOps (W n : Nat) (lines : List (List Nat)) : List TOp := clearOps n ++ paintOps W lines ++ [.flush]

theorem clearOps_WH (t : Term) (n : Nat) (pre : List Row) (hp : Painted t pre)
    (hn : 0 < n) (hle : n ≤ pre.length) (hreach : n ≤ t.a - t.top + 1) :
    (t.execAll (clearOps n)).W = t.W ∧ (t.execAll (clearOps n)).H = t.H ∧ (t.execAll (clearOps n)).top = t.top := by
  have hwf := hp.wf
  have hlo := hwf.hlo
  have hhi := hwf.hhi
  obtain ⟨k, rfl⟩ : ∃ k, n = k + 1 := ⟨n - 1, by omega⟩
  simp only [clearOps, Nat.add_sub_cancel, execAll_cons, execAll_append]
  have hup : t.exec (.up k) = { t with a := t.a - k } := by
    simp only [Term.exec, Term.up]
    have : min k (t.a - t.top) = k := by omega
    rw [this]
  rw [hup]
  have hwf1 : WF ({ t with a := t.a - k } : Term) :=
    ⟨hwf.hW, hwf.hH, hwf.hlen, by simp; omega, by simp; omega⟩
  rw [clearLoop_spec k _ hwf1 (by simp; omega)]
  simp [Term.execAll, Term.exec, Term.up]

/-- One redraw: erase the previous frame of `n` rows, paint the new lines.  -/
theorem draw_step (t : Term) (pre : List Row) (n : Nat) (ls : List (List Nat)) (ll : List Nat)
    (hp : Painted t pre) (hn : 0 < n) (hle : n ≤ pre.length) (hreach : n ≤ t.a - t.top + 1) :
    let t' := t.execAll (drawOps t.W n (ls ++ [ll]))
    let P' := padLast t.W (pre.take (pre.length - n) ++ wrapAll t.W (ls ++ [ll]))
    Painted t' P' ∧ t'.c = t.W ∧ t'.W = t.W ∧ t'.H = t.H ∧
    (∀ n', n' ≤ (wrapAll t.W (ls ++ [ll])).length → n' ≤ t.H → n' ≤ t'.a - t'.top + 1) := by
  have hf := clear_painted t pre n hp hn hle hreach
  have ⟨hW, hH, htop⟩ := clearOps_WH t n pre hp hn hle hreach
  have hpf := paint_fresh (t.execAll (clearOps n)) _ ls ll hf
  simp only [hW, hH, htop] at hpf
  obtain ⟨p1, p2, p3, p4, p5⟩ := hpf
  simp only [drawOps, execAll_append]
  have hflush : ∀ u : Term, u.execAll [.flush] = u := fun u => rfl
  simp only [hflush]
  refine ⟨p1, p2, p3, p4, ?_⟩
  intro n' hn' hH'
  -- geometry: cursor row, scroll offset
  have ha' := p1.ha
  have hlenP : (padLast t.W (pre.take (pre.length - n) ++ wrapAll t.W (ls ++ [ll]))).length
      = (pre.length - n) + (wrapAll t.W (ls ++ [ll])).length := by
    unfold padLast
    have hne : pre.take (pre.length - n) ++ wrapAll t.W (ls ++ [ll]) ≠ [] := by
      rw [wrapAll_append]
      have : wrapAll t.W [ll] = wrap t.W ll := by simp [wrapAll]
      rw [this]
      intro h
      have := congrArg List.length h
      have hk := wrap_length_pos t.W ll
      simp only [List.length_append, List.length_nil] at this
      omega
    have hd := List.length_dropLast (xs := pre.take (pre.length - n) ++ wrapAll t.W (ls ++ [ll]))
    have hpos : 0 < (pre.take (pre.length - n) ++ wrapAll t.W (ls ++ [ll])).length :=
      List.length_pos_iff.2 hne
    simp only [List.length_append, List.length_singleton, hd]
    simp only [List.length_append, List.length_take] at hpos ⊢
    omega
  rw [hlenP] at ha'
  have hlo := hp.wf.hlo
  have hpa := hp.ha
  rw [p5]
  omega



end IndicatifModel
