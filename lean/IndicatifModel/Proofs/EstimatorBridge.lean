import Mathlib.Tactic.Ring
import Mathlib.Tactic.FieldSimp
import Mathlib.Tactic.Linarith
import Mathlib.Tactic.Positivity
import Mathlib.Tactic.NormNum
import Mathlib.Algebra.Order.Field.Basic
import IndicatifModel.Proofs.EstimatorLaws

/-!
# From `Model/Estimator.lean` (the executable transcription) to the algebra of `EstimatorLaws`

`fieldOps W` instantiates the model's arithmetic record with the exact operations of an ordered field.
`abs` forgets the clock readings: an estimator state becomes (`s`, `d`, seconds from the start to the
last sample). `record_abs` / `sps_abs` say that the model's functions are the algebraic recurrences.
-/
namespace IndicatifModel.EstimatorLaws
open IndicatifModel.Estimator
variable {α : Type} [Field α] [LinearOrder α] [IsStrictOrderedRing α]

def fieldOps (W : Weight α) : Ops α :=
  { add := (· + ·), sub := (· - ·), mul := (· * ·), div := (· / ·), zero := 0, one := 1, w := W.w,
    ofNat := fun n => (n : α) }

theorem secs_field (W : Weight α) (ns : Nat) : secs (fieldOps W) ns = (ns : α) / 1000000000 := by
  simp only [secs, fieldOps]
  have h := Nat.div_add_mod ns 1000000000
  have hc : (ns : α) = 1000000000 * ((ns / 1000000000 : Nat) : α) + ((ns % 1000000000 : Nat) : α) := by
    conv_lhs => rw [← h]
    push_cast
    ring
  rw [hc]
  have hne : ((1000000000 : Nat) : α) ≠ 0 := by norm_num
  push_cast
  field_simp

theorem secs_add (W : Weight α) (a b : Nat) : secs (fieldOps W) (a + b) = secs (fieldOps W) a + secs (fieldOps W) b := by
  rw [secs_field, secs_field, secs_field]; push_cast; ring

theorem secs_zero (W : Weight α) : secs (fieldOps W) 0 = 0 := by rw [secs_field]; simp

theorem secs_nonneg (W : Weight α) (a : Nat) : 0 ≤ secs (fieldOps W) a := by
  rw [secs_field]; positivity

theorem secs_pos (W : Weight α) (a : Nat) (h : 0 < a) : 0 < secs (fieldOps W) a := by
  rw [secs_field]
  have : (0 : α) < (a : α) := by exact_mod_cast h
  positivity

theorem secs_mono (W : Weight α) (a b : Nat) (h : a ≤ b) : secs (fieldOps W) a ≤ secs (fieldOps W) b := by
  obtain ⟨k, rfl⟩ := Nat.exists_eq_add_of_le h
  rw [secs_add]
  have := secs_nonneg W k
  linarith

/-- forget the clock readings -/
def abs (W : Weight α) (e : Estimator.Est α) : Est α :=
  { s := e.smoothed, d := e.doubleSmoothed, T := secs (fieldOps W) (e.prevTime - e.startTime) }

/-- a call that takes a sample is one step of the algebraic recurrence -/
theorem record_abs (W : Weight α) (e : Estimator.Est α) (n now : Nat)
    (h1 : e.prevSteps < n) (h2 : e.prevTime < now) (h3 : e.startTime ≤ e.prevTime) :
    abs W (Estimator.record (fieldOps W) e n now) =
      record W (abs W e) (secs (fieldOps W) (now - e.prevTime))
        (((n - e.prevSteps : Nat) : α) / secs (fieldOps W) (now - e.prevTime)) ∧
    (Estimator.record (fieldOps W) e n now).prevTime = now ∧
    (Estimator.record (fieldOps W) e n now).startTime = e.startTime ∧
    (Estimator.record (fieldOps W) e n now).prevSteps = n := by
  have hc : ¬ (n ≤ e.prevSteps ∨ now ≤ e.prevTime) := by omega
  have hsplit : now - e.startTime = (e.prevTime - e.startTime) + (now - e.prevTime) := by omega
  have hT : secs (fieldOps W) (now - e.startTime) =
      secs (fieldOps W) (e.prevTime - e.startTime) + secs (fieldOps W) (now - e.prevTime) := by
    rw [hsplit, secs_add]
  refine ⟨?_, ?_, ?_, ?_⟩
  · simp only [Estimator.record, hc, if_false, abs, record, hT]
    simp only [fieldOps]
  · simp only [Estimator.record, hc, if_false]
  · simp only [Estimator.record, hc, if_false]
  · simp only [Estimator.record, hc, if_false]

/-- the model's query is the algebraic `sps` -/
theorem sps_abs (W : Weight α) (e : Estimator.Est α) (q : Nat) (h3 : e.startTime ≤ e.prevTime) (h : e.prevTime ≤ q) :
    stepsPerSecond (fieldOps W) e q = sps W (abs W e) (secs (fieldOps W) (q - e.prevTime)) := by
  have hsplit : q - e.startTime = (e.prevTime - e.startTime) + (q - e.prevTime) := by omega
  have hT : secs (fieldOps W) (q - e.startTime) =
      secs (fieldOps W) (e.prevTime - e.startTime) + secs (fieldOps W) (q - e.prevTime) := by
    rw [hsplit, secs_add]
  simp only [stepsPerSecond, sps, abs, hT]
  simp only [fieldOps]

/-! ### steady histories -/

/-- one sample `ds` steps and `dt` ns after the previous one -/
def feed (W : Weight α) (e : Estimator.Est α) (p : Nat × Nat) : Estimator.Est α :=
  Estimator.record (fieldOps W) e (e.prevSteps + p.1) (e.prevTime + p.2)

structure Steady (W : Weight α) (r : α) (e : Estimator.Est α) : Prop where
  order : e.startTime ≤ e.prevTime
  s_eq : e.smoothed = r * (1 - W.w (secs (fieldOps W) (e.prevTime - e.startTime)))
  d_eq : e.doubleSmoothed = r * (1 - W.w (secs (fieldOps W) (e.prevTime - e.startTime)))

theorem steady_new (W : Weight α) (r : α) (t0 : Nat) : Steady W r (new (fieldOps W) t0) := by
  have h0 : (new (fieldOps W) t0).prevTime - (new (fieldOps W) t0).startTime = 0 := by simp [new]
  refine ⟨Nat.le_refl _, ?_, ?_⟩
  · rw [h0, secs_zero, W.w_zero]; simp [new, fieldOps]
  · rw [h0, secs_zero, W.w_zero]; simp [new, fieldOps]

theorem steady_feed (W : Weight α) (r : α) (e : Estimator.Est α) (p : Nat × Nat) (hs : Steady W r e)
    (hp : 0 < p.1 ∧ 0 < p.2) (hr : ((p.1 : Nat) : α) / secs (fieldOps W) p.2 = r) :
    Steady W r (feed W e p) ∧ e.prevTime < (feed W e p).prevTime ∧ (feed W e p).startTime = e.startTime := by
  obtain ⟨ho, hse, hde⟩ := hs
  have ⟨ha, hpt, hst, _⟩ := record_abs W e (e.prevSteps + p.1) (e.prevTime + p.2) (by omega) (by omega) ho
  have e1 : e.prevSteps + p.1 - e.prevSteps = p.1 := by omega
  have e2 : e.prevTime + p.2 - e.prevTime = p.2 := by omega
  rw [e1, e2, hr] at ha
  have hstep := steady_step W (abs W e) (secs (fieldOps W) p.2) r (secs_pos W _ hp.2) (secs_nonneg W _) hse hde
  have hsplit : e.prevTime + p.2 - e.startTime = (e.prevTime - e.startTime) + p.2 := by omega
  refine ⟨⟨?_, ?_, ?_⟩, ?_, ?_⟩
  · show (feed W e p).startTime ≤ (feed W e p).prevTime
    simp only [feed]; rw [hst, hpt]; omega
  · show (feed W e p).smoothed = _
    have : (feed W e p).smoothed = (abs W (feed W e p)).s := rfl
    rw [this]; simp only [feed]; rw [ha, hst, hpt, hsplit, secs_add]; exact hstep.1
  · show (feed W e p).doubleSmoothed = _
    have : (feed W e p).doubleSmoothed = (abs W (feed W e p)).d := rfl
    rw [this]; simp only [feed]; rw [ha, hst, hpt, hsplit, secs_add]; exact hstep.2
  · simp only [feed]; rw [hpt]; omega
  · simp only [feed]; exact hst

theorem steady_fold (W : Weight α) (r : α) : ∀ (hist : List (Nat × Nat)) (e : Estimator.Est α), Steady W r e →
    (∀ p ∈ hist, 0 < p.1 ∧ 0 < p.2) → (∀ p ∈ hist, ((p.1 : Nat) : α) / secs (fieldOps W) p.2 = r) →
    Steady W r (hist.foldl (feed W) e) ∧ (hist ≠ [] → e.prevTime < (hist.foldl (feed W) e).prevTime) ∧
    (hist.foldl (feed W) e).startTime = e.startTime ∧ e.prevTime ≤ (hist.foldl (feed W) e).prevTime := by
  intro hist
  induction hist with
  | nil => intro e hs _ _; exact ⟨hs, fun h => absurd rfl h, rfl, Nat.le_refl _⟩
  | cons p ps ih =>
    intro e hs hp hr
    have ⟨h1, h2, h3⟩ := steady_feed W r e p hs (hp p (by simp)) (hr p (by simp))
    have ⟨i1, _, i3, i4⟩ := ih (feed W e p) h1 (fun q hq => hp q (by simp [hq])) (fun q hq => hr q (by simp [hq]))
    simp only [List.foldl_cons]
    exact ⟨i1, fun _ => by omega, by rw [i3, h3], by omega⟩

theorem feed_fold_start (W : Weight α) (hist : List (Nat × Nat)) (e : Estimator.Est α) :
    (hist.foldl (feed W) e).startTime = e.startTime := by
  induction hist generalizing e with
  | nil => rfl
  | cons p ps ih =>
    simp only [List.foldl_cons]
    rw [ih]
    simp only [feed, Estimator.record]
    split
    · split
      · omega
      · rfl
    · rfl

theorem steady_query (W : Weight α) (r : α) (e : Estimator.Est α) (hs : Steady W r e) (hT : e.startTime < e.prevTime) :
    stepsPerSecond (fieldOps W) e e.prevTime = r := by
  rw [sps_abs W e e.prevTime hs.order (Nat.le_refl _), Nat.sub_self, secs_zero]
  exact sps_steady W (abs W e) r (secs_pos W _ (by omega)) hs.s_eq hs.d_eq

/-! ### arbitrary histories of `record` calls -/

structure Good (W : Weight α) (M : α) (e : Estimator.Est α) : Prop where
  order : e.startTime ≤ e.prevTime
  bounded : Bounded W M (abs W e)

/-- every sample that the calls `cs` take, starting from `e`, has a rate of at most `M` -/
def SamplesLe (W : Weight α) (M : α) : Estimator.Est α → List (Nat × Nat) → Prop
  | _, [] => True
  | e, c :: cs =>
    (e.prevSteps < c.1 → e.prevTime < c.2 →
      ((c.1 - e.prevSteps : Nat) : α) / secs (fieldOps W) (c.2 - e.prevTime) ≤ M) ∧
    SamplesLe W M (Estimator.record (fieldOps W) e c.1 c.2) cs

/-- an estimator that was just created or reset satisfies every bound -/
theorem fresh_bounded (W : Weight α) (M : α) (e : Estimator.Est α) (hs : e.smoothed = 0) (hd : e.doubleSmoothed = 0)
    (ht : e.prevTime = e.startTime) : Bounded W M (abs W e) := by
  have hT : (abs W e).T = 0 := by simp only [abs, ht, Nat.sub_self, secs_zero]
  refine ⟨?_, ?_, ?_, ?_, ?_⟩
  · rw [hT]
  · show 0 ≤ e.smoothed; rw [hs]
  · show 0 ≤ e.doubleSmoothed; rw [hd]
  · show e.smoothed ≤ M * (1 - W.w (abs W e).T); rw [hs, hT, W.w_zero]; simp
  · show e.doubleSmoothed ≤ M * (1 - W.w (abs W e).T); rw [hd, hT, W.w_zero]; simp

theorem good_new (W : Weight α) (M : α) (t0 : Nat) : Good W M (new (fieldOps W) t0) :=
  ⟨Nat.le_refl _, fresh_bounded W M _ rfl rfl rfl⟩

theorem good_record (W : Weight α) (M : α) (e : Estimator.Est α) (n t : Nat) (hg : Good W M e)
    (hs : e.prevSteps < n → e.prevTime < t → ((n - e.prevSteps : Nat) : α) / secs (fieldOps W) (t - e.prevTime) ≤ M) :
    Good W M (Estimator.record (fieldOps W) e n t) := by
  by_cases hc : n ≤ e.prevSteps ∨ t ≤ e.prevTime
  · by_cases hrew : n < e.prevSteps
    · -- backwards seek: reset
      have : Estimator.record (fieldOps W) e n t = reset (fieldOps W) { e with prevSteps := n } t := by
        simp only [Estimator.record, hc, if_true, hrew]
      rw [this]
      exact ⟨Nat.le_refl _, fresh_bounded W M _ rfl rfl rfl⟩
    · have : Estimator.record (fieldOps W) e n t = e := by
        simp only [Estimator.record, hc, if_true, hrew, if_false]
      rw [this]; exact hg
  · have h1 : e.prevSteps < n := by omega
    have h2 : e.prevTime < t := by omega
    have ⟨ha, hpt, hst, _⟩ := record_abs W e n t h1 h2 hg.order
    refine ⟨by rw [hst, hpt]; have := hg.order; omega, ?_⟩
    rw [ha]
    apply bounded_record W M (abs W e) _ _ (secs_pos W _ (by omega)) _ (hs h1 h2) hg.bounded
    exact div_nonneg (Nat.cast_nonneg _) (secs_nonneg W _)

theorem good_fold (W : Weight α) (M : α) : ∀ (calls : List (Nat × Nat)) (e : Estimator.Est α), Good W M e →
    SamplesLe W M e calls → Good W M (calls.foldl (fun e c => Estimator.record (fieldOps W) e c.1 c.2) e) := by
  intro calls
  induction calls with
  | nil => intro e hg _; exact hg
  | cons c cs ih =>
    intro e hg hs
    simp only [List.foldl_cons]
    exact ih _ (good_record W M e c.1 c.2 hg hs.1) hs.2

theorem good_query (W : Weight α) (M : α) (hM : 0 ≤ M) (e : Estimator.Est α) (hg : Good W M e) (q : Nat)
    (hq1 : e.prevTime ≤ q) (hq2 : e.startTime < q) :
    (1 - W.w (secs (fieldOps W) (q - e.startTime)) ≠ 0) ∧
    0 ≤ stepsPerSecond (fieldOps W) e q ∧ stepsPerSecond (fieldOps W) e q ≤ M := by
  have hpos : 0 < secs (fieldOps W) (q - e.startTime) := secs_pos W _ (by omega)
  refine ⟨ne_of_gt (one_sub_w_pos W _ hpos), ?_⟩
  rw [sps_abs W e q hg.order hq1]
  apply sps_bounded W M hM (abs W e) _ (secs_nonneg W _) _ hg.bounded
  have hsplit : q - e.startTime = (e.prevTime - e.startTime) + (q - e.prevTime) := by have := hg.order; omega
  show 0 < secs (fieldOps W) (e.prevTime - e.startTime) + secs (fieldOps W) (q - e.prevTime)
  rw [← secs_add, ← hsplit]; exact hpos

end IndicatifModel.EstimatorLaws

namespace IndicatifModel.Estimator

/-- the same estimator with all positions counted from `c` -/
def shift {α : Type} (c : Nat) (e : Est α) : Est α := { e with prevSteps := e.prevSteps + c }

theorem record_shift {α : Type} (o : Ops α) (c : Nat) (e : Est α) (n t : Nat) :
    record o (shift c e) (n + c) t = shift c (record o e n t) := by
  have hle : (n + c ≤ e.prevSteps + c) = (n ≤ e.prevSteps) := by simp
  have hlt : (n + c < e.prevSteps + c) = (n < e.prevSteps) := by simp
  have hsub : n + c - (e.prevSteps + c) = n - e.prevSteps := by omega
  simp only [record, shift, hle, hlt, hsub]
  split
  · split
    · simp [reset]
    · rfl
  · rfl

theorem fold_shift {α : Type} (o : Ops α) (c : Nat) : ∀ (calls : List (Nat × Nat)) (e : Est α),
    calls.foldl (fun e x => record o e (x.1 + c) x.2) (shift c e) = shift c (calls.foldl (fun e x => record o e x.1 x.2) e) := by
  intro calls
  induction calls with
  | nil => intro e; rfl
  | cons x xs ih =>
    intro e
    simp only [List.foldl_cons]
    rw [record_shift, ih]

end IndicatifModel.Estimator
