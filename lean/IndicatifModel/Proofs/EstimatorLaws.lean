import Mathlib.Tactic.Ring
import Mathlib.Tactic.FieldSimp
import Mathlib.Tactic.Linarith
import Mathlib.Tactic.Positivity
import Mathlib.Algebra.Order.Field.Basic
import IndicatifModel.Model.Estimator

/-!
# Algebra of the double-exponential estimator

The recurrences of `Estimator::record` / `steps_per_second` over an arbitrary ordered field with a
multiplicative weight function `w` (`w 0 = 1`, `w (a+b) = w a · w b`, `0 < w t`, `w t < 1` for
`t > 0`); `0.1 ^ (t / 15)` over the reals is such a function. Helper lemmas for `Props/C09.lean`.
-/
namespace IndicatifModel.EstimatorLaws
variable {α : Type} [Field α] [LinearOrder α] [IsStrictOrderedRing α]

structure Weight (α : Type) [Field α] [LinearOrder α] [IsStrictOrderedRing α] where
  w : α → α
  w_zero : w 0 = 1
  w_add : ∀ a b, w (a + b) = w a * w b
  w_pos : ∀ a, 0 < w a
  w_lt_one : ∀ a, 0 < a → w a < 1

theorem Weight.w_le_one (W : Weight α) (a : α) (h : 0 ≤ a) : W.w a ≤ 1 := by
  rcases lt_or_eq_of_le h with h | h
  · exact le_of_lt (W.w_lt_one a h)
  · rw [← h, W.w_zero]

theorem Weight.w_anti (W : Weight α) (a b : α) (h : a ≤ b) : W.w b ≤ W.w a := by
  have hb : b = a + (b - a) := by ring
  rw [hb, W.w_add]
  have h1 := W.w_le_one (b - a) (by linarith)
  have h2 := W.w_pos a
  nlinarith

structure Est (α : Type) where
  s : α      -- smoothed
  d : α      -- double smoothed
  T : α      -- time from the start to the last sample
deriving Repr

/-- one sample of duration `dt` at rate `r` (steps/sec) -/
def record (W : Weight α) (e : Est α) (dt r : α) : Est α :=
  let wt := W.w dt
  let s' := e.s * wt + r * (1 - wt)
  let T' := e.T + dt
  let norm := s' / (1 - W.w T')
  { s := s', d := e.d * wt + norm * (1 - wt), T := T' }

/-- the reported rate `δ` seconds after the last sample -/
def sps (W : Weight α) (e : Est α) (δ : α) : α :=
  let rw := W.w δ
  let tw := 1 - W.w (e.T + δ)
  let sp := e.s * rw / tw
  (e.d * rw + sp * (1 - rw)) / tw

theorem one_sub_w_pos (W : Weight α) (t : α) (h : 0 < t) : 0 < 1 - W.w t := by
  have := W.w_lt_one t h; linarith

theorem steady_step (W : Weight α) (e : Est α) (dt r : α) (hdt : 0 < dt) (hT : 0 ≤ e.T)
    (hs : e.s = r * (1 - W.w e.T)) (hd : e.d = r * (1 - W.w e.T)) :
    (record W e dt r).s = r * (1 - W.w (e.T + dt)) ∧ (record W e dt r).d = r * (1 - W.w (e.T + dt)) := by
  have hpos : 0 < e.T + dt := by linarith
  have hne : (1 - W.w (e.T + dt)) ≠ 0 := ne_of_gt (one_sub_w_pos W _ hpos)
  constructor
  · simp only [record, hs, W.w_add]; ring
  · simp only [record, hs, hd]
    rw [W.w_add] at hne ⊢
    field_simp
    ring

/-- the estimate right at a sample of a steady history is the true rate -/
theorem sps_steady (W : Weight α) (e : Est α) (r : α) (hT : 0 < e.T)
    (hs : e.s = r * (1 - W.w e.T)) (hd : e.d = r * (1 - W.w e.T)) : sps W e 0 = r := by
  have hne : (1 - W.w e.T) ≠ 0 := ne_of_gt (one_sub_w_pos W _ hT)
  simp only [sps, add_zero, W.w_zero, hs, hd]
  field_simp
  ring

/-- bounds kept by every sample: `0 ≤ s, d ≤ M·(1 − w T)` -/
structure Bounded (W : Weight α) (M : α) (e : Est α) : Prop where
  T_nonneg : 0 ≤ e.T
  s_nonneg : 0 ≤ e.s
  d_nonneg : 0 ≤ e.d
  s_le : e.s ≤ M * (1 - W.w e.T)
  d_le : e.d ≤ M * (1 - W.w e.T)

theorem bounded_record (W : Weight α) (M : α) (e : Est α) (dt r : α) (hdt : 0 < dt) (hr0 : 0 ≤ r) (hrM : r ≤ M)
    (h : Bounded W M e) : Bounded W M (record W e dt r) := by
  obtain ⟨hT, hs0, hd0, hs, hd⟩ := h
  have hw := W.w_pos dt
  have hw1 := W.w_lt_one dt hdt
  have hpos : 0 < e.T + dt := by linarith
  have htw := one_sub_w_pos W _ hpos
  have hs' : (record W e dt r).s ≤ M * (1 - W.w (e.T + dt)) := by
    simp only [record, W.w_add]
    have h1 : e.s * W.w dt ≤ M * (1 - W.w e.T) * W.w dt := mul_le_mul_of_nonneg_right hs (le_of_lt hw)
    have h2 : r * (1 - W.w dt) ≤ M * (1 - W.w dt) := mul_le_mul_of_nonneg_right hrM (by linarith)
    nlinarith
  have hs0' : 0 ≤ (record W e dt r).s := by
    simp only [record]
    have h1 : 0 ≤ e.s * W.w dt := mul_nonneg hs0 (le_of_lt hw)
    have h2 : 0 ≤ r * (1 - W.w dt) := mul_nonneg hr0 (by linarith)
    linarith
  have hnorm : (record W e dt r).s / (1 - W.w (e.T + dt)) ≤ M := by
    rw [div_le_iff₀ htw]; exact hs'
  have hnorm0 : 0 ≤ (record W e dt r).s / (1 - W.w (e.T + dt)) := div_nonneg hs0' (le_of_lt htw)
  refine ⟨by simp only [record]; linarith, hs0', ?_, hs', ?_⟩
  · show 0 ≤ e.d * W.w dt + (record W e dt r).s / (1 - W.w (e.T + dt)) * (1 - W.w dt)
    have h1 : 0 ≤ e.d * W.w dt := mul_nonneg hd0 (le_of_lt hw)
    have h2 : 0 ≤ (record W e dt r).s / (1 - W.w (e.T + dt)) * (1 - W.w dt) := mul_nonneg hnorm0 (by linarith)
    linarith
  · show e.d * W.w dt + (record W e dt r).s / (1 - W.w (e.T + dt)) * (1 - W.w dt) ≤ M * (1 - W.w (e.T + dt))
    have h1 : e.d * W.w dt ≤ M * (1 - W.w e.T) * W.w dt := mul_le_mul_of_nonneg_right hd (le_of_lt hw)
    have h2 : (record W e dt r).s / (1 - W.w (e.T + dt)) * (1 - W.w dt) ≤ M * (1 - W.w dt) :=
      mul_le_mul_of_nonneg_right hnorm (by linarith)
    have hadd := W.w_add e.T dt
    generalize (record W e dt r).s / (1 - W.w (e.T + dt)) = X at h2 ⊢
    rw [hadd]
    nlinarith

/-- a bounded estimator reports a rate in `[0, M]` at every later instant -/
theorem sps_bounded (W : Weight α) (M : α) (hM : 0 ≤ M) (e : Est α) (δ : α) (hδ : 0 ≤ δ) (hpos : 0 < e.T + δ)
    (h : Bounded W M e) : 0 ≤ sps W e δ ∧ sps W e δ ≤ M := by
  obtain ⟨hT, hs0, hd0, hs, hd⟩ := h
  have hw := W.w_pos δ
  have hw1 := W.w_le_one δ hδ
  have htw := one_sub_w_pos W _ hpos
  have hsp0 : 0 ≤ e.s * W.w δ / (1 - W.w (e.T + δ)) := div_nonneg (mul_nonneg hs0 (le_of_lt hw)) (le_of_lt htw)
  have hsp : e.s * W.w δ / (1 - W.w (e.T + δ)) ≤ M := by
    rw [div_le_iff₀ htw, W.w_add]
    have h1 : e.s * W.w δ ≤ M * (1 - W.w e.T) * W.w δ := mul_le_mul_of_nonneg_right hs (le_of_lt hw)
    have h2 : M * W.w δ ≤ M * 1 := mul_le_mul_of_nonneg_left hw1 hM
    nlinarith
  constructor
  · simp only [sps]
    exact div_nonneg (add_nonneg (mul_nonneg hd0 (le_of_lt hw)) (mul_nonneg hsp0 (by linarith))) (le_of_lt htw)
  · simp only [sps]
    rw [div_le_iff₀ htw]
    have hadd := W.w_add e.T δ
    have h1 : e.d * W.w δ ≤ M * (1 - W.w e.T) * W.w δ := mul_le_mul_of_nonneg_right hd (le_of_lt hw)
    have h2 : e.s * W.w δ / (1 - W.w (e.T + δ)) * (1 - W.w δ) ≤ M * (1 - W.w δ) :=
      mul_le_mul_of_nonneg_right hsp (by linarith)
    generalize e.s * W.w δ / (1 - W.w (e.T + δ)) = X at h2 ⊢
    rw [hadd]
    nlinarith

/-! ### The reported rate during a stall, as a function of `u = w δ` -/

/-- `sps` in terms of `c = w T` and `u = w δ` -/
def spsU (s d c u : α) : α := (d * u + s * u / (1 - c * u) * (1 - u)) / (1 - c * u)

theorem sps_eq_spsU (W : Weight α) (e : Est α) (δ : α) : sps W e δ = spsU e.s e.d (W.w e.T) (W.w δ) := by
  simp only [sps, spsU, W.w_add]

theorem spsU_eq (s d c x : α) (h : 1 - c * x ≠ 0) :
    spsU s d c x = x * (d * (1 - c * x) + s * (1 - x)) / (1 - c * x) ^ 2 := by
  simp only [spsU]
  rw [div_eq_div_iff h (pow_ne_zero 2 h)]
  have e1 : s * x / (1 - c * x) * (1 - x) * (1 - c * x) = s * x * (1 - x) := by
    rw [div_mul_eq_mul_div, div_mul_eq_mul_div, div_eq_iff h]
  have : (d * x + s * x / (1 - c * x) * (1 - x)) * (1 - c * x) ^ 2
      = (d * x * (1 - c * x) + s * x / (1 - c * x) * (1 - x) * (1 - c * x)) * (1 - c * x) := by ring
  rw [this, e1]
  ring

/-- `spsU` is monotone in `u` on `(0, 1]` whenever the raw first-level average does not exceed the raw
second-level one (`s ≤ d`); since `u = w δ` decreases with `δ`, the reported rate then decays. -/
theorem spsU_mono (s d c u v : α) (hs : 0 ≤ s) (hsd : s ≤ d) (hc0 : 0 ≤ c) (hc : c < 1)
    (hu : 0 < u) (huv : u ≤ v) (hv : v ≤ 1) : spsU s d c u ≤ spsU s d c v := by
  have hcu : 0 < 1 - c * u := by nlinarith
  have hcv : 0 < 1 - c * v := by nlinarith
  rw [spsU_eq s d c u (ne_of_gt hcu), spsU_eq s d c v (ne_of_gt hcv),
    div_le_div_iff₀ (pow_pos hcu 2) (pow_pos hcv 2)]
  have key : v * (d * (1 - c * v) + s * (1 - v)) * (1 - c * u) ^ 2 - u * (d * (1 - c * u) + s * (1 - u)) * (1 - c * v) ^ 2
      = (v - u) * ((d - s) * ((1 - c * u) * (1 - c * v)) + s * ((1 - u) * (1 - c * v) + (1 - v) * (1 - c * u))) := by
    ring
  have h1 : 0 ≤ (d - s) * ((1 - c * u) * (1 - c * v)) := mul_nonneg (by linarith) (le_of_lt (mul_pos hcu hcv))
  have a1 : 0 ≤ (1 - u) * (1 - c * v) := mul_nonneg (by linarith) (le_of_lt hcv)
  have a2 : 0 ≤ (1 - v) * (1 - c * u) := mul_nonneg (by linarith) (le_of_lt hcu)
  have h2 : 0 ≤ s * ((1 - u) * (1 - c * v) + (1 - v) * (1 - c * u)) := mul_nonneg hs (by linarith)
  have h3 : 0 ≤ (v - u) * ((d - s) * ((1 - c * u) * (1 - c * v)) + s * ((1 - u) * (1 - c * v) + (1 - v) * (1 - c * u))) :=
    mul_nonneg (by linarith) (by linarith)
  linarith

/-- the rate reported `δ₂` seconds after the last sample is at most the one reported after `δ₁ ≤ δ₂`
seconds, provided `s ≤ d` at the last sample -/
theorem sps_antitone (W : Weight α) (e : Est α) (δ₁ δ₂ : α) (hT : 0 < e.T) (hs : 0 ≤ e.s) (hsd : e.s ≤ e.d)
    (h1 : 0 ≤ δ₁) (h12 : δ₁ ≤ δ₂) : sps W e δ₂ ≤ sps W e δ₁ := by
  rw [sps_eq_spsU, sps_eq_spsU]
  exact spsU_mono e.s e.d (W.w e.T) (W.w δ₂) (W.w δ₁) hs hsd (le_of_lt (W.w_pos _)) (W.w_lt_one _ hT)
    (W.w_pos _) (W.w_anti _ _ h12) (W.w_le_one _ h1)

end IndicatifModel.EstimatorLaws
