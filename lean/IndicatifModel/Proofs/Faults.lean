import IndicatifModel.Model.Faults
/-!
# Proofs about the fault model (C18)

`Same m m'`: two `MultiState`s agree on everything except the row accounting that a failing terminal can
disturb (`last_line_count`, `zombie_lines_count`, the terminal draw state). Every operation maps `Same`
states to `Same` states whatever the two fault plans are — so no decision that matters (which bars are
members, in which order, which slots are free, what the limiter allows, what the bars' logical states
are, whether a call panics) ever depends on a terminal failure.
-/
namespace IndicatifModel.Faults
open IndicatifModel

structure SameT (a b : TermTarget) : Prop where
  W : a.W = b.W
  H : a.H = b.H
  limiter : a.limiter = b.limiter
  fx : a.fx = b.fx

structure Same (a b : Multi) : Prop where
  members : a.members = b.members
  free : a.free = b.free
  ordering : a.ordering = b.ordering
  alignment : a.alignment = b.alignment
  orphan : a.orphan = b.orphan
  stale : a.stale = b.stale
  target : SameT a.target b.target

theorem SameT.refl (a : TermTarget) : SameT a a := ⟨rfl, rfl, rfl, rfl⟩
theorem Same.refl (a : Multi) : Same a a := ⟨rfl, rfl, rfl, rfl, rfl, rfl, SameT.refl _⟩

theorem paintF_sameT (tt : TermTarget) (ds : DrawState) (s : FS) : SameT (paintF tt ds s).1 tt := by
  unfold paintF
  simp only []
  split
  · exact ⟨rfl, rfl, rfl, rfl⟩
  · split <;> exact ⟨rfl, rfl, rfl, rfl⟩

theorem drawable_same (a b : TermTarget) (h : SameT a b) (force : Bool) (now : Nat) :
    (a.drawable force now).1 = (b.drawable force now).1 ∧ SameT (a.drawable force now).2 (b.drawable force now).2 := by
  unfold TermTarget.drawable
  cases force with
  | true => exact ⟨rfl, h⟩
  | false =>
    simp only [Bool.false_eq_true, if_false]
    rw [h.limiter]
    cases b.limiter with
    | none => exact ⟨rfl, h⟩
    | some p => exact ⟨rfl, ⟨h.W, h.H, rfl, h.fx⟩⟩

theorem memberRows_same (a b : Multi) (h : Same a b) (i : Nat) : a.memberRows i = b.memberRows i := by
  simp only [Multi.memberRows, Multi.memberLines, h.members, h.target.W]

theorem removeIdx_same (a b : Multi) (h : Same a b) (i : Nat) : Same (a.removeIdx i) (b.removeIdx i) := by
  unfold Multi.removeIdx
  rw [h.free]
  split
  · exact h
  · exact ⟨by simp only [h.members], by simp only [h.free], by simp only [h.ordering], h.alignment, h.orphan, h.stale, h.target⟩

theorem foldl_removeIdx_same (l : List Nat) : ∀ (a b : Multi), Same a b → Same (l.foldl Multi.removeIdx a) (l.foldl Multi.removeIdx b) := by
  induction l with
  | nil => intro a b h; exact h
  | cons i is ih => intro a b h; exact ih _ _ (removeIdx_same a b h i)

/-- a congruence helper: changing only `z` and the target's row count / draw state keeps `Same` -/
theorem Same.of_fields {a b a' b' : Multi} (h : Same a b)
    (ha : a'.members = a.members ∧ a'.free = a.free ∧ a'.ordering = a.ordering ∧ a'.alignment = a.alignment ∧ a'.orphan = a.orphan ∧ a'.stale = a.stale ∧ SameT a'.target a.target)
    (hb : b'.members = b.members ∧ b'.free = b.free ∧ b'.ordering = b.ordering ∧ b'.alignment = b.alignment ∧ b'.orphan = b.orphan ∧ b'.stale = b.stale ∧ SameT b'.target b.target) :
    Same a' b' := by
  obtain ⟨a1, a2, a3, a4, a5, a6, a7⟩ := ha
  obtain ⟨b1, b2, b3, b4, b5, b6, b7⟩ := hb
  exact ⟨by rw [a1, b1, h.members], by rw [a2, b2, h.free], by rw [a3, b3, h.ordering], by rw [a4, b4, h.alignment],
    by rw [a5, b5, h.orphan], by rw [a6, b6, h.stale],
    ⟨by rw [a7.W, b7.W, h.target.W], by rw [a7.H, b7.H, h.target.H], by rw [a7.limiter, b7.limiter, h.target.limiter], by rw [a7.fx, b7.fx, h.target.fx]⟩⟩

theorem hasTextOf_same (a b : Multi) (h : Same a b) (extra : Option (List Line)) : hasTextOf a extra = hasTextOf b extra := by
  simp only [hasTextOf, h.target.W, h.orphan]

theorem reapOf_same (a b : Multi) (h : Same a b) (extra : Option (List Line)) : reapOf a extra = reapOf b extra := by
  simp only [reapOf, hasTextOf_same a b h, h.ordering, h.members]

theorem adjust_same (a b : Multi) (h : Same a b) (l : List Nat) : (l.map a.memberRows).sum = (l.map b.memberRows).sum := by
  congr 1
  apply List.map_congr_left
  intro i _
  exact memberRows_same a b h i

theorem drawGo_same (a b : Multi) (h : Same a b) (extra : Option (List Line)) (ht : Bool) (reap : List Nat) (adj : Nat) (sa sb : FS) :
    Same (drawGo a extra ht reap adj sa).1 (drawGo b extra ht reap adj sb).1 := by
  unfold drawGo
  simp only []
  -- step 1: the Clear adjustment
  have h1 : Same (if ht = true then { a with target := { a.target with llc := a.target.llc + a.z }, z := 0 } else a)
      (if ht = true then { b with target := { b.target with llc := b.target.llc + b.z }, z := 0 } else b) := by
    split
    · exact Same.of_fields h ⟨rfl, rfl, rfl, rfl, rfl, rfl, ⟨rfl, rfl, rfl, rfl⟩⟩ ⟨rfl, rfl, rfl, rfl, rfl, rfl, ⟨rfl, rfl, rfl, rfl⟩⟩
    · exact h
  generalize (if ht = true then { a with target := { a.target with llc := a.target.llc + a.z }, z := 0 } else a) = a1 at h1 ⊢
  generalize (if ht = true then { b with target := { b.target with llc := b.target.llc + b.z }, z := 0 } else b) = b1 at h1 ⊢
  -- step 2: the paint
  have h2 : ∀ (dsa dsb : DrawState), Same { a1 with target := (paintF a1.target dsa sa).1, orphan := [] } { b1 with target := (paintF b1.target dsb sb).1, orphan := [] } := by
    intro dsa dsb
    have pa := paintF_sameT a1.target dsa sa
    have pb := paintF_sameT b1.target dsb sb
    exact ⟨h1.members, h1.free, h1.ordering, h1.alignment, rfl, h1.stale,
      ⟨by rw [pa.W, pb.W, h1.target.W], by rw [pa.H, pb.H, h1.target.H], by rw [pa.limiter, pb.limiter, h1.target.limiter], by rw [pa.fx, pb.fx, h1.target.fx]⟩⟩
  -- step 3: reaping
  have h3 := fun dsa dsb => foldl_removeIdx_same reap _ _ (h2 dsa dsb)
  -- step 4: the Keep adjustment and `frame_stale`
  have key : ∀ (x y : Multi), Same x y → ∀ (kx ky ax ay : Nat),
      Same { (if (!ht) = true then { x with z := x.z + kx, target := { x.target with llc := x.target.llc - ax } } else x) with stale := false }
           { (if (!ht) = true then { y with z := y.z + ky, target := { y.target with llc := y.target.llc - ay } } else y) with stale := false } := by
    intro x y hxy kx ky ax ay
    cases ht with
    | true => simp only [Bool.not_true, Bool.false_eq_true, if_false]; exact ⟨hxy.members, hxy.free, hxy.ordering, hxy.alignment, hxy.orphan, rfl, hxy.target⟩
    | false =>
      simp only [Bool.not_false, if_true]
      exact ⟨hxy.members, hxy.free, hxy.ordering, hxy.alignment, hxy.orphan, rfl, ⟨hxy.target.W, hxy.target.H, hxy.target.limiter, hxy.target.fx⟩⟩
  have setBlank : ∀ (x y : Multi) (p q : Nat), Same x y → Same { x with blankPainted := p } { y with blankPainted := q } :=
    fun x y p q hxy => ⟨hxy.members, hxy.free, hxy.ordering, hxy.alignment, hxy.orphan, hxy.stale, hxy.target⟩
  exact setBlank _ _ _ _ (key _ _ (h3 _ _) _ _ _ _)

theorem drawF_same (a b : Multi) (h : Same a b) (force : Bool) (extra : Option (List Line)) (now : Nat) (sa sb : FS) :
    Same (drawF a force extra now sa).1 (drawF b force extra now sb).1 := by
  unfold drawF
  simp only []
  have ef : (force || decide (visualLineCount a.target.W a.orphan > 0)) = (force || decide (visualLineCount b.target.W b.orphan > 0)) := by
    rw [h.target.W, h.orphan]
  generalize (force || decide (visualLineCount a.target.W a.orphan > 0)) = fa at ef ⊢
  subst ef
  obtain ⟨hgo, hst⟩ := drawable_same a.target b.target h.target (force || decide (visualLineCount b.target.W b.orphan > 0)) now
  generalize (force || decide (visualLineCount b.target.W b.orphan > 0)) = f at hgo hst ⊢
  have hm : Same { a with target := (a.target.drawable f now).2 } { b with target := (b.target.drawable f now).2 } :=
    ⟨h.members, h.free, h.ordering, h.alignment, h.orphan, h.stale, hst⟩
  cases hg : (b.target.drawable f now).1 with
  | false =>
    rw [hg] at hgo
    simp only [hgo, hg, Bool.not_false, if_true]
    exact hm
  | true =>
    rw [hg] at hgo
    simp only [hgo, hg, Bool.not_true, Bool.false_eq_true, if_false]
    rw [hasTextOf_same a b h, reapOf_same a b h, adjust_same a b h]
    exact drawGo_same _ _ hm _ _ _ _ _ _

theorem clearF_same (a b : Multi) (h : Same a b) (sa sb : FS) : Same (clearF a sa).1 (clearF b sb).1 := by
  unfold clearF
  simp only []
  have pa := paintF_sameT { a.target with llc := a.target.llc + a.z } { a.target.ds with lines := [], alignment := if a.target.fx.f22 = true then Alignment.top else a.target.ds.alignment } sa
  have pb := paintF_sameT { b.target with llc := b.target.llc + b.z } { b.target.ds with lines := [], alignment := if b.target.fx.f22 = true then Alignment.top else b.target.ds.alignment } sb
  exact ⟨h.members, h.free, h.ordering, h.alignment, h.orphan, rfl,
    ⟨by rw [pa.W, pb.W]; exact h.target.W, by rw [pa.H, pb.H]; exact h.target.H, by rw [pa.limiter, pb.limiter]; exact h.target.limiter, by rw [pa.fx, pb.fx]; exact h.target.fx⟩⟩

theorem printlnF_same (a b : Multi) (h : Same a b) (t : Text) (now : Nat) (sa sb : FS) :
    Same (printlnF a t now sa).1 (printlnF b t now sb).1 := drawF_same a b h _ _ _ _ _

/-- with the repaired `suspend` (no `unwrap`) the two runs stay `Same` and neither panics -/
theorem suspendF_same (a b : Multi) (h : Same a b) (out : List Text) (now : Nat) (sa sb : FS) :
    Same (suspendF a out now sa false).1 (suspendF b out now sb false).1 ∧
    (suspendF a out now sa false).2.2 = false ∧ (suspendF b out now sb false).2.2 = false := by
  unfold suspendF
  simp only [Bool.false_and, Bool.false_eq_true, if_false]
  exact ⟨drawF_same _ _ (clearF_same a b h sa sb) _ _ _ _ _, trivial, trivial⟩

theorem markZombie_same (a b : Multi) (h : Same a b) (i : Nat) : Same (a.markZombie i) (b.markZombie i) := by
  unfold Multi.markZombie
  have hc : (a.ordering.head? ≠ some i ∨ (a.target.fx.fstale = true ∧ a.stale = true)) ↔
      (b.ordering.head? ≠ some i ∨ (b.target.fx.fstale = true ∧ b.stale = true)) := by
    rw [h.ordering, h.target.fx, h.stale]
  by_cases hb : (b.ordering.head? ≠ some i ∨ (b.target.fx.fstale = true ∧ b.stale = true))
  · rw [if_pos hb, if_pos (hc.mpr hb)]
    exact ⟨by simp only [h.members], h.free, h.ordering, h.alignment, h.orphan, h.stale, h.target⟩
  · rw [if_neg hb, if_neg (fun x => hb (hc.mp x))]
    apply removeIdx_same
    exact ⟨h.members, h.free, h.ordering, h.alignment, h.orphan, h.stale, ⟨h.target.W, h.target.H, h.target.limiter, h.target.fx⟩⟩

theorem retarget_same (a b : Multi) (h : Same a b) (now : Nat) : Same (a.retarget now) (b.retarget now) := by
  unfold Multi.retarget
  simp only []
  have hl : a.target.limiter.map (fun p => (p.1, ({ cap := 20, prev := now } : Limiter.St))) =
      b.target.limiter.map (fun p => (p.1, ({ cap := 20, prev := now } : Limiter.St))) := by rw [h.target.limiter]
  cases hb : b.target.fx.fretarget with
  | true =>
    have ha : a.target.fx.fretarget = true := by rw [h.target.fx]; exact hb
    simp only [ha, if_true]
    exact ⟨h.members, h.free, h.ordering, h.alignment, h.orphan, rfl, ⟨h.target.W, h.target.H, hl, h.target.fx⟩⟩
  | false =>
    have ha : a.target.fx.fretarget = false := by rw [h.target.fx]; exact hb
    simp only [ha, Bool.false_eq_true, if_false]
    exact ⟨h.members, h.free, h.ordering, h.alignment, h.orphan, h.stale, ⟨h.target.W, h.target.H, hl, h.target.fx⟩⟩

/-- two worlds that may differ only in what a failing terminal can disturb, and in the fault plan itself -/
structure SameW (x y : FW) : Prop where
  multi : Same x.multi y.multi
  bars : x.bars = y.bars
  now : x.now = y.now
  panicked : x.panicked = y.panicked
  ux : x.unwrapSites = false
  uy : y.unwrapSites = false

namespace FW

theorem setBar_same (x y : FW) (h : SameW x y) (k : Nat) (b : Bar) : SameW (x.setBar k b) (y.setBar k b) :=
  ⟨h.multi, by simp only [setBar, h.bars], h.now, h.panicked, h.ux, h.uy⟩

theorem barDraw_same (x y : FW) (h : SameW x y) (k : Nat) (force : Bool) (tl : List Line) :
    SameW (x.barDraw k force tl) (y.barDraw k force tl) := by
  unfold barDraw
  rw [h.bars]
  cases hb : y.bars[k]? with
  | none => exact h
  | some mb =>
    simp only []
    cases hs : mb.slot with
    | none => exact h
    | some idx =>
      simp only []
      have hm : Same { x.multi with members := x.multi.members.modify idx (fun mem => { mem with ds := some (if mb.b.status = .doneHidden then [] else formatState mb.b) }), orphan := x.multi.orphan ++ tl }
          { y.multi with members := y.multi.members.modify idx (fun mem => { mem with ds := some (if mb.b.status = .doneHidden then [] else formatState mb.b) }), orphan := y.multi.orphan ++ tl } :=
        ⟨by simp only [h.multi.members], h.multi.free, h.multi.ordering, h.multi.alignment, by simp only [h.multi.orphan], h.multi.stale, h.multi.target⟩
      rw [h.now]
      exact ⟨drawF_same _ _ hm _ _ _ _ _, rfl, rfl, h.panicked, h.ux, h.uy⟩

theorem finishWith_same (x y : FW) (h : SameW x y) (k : Nat) (b : Bar) (f : Finish) :
    SameW (x.finishWith k b f) (y.finishWith k b f) := by
  unfold finishWith
  exact barDraw_same _ _ (setBar_same x y h k _) k true []

theorem tickInner_same (x y : FW) (h : SameW x y) (k : Nat) (b : Bar) : SameW (tickInner x k b) (tickInner y k b) := by
  unfold tickInner
  exact barDraw_same _ _ (setBar_same x y h k _) k false []

theorem afterPos_same (x y : FW) (h : SameW x y) (k : Nat) (b : Bar) : SameW (afterPos x k b) (afterPos y k b) := by
  unfold afterPos
  rw [h.now]
  simp only []
  split
  · exact tickInner_same x y h k _
  · exact setBar_same x y h k _

theorem barStep_same (x y : FW) (h : SameW x y) (k : Nat) (op : BarOp) : SameW (x.barStep k op) (y.barStep k op) := by
  unfold barStep
  rw [h.bars]
  cases hb : y.bars[k]? with
  | none => exact h
  | some mb =>
    simp only []
    split
    · exact h
    · cases op with
      | adv d => exact h
      | tick => exact tickInner_same x y h k _
      | inc d => exact afterPos_same x y h k _
      | dec d => exact afterPos_same x y h k _
      | setPos p => exact afterPos_same x y h k _
      | setMsg t => exact barDraw_same _ _ (setBar_same x y h k _) k false []
      | setPrefix t => exact barDraw_same _ _ (setBar_same x y h k _) k false []
      | setLen l => exact barDraw_same _ _ (setBar_same x y h k _) k false []
      | unsetLen => exact barDraw_same _ _ (setBar_same x y h k _) k false []
      | println t =>
        simp only []
        split
        · exact h
        · exact barDraw_same x y h k true _
      | suspend out =>
        simp only []
        split
        · exact ⟨h.multi, rfl, h.now, h.panicked, h.ux, h.uy⟩
        · rw [h.ux, h.uy, h.now]
          obtain ⟨s1, s2, s3⟩ := suspendF_same x.multi y.multi h.multi out y.now x.fs y.fs
          exact ⟨s1, rfl, rfl, by simp only [s2, s3], rfl, rfl⟩
      | reset =>
        simp only []
        rw [h.now]
        exact barDraw_same _ _ (setBar_same x y h k _) k false []
      | finish f => exact finishWith_same x y h k _ f
      | finishUsingStyle => exact finishWith_same x y h k _ _
      | drop =>
        simp only []
        have h1 : SameW (if mb.b.finished = true then x else x.finishWith k mb.b mb.b.onFinish)
            (if mb.b.finished = true then y else y.finishWith k mb.b mb.b.onFinish) := by
          split
          · exact h
          · exact finishWith_same x y h k _ _
        generalize (if mb.b.finished = true then x else x.finishWith k mb.b mb.b.onFinish) = x1 at h1 ⊢
        generalize (if mb.b.finished = true then y else y.finishWith k mb.b mb.b.onFinish) = y1 at h1 ⊢
        cases hs : mb.slot with
        | none => exact ⟨h1.multi, by simp only [h1.bars], h1.now, h1.panicked, h1.ux, h1.uy⟩
        | some idx => exact ⟨markZombie_same _ _ h1.multi idx, by simp only [h1.bars], h1.now, h1.panicked, h1.ux, h1.uy⟩

theorem slotOf_same (x y : FW) (h : SameW x y) (k : Nat) : x.slotOf k = y.slotOf k := by
  simp only [slotOf, h.bars]

/-- `a` is `b` with other values in the fields a failing terminal can disturb -/
def upd (m : Multi) (z llc : Nat) (ds : DrawState) (bp : Nat) : Multi :=
  { m with z := z, target := { m.target with llc := llc, ds := ds }, blankPainted := bp }

theorem upd_same (m : Multi) (z llc : Nat) (ds : DrawState) (bp : Nat) : Same (upd m z llc ds bp) m :=
  ⟨rfl, rfl, rfl, rfl, rfl, rfl, ⟨rfl, rfl, rfl, rfl⟩⟩

theorem Same.eq_upd {a b : Multi} (h : Same a b) : a = upd b a.z a.target.llc a.target.ds a.blankPainted := by
  obtain ⟨h1, h2, h3, h4, h5, h6, ⟨t1, t2, t3, t4⟩⟩ := h
  cases a with
  | mk am af ao at_ aa aor az ast abp =>
    cases b with
    | mk bm bf bo bt ba bor bz bst bbp =>
      cases at_ with
      | mk aW aH allc alim ads afx =>
        cases bt with
        | mk bW bH bllc blim bds bfx =>
          simp only at h1 h2 h3 h4 h5 h6 t1 t2 t3 t4
          subst h1 h2 h3 h4 h5 h6 t1 t2 t3 t4
          rfl

theorem insert_upd (m : Multi) (z llc : Nat) (ds : DrawState) (bp : Nat) (il : InsertLoc) :
    (upd m z llc ds bp).insert il = (m.insert il).map (fun p => (upd p.1 z llc ds bp, p.2)) := by
  unfold Multi.insert upd
  simp only []
  cases m.free.getLast? with
  | none =>
    cases il with
    | atEnd => rfl
    | index p => rfl
    | fromBack p => rfl
    | after a => simp only []; cases m.ordering.idxOf? a <;> rfl
    | before a => simp only []; cases m.ordering.idxOf? a <;> rfl
  | some idx =>
    cases il with
    | atEnd => rfl
    | index p => rfl
    | fromBack p => rfl
    | after a => simp only []; cases m.ordering.idxOf? a <;> rfl
    | before a => simp only []; cases m.ordering.idxOf? a <;> rfl

theorem stepGo_same (x y : FW) (h : SameW x y) (op : MOp) : SameW (x.stepGo op).1 (y.stepGo op).1 := by
  have hn : x.now = y.now := h.now
  have hs : ∀ k, x.slotOf k = y.slotOf k := slotOf_same x y h
  cases op with
  | adv dt => exact ⟨h.multi, h.bars, by simp only [stepGo, h.now], h.panicked, h.ux, h.uy⟩
  | add loc arg len tpl fin pfx =>
    have hi : x.ilocOf loc arg = y.ilocOf loc arg := by simp only [ilocOf, hs]
    simp only [stepGo, hi]
    generalize y.ilocOf loc arg = iloc
    cases iloc with
    | none => exact ⟨h.multi, h.bars, h.now, rfl, h.ux, h.uy⟩
    | some il =>
      simp only [Option.bind_some]
      have hxm := Same.eq_upd h.multi
      generalize x.multi.z = z at hxm
      generalize x.multi.target.llc = l at hxm
      generalize x.multi.target.ds = d at hxm
      rw [hxm, insert_upd]
      cases y.multi.insert il with
      | none => exact ⟨upd_same _ _ _ _ _, h.bars, h.now, rfl, h.ux, h.uy⟩
      | some q =>
        obtain ⟨m2, i2⟩ := q
        simp only [Option.map_some]
        exact ⟨upd_same m2 z l d _, by simp only [h.bars, h.now], h.now, h.panicked, h.ux, h.uy⟩
  | remove k =>
    simp only [stepGo, hs]
    cases y.slotOf k with
    | none => exact h
    | some idx =>
      simp only []
      have hm : Same { x.multi.removeIdx idx with stale := true } { y.multi.removeIdx idx with stale := true } := by
        have r := removeIdx_same _ _ h.multi idx
        exact ⟨r.members, r.free, r.ordering, r.alignment, r.orphan, rfl, r.target⟩
      have hd := drawF_same _ _ hm true none y.now x.fs y.fs
      rw [hn]
      exact ⟨hd, by simp only [h.bars], rfl, h.panicked, h.ux, h.uy⟩
  | mpPrintln t =>
    simp only [stepGo]
    rw [hn]
    exact ⟨printlnF_same _ _ h.multi _ _ _ _, h.bars, rfl, h.panicked, h.ux, h.uy⟩
  | mpClear => exact ⟨clearF_same _ _ h.multi _ _, h.bars, h.now, h.panicked, h.ux, h.uy⟩
  | mpSuspend out =>
    simp only [stepGo]
    rw [hn, h.ux, h.uy]
    obtain ⟨s1, s2, s3⟩ := suspendF_same x.multi y.multi h.multi out y.now x.fs y.fs
    exact ⟨s1, h.bars, rfl, by simp only [s2, s3], rfl, rfl⟩
  | align b => exact ⟨⟨h.multi.members, h.multi.free, h.multi.ordering, rfl, h.multi.orphan, h.multi.stale, h.multi.target⟩, h.bars, h.now, h.panicked, h.ux, h.uy⟩
  | retarget =>
    simp only [stepGo]
    rw [hn]
    exact ⟨retarget_same _ _ h.multi _, h.bars, rfl, h.panicked, h.ux, h.uy⟩
  | bar k op => exact barStep_same x y h k op

theorem step_same (x y : FW) (h : SameW x y) (op : MOp) : SameW (x.step op).1 (y.step op).1 := by
  unfold step
  rw [h.panicked]
  split
  · exact h
  · exact stepGo_same x y h op

theorem run_same (ops : List MOp) : ∀ (x y : FW), SameW x y → SameW (x.run ops) (y.run ops) := by
  induction ops with
  | nil => intro x y h; exact h
  | cons op ops ih => intro x y h; exact ih _ _ (step_same x y h op)

end FW
end IndicatifModel.Faults
