import IndicatifModel.Generated.Funs
import IndicatifModel.Model.Limiter
import IndicatifModel.Model.Position
/-!
# Bridge between the regenerated definitions (`Generated/Funs.lean`, produced by `tools/rs2lean.py`
from the Rust sources on every run) and the hand-written model

Every lemma here is re-checked by the kernel against what the code says *now*: when the body of
`RateLimiter::allow`, `AtomicPosition::allow`, the atomic position operations, the length operations
or one of the constants changes its meaning, the corresponding lemma stops checking.
Each lemma also shows that the translated function does not panic (`none`) on in-range states.
-/
namespace IndicatifModel.GenBridge
open Generated

/-- the hand-written bucket state of a generated `RateLimiter` -/
def drawSt (r : RateLimiter) : Limiter.St := { cap := r.capacity, prev := r.prev }
/-- the hand-written configuration of a generated `RateLimiter` (repaired code: full bucket keeps no remainder) -/
def drawCfgOf (r : RateLimiter) : Limiter.Cfg := { I := r.interval, B := drawMaxBurst, f6 := true }
def withSt (r : RateLimiter) (s : Limiter.St) : RateLimiter := { r with capacity := s.cap, prev := s.prev }

theorem div_pos_of_le {a b : Nat} (hb : 0 < b) (h : b ≤ a) : 1 ≤ a / b :=
  (Nat.le_div_iff_mul_le hb).2 (by omega)

/-- `RateLimiter::allow` as translated from the source equals the model's `allow`, and does not panic,
for every state within the ranges of its field types (capacity at most the burst) and every `u64` time -/
theorem rateLimiter_allow (r : RateLimiter) (now : Nat) (hI : 0 < r.interval) (hcap : r.capacity ≤ drawMaxBurst)
    (hnow : now < 2 ^ 64) :
    r.allow now = some ((Limiter.allow (drawCfgOf r) (drawSt r) now).1,
                        withSt r (Limiter.allow (drawCfgOf r) (drawSt r) now).2) := by
  obtain ⟨I, cap, prev⟩ := r
  simp only [RateLimiter.allow, Limiter.allow, drawCfgOf, drawSt, withSt, drawMaxBurst] at *
  by_cases h1 : now < prev
  · simp [h1]
  · have hq : (now - prev) / I ≤ now - prev := Nat.div_le_self _ _
    have hr : (now - prev) % I ≤ now - prev := Nat.mod_le _ _
    simp only [h1, if_false]
    by_cases h2 : cap = 0 ∧ now - prev < I
    · simp [h2]
    · have hge : 1 ≤ cap + (now - prev) / I := by
        by_cases hc : cap = 0
        · have : I ≤ now - prev := by omega
          have := div_pos_of_le hI this
          omega
        · have := Nat.zero_le ((now - prev) / I)
          omega
      have hlt : cap + (now - prev) / I < 2 ^ 128 := by
        have : (2:Nat) ^ 64 < 2 ^ 128 := by decide
        omega
      simp only [h2, if_false, hI, and_self, if_true, hlt, hge, true_and, ge_iff_le]
      by_cases h3 : 20 ≤ cap + (now - prev) / I - 1
      · simp [h3]
      · have hm : (cap + (now - prev) / I - 1) % 2 ^ 8 = cap + (now - prev) / I - 1 := Nat.mod_eq_of_lt (by omega)
        have hr64 : (now - prev) % I % 2 ^ 64 = (now - prev) % I := Nat.mod_eq_of_lt (by omega)
        have hmin : min 20 (cap + (now - prev) / I - 1) = cap + (now - prev) / I - 1 := by omega
        have hle : (now - prev) % I ≤ now := by omega
        simp [h3, hm, hr64, hmin, hle]

/-- `RateLimiter::allow` never panics on in-range states -/
theorem rateLimiter_allow_no_panic (r : RateLimiter) (now : Nat) (hI : 0 < r.interval) (hcap : r.capacity ≤ drawMaxBurst)
    (hnow : now < 2 ^ 64) : (r.allow now).isSome = true := by
  rw [rateLimiter_allow r now hI hcap hnow]; rfl

/-- the capacity stays within the burst whatever the time -/
theorem model_allow_cap (c : Limiter.Cfg) (s : Limiter.St) (now : Nat) (hc : s.cap ≤ c.B) :
    (Limiter.allow c s now).2.cap ≤ c.B := by
  unfold Limiter.allow
  split
  · exact hc
  · dsimp only
    split
    · exact hc
    · split
      · exact Nat.le_refl _
      · exact Nat.min_le_left _ _

/-- a call history run through the translated `RateLimiter::allow`; `none` = some call panicked -/
def runAll (r : RateLimiter) : List Nat → Option (List Bool × RateLimiter)
  | [] => some ([], r)
  | t :: ts =>
    match r.allow t with
    | none => none
    | some (b, r') =>
      match runAll r' ts with
      | none => none
      | some (bs, r'') => some (b :: bs, r'')

/-- **every history**: the translated limiter never panics and its verdicts are the model's -/
theorem runAll_eq : ∀ (ts : List Nat) (r : RateLimiter), 0 < r.interval → r.capacity ≤ drawMaxBurst → (∀ t ∈ ts, t < 2 ^ 64) →
    runAll r ts = some ((Limiter.run (drawCfgOf r) (drawSt r) ts).1, withSt r (Limiter.run (drawCfgOf r) (drawSt r) ts).2)
  | [], r, _, _, _ => by simp [runAll, Limiter.run, withSt, drawSt]
  | t :: ts, r, hI, hcap, hts => by
    have ht : t < 2 ^ 64 := hts t (by simp)
    have hcap' := model_allow_cap (drawCfgOf r) (drawSt r) t hcap
    have ih := runAll_eq ts (withSt r (Limiter.allow (drawCfgOf r) (drawSt r) t).2) hI hcap' (fun x hx => hts x (by simp [hx]))
    simp only [runAll, rateLimiter_allow r t hI hcap ht, Limiter.run]
    rw [ih]
    rfl

/-- the interval computed by `RateLimiter::new(rate)` is the model's `drawInterval` (repaired code), for every `u8` rate
but 0, where the division panics -/
theorem rateLimiter_newInterval (rate : Nat) (h1 : 1 ≤ rate) (h2 : rate < 256) :
    RateLimiter.newInterval rate = some (Limiter.drawInterval Limiter.LFix.current rate) := by
  simp only [RateLimiter.newInterval, Limiter.drawInterval, Limiter.LFix.current]
  have : 1000000000 + rate < 2 ^ 32 := by
    have : (2:Nat) ^ 32 = 4294967296 := by decide
    omega
  simp [this, h1]
  omega

theorem rateLimiter_new_zero_panics : RateLimiter.newInterval 0 = none := by decide

/-- the model's draw configuration uses the constants of the source -/
theorem drawCfg_generated (rate : Nat) :
    (Limiter.drawCfg Limiter.LFix.current rate).B = RateLimiter.newCapacity ∧
    (Limiter.drawCfg Limiter.LFix.current rate).B = drawMaxBurst := ⟨rfl, rfl⟩

/-- the model's position-gate configuration uses the constants of the source -/
theorem posCfg_generated : Limiter.posCfg Limiter.LFix.current = { I := posInterval, B := posMaxBurst, f6 := true } := by decide

def posSt (a : AtomicPosition) : Limiter.St := { cap := a.capacity, prev := a.prev }

/-- `AtomicPosition::allow` as translated from the source equals the model's gate run on times relative to `start`,
and does not panic, whenever the stored `prev` is not in the future (kept by `allow` and `reset` themselves, below) -/
theorem atomicPosition_allow (a : AtomicPosition) (now : Nat) (hs : a.start ≤ now) (hnow : now < 2 ^ 64)
    (hcap : a.capacity ≤ posMaxBurst) (hprev : a.prev ≤ now - a.start) :
    a.allow now = some ((Limiter.allow (Limiter.posCfg Limiter.LFix.current) (posSt a) (now - a.start)).1,
      { a with capacity := (Limiter.allow (Limiter.posCfg Limiter.LFix.current) (posSt a) (now - a.start)).2.cap,
               prev := (Limiter.allow (Limiter.posCfg Limiter.LFix.current) (posSt a) (now - a.start)).2.prev }) := by
  obtain ⟨pos, cap, prev, start⟩ := a
  simp only [AtomicPosition.allow, Limiter.allow, Limiter.posCfg, Limiter.LFix.current, posSt, posMaxBurst, posInterval] at *
  have h0 : ¬ now < start := by omega
  have he : (now - start) % 2 ^ 64 = now - start := Nat.mod_eq_of_lt (by omega)
  have h1 : ¬ now - start < prev := by omega
  simp only [h0, if_false, he, h1]
  by_cases h2 : cap = 0 ∧ now - start - prev < 1000000
  · simp [h2]
  · have hge : 1 ≤ cap + (now - start - prev) / 1000000 := by omega
    have hlt : cap + (now - start - prev) / 1000000 < 2 ^ 128 := by
      have : (2:Nat) ^ 64 < 2 ^ 128 := by decide
      omega
    have hrem : (now - start - prev) % 1000000 ≤ now - start := by omega
    simp only [h2, if_false, hlt, hge, and_self, if_true, ge_iff_le, Nat.lt_irrefl, true_and]
    by_cases h3 : 10 ≤ cap + (now - start - prev) / 1000000 - 1
    · simp [h3]
    · have hm : (cap + (now - start - prev) / 1000000 - 1) % 2 ^ 8 = cap + (now - start - prev) / 1000000 - 1 :=
        Nat.mod_eq_of_lt (by omega)
      have hmin : min 10 (cap + (now - start - prev) / 1000000 - 1) = cap + (now - start - prev) / 1000000 - 1 := by omega
      simp [h3, hm, hmin, hrem]

/-- the model's `allow` keeps `prev` in the past and the capacity within the burst -/
theorem model_allow_bounds (c : Limiter.Cfg) (s : Limiter.St) (now : Nat) (hp : s.prev ≤ now) (hc : s.cap ≤ c.B) :
    (Limiter.allow c s now).2.prev ≤ now ∧ (Limiter.allow c s now).2.cap ≤ c.B := by
  unfold Limiter.allow
  split
  · exact ⟨hp, hc⟩
  · dsimp only
    split
    · exact ⟨hp, hc⟩
    · split
      · exact ⟨Nat.le_refl _, Nat.le_refl _⟩
      · exact ⟨Nat.sub_le _ _, Nat.min_le_left _ _⟩

/-- the hypotheses of `atomicPosition_allow` are kept by `allow` itself (and the other fields are untouched) -/
theorem atomicPosition_allow_prev (a : AtomicPosition) (now : Nat) (hs : a.start ≤ now) (hnow : now < 2 ^ 64)
    (hcap : a.capacity ≤ posMaxBurst) (hprev : a.prev ≤ now - a.start) (b : Bool) (a' : AtomicPosition)
    (h : a.allow now = some (b, a')) : a'.prev ≤ now - a'.start ∧ a'.capacity ≤ posMaxBurst ∧ a'.start = a.start ∧ a'.pos = a.pos := by
  rw [atomicPosition_allow a now hs hnow hcap hprev] at h
  have hb := model_allow_bounds (Limiter.posCfg Limiter.LFix.current) (posSt a) (now - a.start) hprev hcap
  simp only [Option.some.injEq, Prod.mk.injEq] at h
  obtain ⟨_, rfl⟩ := h
  exact ⟨hb.1, hb.2, rfl, rfl⟩

/-- the atomic position operations wrap at 2^64 exactly like the model's, and never panic -/
theorem atomicPosition_inc (a : AtomicPosition) (d : Nat) :
    a.inc d = some ((), { a with pos := Position.wrapAdd a.pos d }) := by
  simp [AtomicPosition.inc, Position.wrapAdd, Position.U64]

theorem atomicPosition_dec (a : AtomicPosition) (d : Nat) (hd : d < 2 ^ 64) :
    a.dec d = some ((), { a with pos := Position.wrapSub a.pos d }) := by
  simp [AtomicPosition.dec, Position.wrapSub, Position.U64, Nat.mod_eq_of_lt hd]

theorem atomicPosition_set (a : AtomicPosition) (p : Nat) : a.set p = some ((), { a with pos := p }) := by
  simp [AtomicPosition.set]

/-- `reset` zeroes the position and moves the gate's `prev` to the present: it keeps the hypothesis of `atomicPosition_allow` -/
theorem atomicPosition_reset (a : AtomicPosition) (now : Nat) (hnow : now < 2 ^ 64) :
    a.reset now = some ((), { a with pos := 0, prev := now - a.start }) := by
  have : (now - a.start) % 2 ^ 64 = now - a.start := Nat.mod_eq_of_lt (by omega)
  simp [AtomicPosition.reset, this]

/-- the length operations of `BarState` as translated from the source are the model's saturating operations -/
theorem length_ops (s : Position.St) (now v : Nat) :
    LenState.setLength ⟨s.len⟩ now v = some ((), ⟨(Position.step s (.setLen v)).len⟩) ∧
    LenState.unsetLength ⟨s.len⟩ now = some ((), ⟨(Position.step s .unsetLen).len⟩) ∧
    LenState.incLength ⟨s.len⟩ now v = some ((), ⟨(Position.step s (.incLen v)).len⟩) ∧
    LenState.decLength ⟨s.len⟩ now v = some ((), ⟨(Position.step s (.decLen v)).len⟩) := by
  refine ⟨rfl, rfl, ?_, ?_⟩
  · cases h : s.len <;> simp [LenState.incLength, Position.step, Position.satAdd, Position.U64, h]
  · cases h : s.len <;> simp [LenState.decLength, Position.step, Position.satSub, h]

end IndicatifModel.GenBridge
