import IndicatifModel.Generated.HumanDur
/-! The program read from `<HumanDuration as Display>::fmt` computes the hand-written `humanDuration`. -/
namespace IndicatifModel.GenBridge
open IndicatifModel.Format

/-- the loop of the source, started at entry `pre.length` of the table, is the model's search through the rest of the table -/
theorem hdLoop_go (d : Nat) (suf pre : List (Nat × String × String)) (idx : Nat) (hne : suf ≠ []) :
    hdLoop Generated.humanDurProg (pre ++ suf) d pre.length idx suf.length = unitIndex.go d pre.length suf := by
  induction suf generalizing pre idx with
  | nil => exact absurd rfl hne
  | cons cur rest ih =>
    obtain ⟨c, cn, ca⟩ := cur
    have hcur : ((pre ++ (c, cn, ca) :: rest).getD pre.length (0, "", "")).1 = c := by
      simp [List.getD_eq_getElem?_getD]
    cases rest with
    | nil =>
      simp [hdLoop, Generated.humanDurProg, unitIndex.go]
    | cons nx rest' =>
      obtain ⟨n, nn, na⟩ := nx
      have hnext : (pre ++ (c, cn, ca) :: (n, nn, na) :: rest')[pre.length + 1]? = some (n, nn, na) := by simp
      have h := ih (pre ++ [(c, cn, ca)]) pre.length (by simp)
      simp only [List.append_assoc, List.singleton_append, List.length_append, List.length_cons] at h
      rw [List.length_cons, hdLoop]
      simp only [hcur, hnext, Generated.humanDurProg, HDCmp.holds, unitIndex.go]
      by_cases hc : d + n / 2 ≥ c + c / 2
      · simp [hc]
      · simp only [hc, decide_false, Bool.false_eq_true, if_false]
        exact h

theorem hdCount_eq (d : Nat) : hdCount Generated.humanDurProg units d = humanDurationCount d := by
  have hl : hdLoop Generated.humanDurProg units d 0 Generated.humanDurProg.startIdx units.length = unitIndex d := by
    have := hdLoop_go d units [] Generated.humanDurProg.startIdx (by decide)
    simpa [unitIndex] using this
  unfold hdCount humanDurationCount
  simp only [hl]
  simp only [Generated.humanDurProg, hdRoundDiv, if_true, List.getD_eq_getElem?_getD]
  by_cases h : unitIndex d < units.length - 1
  · simp only [h, decide_true, if_true]
  · simp only [h, decide_false, Bool.false_eq_true, if_false]

/-- the text of `HumanDuration` from its count, unit name and short name -/
def hdText (t : Nat) (name alt : String) (alternate : Bool) : List Char :=
  if alternate then digits t ++ alt.toList
  else if t = 1 then digits t ++ [' '] ++ name.toList
  else digits t ++ [' '] ++ name.toList ++ ['s']

theorem hdArms_eq (t : Nat) (name alt : String) (alternate : Bool) :
    (match Generated.humanDurArms.find? (hdArmMatches · alternate t) with
     | some a => (a.pieces.map (hdPiece t name alt)).flatten
     | none => []) = hdText t name alt alternate := by
  cases alternate
  · by_cases ht : t = 1
    · subst ht; simp [Generated.humanDurArms, hdArmMatches, hdPiece, hdText]
    · have h1 : (1 == t) = false := by
        cases h : (1 == t)
        · rfl
        · exact absurd (by simpa using h : 1 = t).symm ht
      simp [Generated.humanDurArms, hdArmMatches, hdPiece, hdText, ht, h1]
  · simp [Generated.humanDurArms, hdArmMatches, hdPiece, hdText]

/-- **the program read from the source computes the model's text**, for every duration and both forms -/
theorem humanDuration_eq (d : Nat) (alternate : Bool) :
    hdRun Generated.humanDurProg Generated.humanDurArms units d alternate = humanDuration d alternate := by
  unfold hdRun humanDuration
  simp only [hdCount_eq]
  exact hdArms_eq _ _ _ _

end IndicatifModel.GenBridge
