import IndicatifModel.Generated.EstimatorFuns
/-!
# Bridge: the estimator as translated from the source (`Generated/EstimatorFuns.lean`) vs `Model/Estimator`

Both are generic in the arithmetic `Ops α`, so the identities hold for every instance: for the ordered fields the laws of
`Props/C09` are proved over, and for the `Float` instance the driver runs against the crate.
-/
namespace IndicatifModel.GenBridge
open Generated Estimator

def toS {α : Type} (e : Est α) : EstimatorS α :=
  { smoothed_steps_per_sec := e.smoothed, double_smoothed_steps_per_sec := e.doubleSmoothed,
    prev_steps := e.prevSteps, prev_time := e.prevTime, start_time := e.startTime }

theorem durationToSecs_eq {α : Type} (o : Ops α) (d : Nat) : durationToSecs o d = secs o d := rfl

theorem gen_reset {α : Type} (o : Ops α) (e : Est α) (now : Nat) :
    (toS e).reset o now = some ((), toS (reset o e now)) := rfl

theorem gen_stepsPerSecond {α : Type} (o : Ops α) (e : Est α) (now : Nat) :
    (toS e).stepsPerSecond o now = some (stepsPerSecond o e now, toS e) := rfl

/-- **`Estimator::record` as translated equals the model's `record`** for every arithmetic, every estimator state, every position
and every instant, and cannot panic (the only integer subtraction is guarded by the sanity check in front of it) -/
theorem gen_record {α : Type} (o : Ops α) (e : Est α) (steps now : Nat) :
    (toS e).record o steps now = some ((), toS (record o e steps now)) := by
  unfold EstimatorS.record record
  simp only [toS]
  by_cases h1 : steps ≤ e.prevSteps ∨ now ≤ e.prevTime
  · simp only [h1, if_true]
    by_cases h2 : steps < e.prevSteps
    · simp only [h2, if_true]; rfl
    · simp only [h2, if_false]
  · have hle : e.prevSteps ≤ steps := by omega
    simp only [h1, if_false, hle, if_true]
    rfl

end IndicatifModel.GenBridge
