import IndicatifModel.Generated.Funs
import IndicatifModel.Model.Format
import IndicatifModel.Model.Tab
import IndicatifModel.Model.StyleBuilder
/-!
# Bridge: constants, tables and `FormattedDuration::fmt` as translated from the source vs the model
-/
namespace IndicatifModel.GenBridge
open Generated

/-- Rust's `{x}` / `{x:0N}` for unsigned integers: decimal digits, left-padded with zeros to `N` characters -/
def renderNum (v pad : Nat) : List Char :=
  let ds := Format.digits v
  List.replicate (pad - ds.length) '0' ++ ds

def renderPieces : List FmtPiece → List Char
  | [] => []
  | .lit cs :: ps => cs ++ renderPieces ps
  | .num v pad :: ps => renderNum v pad ++ renderPieces ps

theorem digits_length_lt10 (n : Nat) (h : n < 10) : (Format.digits n).length = 1 := by
  unfold Format.digits; simp [h]

theorem digits_length_ge10 (n : Nat) (h1 : 10 ≤ n) (h2 : n < 100) : (Format.digits n).length = 2 := by
  unfold Format.digits
  have : ¬ n < 10 := by omega
  simp only [this, if_false, List.length_append, List.length_singleton]
  rw [digits_length_lt10 (n / 10) (by omega)]

/-- two-digit zero padding is the model's `pad2` below 100 -/
theorem renderNum_pad2 (n : Nat) (h : n < 100) : renderNum n 2 = Format.pad2 n := by
  unfold renderNum Format.pad2
  by_cases h10 : n < 10
  · simp [h10, digits_length_lt10 n h10, List.replicate]
  · simp [h10, digits_length_ge10 n (by omega) h, List.replicate]

theorem renderNum_pad0 (n : Nat) : renderNum n 0 = Format.digits n := by simp [renderNum]

/-- **`FormattedDuration::fmt` as translated writes exactly the model's text**, for every number of seconds -/
theorem formattedDuration_eq (secs : Nat) :
    renderPieces (Generated.formattedDuration secs) = Format.formattedDuration secs := by
  unfold Generated.formattedDuration Format.formattedDuration
  have hs : secs % 60 < 100 := by omega
  have hm : secs / 60 % 60 < 100 := by omega
  have hh : secs / 60 / 60 % 24 < 100 := by omega
  by_cases hd : secs / 60 / 60 / 24 > 0
  · simp [hd, renderPieces, renderNum_pad2 _ hs, renderNum_pad2 _ hm, renderNum_pad2 _ hh, renderNum_pad0]
  · simp [hd, renderPieces, renderNum_pad2 _ hs, renderNum_pad2 _ hm, renderNum_pad2 _ hh]

/-- the model's `UNITS` table is the source's (unit lengths in nanoseconds, names and short names, same order) -/
theorem units_eq : Format.units = Generated.units.map (fun r => (r.1 * Format.NS, r.2.1, r.2.2)) := by
  decide +kernel

/-- defaults the models start from are the source's -/
theorem defaults_eq :
    ({} : Tab.BarT).tabWidth = defaultTabWidth ∧ ({ literals := [] } : Tab.StyleT).tabWidth = defaultTabWidth ∧
    ({} : StyleBuilder.Style).tickN = defaultTickChars.length ∧
    ({} : StyleBuilder.Style).progWidths.length = defaultProgressChars.length := by
  decide

end IndicatifModel.GenBridge
