import IndicatifModel.Generated.BarGeoFuns
/-!
# Bridge: `ProgressState::fraction` and the arithmetic of `format_bar` as translated from the source vs `Model/BarGeo`
-/
namespace IndicatifModel.GenBridge
open Generated

/-- **`ProgressState::fraction` as translated is the model's `fraction`** for every arithmetic in which `1 < 0` is false
(the source clamps the constant arms too, which then changes nothing) -/
theorem gen_fraction {α : Type} (A : BarGeo.Arith α) (h10 : A.lt A.one A.zero = false) (pos : Nat) (len : Option Nat) :
    Generated.fraction A pos len = BarGeo.fraction A pos len := by
  unfold Generated.fraction BarGeo.fraction
  cases len with
  | none => by_cases h : A.lt A.zero A.zero = true <;> simp [h, h10]
  | some l =>
    cases l with
    | zero => by_cases h : A.lt A.one A.one = true <;> simp [h, h10]
    | succ k =>
      cases pos with
      | zero => by_cases h : A.lt A.zero A.zero = true <;> simp [h, h10]
      | succ p => simp

/-- **the arithmetic of `format_bar` as translated is the model's `formatBar`**, and the only panic is the division by a zero
`char_width` (finding F13, excluded since the builder rejects zero-width progress characters) -/
theorem gen_formatBar {α : Type} (A : BarGeo.Arith α) (fract : α) (width cw nchars : Nat) (hcw : 0 < cw) :
    Generated.formatBar A fract width cw nchars =
      some ((BarGeo.formatBar A fract width cw nchars).filled, (BarGeo.formatBar A fract width cw nchars).cur,
            (BarGeo.formatBar A fract width cw nchars).bg) := by
  unfold Generated.formatBar BarGeo.formatBar
  simp only [hcw, if_true]
  by_cases h : A.lt A.zero (A.mul fract (A.ofNat (width / cw))) = true ∧ A.trunc (A.mul fract (A.ofNat (width / cw))) < width / cw
  · simp [h]
  · have h' : (A.lt A.zero (A.mul fract (A.ofNat (width / cw))) && decide (A.trunc (A.mul fract (A.ofNat (width / cw))) < width / cw)) = false := by
      rw [Bool.and_eq_false_iff]
      by_cases h1 : A.lt A.zero (A.mul fract (A.ofNat (width / cw))) = true
      · right; simpa using fun h2 => h ⟨h1, h2⟩
      · left; simpa using h1
    simp [h, h']

theorem gen_formatBar_zero_cw {α : Type} (A : BarGeo.Arith α) (fract : α) (width nchars : Nat) :
    Generated.formatBar A fract width 0 nchars = none := by simp [Generated.formatBar]

end IndicatifModel.GenBridge
