import IndicatifModel.Generated.Funs
import IndicatifModel.Proofs.MultiOrder
import IndicatifModel.Proofs.MultiSpec
/-!
# Bridge: `MultiState::insert` / `remove_idx` as translated from the source (`Generated/Funs.lean`) vs the model

The translated functions contain every panic site of the Rust code (`members[idx] = ..` out of bounds,
`Vec::insert` past the end, `position(..).unwrap()` on a missing anchor, `self.len()` underflow and the
`assert_eq!(self.len(), self.ordering.len())`). The lemmas reduce "translated = model" to the facts the
well-formedness invariant of `Proofs/MultiOrder` provides; `Props/C02` discharges them.
-/
namespace IndicatifModel.GenBridge
open Generated

def slots (m : Multi) : MultiSlots Member := { members := m.members, free_set := m.free, ordering := m.ordering }

def toGen : InsertLoc → InsertLocation
  | .atEnd => .End
  | .index i => .Index i
  | .fromBack i => .IndexFromBack i
  | .after a => .After a
  | .before a => .Before a

theorem idxOf?_mem {l : List Nat} {a : Nat} (h : a ∈ l) : l.idxOf? a = some (l.idxOf a) := by
  induction l with
  | nil => cases h
  | cons x xs ih =>
    rw [List.idxOf?_cons, List.idxOf_cons]
    by_cases hx : x = a
    · simp [hx]
    · have hm : a ∈ xs := by
        cases h with
        | head => exact absurd rfl hx
        | tail _ h => exact h
      have hb : (x == a) = false := by simp [hx]
      simp [hb, ih hm]

theorem idxOf?_not_mem {l : List Nat} {a : Nat} (h : a ∉ l) : l.idxOf? a = none := List.idxOf?_eq_none_iff.2 h

/-- **`MultiState::insert` as translated equals the model's `insert`** (same slot, same three fields; the anchor `unwrap`
panics exactly when the model says so), provided the slot popped from the free set is in range and the
`assert_eq!` holds of the model's result -/
theorem gen_insert (m : Multi) (loc : InsertLoc)
    (hfree : ∀ i, m.free.getLast? = some i → i < m.members.length) (hlen : m.ordering.length < 2 ^ 64)
    (hassert : ∀ m' idx, m.insert loc = some (m', idx) →
      m'.free.length ≤ m'.members.length ∧ m'.members.length - m'.free.length = m'.ordering.length) :
    MultiSlots.insert ({} : Member) (slots m) (toGen loc) = (m.insert loc).map (fun r => (r.2, slots r.1)) := by
  cases hg : m.free.getLast? with
  | none =>
    cases loc with
    | atEnd =>
      have ha := hassert _ _ (by simp [Multi.insert, hg]; exact ⟨rfl, rfl⟩)
      simp [MultiSlots.insert, slots, toGen, Multi.insert, hg] at ha ⊢
      simp [ha]
    | index pos =>
      have ha := hassert _ _ (by simp [Multi.insert, hg]; exact ⟨rfl, rfl⟩)
      simp [MultiSlots.insert, slots, toGen, Multi.insert, hg, Multi.insertAt] at ha ⊢
      simp [ha, Nat.min_le_right]
    | fromBack pos =>
      have ha := hassert _ _ (by simp [Multi.insert, hg]; exact ⟨rfl, rfl⟩)
      simp [MultiSlots.insert, slots, toGen, Multi.insert, hg, Multi.insertAt] at ha ⊢
      simp [ha]
    | after a =>
      by_cases hm : a ∈ m.ordering
      · have ha := hassert _ _ (by simp [Multi.insert, hg, idxOf?_mem hm]; exact ⟨rfl, rfl⟩)
        have hl := List.idxOf_lt_length_of_mem hm
        have h64 : List.idxOf a m.ordering + 1 < 2 ^ 64 := by omega
        simp [MultiSlots.insert, slots, toGen, Multi.insert, hg, Multi.insertAt, idxOf?_mem hm, hm] at ha ⊢
        simp [ha, h64]
        omega
      · simp [MultiSlots.insert, slots, toGen, Multi.insert, hg, idxOf?_not_mem hm, hm]
    | before a =>
      by_cases hm : a ∈ m.ordering
      · have ha := hassert _ _ (by simp [Multi.insert, hg, idxOf?_mem hm]; exact ⟨rfl, rfl⟩)
        have hl := List.idxOf_lt_length_of_mem hm
        simp [MultiSlots.insert, slots, toGen, Multi.insert, hg, Multi.insertAt, idxOf?_mem hm, hm] at ha ⊢
        simp [ha]
        omega
      · simp [MultiSlots.insert, slots, toGen, Multi.insert, hg, idxOf?_not_mem hm, hm]
  | some i =>
    have hi := hfree i hg
    cases loc with
    | atEnd =>
      have ha := hassert _ _ (by simp [Multi.insert, hg]; exact ⟨rfl, rfl⟩)
      simp [MultiSlots.insert, slots, toGen, Multi.insert, hg, hi] at ha ⊢
      simp [ha]
    | index pos =>
      have ha := hassert _ _ (by simp [Multi.insert, hg]; exact ⟨rfl, rfl⟩)
      simp [MultiSlots.insert, slots, toGen, Multi.insert, hg, hi, Multi.insertAt] at ha ⊢
      simp [ha, Nat.min_le_right]
    | fromBack pos =>
      have ha := hassert _ _ (by simp [Multi.insert, hg]; exact ⟨rfl, rfl⟩)
      simp [MultiSlots.insert, slots, toGen, Multi.insert, hg, hi, Multi.insertAt] at ha ⊢
      simp [ha]
    | after a =>
      by_cases hm : a ∈ m.ordering
      · have ha := hassert _ _ (by simp [Multi.insert, hg, idxOf?_mem hm]; exact ⟨rfl, rfl⟩)
        have hl := List.idxOf_lt_length_of_mem hm
        have h64 : List.idxOf a m.ordering + 1 < 2 ^ 64 := by omega
        simp [MultiSlots.insert, slots, toGen, Multi.insert, hg, hi, Multi.insertAt, idxOf?_mem hm, hm] at ha ⊢
        simp [ha, h64]
        omega
      · simp [MultiSlots.insert, slots, toGen, Multi.insert, hg, hi, idxOf?_not_mem hm, hm]
    | before a =>
      by_cases hm : a ∈ m.ordering
      · have ha := hassert _ _ (by simp [Multi.insert, hg, idxOf?_mem hm]; exact ⟨rfl, rfl⟩)
        have hl := List.idxOf_lt_length_of_mem hm
        simp [MultiSlots.insert, slots, toGen, Multi.insert, hg, hi, Multi.insertAt, idxOf?_mem hm, hm] at ha ⊢
        simp [ha]
        omega
      · simp [MultiSlots.insert, slots, toGen, Multi.insert, hg, hi, idxOf?_not_mem hm, hm]

/-- **`MultiState::remove_idx` as translated equals the model's `removeIdx`**, provided the slot is in range and the
`assert_eq!` holds of the model's result -/
theorem gen_removeIdx (m : Multi) (idx : Nat) (hlt : idx < m.members.length)
    (hassert : (m.removeIdx idx).free.length ≤ (m.removeIdx idx).members.length ∧
      (m.removeIdx idx).members.length - (m.removeIdx idx).free.length = (m.removeIdx idx).ordering.length) :
    MultiSlots.removeIdx ({} : Member) (slots m) idx = some ((), slots (m.removeIdx idx)) := by
  by_cases hc : idx ∈ m.free
  · simp [MultiSlots.removeIdx, slots, Multi.removeIdx, hc]
  · simp [MultiSlots.removeIdx, slots, Multi.removeIdx, hc, hlt] at hassert ⊢
    simp [hassert]

end IndicatifModel.GenBridge
