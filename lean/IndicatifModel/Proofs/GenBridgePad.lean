import IndicatifModel.Generated.Funs
import IndicatifModel.Model.Pad
/-!
# Bridge: the integer skeleton of `PaddedStringDisplay::fmt` as translated from the source vs `Model/Pad`
-/
namespace IndicatifModel.GenBridge
open Generated Pad

def toGenAlign : Pad.Align → Generated.Alignment
  | .left => .Left
  | .center => .Center
  | .right => .Right

/-- what the translated skeleton's answer means for the content `s` -/
def applyAction (s : List G) : PadAction → List G
  | .Whole => s
  | .Slice a b => (byteSlice s a b).getD s
  | .Pad l r => spaces l ++ s ++ spaces r

/-- **`PaddedStringDisplay::fmt` as translated is the model's `pad`**: fed the column width and byte length of the content, the
translated skeleton chooses exactly the branch, the slice bounds and the paddings of the model, and its byte arithmetic cannot
underflow when the content has at most as many columns as bytes (true of every string: a character of two columns has at least
three bytes) -/
theorem gen_pad (s : List G) (width : Nat) (align : Pad.Align) (truncate : Bool) (hcb : cols s ≤ bytes s) :
    (paddedFmt (cols s) (bytes s) width truncate (toGenAlign align)).map (applyAction s) = some (pad s width align truncate) := by
  unfold paddedFmt pad
  by_cases h1 : cols s - width > 0 ∧ ¬ truncate = true
  · simp [h1, applyAction]
  · by_cases h2 : cols s - width > 0
    · have ht : truncate = true := by
        cases truncate
        · exact absurd ⟨h2, by simp⟩ h1
        · rfl
      subst ht
      have e1 : cols s ≤ bytes s + width := by omega
      have e2 : cols s ≤ bytes s + (cols s - width) / 2 + width := by omega
      cases align <;> simp [toGenAlign, applyAction, h2, e1, e2]
    · simp only [h1, if_false, h2]
      cases align <;> simp [toGenAlign, applyAction]

end IndicatifModel.GenBridge
