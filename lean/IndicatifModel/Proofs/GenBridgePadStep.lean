import IndicatifModel.Generated.PadStep
import IndicatifModel.Model.DrawTarget
/-! The loop body of `LineType::padded_width` as translated from the source is the model's `Text.padStep`. -/
namespace IndicatifModel.GenBridge

theorem padStepSrc_eq (W : Nat) (acc : Nat × Nat) (g : Glyph) :
    Generated.padStepSrc W acc.1 acc.2 g.w = Text.padStep W acc g := by
  unfold Generated.padStepSrc Text.padStep
  by_cases h0 : g.w = 0 ∨ g.w > W
  · simp only [h0, if_true]
  · simp only [h0, if_false]
    by_cases hp : acc.1 % W ≠ 0 ∧ g.w > W - acc.1 % W
    · rw [if_pos hp, if_pos hp]
    · rw [if_neg hp, if_neg hp]

/-- the whole inner double loop: folding the translated body over the glyphs of a line is the model's fold -/
theorem padFoldSrc_eq (W : Nat) (gs : Text) (acc : Nat × Nat) :
    gs.foldl (fun a g => Generated.padStepSrc W a.1 a.2 g.w) acc = gs.foldl (Text.padStep W) acc := by
  congr 1
  funext a g
  exact padStepSrc_eq W a g

/-- the model's `wrappedHeight` is the source's rounding and bound applied to the padded width -/
theorem wrappedHeightSrc_eq (W : Nat) (l : Line) : wrappedHeight W l = Generated.wrappedHeightSrc (l.padded W) W := by
  unfold wrappedHeight Generated.wrappedHeightSrc
  exact Nat.max_comm _ _

end IndicatifModel.GenBridge
