import IndicatifModel.Generated.TemplateArms
/-!
# The parser table regenerated from the source is the parser model

`Generated/TemplateArms.lean` is rewritten from `src/style.rs` on every run. These lemmas show that interpreting it
(first matching arm wins) gives exactly the hand-written `step1` / `step2` / `parse` of `Model/Template.lean` with the
repairs the repository contains — so the C10 theorems are about what the source says now.
-/
namespace IndicatifModel.Template
open Generated

/-- only the arms for the current state matter -/
theorem find_accepts (arms : List PArm) (s : St) (c : Char) :
    arms.find? (fun a => a.accepts s c) =
      (arms.filter (fun a => a.states.contains s.state)).find? (fun a => a.pat.accepts c && a.guard.holds s c) := by
  induction arms with
  | nil => rfl
  | cons a as ih =>
    by_cases h : a.states.contains s.state = true
    · simp only [PArm.accepts] at ih
      simp only [List.filter_cons, h, if_true, List.find?_cons, PArm.accepts, Bool.true_and, ih]
    · have h' : a.states.contains s.state = false := by simpa using h
      simp only [PArm.accepts] at ih
      simp only [List.filter_cons, h', List.find?_cons, PArm.accepts, Bool.false_and, Bool.false_eq_true, if_false, ih]

theorem ws_open : isAsciiWs '{' = false := by decide
theorem ws_close : isAsciiWs '}' = false := by decide
theorem ws_colon : isAsciiWs ':' = false := by decide
theorem dg_lt : isDigit '<' = false := by decide
theorem dg_hat : isDigit '^' = false := by decide
theorem dg_gt : isDigit '>' = false := by decide
theorem dg_bang : isDigit '!' = false := by decide
theorem dg_dot : isDigit '.' = false := by decide
theorem dg_close : isDigit '}' = false := by decide

theorem step1T_eq (s : St) (c : Char) : step1T parserArms s c = step1 PFix.current s c := by
  obtain ⟨st, parts, buf⟩ := s
  unfold step1T
  rw [find_accepts]
  cases st
  · have hf : parserArms.filter (fun a => a.states.contains PState.literal) = [parserArms[0], parserArms[1], parserArms[2], parserArms[3]] := by rfl
    rw [hf]
    simp only [parserArms, List.getElem_cons_zero, List.getElem_cons_succ, List.find?_cons, CharPat.accepts, Guard.holds, step1, PFix.current, doAct, Bool.and_true]
    by_cases h1 : c = '{'
    · simp [h1]
    · by_cases h2 : c = '\n'
      · simp [h2]
      · by_cases h3 : c = '}'
        · simp [h3]
        · simp [h1, h2, h3]
  · have hf : parserArms.filter (fun a => a.states.contains PState.maybeOpen) = [parserArms[5], parserArms[6], parserArms[7]] := by rfl
    rw [hf]
    simp only [parserArms, List.getElem_cons_zero, List.getElem_cons_succ, List.find?_cons, List.find?_nil, CharPat.accepts, Guard.holds, step1, PFix.current, doAct, Bool.and_true, Bool.true_and]
    by_cases h1 : c = '{'
    · simp_all (config := { decide := true }) [ws_open, ws_close, ws_colon, dg_lt, dg_hat, dg_gt, dg_bang, dg_dot, dg_close]
    ·
      by_cases h2 : isAsciiWs c = true
      · simp_all (config := { decide := true }) [ws_open, ws_close, ws_colon, dg_lt, dg_hat, dg_gt, dg_bang, dg_dot, dg_close]
      ·
        by_cases h3 : c = '}'
        · simp_all (config := { decide := true }) [ws_open, ws_close, ws_colon, dg_lt, dg_hat, dg_gt, dg_bang, dg_dot, dg_close]
        ·
          by_cases h4 : c = ':'
          · simp_all (config := { decide := true }) [ws_open, ws_close, ws_colon, dg_lt, dg_hat, dg_gt, dg_bang, dg_dot, dg_close]
          ·
            simp_all (config := { decide := true }) [ws_open, ws_close, ws_colon, dg_lt, dg_hat, dg_gt, dg_bang, dg_dot, dg_close]
  · have hf : parserArms.filter (fun a => a.states.contains PState.doubleClose) = [parserArms[4]] := by rfl
    rw [hf]
    simp only [parserArms, List.getElem_cons_zero, List.getElem_cons_succ, List.find?_cons, List.find?_nil, CharPat.accepts, Guard.holds, step1, PFix.current, doAct, Bool.and_true, Bool.true_and]
    by_cases h1 : c = '}'
    · simp_all (config := { decide := true }) [ws_open, ws_close, ws_colon, dg_lt, dg_hat, dg_gt, dg_bang, dg_dot, dg_close]
    ·
      simp_all (config := { decide := true }) [ws_open, ws_close, ws_colon, dg_lt, dg_hat, dg_gt, dg_bang, dg_dot, dg_close]
  · have hf : parserArms.filter (fun a => a.states.contains PState.key) = [parserArms[6], parserArms[8], parserArms[9], parserArms[10], parserArms[11]] := by rfl
    rw [hf]
    simp only [parserArms, List.getElem_cons_zero, List.getElem_cons_succ, List.find?_cons, List.find?_nil, CharPat.accepts, Guard.holds, step1, PFix.current, doAct, Bool.and_true, Bool.true_and]
    by_cases h1 : isAsciiWs c = true
    · simp_all (config := { decide := true }) [ws_open, ws_close, ws_colon, dg_lt, dg_hat, dg_gt, dg_bang, dg_dot, dg_close]
    ·
      by_cases h2 : c = '}'
      · simp_all (config := { decide := true }) [ws_open, ws_close, ws_colon, dg_lt, dg_hat, dg_gt, dg_bang, dg_dot, dg_close]
      ·
        by_cases h3 : c = ':'
        · simp_all (config := { decide := true }) [ws_open, ws_close, ws_colon, dg_lt, dg_hat, dg_gt, dg_bang, dg_dot, dg_close]
        ·
          simp_all (config := { decide := true }) [ws_open, ws_close, ws_colon, dg_lt, dg_hat, dg_gt, dg_bang, dg_dot, dg_close]
  · have hf : parserArms.filter (fun a => a.states.contains PState.align) = [parserArms[12], parserArms[13], parserArms[14], parserArms[15], parserArms[16]] := by rfl
    rw [hf]
    simp only [parserArms, List.getElem_cons_zero, List.getElem_cons_succ, List.find?_cons, List.find?_nil, CharPat.accepts, Guard.holds, step1, PFix.current, doAct, Bool.and_true, Bool.true_and]
    by_cases h1 : c = '<'
    · simp_all (config := { decide := true }) [ws_open, ws_close, ws_colon, dg_lt, dg_hat, dg_gt, dg_bang, dg_dot, dg_close]
    ·
      by_cases h2 : c = '^'
      · simp_all (config := { decide := true }) [ws_open, ws_close, ws_colon, dg_lt, dg_hat, dg_gt, dg_bang, dg_dot, dg_close]
      ·
        by_cases h3 : c = '>'
        · simp_all (config := { decide := true }) [ws_open, ws_close, ws_colon, dg_lt, dg_hat, dg_gt, dg_bang, dg_dot, dg_close]
        ·
          by_cases h4 : isDigit c = true
          · simp_all (config := { decide := true }) [ws_open, ws_close, ws_colon, dg_lt, dg_hat, dg_gt, dg_bang, dg_dot, dg_close]
          ·
            by_cases h5 : c = '!'
            · simp_all (config := { decide := true }) [ws_open, ws_close, ws_colon, dg_lt, dg_hat, dg_gt, dg_bang, dg_dot, dg_close]
            ·
              by_cases h6 : c = '.'
              · simp_all (config := { decide := true }) [ws_open, ws_close, ws_colon, dg_lt, dg_hat, dg_gt, dg_bang, dg_dot, dg_close]
              ·
                by_cases h7 : c = '}'
                · simp_all (config := { decide := true }) [ws_open, ws_close, ws_colon, dg_lt, dg_hat, dg_gt, dg_bang, dg_dot, dg_close]
                ·
                  simp_all (config := { decide := true }) [ws_open, ws_close, ws_colon, dg_lt, dg_hat, dg_gt, dg_bang, dg_dot, dg_close]
  · have hf : parserArms.filter (fun a => a.states.contains PState.width) = [parserArms[14], parserArms[17], parserArms[18], parserArms[19]] := by rfl
    rw [hf]
    simp only [parserArms, List.getElem_cons_zero, List.getElem_cons_succ, List.find?_cons, List.find?_nil, CharPat.accepts, Guard.holds, step1, PFix.current, doAct, Bool.and_true, Bool.true_and]
    by_cases h1 : c = '!'
    · simp_all (config := { decide := true }) [ws_open, ws_close, ws_colon, dg_lt, dg_hat, dg_gt, dg_bang, dg_dot, dg_close]
    ·
      by_cases h2 : isDigit c = true
      · simp_all (config := { decide := true }) [ws_open, ws_close, ws_colon, dg_lt, dg_hat, dg_gt, dg_bang, dg_dot, dg_close]
      ·
        by_cases h3 : c = '.'
        · simp_all (config := { decide := true }) [ws_open, ws_close, ws_colon, dg_lt, dg_hat, dg_gt, dg_bang, dg_dot, dg_close]
        ·
          by_cases h4 : c = '}'
          · simp_all (config := { decide := true }) [ws_open, ws_close, ws_colon, dg_lt, dg_hat, dg_gt, dg_bang, dg_dot, dg_close]
          ·
            simp_all (config := { decide := true }) [ws_open, ws_close, ws_colon, dg_lt, dg_hat, dg_gt, dg_bang, dg_dot, dg_close]
  · have hf : parserArms.filter (fun a => a.states.contains PState.firstStyle) = [parserArms[20], parserArms[21], parserArms[22]] := by rfl
    rw [hf]
    simp only [parserArms, List.getElem_cons_zero, List.getElem_cons_succ, List.find?_cons, List.find?_nil, CharPat.accepts, Guard.holds, step1, PFix.current, doAct, Bool.and_true, Bool.true_and]
    by_cases h1 : c = '/'
    · simp_all (config := { decide := true }) [ws_open, ws_close, ws_colon, dg_lt, dg_hat, dg_gt, dg_bang, dg_dot, dg_close]
    ·
      by_cases h2 : c = '}'
      · simp_all (config := { decide := true }) [ws_open, ws_close, ws_colon, dg_lt, dg_hat, dg_gt, dg_bang, dg_dot, dg_close]
      ·
        simp_all (config := { decide := true }) [ws_open, ws_close, ws_colon, dg_lt, dg_hat, dg_gt, dg_bang, dg_dot, dg_close]
  · have hf : parserArms.filter (fun a => a.states.contains PState.altStyle) = [parserArms[23], parserArms[24]] := by rfl
    rw [hf]
    simp only [parserArms, List.getElem_cons_zero, List.getElem_cons_succ, List.find?_cons, List.find?_nil, CharPat.accepts, Guard.holds, step1, PFix.current, doAct, Bool.and_true, Bool.true_and]
    by_cases h1 : c = '}'
    · simp_all (config := { decide := true }) [ws_open, ws_close, ws_colon, dg_lt, dg_hat, dg_gt, dg_bang, dg_dot, dg_close]
    ·
      simp_all (config := { decide := true }) [ws_open, ws_close, ws_colon, dg_lt, dg_hat, dg_gt, dg_bang, dg_dot, dg_close]

theorem step2T_eq (c : Char) (old new : PState) (parts : List Part) (buf : List Char) :
    step2T transitionArms c old new parts buf = step2 PFix.current c old new parts buf := by
  by_cases hb : buf = []
  · cases old <;> cases new <;> simp (config := { decide := true }) [step2T, transitionArms, List.find?_cons, step2, hb]
  · cases old <;> cases new <;>
      simp (config := { decide := true }) [step2T, transitionArms, List.find?_cons, step2, doAct2, PFix.current, hb] <;>
      (repeat' split) <;> simp_all

theorem stepT_eq (s : St) (c : Char) : stepT parserArms transitionArms s c = step PFix.current s c := by
  unfold stepT step
  rw [step1T_eq]
  cases step1 PFix.current s c with
  | err st ch => rfl
  | panic => rfl
  | ok r =>
    obtain ⟨new, push, parts, buf⟩ := r
    simp only [step2T_eq]
    rfl

theorem runT_eq : ∀ (cs : List Char) (s : St), runT parserArms transitionArms s cs = run PFix.current s cs := by
  intro cs
  induction cs with
  | nil => intro s; rfl
  | cons c cs ih =>
    intro s
    unfold runT run
    rw [stepT_eq]
    cases step PFix.current s c with
    | ok s' => exact ih s'
    | err st ch => rfl
    | panic => rfl

/-- **the parser read off the source is the parser of the model**, for every input -/
theorem parseT_eq (cs : List Char) : parseT parserArms transitionArms flushStates cs = parse PFix.current cs := by
  unfold parseT parse
  rw [runT_eq]
  cases run PFix.current {} cs with
  | err st ch => rfl
  | panic => rfl
  | ok s =>
    have : (flushStates.contains s.state = true) ↔ (s.state = .literal ∨ s.state = .doubleClose) := by
      cases s.state <;> simp (config := { decide := true }) [flushStates]
    simp only [this]

end IndicatifModel.Template
