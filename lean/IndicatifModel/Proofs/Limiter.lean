import IndicatifModel.Model.Limiter
namespace IndicatifModel.Limiter

theorem allow_false_state (c : Cfg) (s s' : St) (now : Nat) (h : allow c s now = (false, s')) : s' = s := by
  unfold allow at h
  split at h
  · simp at h; exact h.symm
  · dsimp only at h
    split at h
    · simp at h; exact h.symm
    · split at h <;> simp at h

/-- an allowed call consumes at least one interval of credit and leaves less than `B+1` (at most `B`
intervals of credit when a full bucket keeps no remainder) -/
theorem allow_true_avail (c : Cfg) (hI : 0 < c.I) (s : St) (now : Nat) (s' : St)
    (h : allow c s now = (true, s')) :
    avail c s' now + c.I ≤ avail c s now ∧ s.prev ≤ now ∧ s'.prev ≤ now ∧ s'.cap ≤ c.B ∧
    avail c s' now < (c.B + 1) * c.I ∧ (c.f6 = true → avail c s' now ≤ c.B * c.I) := by
  unfold allow at h
  split at h
  · simp at h
  · rename_i hge
    dsimp only at h
    split at h
    · simp at h
    · rename_i h2
      have hdm := Nat.div_add_mod (now - s.prev) c.I
      have hlt := Nat.mod_lt (now - s.prev) hI
      have hle : (now - s.prev) % c.I ≤ now - s.prev := Nat.mod_le _ _
      have hpos : 1 ≤ s.cap + (now - s.prev) / c.I := by
        rcases Nat.eq_zero_or_pos s.cap with h0 | h0
        · have : ¬ (now - s.prev < c.I) := fun hh => h2 ⟨h0, hh⟩
          have : 1 ≤ (now - s.prev) / c.I := (Nat.one_le_div_iff hI).2 (by omega)
          omega
        · exact Nat.le_trans h0 (Nat.le_add_right _ _)
      have h4 : (s.cap + (now - s.prev) / c.I - 1) * c.I + c.I = (s.cap + (now - s.prev) / c.I) * c.I := by
        have : s.cap + (now - s.prev) / c.I - 1 + 1 = s.cap + (now - s.prev) / c.I := by omega
        rw [← this, Nat.add_mul, Nat.one_mul]; simp
      have h5 : (s.cap + (now - s.prev) / c.I) * c.I = s.cap * c.I + c.I * ((now - s.prev) / c.I) := by
        rw [Nat.add_mul, Nat.mul_comm ((now - s.prev) / c.I)]
      split at h
      · -- the bucket is full: `cap = B`, `prev = now`
        rename_i hsat
        simp only [Prod.mk.injEq, true_and] at h
        subst h
        simp only [avail, Nat.sub_self, Nat.add_zero]
        have h3 : c.B * c.I ≤ (s.cap + (now - s.prev) / c.I - 1) * c.I := Nat.mul_le_mul_right _ hsat.2
        have hB : (c.B + 1) * c.I = c.B * c.I + c.I := by rw [Nat.add_mul, Nat.one_mul]
        refine ⟨by omega, by omega, Nat.le_refl _, Nat.le_refl _, by omega, fun _ => Nat.le_refl _⟩
      · rename_i hns
        simp only [Prod.mk.injEq, true_and] at h
        subst h
        simp only [avail]
        have h6 : now - (now - (now - s.prev) % c.I) = (now - s.prev) % c.I := by omega
        have hm : min c.B (s.cap + (now - s.prev) / c.I - 1) ≤ s.cap + (now - s.prev) / c.I - 1 := Nat.min_le_right _ _
        have hmB : min c.B (s.cap + (now - s.prev) / c.I - 1) ≤ c.B := Nat.min_le_left _ _
        have h3 : min c.B (s.cap + (now - s.prev) / c.I - 1) * c.I ≤ (s.cap + (now - s.prev) / c.I - 1) * c.I :=
          Nat.mul_le_mul_right _ hm
        have h3B := Nat.mul_le_mul_right c.I hmB
        have hB : (c.B + 1) * c.I = c.B * c.I + c.I := by rw [Nat.add_mul, Nat.one_mul]
        refine ⟨?_, by omega, by omega, hmB, ?_, ?_⟩
        · rw [h6]; omega
        · rw [h6]; omega
        · intro hf
          -- not saturated although the repair is on: the new capacity is below `B`
          have hlt' : s.cap + (now - s.prev) / c.I - 1 < c.B := by
            apply Nat.lt_of_not_le
            intro hcon
            exact hns ⟨hf, hcon⟩
          have hmin : min c.B (s.cap + (now - s.prev) / c.I - 1) + 1 ≤ c.B := by
            have := Nat.min_le_right c.B (s.cap + (now - s.prev) / c.I - 1)
            omega
          have := Nat.mul_le_mul_right c.I hmin
          rw [Nat.add_mul, Nat.one_mul] at this
          rw [h6]; omega

theorem count_cons_false (bs : List Bool) : count (false :: bs) = count bs := by simp [count]
theorem count_cons_true (bs : List Bool) : count (true :: bs) = count bs + 1 := by simp [count]

/-- credit grows exactly with time between calls -/
theorem avail_mono (c : Cfg) (s : St) (t t' : Nat) (h1 : s.prev ≤ t) (h2 : t ≤ t') :
    avail c s t' = avail c s t + (t' - t) := by
  simp only [avail]; omega

/-- time of the last element (or `t0`) -/
def lastTime (t0 : Nat) : List Nat → Nat
  | [] => t0
  | t :: ts => lastTime t ts

def Sorted (t0 : Nat) : List Nat → Prop
  | [] => True
  | t :: ts => t0 ≤ t ∧ Sorted t ts

/-- **credit accounting**: over any sorted history starting no earlier than `t0 ≥ prev`,
every allowed call costs one interval, and credit only comes from elapsed time. -/
theorem run_avail (c : Cfg) (hI : 0 < c.I) : ∀ (ts : List Nat) (s : St) (t0 : Nat),
    s.prev ≤ t0 → Sorted t0 ts →
    count (run c s ts).1 * c.I + avail c (run c s ts).2 (lastTime t0 ts) ≤ avail c s t0 + (lastTime t0 ts - t0) ∧
    (run c s ts).2.prev ≤ lastTime t0 ts ∧ t0 ≤ lastTime t0 ts := by
  intro ts
  induction ts with
  | nil => intro s t0 h _; simp [run, count, lastTime, h]
  | cons t ts ih =>
    intro s t0 hprev hsorted
    obtain ⟨h0t, hrest⟩ := hsorted
    simp only [run, lastTime]
    cases hal : allow c s t with
    | mk b s' =>
      simp only []
      cases b with
      | false =>
        have hs' := allow_false_state c s s' t hal
        subst hs'
        have ⟨h1, h2, h3⟩ := ih s' t (by omega) hrest
        have hm := avail_mono c s' t0 t hprev h0t
        rw [count_cons_false]
        exact ⟨by omega, h2, by omega⟩
      | true =>
        have ⟨ha, _, hp', _, _, _⟩ := allow_true_avail c hI s t s' hal
        have ⟨h1, h2, h3⟩ := ih s' t hp' hrest
        have hm := avail_mono c s t0 t hprev h0t
        rw [count_cons_true, Nat.add_mul, Nat.one_mul]
        exact ⟨by omega, h2, by omega⟩

end IndicatifModel.Limiter
