import IndicatifModel.Model.Locks
/-!
# Lock-order discipline implies progress (generic part of C08)

Threads run straight-line programs of `acq r` / `rel r` / `join k`. Resources are natural numbers with a
rank; `J` is the rank of the pseudo resource "that thread has exited" which `join` waits for. If

* every thread only acquires resources ranked above everything it holds (`Ord`), and only joins while
  everything it holds is ranked below `J`;
* every thread that is joined by someone only ever needs resources ranked above `J` and never joins
  (`High`);

then in every state reachable by executing enabled actions, if some thread is unfinished some thread can
take a step: no deadlock. A blocked acquisition means that some thread *holds* the resource (this covers
read-write locks: a writer blocked by readers, a reader blocked by a writer), so acquisitions of a
`RwLock` in either mode are treated alike.
-/
namespace IndicatifModel.LK

inductive Act where
  | acq (r : Nat) | rel (r : Nat) | join (k : Nat)
deriving DecidableEq, Repr

structure Thread where
  prog : List Act
  held : List Nat
deriving Repr

abbrev Sys := List Thread

/-- per-thread lock discipline, checked along the remaining program -/
def Ord (rank : Nat → Nat) (J : Nat) : List Nat → List Act → Prop
  | held, [] => held = []
  | held, .acq r :: p => (∀ h ∈ held, rank h < rank r) ∧ Ord rank J (r :: held) p
  | held, .rel r :: p => r ∈ held ∧ Ord rank J (held.erase r) p
  | held, .join _ :: p => (∀ h ∈ held, rank h < J) ∧ Ord rank J held p

def highAct (rank : Nat → Nat) (J : Nat) : Act → Prop
  | .acq r => J < rank r
  | .rel _ => True
  | .join _ => False

/-- a joinable thread only ever needs resources above `J` and never joins -/
def High (rank : Nat → Nat) (J : Nat) (t : Thread) : Prop :=
  (∀ h ∈ t.held, J < rank h) ∧ ∀ a ∈ t.prog, highAct rank J a

def enabledAct (s : Sys) : List Act → Prop
  | [] => False
  | .rel _ :: _ => True
  | .acq r :: _ => ∀ (j : Nat) (t' : Thread), s[j]? = some t' → r ∉ t'.held
  | .join k :: _ => ∀ (t' : Thread), s[k]? = some t' → t'.prog = []

def enabled (s : Sys) (i : Nat) : Prop := ∃ t : Thread, s[i]? = some t ∧ enabledAct s t.prog

structure Inv (rank : Nat → Nat) (J : Nat) (s : Sys) : Prop where
  ord : ∀ (i : Nat) (t : Thread), s[i]? = some t → Ord rank J t.held t.prog
  joinable : ∀ (i : Nat) (t : Thread) (k : Nat), s[i]? = some t → Act.join k ∈ t.prog →
      ∃ tk : Thread, s[k]? = some tk ∧ High rank J tk

/-- rank of what the head action waits for (`none` for rel / finished) -/
def want (rank : Nat → Nat) (J : Nat) : List Act → Option Nat
  | .acq r :: _ => some (rank r)
  | .join _ :: _ => some J
  | _ => none

theorem progress_aux (rank : Nat → Nat) (J : Nat) (s : Sys) (hinv : Inv rank J s)
    (M : Nat) (hM : ∀ r, rank r ≤ M) (hJ : J ≤ M) :
    ∀ (fuel : Nat) (i : Nat) (t : Thread), s[i]? = some t → t.prog ≠ [] →
      (∀ w, want rank J t.prog = some w → M - w < fuel) → ∃ j, enabled s j := by
  intro fuel
  induction fuel with
  | zero =>
    intro i t hi hne hw
    cases hp : t.prog with
    | nil => exact absurd hp hne
    | cons a p =>
      cases a with
      | rel r => exact ⟨i, t, hi, by simp [hp, enabledAct]⟩
      | acq r => have := hw (rank r) (by simp [want, hp]); omega
      | join k => have := hw J (by simp [want, hp]); omega
  | succ fuel ih =>
    intro i t hi hne hw
    cases hp : t.prog with
    | nil => exact absurd hp hne
    | cons a p =>
      cases a with
      | rel r => exact ⟨i, t, hi, by simp [hp, enabledAct]⟩
      | acq r =>
        have hwr := hw (rank r) (by simp [want, hp])
        by_cases hen : ∀ (j : Nat) (t' : Thread), s[j]? = some t' → r ∉ t'.held
        · exact ⟨i, t, hi, by simpa [hp, enabledAct] using hen⟩
        · have ⟨j, t', hj, hmem⟩ : ∃ (j : Nat) (t' : Thread), s[j]? = some t' ∧ r ∈ t'.held := by
            apply Classical.byContradiction
            intro hcon
            apply hen
            intro j t' hj hm
            exact hcon ⟨j, t', hj, hm⟩
          have hordj := hinv.ord j t' hj
          have hne' : t'.prog ≠ [] := by
            intro h0; rw [h0] at hordj; simp [Ord] at hordj; rw [hordj] at hmem; simp at hmem
          apply ih j t' hj hne'
          intro w hw'
          cases hp' : t'.prog with
          | nil => exact absurd hp' hne'
          | cons a' p' =>
            rw [hp'] at hw' hordj
            cases a' with
            | rel r' => simp [want] at hw'
            | acq r' =>
              simp [want] at hw'
              have := hordj.1 r hmem
              have := hM r'
              omega
            | join k' =>
              simp [want] at hw'
              have := hordj.1 r hmem
              omega
      | join k =>
        have hwj := hw J (by simp [want, hp])
        by_cases hen : ∀ (t' : Thread), s[k]? = some t' → t'.prog = []
        · exact ⟨i, t, hi, by simpa [hp, enabledAct] using hen⟩
        · have ⟨tk, hk, hHigh⟩ := hinv.joinable i t k hi (by simp [hp])
          have hne' : tk.prog ≠ [] := by
            intro h0; apply hen; intro t' ht'; rw [hk] at ht'; cases ht'; exact h0
          apply ih k tk hk hne'
          intro w hw'
          cases hp' : tk.prog with
          | nil => exact absurd hp' hne'
          | cons a' p' =>
            rw [hp'] at hw'
            have hh := hHigh.2 a' (by simp [hp'])
            cases a' with
            | rel r' => simp [want] at hw'
            | acq r' =>
              simp [want] at hw'
              simp [highAct] at hh
              have := hM r'
              omega
            | join k' => simp [highAct] at hh

/-- If the discipline holds, any system with an unfinished thread has an enabled thread. -/
theorem progress (rank : Nat → Nat) (J : Nat) (s : Sys) (hinv : Inv rank J s)
    (M : Nat) (hM : ∀ r, rank r ≤ M) (hJ : J ≤ M)
    (i : Nat) (t : Thread) (hi : s[i]? = some t) (hne : t.prog ≠ []) : ∃ j, enabled s j :=
  progress_aux rank J s hinv M hM hJ (M + 1) i t hi hne (by intro w _; omega)

/-! ### Executions -/

/-- the thread after its head action -/
def Thread.advance (t : Thread) : Thread :=
  match t.prog with
  | [] => t
  | .acq r :: p => { prog := p, held := r :: t.held }
  | .rel r :: p => { prog := p, held := t.held.erase r }
  | .join _ :: p => { prog := p, held := t.held }

/-- one step: some thread `i` whose head action is enabled executes it -/
def Step (s s' : Sys) : Prop := ∃ i t, s[i]? = some t ∧ enabledAct s t.prog ∧ s' = s.set i t.advance

inductive Reach (s0 : Sys) : Sys → Prop where
  | refl : Reach s0 s0
  | step {s s' : Sys} : Reach s0 s → Step s s' → Reach s0 s'

theorem ord_advance (rank : Nat → Nat) (J : Nat) (t : Thread) (h : Ord rank J t.held t.prog) :
    Ord rank J t.advance.held t.advance.prog := by
  unfold Thread.advance
  cases hp : t.prog with
  | nil => rw [hp] at h; simpa [hp] using h
  | cons a p =>
    rw [hp] at h
    cases a with
    | acq r => exact h.2
    | rel r => exact h.2
    | join k => exact h.2

theorem high_advance (rank : Nat → Nat) (J : Nat) (t : Thread) (h : High rank J t) : High rank J t.advance := by
  unfold Thread.advance
  cases hp : t.prog with
  | nil => simpa [hp] using h
  | cons a p =>
    obtain ⟨hh, ha⟩ := h
    rw [hp] at ha
    have hp' : ∀ a' ∈ p, highAct rank J a' := fun a' ha' => ha a' (by simp [ha'])
    cases a with
    | acq r =>
      refine ⟨?_, hp'⟩
      intro x hx
      simp only [List.mem_cons] at hx
      rcases hx with rfl | hx
      · exact ha (.acq x) (by simp)
      · exact hh x hx
    | rel r => exact ⟨fun x hx => hh x (List.mem_of_mem_erase hx), hp'⟩
    | join k => exact absurd (ha (.join k) (by simp)) (by simp [highAct])

theorem advance_prog_subset (t : Thread) (a : Act) (h : a ∈ t.advance.prog) : a ∈ t.prog := by
  unfold Thread.advance at h
  cases hp : t.prog with
  | nil => simp [hp] at h
  | cons b p => rw [hp] at h; cases b <;> simp at h <;> simp [h]

/-- **the discipline is kept by every step** -/
theorem inv_step (rank : Nat → Nat) (J : Nat) (s s' : Sys) (hinv : Inv rank J s) (hs : Step s s') : Inv rank J s' := by
  obtain ⟨i, t, hi, _, rfl⟩ := hs
  have hlt : i < s.length := by
    rcases Nat.lt_or_ge i s.length with h | h
    · exact h
    · simp [List.getElem?_eq_none h] at hi
  have hget : ∀ j (u : Thread), (s.set i t.advance)[j]? = some u → (j = i ∧ u = t.advance) ∨ (j ≠ i ∧ s[j]? = some u) := by
    intro j u hu
    by_cases hji : j = i
    · subst hji
      rw [List.getElem?_set_self hlt] at hu
      exact Or.inl ⟨rfl, by cases hu; rfl⟩
    · rw [List.getElem?_set_ne (Ne.symm hji)] at hu
      exact Or.inr ⟨hji, hu⟩
  constructor
  · intro j u hu
    rcases hget j u hu with ⟨_, rfl⟩ | ⟨_, hu'⟩
    · exact ord_advance rank J t (hinv.ord i t hi)
    · exact hinv.ord j u hu'
  · intro j u k hu hk
    have hjoin : ∃ tk, s[k]? = some tk ∧ High rank J tk := by
      rcases hget j u hu with ⟨_, rfl⟩ | ⟨_, hu'⟩
      · exact hinv.joinable i t k hi (advance_prog_subset t _ hk)
      · exact hinv.joinable j u k hu' hk
    obtain ⟨tk, htk, hH⟩ := hjoin
    by_cases hki : k = i
    · subst hki
      rw [hi] at htk; cases htk
      exact ⟨t.advance, List.getElem?_set_self hlt, high_advance rank J t hH⟩
    · exact ⟨tk, by rw [List.getElem?_set_ne (Ne.symm hki)]; exact htk, hH⟩

theorem inv_reach (rank : Nat → Nat) (J : Nat) (s0 s : Sys) (h0 : Inv rank J s0) (hr : Reach s0 s) : Inv rank J s := by
  induction hr with
  | refl => exact h0
  | step _ hs ih => exact inv_step rank J _ _ ih hs

/-- **No deadlock.** From any initial system satisfying the discipline, every reachable state in which some
thread is unfinished has a thread that can take a step. -/
theorem no_deadlock (rank : Nat → Nat) (J : Nat) (M : Nat) (hM : ∀ r, rank r ≤ M) (hJ : J ≤ M)
    (s0 s : Sys) (h0 : Inv rank J s0) (hr : Reach s0 s)
    (i : Nat) (t : Thread) (hi : s[i]? = some t) (hne : t.prog ≠ []) : ∃ j, enabled s j :=
  progress rank J s (inv_reach rank J s0 s h0 hr) M hM hJ i t hi hne

/-! ### Building disciplined programs -/

theorem ord_append (rank : Nat → Nat) (J : Nat) : ∀ (p q : List Act) (held : List Nat),
    Ord rank J held p → Ord rank J [] q → Ord rank J held (p ++ q) := by
  intro p
  induction p with
  | nil => intro q held hp hq; simp only [Ord] at hp; subst hp; simpa using hq
  | cons a p ih =>
    intro q held hp hq
    cases a with
    | acq r => exact ⟨hp.1, ih q _ hp.2 hq⟩
    | rel r => exact ⟨hp.1, ih q _ hp.2 hq⟩
    | join k => exact ⟨hp.1, ih q _ hp.2 hq⟩

end IndicatifModel.LK
