import IndicatifModel.Proofs.MultiWF
/-!
# The slot partition over every history of the MultiProgress world model (bars included)
-/
namespace IndicatifModel
open Multi

/-- every bar that still has a slot points into `members` -/
def SlotsValid (w : MWorld) : Prop :=
  ∀ (k : Nat) (mb : MBar) (idx : Nat), w.bars[k]? = some mb → mb.slot = some idx → idx < w.multi.members.length

structure Good (w : MWorld) : Prop where
  wf : WF w.multi
  slots : SlotsValid w

theorem foldl_removeIdx_length (l : List Nat) : ∀ m : Multi, (l.foldl removeIdx m).members.length = m.members.length := by
  induction l with
  | nil => intro m; rfl
  | cons i is ih => intro m; rw [List.foldl_cons, ih, removeIdx_length]

theorem draw_length (m : Multi) (force : Bool) (extra : Option (List Line)) (now : Nat) :
    (m.draw force extra now).1.members.length = m.members.length := by
  unfold Multi.draw
  split
  · obtain ⟨l, _, hs⟩ := drawFixed_same m force extra now
    rw [hs.1, foldl_removeIdx_length]
  · obtain ⟨l, _, hs⟩ := drawOrig_same m force extra now
    rw [hs.1, foldl_removeIdx_length]

theorem clear_length (m : Multi) : m.clear.1.members.length = m.members.length := by
  unfold Multi.clear; rfl

theorem suspend_length (m : Multi) (out : List Text) (now : Nat) :
    (m.suspend out now).1.members.length = m.members.length := by
  unfold Multi.suspend; dsimp only; rw [draw_length, clear_length]

theorem markZombie_length (m : Multi) (idx : Nat) : (m.markZombie idx).members.length = m.members.length := by
  unfold Multi.markZombie
  split
  · simp
  · rw [removeIdx_length]

/-- replacing the multi by one with the same number of member slots keeps the bars' slots valid -/
theorem Good.withMulti {w : MWorld} (g : Good w) (m : Multi) (hw : WF m) (hl : m.members.length = w.multi.members.length) :
    Good { w with multi := m } :=
  ⟨hw, fun k mb idx h1 h2 => by
    have := g.slots k mb idx h1 h2
    show idx < m.members.length
    rw [hl]; exact this⟩

theorem setBar_good {w : MWorld} (g : Good w) (k : Nat) (b : Bar) : Good (w.setBar k b) := by
  refine ⟨g.wf, ?_⟩
  intro j mb idx h1 h2
  show idx < w.multi.members.length
  unfold MWorld.setBar at h1
  simp only [List.getElem?_modify] at h1
  cases hj : w.bars[j]? with
  | none => rw [hj] at h1; cases h1
  | some mb0 =>
    rw [hj] at h1
    simp only [Option.map_eq_map, Option.map_some, Option.some.injEq] at h1
    have hs : mb.slot = mb0.slot := by
      rw [← h1]; split <;> rfl
    exact g.slots j mb0 idx hj (hs ▸ h2)

theorem barDraw_good {w : MWorld} (g : Good w) (k : Nat) (force : Bool) (text : List Line) :
    Good (w.barDraw k force text).1 := by
  unfold MWorld.barDraw
  split
  · exact g
  · split
    · exact g
    · dsimp only
      apply Good.withMulti g
      · apply draw_wf
        exact WF.of_same (m := w.multi) ⟨by simp, rfl, rfl⟩ g.wf
      · rw [draw_length]; simp


theorem barDraw_length (w : MWorld) (k : Nat) (force : Bool) (text : List Line) :
    (w.barDraw k force text).1.multi.members.length = w.multi.members.length := by
  unfold MWorld.barDraw
  split
  · rfl
  · split
    · rfl
    · dsimp only
      rw [draw_length]; simp

theorem markAlive_good {w : MWorld} (g : Good w) (k : Nat) :
    Good { w with bars := w.bars.modify k (fun mb => { mb with alive := false }) } := by
  refine ⟨g.wf, ?_⟩
  intro j mb idx h1 h2
  show idx < w.multi.members.length
  simp only [List.getElem?_modify] at h1
  cases hj : w.bars[j]? with
  | none => rw [hj] at h1; cases h1
  | some mb0 =>
    rw [hj] at h1
    simp only [Option.map_eq_map, Option.map_some, Option.some.injEq] at h1
    have hs : mb.slot = mb0.slot := by
      rw [← h1]; split <;> rfl
    exact g.slots j mb0 idx hj (hs ▸ h2)

theorem markZombie_good {w : MWorld} (g : Good w) (idx : Nat) (hlt : idx < w.multi.members.length) :
    Good { w with multi := w.multi.markZombie idx } :=
  Good.withMulti g _ (markZombie_wf _ g.wf idx hlt) (markZombie_length _ _)

theorem barStep_good {w : MWorld} (g : Good w) (k : Nat) (op : BarOp) : Good (w.barStep k op).1 := by
  unfold MWorld.barStep
  cases hk : w.bars[k]? with
  | none => exact g
  | some mb =>
    dsimp only
    split
    · exact g
    · have tick : ∀ (w' : MWorld) (b : Bar), Good w' →
          Good ((w'.setBar k { b with tick := if b.tick + 1 < U64 then b.tick + 1 else b.tick }).barDraw k false []).1 :=
        fun w' b g' => barDraw_good (setBar_good g' k _) k false []
      have after : ∀ (b : Bar), Good (
          (match b.posAllow w.now with
           | (ok, b) => if ok = true then (w.setBar k { b with tick := if b.tick + 1 < U64 then b.tick + 1 else b.tick }).barDraw k false []
                        else (w.setBar k b, []))).1 := by
        intro b
        cases hp : b.posAllow w.now with
        | mk ok b' =>
          dsimp only
          split
          · exact tick w b' g
          · exact setBar_good g k b'
      have fin : ∀ (b : Bar), Good ((w.setBar k b).barDraw k true []).1 :=
        fun b => barDraw_good (setBar_good g k b) k true []
      cases op with
      | adv dt => exact g
      | tick => exact tick w mb.b g
      | inc d => exact after _
      | dec d => exact after _
      | setPos p => exact after _
      | setMsg t => exact barDraw_good (setBar_good g k _) k false []
      | setPrefix t => exact barDraw_good (setBar_good g k _) k false []
      | setLen l => exact barDraw_good (setBar_good g k _) k false []
      | unsetLen => exact barDraw_good (setBar_good g k _) k false []
      | println t =>
        dsimp only
        split
        · exact g
        · exact barDraw_good g k true _
      | suspend out =>
        dsimp only
        split
        · exact g
        · exact Good.withMulti g _ (suspend_wf _ g.wf _ _) (suspend_length _ _ _)
      | reset => exact barDraw_good (setBar_good g k _) k false []
      | finish f => exact fin _
      | finishUsingStyle => exact fin _
      | drop =>
        dsimp only
        generalize hX : (if mb.b.finished = true then (w, ([] : List TOp)) else _) = X
        have gX : Good X.1 ∧ X.1.multi.members.length = w.multi.members.length := by
          rw [← hX]
          split
          · exact ⟨g, rfl⟩
          · exact ⟨fin _, by rw [barDraw_length]; rfl⟩
        obtain ⟨X1, X2⟩ := X
        dsimp only at gX ⊢
        cases hs : mb.slot with
        | none => exact markAlive_good gX.1 k
        | some idx =>
          dsimp only
          have hlt : idx < X1.multi.members.length := by rw [gX.2]; exact g.slots k mb idx hk hs
          exact markAlive_good (markZombie_good gX.1 idx hlt) k


theorem Good.congr {w w' : MWorld} (g : Good w) (hm : w'.multi = w.multi) (hb : w'.bars = w.bars) : Good w' := by
  refine ⟨hm ▸ g.wf, ?_⟩
  intro k mb idx h1 h2
  rw [hm]; rw [hb] at h1; exact g.slots k mb idx h1 h2

theorem takeSlot_length_ge (m : Multi) : m.members.length ≤ (takeSlot m).1.members.length := by
  unfold takeSlot
  split <;> simp

theorem insert_length_ge (m : Multi) (loc : InsertLoc) (m' : Multi) (idx : Nat) (h : m.insert loc = some (m', idx)) :
    m.members.length ≤ m'.members.length := by
  obtain ⟨_, p, hm'⟩ := insert_spec m loc m' idx h
  rw [hm']; exact takeSlot_length_ge m

theorem slotOf_spec (w : MWorld) (k idx : Nat) (h : w.slotOf k = some idx) :
    ∃ mb, w.bars[k]? = some mb ∧ mb.slot = some idx := by
  unfold MWorld.slotOf at h
  cases hk : w.bars[k]? with
  | none => rw [hk] at h; cases h
  | some mb => rw [hk] at h; exact ⟨mb, rfl, h⟩

theorem wrapGood (r : MWorld × List TOp) (t : Term) (sn : List Snap) (c : Nat) (g : Good r.1) :
    Good { r.1 with term := t, snaps := sn, calls := c } := Good.congr g rfl rfl

/-- the state change of one operation before the terminal calls are executed -/
theorem stepCore_good {w : MWorld} (g : Good w) (op : MOp) :
    Good (match op with
      | .adv dt => ({ w with now := w.now + dt }, ([] : List TOp))
      | .add loc arg len tpl fin pfx =>
        let iloc : Option InsertLoc := match loc with
          | 0 => some .atEnd | 1 => some (.index arg) | 2 => some (.fromBack arg)
          | 3 => (w.slotOf arg).map .before | _ => (w.slotOf arg).map .after
        match iloc.bind w.multi.insert with
        | none => ({ w with panicked := true }, [])
        | some (m, idx) =>
          let b : Bar := { len := len, tpl := templates.getD tpl [], onFinish := fin, pfx := pfx, start := w.now }
          ({ w with multi := m, bars := w.bars ++ [({ b := b, slot := some idx } : MBar)] }, [])
      | .remove k =>
        match w.slotOf k with
        | none => (w, [])
        | some idx =>
          let m := { w.multi.removeIdx idx with stale := true }
          let (m, ops) := if m.target.fx.f31 then m.draw true none w.now else (m, [])
          ({ w with multi := m, bars := w.bars.modify k (fun mb => { mb with slot := none }) }, ops)
      | .mpPrintln t => let (m, ops) := w.multi.println t w.now; ({ w with multi := m }, ops)
      | .mpClear => let (m, ops) := w.multi.clear; ({ w with multi := m }, ops)
      | .mpSuspend out => let (m, ops) := w.multi.suspend out w.now; ({ w with multi := m }, ops)
      | .align bottom => ({ w with multi := { w.multi with alignment := if bottom then .bottom else .top } }, [])
      | .retarget => ({ w with multi := w.multi.retarget w.now }, [])
      | .bar k op => w.barStep k op).1 := by
  cases op with
  | adv dt => exact Good.congr g rfl rfl
  | add loc arg len tpl fin pfx =>
    dsimp only
    generalize (match loc with
      | 0 => some InsertLoc.atEnd | 1 => some (InsertLoc.index arg) | 2 => some (InsertLoc.fromBack arg)
      | 3 => (w.slotOf arg).map InsertLoc.before | _ => (w.slotOf arg).map InsertLoc.after) = iloc
    cases iloc with
    | none => exact Good.congr g rfl rfl
    | some l =>
      simp only [Option.bind_some]
      cases hi : w.multi.insert l with
      | none => exact Good.congr g rfl rfl
      | some res =>
        obtain ⟨m, idx⟩ := res
        dsimp only
        obtain ⟨hwf, _, hmem, _⟩ := C02_insert_wf w.multi g.wf l m idx hi
        refine ⟨hwf, ?_⟩
        intro k mb i h1 h2
        show i < m.members.length
        have hge := insert_length_ge w.multi l m idx hi
        dsimp only at h1
        rw [List.getElem?_append] at h1
        split at h1
        · exact Nat.lt_of_lt_of_le (g.slots k mb i h1 h2) hge
        · cases hk : k - w.bars.length with
          | zero =>
            rw [hk] at h1
            simp only [List.getElem?_cons_zero, Option.some.injEq] at h1
            rw [← h1] at h2
            have h3 : idx = i := by simpa using h2
            rw [← h3]; exact hwf.ord_lt idx hmem
          | succ n => rw [hk] at h1; simp at h1
  | remove k =>
    dsimp only
    cases hs : w.slotOf k with
    | none => exact g
    | some idx =>
      dsimp only
      obtain ⟨mb, hk, hslot⟩ := slotOf_spec w k idx hs
      have hlt := g.slots k mb idx hk hslot
      have hr := (C02_remove_wf w.multi g.wf idx hlt).1
      have hr' : WF { w.multi.removeIdx idx with stale := true } := WF.of_same (m := w.multi.removeIdx idx) ⟨rfl, rfl, rfl⟩ hr
      have hlen : ({ w.multi.removeIdx idx with stale := true } : Multi).members.length = w.multi.members.length := removeIdx_length _ _
      have slots' : ∀ (m : Multi), m.members.length = w.multi.members.length → WF m →
          Good { w with multi := m, bars := w.bars.modify k (fun mb => { mb with slot := none }) } := by
        intro m hl hw
        refine ⟨hw, ?_⟩
        intro j mb' i h1 h2
        show i < m.members.length
        rw [hl]
        simp only [List.getElem?_modify] at h1
        cases hj : w.bars[j]? with
        | none => rw [hj] at h1; cases h1
        | some mb0 =>
          rw [hj] at h1
          simp only [Option.map_eq_map, Option.map_some, Option.some.injEq] at h1
          by_cases e : k = j
          · simp only [e, if_true] at h1; rw [← h1] at h2; cases h2
          · simp only [e, if_false] at h1; rw [← h1] at h2; exact g.slots j mb0 i hj h2
      split
      · exact slots' _ (by rw [draw_length]; exact hlen) (draw_wf _ hr' _ _ _)
      · exact slots' _ hlen hr'
  | mpPrintln t => exact Good.withMulti g _ (println_wf _ g.wf _ _) (by unfold Multi.println; exact draw_length _ _ _ _)
  | mpClear => exact Good.withMulti g _ (clear_wf _ g.wf) (clear_length _)
  | mpSuspend out => exact Good.withMulti g _ (suspend_wf _ g.wf _ _) (suspend_length _ _ _)
  | align bottom => exact Good.withMulti g _ (WF.of_same (m := w.multi) ⟨rfl, rfl, rfl⟩ g.wf) rfl
  | retarget =>
    refine Good.withMulti g _ (WF.of_same (m := w.multi) ?_ g.wf) ?_
    · unfold Multi.retarget; split <;> exact ⟨rfl, rfl, rfl⟩
    · unfold Multi.retarget; split <;> rfl
  | bar k op => exact barStep_good g k op

/-- **every operation of the MultiProgress world keeps the slot partition and the validity of the
bars' slots** -/
theorem step_good {w : MWorld} (g : Good w) (op : MOp) : Good (w.step op) := by
  unfold MWorld.step
  split
  · exact g
  · exact wrapGood _ _ _ _ (stepCore_good g op)

/-- **C02, every history**: from an empty MultiProgress, after any sequence of add / insert* /
remove / println / clear / suspend / set_alignment and bar operations (ticks, updates, finishes,
drops with zombie reaping), the ordering and the free set partition the member slots — the
assertion in `insert` never fires and no live bar's slot is ever handed to another bar. -/
theorem C02_world_history (w : MWorld) (g : Good w) (ops : List MOp) : Good (w.run ops) := by
  unfold MWorld.run
  induction ops generalizing w with
  | nil => exact g
  | cons op ops ih => exact ih _ (step_good g op)


/-- a fresh `MultiProgress` without bars satisfies the invariant -/
theorem init_good (t : TermTarget) (term : Term) (now : Nat) :
    Good { multi := { target := t }, term := term, now := now } :=
  ⟨C02_init_wf t, fun k mb idx h _ => by simp at h⟩

/-- … hence, for every history, `members.len − free.len = ordering.len` (the `assert_eq!`) -/
theorem C02_world_assert (t : TermTarget) (term : Term) (now : Nat) (ops : List MOp) :
    let w := ({ multi := { target := t }, term := term, now := now } : MWorld).run ops
    w.multi.members.length - w.multi.free.length = w.multi.ordering.length :=
  C02_len_eq _ (C02_world_history _ (init_good t term now) ops).wf

end IndicatifModel
