import IndicatifModel.Model.Multi
/-!
# Slot bookkeeping of `MultiState` (`insert`, `remove_idx`)

`WF`: the slots of `members` are partitioned into the `ordering` (live bars, each once) and the
free set (each once).  Consequences: the `assert_eq!(self.len(), self.ordering.len())` at the end
of `MultiState::insert` never fires, and a slot taken from the free set is never still in use by a
live bar.
-/
namespace IndicatifModel.Multi

structure WF (m : Multi) : Prop where
  ord_nodup : m.ordering.Nodup
  free_nodup : m.free.Nodup
  ord_lt : ∀ i ∈ m.ordering, i < m.members.length
  free_lt : ∀ i ∈ m.free, i < m.members.length
  disjoint : ∀ i ∈ m.ordering, i ∉ m.free
  cover : ∀ i, i < m.members.length → i ∈ m.ordering ∨ i ∈ m.free

theorem mem_insertAt (l : List Nat) (p x y : Nat) : x ∈ insertAt l p y ↔ x ∈ l ∨ x = y := by
  unfold insertAt
  have h := List.take_append_drop p l
  constructor
  · intro hx
    simp only [List.mem_append, List.mem_singleton] at hx
    rcases hx with (h1 | h1) | h1
    · exact Or.inl (List.mem_of_mem_take h1)
    · exact Or.inr h1
    · exact Or.inl (List.mem_of_mem_drop h1)
  · intro hx
    simp only [List.mem_append, List.mem_singleton]
    rcases hx with h1 | h1
    · rw [← h, List.mem_append] at h1
      rcases h1 with h1 | h1
      · exact Or.inl (Or.inl h1)
      · exact Or.inr h1
    · exact Or.inl (Or.inr h1)

theorem insertAt_perm (l : List Nat) (p y : Nat) : (insertAt l p y).Perm (y :: l) := by
  unfold insertAt
  have h := List.take_append_drop p l
  have : (List.take p l ++ [y] ++ List.drop p l) = List.take p l ++ y :: List.drop p l := by
    simp only [List.append_assoc, List.singleton_append]
  rw [this]
  have h2 := @List.perm_middle _ y (List.take p l) (List.drop p l)
  rw [h] at h2
  exact h2

theorem nodup_insertAt (l : List Nat) (p y : Nat) (hl : l.Nodup) (hy : y ∉ l) : (insertAt l p y).Nodup := by
  rw [(insertAt_perm l p y).nodup_iff]
  exact List.nodup_cons.mpr ⟨hy, hl⟩

theorem length_insertAt (l : List Nat) (p y : Nat) : (insertAt l p y).length = l.length + 1 := by
  have := (insertAt_perm l p y).length_eq
  simpa using this

/-- the slot chosen by `insert` and the state after taking it -/
def takeSlot (m : Multi) : Multi × Nat :=
  match m.free.getLast? with
  | some idx => ({ m with members := m.members.set idx ({} : Member), free := m.free.dropLast }, idx)
  | none => ({ m with members := m.members ++ [({} : Member)] }, m.members.length)

/-- after `takeSlot` the slot is in neither list, and everything else is as before -/
structure Taken (m m' : Multi) (idx : Nat) : Prop where
  ord_eq : m'.ordering = m.ordering
  ord_nodup : m'.ordering.Nodup
  free_nodup : m'.free.Nodup
  idx_lt : idx < m'.members.length
  idx_not_ord : idx ∉ m'.ordering
  idx_not_free : idx ∉ m'.free
  ord_lt : ∀ i ∈ m'.ordering, i < m'.members.length
  free_lt : ∀ i ∈ m'.free, i < m'.members.length
  disjoint : ∀ i ∈ m'.ordering, i ∉ m'.free
  cover : ∀ i, i < m'.members.length → i = idx ∨ i ∈ m'.ordering ∨ i ∈ m'.free

theorem takeSlot_taken (m : Multi) (h : WF m) : Taken m (takeSlot m).1 (takeSlot m).2 := by
  unfold takeSlot
  cases hg : m.free.getLast? with
  | some idx =>
    have hmem : idx ∈ m.free := List.mem_of_getLast? hg
    have hne : m.free ≠ [] := by intro h0; rw [h0] at hmem; cases hmem
    have hsplit : m.free.dropLast ++ [idx] = m.free := by
      have h1 := List.dropLast_concat_getLast hne
      have h2 := List.getLast?_eq_some_getLast hne
      rw [hg] at h2
      injection h2 with h2
      rw [h2]; exact h1
    have hnd : (m.free.dropLast ++ [idx]).Nodup := by rw [hsplit]; exact h.free_nodup
    rw [List.nodup_append] at hnd
    have hsub : ∀ i, i ∈ m.free.dropLast → i ∈ m.free := fun i hi => (List.dropLast_sublist m.free).subset hi
    refine ⟨rfl, h.ord_nodup, hnd.1, ?_, ?_, ?_, ?_, ?_, ?_, ?_⟩
    · simp only [List.length_set]; exact h.free_lt idx hmem
    · intro ho; exact h.disjoint idx ho hmem
    · intro hf; exact hnd.2.2 idx hf idx (List.mem_singleton.mpr rfl) rfl
    · intro i hi; simp only [List.length_set]; exact h.ord_lt i hi
    · intro i hi; simp only [List.length_set]; exact h.free_lt i (hsub i hi)
    · intro i hi hf; exact h.disjoint i hi (hsub i hf)
    · intro i hi
      simp only [List.length_set] at hi
      rcases h.cover i hi with h1 | h1
      · exact Or.inr (Or.inl h1)
      · rw [← hsplit, List.mem_append, List.mem_singleton] at h1
        rcases h1 with h1 | h1
        · exact Or.inr (Or.inr h1)
        · exact Or.inl h1
  | none =>
    have hnil : m.free = [] := List.getLast?_eq_none_iff.mp hg
    refine ⟨rfl, h.ord_nodup, h.free_nodup, ?_, ?_, ?_, ?_, ?_, h.disjoint, ?_⟩
    · simp
    · intro ho; exact Nat.lt_irrefl _ (h.ord_lt _ ho)
    · intro hf; exact Nat.lt_irrefl _ (h.free_lt _ hf)
    · intro i hi; simp only [List.length_append, List.length_singleton]; exact Nat.lt_succ_of_lt (h.ord_lt i hi)
    · intro i hi; simp only [List.length_append, List.length_singleton]; exact Nat.lt_succ_of_lt (h.free_lt i hi)
    · intro i hi
      simp only [List.length_append, List.length_singleton] at hi
      rcases Nat.lt_succ_iff_lt_or_eq.mp hi with h1 | h1
      · rcases h.cover i h1 with h2 | h2
        · exact Or.inr (Or.inl h2)
        · exact Or.inr (Or.inr h2)
      · exact Or.inl h1

/-- putting the taken slot anywhere into the ordering restores `WF` -/
theorem place_wf (m m' : Multi) (idx p : Nat) (t : Taken m m' idx) :
    WF { m' with ordering := insertAt m'.ordering p idx } := by
  refine ⟨nodup_insertAt _ _ _ t.ord_nodup t.idx_not_ord, t.free_nodup, ?_, t.free_lt, ?_, ?_⟩
  · intro i hi
    rcases (mem_insertAt _ _ _ _).mp hi with h1 | h1
    · exact t.ord_lt i h1
    · rw [h1]; exact t.idx_lt
  · intro i hi
    rcases (mem_insertAt _ _ _ _).mp hi with h1 | h1
    · exact t.disjoint i h1
    · rw [h1]; exact t.idx_not_free
  · intro i hi
    rcases t.cover i hi with h1 | h1 | h1
    · exact Or.inl ((mem_insertAt _ _ _ _).mpr (Or.inr h1))
    · exact Or.inl ((mem_insertAt _ _ _ _).mpr (Or.inl h1))
    · exact Or.inr h1

theorem insertAt_length_eq_append (l : List Nat) (x : Nat) : insertAt l l.length x = l ++ [x] := by
  unfold insertAt; simp

end IndicatifModel.Multi
