import IndicatifModel.Proofs.MultiOrder
/-!
# The documented order of a `MultiProgress` as a list of bar identities, and the refinement
`ordering.map owner = spec` for `insert*` / `remove`.
-/
namespace IndicatifModel.Multi

/-- documented effect of `add / insert / insert_from_back / insert_after / insert_before` on the
list of member bars (`k` is the new bar; anchors are bars) -/
def specInsert (spec : List Nat) (loc : InsertLoc) (k : Nat) : Option (List Nat) :=
  match loc with
  | .atEnd => some (spec ++ [k])
  | .index pos => some (insertAt spec (min pos spec.length) k)
  | .fromBack pos => some (insertAt spec (spec.length - pos) k)
  | .after b => match spec.idxOf? b with
    | some p => some (insertAt spec (p + 1) k)
    | none => none
  | .before b => match spec.idxOf? b with
    | some p => some (insertAt spec p k)
    | none => none

def specRemove (spec : List Nat) (b : Nat) : List Nat := spec.filter (· ≠ b)

/-- anchors translated from slots to bars -/
def _root_.IndicatifModel.InsertLoc.mapAnchor (f : Nat → Nat) : InsertLoc → InsertLoc
  | .atEnd => .atEnd | .index i => .index i | .fromBack i => .fromBack i
  | .after a => .after (f a) | .before a => .before (f a)

theorem map_insertAt (f : Nat → Nat) (l : List Nat) (p x : Nat) :
    (insertAt l p x).map f = insertAt (l.map f) p (f x) := by
  unfold insertAt
  simp only [List.map_append, List.map_take, List.map_drop, List.map_cons, List.map_nil]

/-- `idxOf?` commutes with a map that is injective on the list and the sought element -/
theorem idxOf_map (f : Nat → Nat) (l : List Nat) (a : Nat)
    (inj : ∀ x ∈ l, f x = f a → x = a) : (l.map f).idxOf? (f a) = l.idxOf? a := by
  induction l with
  | nil => rfl
  | cons x xs ih =>
    rw [List.map_cons, List.idxOf?_cons, List.idxOf?_cons]
    by_cases e : x = a
    · subst e; simp
    · have hne : f x ≠ f a := fun h => e (inj x (List.mem_cons_self) h)
      have h1 : (f x == f a) = false := by simpa using hne
      have h2 : (x == a) = false := by simpa using e
      rw [h1, h2]
      simp only [Bool.false_eq_true, if_false]
      rw [ih (fun y hy => inj y (List.mem_cons_of_mem _ hy))]

/-- filtering out a slot is filtering out its bar, when the owner map is injective on the list -/
theorem filter_map_owner (f : Nat → Nat) (l : List Nat) (a : Nat)
    (inj : ∀ x ∈ l, f x = f a → x = a) :
    (l.filter (· ≠ a)).map f = (l.map f).filter (· ≠ f a) := by
  induction l with
  | nil => rfl
  | cons x xs ih =>
    have ih' := ih (fun y hy => inj y (List.mem_cons_of_mem _ hy))
    by_cases e : x = a
    · subst e
      simp only [List.filter_cons, List.map_cons, ne_eq, not_true_eq_false, decide_false,
        Bool.false_eq_true, if_false]
      exact ih'
    · have hne : f x ≠ f a := fun h => e (inj x (List.mem_cons_self) h)
      simp only [List.filter_cons, List.map_cons, ne_eq, e, hne, not_false_eq_true, decide_true, if_true]
      rw [ih']

end IndicatifModel.Multi

namespace IndicatifModel.Multi

/-- second half of `MultiState::insert`: put the slot into the ordering -/
def place (t : Multi) (idx : Nat) (loc : InsertLoc) : Option (Multi × Nat) :=
  match loc with
  | .atEnd => some ({ t with ordering := t.ordering ++ [idx] }, idx)
  | .index pos => some ({ t with ordering := insertAt t.ordering (min pos t.ordering.length) idx }, idx)
  | .fromBack pos => some ({ t with ordering := insertAt t.ordering (t.ordering.length - pos) idx }, idx)
  | .after a => match t.ordering.idxOf? a with
    | some p => some ({ t with ordering := insertAt t.ordering (p + 1) idx }, idx)
    | none => none
  | .before a => match t.ordering.idxOf? a with
    | some p => some ({ t with ordering := insertAt t.ordering p idx }, idx)
    | none => none

theorem insert_eq_place (m : Multi) (loc : InsertLoc) :
    insert m loc = place (takeSlot m).1 (takeSlot m).2 loc := by
  unfold insert takeSlot place
  cases m.free.getLast? <;> cases loc <;> rfl

/-- the ordering produced by `place`, as a function of the old ordering only -/
def placeOrd (ord : List Nat) (idx : Nat) (loc : InsertLoc) : Option (List Nat) :=
  match loc with
  | .atEnd => some (ord ++ [idx])
  | .index pos => some (insertAt ord (min pos ord.length) idx)
  | .fromBack pos => some (insertAt ord (ord.length - pos) idx)
  | .after a => match ord.idxOf? a with
    | some p => some (insertAt ord (p + 1) idx)
    | none => none
  | .before a => match ord.idxOf? a with
    | some p => some (insertAt ord p idx)
    | none => none

theorem place_ordering (t : Multi) (idx : Nat) (loc : InsertLoc) :
    (place t idx loc).map (fun r => r.1.ordering) = placeOrd t.ordering idx loc := by
  unfold place placeOrd
  cases loc with
  | atEnd => rfl
  | index pos => rfl
  | fromBack pos => rfl
  | after a => dsimp only; cases t.ordering.idxOf? a <;> rfl
  | before a => dsimp only; cases t.ordering.idxOf? a <;> rfl

/-- **the core of the refinement**: mapping slots to bars turns the concrete placement into the
documented one -/
theorem placeOrd_refines (ord : List Nat) (idx k : Nat) (owner : Nat → Nat) (loc : InsertLoc)
    (hidx : idx ∉ ord)
    (inj : ∀ x ∈ ord, ∀ y ∈ ord, owner x = owner y → x = y)
    (anchor : ∀ a, (loc = .after a ∨ loc = .before a) → a ∈ ord) :
    (placeOrd ord idx loc).map (List.map (fun s => if s = idx then k else owner s))
      = specInsert (ord.map owner) (loc.mapAnchor owner) k := by
  have hmap : ord.map (fun s => if s = idx then k else owner s) = ord.map owner := by
    apply List.map_congr_left
    intro a ha
    have : a ≠ idx := fun e => hidx (e ▸ ha)
    simp only [this, if_false]
  have hins : ∀ p, (insertAt ord p idx).map (fun s => if s = idx then k else owner s) = insertAt (ord.map owner) p k := by
    intro p; rw [map_insertAt, hmap]; simp only [if_true]
  have hidxOf : ∀ a, a ∈ ord → (ord.map owner).idxOf? (owner a) = ord.idxOf? a :=
    fun a ha => idxOf_map owner ord a (fun x hx e => inj x hx a ha e)
  cases loc with
  | atEnd =>
    simp only [placeOrd, specInsert, InsertLoc.mapAnchor, Option.map_some]
    have e : insertAt (ord.map owner) ord.length k = ord.map owner ++ [k] := by
      have := insertAt_length_eq_append (ord.map owner) k
      rwa [List.length_map] at this
    rw [← insertAt_length_eq_append, hins, e]
  | index pos => simp only [placeOrd, specInsert, InsertLoc.mapAnchor, Option.map_some, hins, List.length_map]
  | fromBack pos => simp only [placeOrd, specInsert, InsertLoc.mapAnchor, Option.map_some, hins, List.length_map]
  | after a =>
    have ha := anchor a (Or.inl rfl)
    simp only [placeOrd, specInsert, InsertLoc.mapAnchor, hidxOf a ha]
    cases ord.idxOf? a with
    | none => rfl
    | some p => simp only [Option.map_some, hins]
  | before a =>
    have ha := anchor a (Or.inr rfl)
    simp only [placeOrd, specInsert, InsertLoc.mapAnchor, hidxOf a ha]
    cases ord.idxOf? a with
    | none => rfl
    | some p => simp only [Option.map_some, hins]

end IndicatifModel.Multi
