import IndicatifModel.Props.C02
/-!
# The slot partition of `MultiState` is kept by every operation, not only `insert`/`remove`
(`draw` with zombie reaping — pinned and repaired —, `println`, `clear`, `suspend`, `mark_zombie`).
-/
namespace IndicatifModel.Multi

/-- two states with the same slot bookkeeping -/
def Same (m m' : Multi) : Prop :=
  m'.members.length = m.members.length ∧ m'.free = m.free ∧ m'.ordering = m.ordering

theorem Same.refl (m : Multi) : Same m m := ⟨rfl, rfl, rfl⟩
theorem Same.trans {a b c : Multi} (h1 : Same a b) (h2 : Same b c) : Same a c :=
  ⟨h2.1.trans h1.1, h2.2.1.trans h1.2.1, h2.2.2.trans h1.2.2⟩
theorem Same.symm {a b : Multi} (h : Same a b) : Same b a := ⟨h.1.symm, h.2.1.symm, h.2.2.symm⟩

theorem WF.of_same {m m' : Multi} (s : Same m m') (h : WF m) : WF m' := by
  obtain ⟨s1, s2, s3⟩ := s
  exact ⟨s3 ▸ h.ord_nodup, s2 ▸ h.free_nodup,
    fun i hi => s1 ▸ h.ord_lt i (s3 ▸ hi), fun i hi => s1 ▸ h.free_lt i (s2 ▸ hi),
    fun i hi hf => h.disjoint i (s3 ▸ hi) (s2 ▸ hf),
    fun i hi => by rw [s3, s2]; exact h.cover i (s1 ▸ hi)⟩

theorem removeIdx_same {m m' : Multi} (s : Same m m') (i : Nat) : Same (m.removeIdx i) (m'.removeIdx i) := by
  obtain ⟨s1, s2, s3⟩ := s
  unfold removeIdx
  rw [s2]
  split
  · exact ⟨s1, s2, s3⟩
  · exact ⟨by simp only [List.length_set]; exact s1, rfl, by simp only [s3]⟩

theorem foldl_removeIdx_same (l : List Nat) : ∀ {m m' : Multi}, Same m m' →
    Same (l.foldl removeIdx m) (l.foldl removeIdx m') := by
  induction l with
  | nil => intro m m' s; exact s
  | cons i is ih => intro m m' s; exact ih (removeIdx_same s i)

theorem removeIdx_length (m : Multi) (i : Nat) : (m.removeIdx i).members.length = m.members.length := by
  unfold removeIdx; split <;> simp

theorem foldl_removeIdx_wf (l : List Nat) : ∀ (m : Multi), WF m → (∀ i ∈ l, i < m.members.length) →
    WF (l.foldl removeIdx m) := by
  induction l with
  | nil => intro m h _; exact h
  | cons i is ih =>
    intro m h hl
    apply ih
    · exact (C02_remove_wf m h i (hl i (List.mem_cons_self))).1
    · intro j hj; rw [removeIdx_length]; exact hl j (List.mem_cons_of_mem _ hj)


theorem takeWhile_lt (m : Multi) (h : WF m) (p : Nat → Bool) : ∀ i ∈ m.ordering.takeWhile p, i < m.members.length :=
  fun i hi => h.ord_lt i ((List.takeWhile_sublist p).subset hi)

/-- the repaired `draw` only changes the slot bookkeeping by reaping slots of the ordering -/
theorem drawFixed_same (m : Multi) (force : Bool) (extra : Option (List Line)) (now : Nat) :
    ∃ l : List Nat, (∀ i ∈ l, i ∈ m.ordering) ∧ Same (l.foldl removeIdx m) (m.drawFixed force extra now).1 := by
  unfold drawFixed
  dsimp only
  generalize (m.target.drawable (force || decide (visualLineCount m.target.W m.orphan > 0)) now) = r
  obtain ⟨go, tt⟩ := r
  cases go with
  | false => exact ⟨[], fun _ h => absurd h List.not_mem_nil, Same.refl _⟩
  | true =>
    cases hT : (extra.isSome || decide (visualLineCount m.target.W m.orphan > 0)) with
    | true =>
      refine ⟨[], fun _ h => absurd h List.not_mem_nil, ?_⟩
      simp only [Bool.not_true, Bool.false_eq_true, if_false, if_true, List.foldl_nil]
      exact ⟨rfl, rfl, rfl⟩
    | false =>
      refine ⟨m.ordering.takeWhile (fun i => (m.members.getD i ({} : Member)).zombie),
        fun i hi => (List.takeWhile_sublist _).subset hi, ?_⟩
      simp only [Bool.not_true, Bool.not_false, Bool.false_eq_true, if_false, if_true]
      refine Same.trans (foldl_removeIdx_same _ (?_ : Same m _)) ⟨rfl, rfl, rfl⟩
      exact ⟨rfl, rfl, rfl⟩


/-- the same for the pinned `draw` -/
theorem drawOrig_same (m : Multi) (force : Bool) (extra : Option (List Line)) (now : Nat) :
    ∃ l : List Nat, (∀ i ∈ l, i ∈ m.ordering) ∧ Same (l.foldl removeIdx m) (m.drawOrig force extra now).1 := by
  unfold drawOrig
  dsimp only
  cases hE : extra.isSome with
  | true =>
    simp only [if_true]
    generalize (TermTarget.drawable _ _ now) = r
    obtain ⟨go, tt⟩ := r
    cases go with
    | false => exact ⟨[], fun _ h => absurd h List.not_mem_nil, ⟨rfl, rfl, rfl⟩⟩
    | true =>
      refine ⟨m.ordering.takeWhile (fun i => (m.members.getD i ({} : Member)).zombie),
        fun i hi => (List.takeWhile_sublist _).subset hi, ?_⟩
      have hN : extra.isNone = false := by cases extra <;> simp_all
      simp only [Bool.not_true, Bool.false_eq_true, if_false, hN]
      exact foldl_removeIdx_same _ ⟨rfl, rfl, rfl⟩
  | false =>
    simp only [Bool.false_eq_true, if_false]
    generalize (TermTarget.drawable _ _ now) = r
    obtain ⟨go, tt⟩ := r
    cases go with
    | false => exact ⟨[], fun _ h => absurd h List.not_mem_nil, ⟨rfl, rfl, rfl⟩⟩
    | true =>
      refine ⟨m.ordering.takeWhile (fun i => (m.members.getD i ({} : Member)).zombie),
        fun i hi => (List.takeWhile_sublist _).subset hi, ?_⟩
      have hN : extra.isNone = true := by cases extra <;> simp_all
      simp only [Bool.not_true, Bool.false_eq_true, if_false, hN, if_true]
      refine Same.trans (foldl_removeIdx_same _ (?_ : Same m _)) ⟨rfl, rfl, rfl⟩
      exact ⟨rfl, rfl, rfl⟩

/-- **`MultiState::draw` keeps the partition**, pinned and repaired version alike -/
theorem draw_wf (m : Multi) (h : WF m) (force : Bool) (extra : Option (List Line)) (now : Nat) :
    WF (m.draw force extra now).1 := by
  unfold draw
  split
  · obtain ⟨l, hl, hs⟩ := drawFixed_same m force extra now
    exact WF.of_same hs (foldl_removeIdx_wf l m h (fun i hi => h.ord_lt i (hl i hi)))
  · obtain ⟨l, hl, hs⟩ := drawOrig_same m force extra now
    exact WF.of_same hs (foldl_removeIdx_wf l m h (fun i hi => h.ord_lt i (hl i hi)))

theorem println_wf (m : Multi) (h : WF m) (t : Text) (now : Nat) : WF (m.println t now).1 := by
  unfold println; exact draw_wf m h _ _ _

theorem clear_wf (m : Multi) (h : WF m) : WF m.clear.1 := by
  unfold clear; dsimp only; exact WF.of_same (m := m) ⟨rfl, rfl, rfl⟩ h

theorem suspend_wf (m : Multi) (h : WF m) (out : List Text) (now : Nat) : WF (m.suspend out now).1 := by
  unfold suspend; exact draw_wf _ (clear_wf m h) _ _ _

/-- marking a (valid) slot as zombie, or reaping it at once, keeps the partition -/
theorem markZombie_wf (m : Multi) (h : WF m) (idx : Nat) (hlt : idx < m.members.length) : WF (m.markZombie idx) := by
  unfold markZombie
  split
  · exact WF.of_same (m := m) ⟨by simp, rfl, rfl⟩ h
  · dsimp only
    have : ∀ (zz : Nat) (tt : TermTarget) (bp : Nat), Same m { m with z := zz, target := tt, blankPainted := bp } := fun _ _ _ => ⟨rfl, rfl, rfl⟩
    have := this (m.z + (if m.target.fx.fkept = true then min m.target.llc (m.memberRows idx + (if m.target.fx.fblank = true then m.blankPainted else m.blankOnTop)) else m.memberRows idx + (if m.target.fx.fblank = true then m.blankPainted else m.blankOnTop)))
      { m.target with llc := m.target.llc - (m.memberRows idx + (if m.target.fx.fblank = true then m.blankPainted else m.blankOnTop)) }
      (if m.target.fx.fblank = true then 0 else m.blankPainted)
    exact WF.of_same (removeIdx_same this idx) (C02_remove_wf m h idx hlt).1

end IndicatifModel.Multi
