import IndicatifModel.Proofs.Bridge
/-!
The "raw" form of one redraw, for an arbitrary erase count `n` (as `MultiState` produces with its
`Keep`/`Clear` adjustments): the bottom `n` rows go away, the wrapped lines are appended.
-/
namespace IndicatifModel
open Term

local macro "triv" : term => `(by first | rfl | trivial)

/-- screen state between draws: everything down to the cursor is `pre`; the cursor is on a fresh row
(`c = 0`, nothing painted since the last clear) or parked at the right edge of the last row -/
inductive Scr (t : Term) (pre : List Row) : Prop where
  | fresh (h : Fresh t pre)
  | edge (h : Painted t pre) (hc : t.c ≥ t.W)

theorem Scr.wf {t : Term} {pre : List Row} (h : Scr t pre) : WF t := by
  cases h with
  | fresh h => exact h.wf
  | edge h _ => exact h.wf

/-- One redraw with erase count `n` on a screen `pre`: legal when the cursor is fresh and `n = 0`, or
parked at the right edge with the `n` rows still on screen. -/
def CanDraw (t : Term) (pre : List Row) (n : Nat) : Prop :=
  (Fresh t pre ∧ n = 0) ∨ (Painted t pre ∧ t.c ≥ t.W ∧ n ≤ pre.length - t.top ∧ n ≤ pre.length)

theorem drawReq_raw (t : Term) (pre : List Row) (n : Nat) (r : Req) (hs : CanDraw t pre n)
    (hfit : (wrapAll t.W r.bars).length ≤ t.H)
    (hF4 : n = 0 → t.c ≠ 0 → firstNonEmpty r.lines) :
    ∃ pre' : List Row, Scr (drawReq t n r).1 pre' ∧
      norm pre' = norm (pre.take (pre.length - n)) ++ norm (wrapAll t.W r.texts) ++ norm (wrapAll t.W r.bars) ∧
      pre'.length = (pre.length - n) + (wrapAll t.W r.lines).length ∧
      (drawReq t n r).2 = (wrapAll t.W r.bars).length ∧
      (drawReq t n r).1.W = t.W ∧ (drawReq t n r).1.H = t.H ∧
      t.top ≤ (drawReq t n r).1.top ∧ (drawReq t n r).1.top ≤ max t.top (pre'.length - t.H) ∧
      (r.lines ≠ [] → ∃ h : Painted (drawReq t n r).1 pre', (drawReq t n r).1.c ≥ t.W) ∧
      (r.lines = [] → 0 < n → Fresh (drawReq t n r).1 pre') := by
  unfold drawReq
  simp only [drawOps, execAll_append, flush_id]
  have hnormlines : norm (wrapAll t.W r.lines) = norm (wrapAll t.W r.texts) ++ norm (wrapAll t.W r.bars) := by
    unfold Req.lines; rw [wrapAll_append, norm_append]
  by_cases hl : r.lines = []
  · -- nothing to paint
    rw [hl, paintOps_nil]
    simp only [Term.execAll, List.foldl_nil]
    have htx : r.texts = [] := by have := hl; unfold Req.lines at this; exact (List.append_eq_nil_iff.1 this).1
    have hbs : r.bars = [] := by have := hl; unfold Req.lines at this; exact (List.append_eq_nil_iff.1 this).2
    simp only [htx, hbs, wrapAll, List.flatMap_nil, List.length_nil, norm, List.map_nil, List.append_nil, Nat.add_zero]
    by_cases hn : n = 0
    · subst hn
      have hz := clearOps_zero t; unfold Term.execAll at hz; rw [hz]
      have hscr : Scr t pre := by
        rcases hs with ⟨hf, _⟩ | ⟨hp, hc, _, _⟩
        · exact .fresh hf
        · exact .edge hp hc
      exact ⟨pre, hscr, by simp, by simp, triv, triv, triv, Nat.le_refl _, by omega,
        fun h => absurd rfl h, fun _ h => absurd h (by omega)⟩
    · rcases hs with ⟨_, h0⟩ | ⟨hp, hc, hreach, hle⟩
      · exact absurd h0 hn
      · have hpos : 0 < n := by omega
        have hr' : n ≤ t.a - t.top + 1 := by have := hp.ha; have := hp.wf.hlo; omega
        have hf := clear_painted t pre n hp hpos hle hr'
        have ⟨hW', hH', htop'⟩ := clearOps_WH t n pre hp hpos hle hr'
        unfold Term.execAll at hf hW' hH' htop'
        refine ⟨pre.take (pre.length - n), .fresh hf, by simp, by simp [List.length_take], triv, hW', hH', by omega, by omega,
          fun h => absurd rfl h, fun _ _ => hf⟩
  · -- a non-empty frame
    obtain ⟨ls, ll, hsn⟩ := lines_snoc hl
    have hne_lines : wrapAll t.W (ls ++ [ll]) ≠ [] := by
      rw [wrapAll_append]
      have : wrapAll t.W [ll] = wrap t.W ll := by simp [wrapAll]
      rw [this]; intro h
      have := congrArg List.length h
      have hk := wrap_length_pos t.W ll
      simp only [List.length_append, List.length_nil] at this; omega
    have hbars : (wrapAll t.W r.bars).length ≤ (wrapAll t.W (ls ++ [ll])).length := by
      rw [← hsn]; unfold Req.lines; exact wrapAll_length_le _ _ _
    rw [hsn] at hnormlines hF4 ⊢
    rcases hs with ⟨hf, h0⟩ | ⟨hp, hc, hreach, hle⟩
    · subst h0
      have hz := clearOps_zero t; rw [hz]
      have hpf := paint_fresh t pre ls ll hf
      simp only at hpf
      obtain ⟨p1, p2, p3, p4, p5⟩ := hpf
      have hne : pre ++ wrapAll t.W (ls ++ [ll]) ≠ [] := by simp [hne_lines]
      have hlen := padLast_length t.W _ hne
      have ha' := p1.ha
      refine ⟨_, .edge p1 (by rw [p2, p3]; exact Nat.le_refl _), ?_, ?_, triv, p3, p4, ?_, ?_, fun _ => ⟨p1, by rw [p2]; exact Nat.le_refl _⟩, fun h => absurd h (by simp)⟩
      · rw [norm_padLast _ _ hne, norm_append, hnormlines]; simp [List.append_assoc]
      · rw [hlen]; simp
      · rw [p5]; omega
      · rw [p5, hlen] at *; rw [hlen] at ha'; omega
    · by_cases hn : n = 0
      · subst hn
        have hz := clearOps_zero t; rw [hz]
        have hc0 : t.c ≠ 0 := by have := hp.wf.hW; omega
        have hfne := hF4 rfl hc0
        obtain ⟨g, gs, rest, hshape⟩ : ∃ g gs rest, ls ++ [ll] = (g :: gs) :: rest := by
          cases hls : ls ++ [ll] with
          | nil => simp at hls
          | cons l rest =>
            rw [hls] at hfne
            cases l with
            | nil => exact absurd rfl hfne
            | cons g gs => exact ⟨g, gs, rest, rfl⟩
        rw [hshape, paint_edge t pre g gs rest hp hc, ← hshape]
        have ⟨hf, htop0, ha0⟩ := newline_painted t pre hp
        have ⟨hWn, hHn⟩ := newline_W t
        have hpf := paint_fresh t.newline pre ls ll hf
        simp only at hpf
        obtain ⟨p1, p2, p3, p4, p5⟩ := hpf
        rw [hWn] at p1 p2 p3 p4 p5 ⊢
        have hne : pre ++ wrapAll t.W (ls ++ [ll]) ≠ [] := by simp [hne_lines]
        have hlen := padLast_length t.W _ hne
        have ha' := p1.ha
        have hpa := hp.ha
        refine ⟨_, .edge p1 (by rw [p2, p3]; exact Nat.le_refl _), ?_, ?_, triv, p3, by rw [p4, hHn], ?_, ?_,
          fun _ => ⟨p1, by rw [p2]; exact Nat.le_refl _⟩, fun h => absurd h (by simp)⟩
        · rw [norm_padLast _ _ hne, norm_append, hnormlines]; simp [List.append_assoc]
        · rw [hlen]; simp
        · rw [p5, htop0]; omega
        · have hk : 1 ≤ (wrapAll t.W (ls ++ [ll])).length := List.length_pos_iff.2 hne_lines
          rw [p5, htop0, hHn]; rw [hlen] at ha' ⊢; simp only [List.length_append] at ha' ⊢
          omega
      · have hpos : 0 < n := by omega
        have hr' : n ≤ t.a - t.top + 1 := by have := hp.ha; have := hp.wf.hlo; omega
        have hf := clear_painted t pre n hp hpos hle hr'
        have ⟨hW', hH', htop'⟩ := clearOps_WH t n pre hp hpos hle hr'
        have hpf := paint_fresh (t.execAll (clearOps n)) _ ls ll hf
        simp only [hW', hH', htop'] at hpf
        obtain ⟨p1, p2, p3, p4, p5⟩ := hpf
        have hne : pre.take (pre.length - n) ++ wrapAll t.W (ls ++ [ll]) ≠ [] := by simp [hne_lines]
        have hlen := padLast_length t.W _ hne
        have ha' := p1.ha
        refine ⟨_, .edge p1 (by rw [p2, p3]; exact Nat.le_refl _), ?_, ?_, triv, p3, p4, ?_, ?_,
          fun _ => ⟨p1, by rw [p2]; exact Nat.le_refl _⟩, fun h => absurd h (by simp)⟩
        · rw [norm_padLast _ _ hne, norm_append, hnormlines]; simp [List.append_assoc]
        · rw [hlen]; simp [List.length_take]
        · rw [p5]; omega
        · rw [p5]; rw [hlen] at ha' ⊢; omega

end IndicatifModel
