import IndicatifModel.Model.Render
/-!
# Lemmas about `Render.formatState`

`linesOf` is the specification the documentation gives for a template without wide elements: the expansions of the
parts are concatenated in order, a line break part ends a line, a trailing empty line is dropped.
-/
namespace IndicatifModel.Render
open Template (Part)
open Pad (G cols pad spaces)

/-- what one part contributes to its line -/
def expansion (env : Env) : Part → List G
  | .lit s => litText env s
  | .newline => []
  | .ph key a width trunc _ _ =>
    match width with
    | some n => pad (fieldText env key (toPad a) width).1 n (toPad a) trunc
    | none => (fieldText env key (toPad a) width).1

/-- a part that is neither a line break nor a wide element -/
def PlainPart (env : Env) : Part → Prop
  | .lit _ => True
  | .newline => False
  | .ph key _ _ _ _ _ => env.custom key ≠ none ∨ (key ≠ wideBarKey ∧ key ≠ wideMsgKey)

/-- a part that is not a wide element (line breaks allowed) -/
def NotWide (env : Env) : Part → Prop
  | .ph key _ _ _ _ _ => env.custom key ≠ none ∨ (key ≠ wideBarKey ∧ key ≠ wideMsgKey)
  | _ => True

def NoNl (t : List G) : Prop := ∀ g ∈ t, g.cp ≠ 10
def NoNul (t : List G) : Prop := ∀ g ∈ t, g.cp ≠ 0

instance (t : List G) : Decidable (NoNl t) := by unfold NoNl; infer_instance
instance (t : List G) : Decidable (NoNul t) := by unfold NoNul; infer_instance
instance (env : Env) (p : Part) : Decidable (NotWide env p) := by
  cases p <;> simp only [NotWide] <;> infer_instance
instance (env : Env) (p : Part) : Decidable (PlainPart env p) := by
  cases p <;> simp only [PlainPart] <;> infer_instance

/-- the specification: in-order concatenation, one line per line break, a trailing empty line dropped -/
def linesOf (env : Env) : List G → List Part → List (List G)
  | cur, [] => if cur = [] then [] else [cur]
  | cur, .newline :: ps => cur :: linesOf env [] ps
  | cur, .lit s :: ps => linesOf env (cur ++ expansion env (.lit s)) ps
  | cur, .ph k a w t s al :: ps => linesOf env (cur ++ expansion env (.ph k a w t s al)) ps

theorem fieldText_notWide (env : Env) (key : List Char) (a : Pad.Align) (w : Option Nat)
    (h : env.custom key ≠ none ∨ (key ≠ wideBarKey ∧ key ≠ wideMsgKey)) : (fieldText env key a w).2 = none := by
  unfold fieldText
  cases hc : env.custom key with
  | some t => rfl
  | none =>
    rcases h with h | ⟨h1, h2⟩
    · exact absurd hc h
    · simp [h1, h2]

/-- a part that is not wide leaves the wide element alone and appends its expansion -/
theorem stepPart_plain (env : Env) (acc : Acc) (p : Part) (h : PlainPart env p) :
    stepPart env acc p = { acc with cur := acc.cur ++ expansion env p } := by
  cases p with
  | lit s => rfl
  | newline => exact absurd h (by simp [PlainPart])
  | ph key a w t s al =>
    have hw := fieldText_notWide env key (toPad a) w h
    simp only [stepPart, expansion, hw]
    cases w <;> rfl

theorem foldl_plain (env : Env) : ∀ (ps : List Part) (acc : Acc), (∀ p ∈ ps, PlainPart env p) →
    ps.foldl (stepPart env) acc = { acc with cur := acc.cur ++ ps.flatMap (expansion env) } := by
  intro ps
  induction ps with
  | nil => intro acc _; simp
  | cons p ps ih =>
    intro acc h
    rw [List.foldl_cons, stepPart_plain env acc p (h p (by simp)), ih _ (fun q hq => h q (by simp [hq]))]
    simp [List.flatMap_cons, List.append_assoc]

theorem splitNl_go_noNl : ∀ (t cur : List G) (acc : List (List G)), NoNl t →
    splitNl.go cur acc t = acc.reverse ++ [cur.reverse ++ t] := by
  intro t
  induction t with
  | nil => intro cur acc _; simp [splitNl.go]
  | cons g gs ih =>
    intro cur acc h
    have hg : g.cp ≠ 10 := h g (by simp)
    unfold splitNl.go
    rw [if_neg hg, ih _ _ (fun x hx => h x (by simp [hx]))]
    simp

/-- text without a line break is one line -/
theorem splitNl_noNl (t : List G) (h : NoNl t) : splitNl t = [t] := by
  unfold splitNl
  rw [splitNl_go_noNl t [] [] h]; simp

theorem noNl_append {a b : List G} (ha : NoNl a) (hb : NoNl b) : NoNl (a ++ b) := by
  intro g hg
  rcases List.mem_append.mp hg with h | h
  · exact ha g h
  · exact hb g h

/-- the walk with the accumulator made explicit -/
def finish (env : Env) (acc : Acc) : List (List G) := if acc.cur ≠ [] then (pushLine env acc).lines else acc.lines

theorem formatState_eq (env : Env) (parts : List Part) : formatState env parts = finish env (parts.foldl (stepPart env) {}) := rfl

/-- **without wide elements the walk is the specification** (any accumulator whose wide element is unset) -/
theorem walk_linesOf (env : Env) : ∀ (parts : List Part) (acc : Acc), acc.wide = none → NoNl acc.cur →
    (∀ p ∈ parts, NotWide env p) → (∀ p ∈ parts, NoNl (expansion env p)) →
    finish env (parts.foldl (stepPart env) acc) = acc.lines ++ linesOf env acc.cur parts := by
  intro parts
  induction parts with
  | nil =>
    intro acc hw hn _ _
    simp only [List.foldl_nil, finish, linesOf]
    by_cases hc : acc.cur = []
    · simp [hc]
    · simp only [ne_eq, hc, not_false_eq_true, if_true, pushLine, hw, if_false, splitNl_noNl _ hn]
  | cons p ps ih =>
    intro acc hw hn hnw hex
    have hnw' : ∀ q ∈ ps, NotWide env q := fun q hq => hnw q (by simp [hq])
    have hex' : ∀ q ∈ ps, NoNl (expansion env q) := fun q hq => hex q (by simp [hq])
    rw [List.foldl_cons]
    cases p with
    | newline =>
      have h1 : stepPart env acc .newline = { acc with cur := [], lines := acc.lines ++ [acc.cur] } := by
        simp only [stepPart, pushLine, hw, splitNl_noNl _ hn]
      rw [h1]
      have := ih { acc with cur := [], lines := acc.lines ++ [acc.cur] } hw (by intro g hg; simp at hg) hnw' hex'
      rw [this]; simp [linesOf]
    | lit s =>
      have hp : PlainPart env (.lit s) := trivial
      rw [stepPart_plain env acc _ hp]
      have := ih { acc with cur := acc.cur ++ expansion env (.lit s) } hw (noNl_append hn (hex (.lit s) (by simp))) hnw' hex'
      rw [this]; simp [linesOf]
    | ph k a w t s al =>
      have hp : PlainPart env (.ph k a w t s al) := hnw (.ph k a w t s al) (by simp)
      rw [stepPart_plain env acc _ hp]
      have := ih { acc with cur := acc.cur ++ expansion env (.ph k a w t s al) } hw (noNl_append hn (hex (.ph k a w t s al) (by simp))) hnw' hex'
      rw [this]; simp [linesOf]

/-- the lines of the specification, put end to end, are the expansions put end to end -/
theorem linesOf_flatten (env : Env) : ∀ (parts : List Part) (cur : List G),
    (linesOf env cur parts).flatten = cur ++ parts.flatMap (expansion env) := by
  intro parts
  induction parts with
  | nil => intro cur; by_cases h : cur = [] <;> simp [linesOf, h]
  | cons p ps ih =>
    intro cur
    cases p with
    | newline => simp [linesOf, ih, expansion]
    | lit s => simp [linesOf, ih, List.append_assoc]
    | ph k a w t s al => simp [linesOf, ih, List.append_assoc]

def isNewline : Part → Bool
  | .newline => true
  | _ => false

/-- one line per line break, and at most one more for the text after the last one -/
theorem linesOf_length (env : Env) : ∀ (parts : List Part) (cur : List G),
    (parts.filter isNewline).length ≤ (linesOf env cur parts).length ∧
    (linesOf env cur parts).length ≤ (parts.filter isNewline).length + 1 := by
  intro parts
  induction parts with
  | nil => intro cur; by_cases h : cur = [] <;> simp [linesOf, h]
  | cons p ps ih =>
    intro cur
    cases p with
    | newline =>
      have := ih []
      have hf : ((Part.newline :: ps).filter isNewline).length = (ps.filter isNewline).length + 1 := by
        rw [List.filter_cons_of_pos (by rfl)]; rfl
      rw [hf]; simp only [linesOf, List.length_cons]; omega
    | lit s => have := ih (cur ++ expansion env (.lit s)); simpa [linesOf, isNewline] using this
    | ph k a w t s al => have := ih (cur ++ expansion env (.ph k a w t s al)); simpa [linesOf, isNewline] using this

/-! ## one wide message on a line -/

theorem replaceNul_append (a b x : List G) : replaceNul (a ++ b) x = replaceNul a x ++ replaceNul b x := by
  simp [replaceNul, List.flatMap_append]

theorem replaceNul_noNul (a x : List G) (h : NoNul a) : replaceNul a x = a := by
  induction a with
  | nil => rfl
  | cons g gs ih =>
    have hg : isNul g = false := by simp [isNul, h g (by simp)]
    have := ih (fun y hy => h y (by simp [hy]))
    simp only [replaceNul, List.flatMap_cons, hg] at this ⊢
    simp [this]

theorem replaceNul_nul (x : List G) : replaceNul [nul] x = x := by simp [replaceNul, isNul, nul]

theorem filter_noNul (a : List G) (h : NoNul a) : a.filter (fun g => !isNul g) = a := by
  apply List.filter_eq_self.mpr
  intro g hg
  simp [isNul, h g hg]

/-- the line `L ␀ R` after the wide message has been put in -/
theorem expandWide_msg (env : Env) (a : Pad.Align) (L R : List G) (hL : NoNul L) (hR : NoNul R) :
    expandWide env (.msg a) (L ++ [nul] ++ R) =
      L ++ (if R = [] then trimEnd (pad env.msg (env.W - cols (L ++ R)) a true) else pad env.msg (env.W - cols (L ++ R)) a true) ++ R := by
  have hf : (L ++ [nul] ++ R).filter (fun g => !isNul g) = L ++ R := by
    rw [List.filter_append, List.filter_append, filter_noNul L hL, filter_noNul R hR]
    simp [isNul, nul]
  have hlast : ((L ++ [nul] ++ R).getLast?.map isNul = some true) ↔ R = [] := by
    constructor
    · intro h
      by_cases hr : R = []
      · exact hr
      · have hne : R ≠ [] := hr
        rw [List.getLast?_append, Option.or_of_isSome (by cases hgl : R.getLast? with | none => exact absurd (List.getLast?_eq_none_iff.mp hgl) hne | some g => rfl)] at h
        have : ∃ g, R.getLast? = some g := by
          cases hgl : R.getLast? with
          | none => exact absurd (List.getLast?_eq_none_iff.mp hgl) hne
          | some g => exact ⟨g, rfl⟩
        obtain ⟨g, hg⟩ := this
        rw [hg] at h
        have hm : g ∈ R := List.mem_of_getLast? hg
        have := hR g hm
        simp [isNul, this] at h
    · intro h; subst h; simp [isNul, nul]
  unfold expandWide
  simp only [hf]
  rw [replaceNul_append, replaceNul_append, replaceNul_noNul L _ hL, replaceNul_noNul R _ hR, replaceNul_nul]
  by_cases hr : R = []
  · have : ((L ++ [nul] ++ R).getLast?.map isNul = some true) := hlast.mpr hr
    subst hr
    simp only [this, if_true]
  · have : ¬ ((L ++ [nul] ++ R).getLast?.map isNul = some true) := fun h => hr (hlast.mp h)
    simp only [this, if_false, hr]

theorem fieldText_wideMsg (env : Env) (a : Pad.Align) (w : Option Nat) (hc : env.custom wideMsgKey = none) :
    fieldText env wideMsgKey a w = ([nul], some (.msg a)) := by
  unfold fieldText
  rw [hc]
  have : wideMsgKey ≠ wideBarKey := by decide
  simp [this]

/-! ## one wide bar on a line -/

theorem expandWide_bar (env : Env) (L R : List G) (hL : NoNul L) (hR : NoNul R) :
    expandWide env .bar (L ++ [nul] ++ R) = L ++ env.bar (env.W - cols (L ++ R)) ++ R := by
  have hf : (L ++ [nul] ++ R).filter (fun g => !isNul g) = L ++ R := by
    rw [List.filter_append, List.filter_append, filter_noNul L hL, filter_noNul R hR]
    simp [isNul, nul]
  unfold expandWide
  simp only [hf]
  rw [replaceNul_append, replaceNul_append, replaceNul_noNul L _ hL, replaceNul_noNul R _ hR, replaceNul_nul]

theorem fieldText_wideBar (env : Env) (a : Pad.Align) (w : Option Nat) (hc : env.custom wideBarKey = none) :
    fieldText env wideBarKey a w = ([nul], some .bar) := by
  unfold fieldText
  rw [hc]
  simp

/-- **a line with one wide bar**: the parts before and after it expand as they would alone, and the bar is
`format_bar` at the columns they leave -/
theorem formatState_wide_bar_line (env : Env) (l r : List Part) (al : Template.Align) (t : Bool) (s sa : Option (List Char))
    (hc : env.custom wideBarKey = none)
    (hl : ∀ p ∈ l, PlainPart env p) (hr : ∀ p ∈ r, PlainPart env p)
    (hL : NoNul (l.flatMap (expansion env))) (hR : NoNul (r.flatMap (expansion env)))
    (hLn : NoNl (l.flatMap (expansion env))) (hRn : NoNl (r.flatMap (expansion env)))
    (hb : ∀ n, NoNl (env.bar n)) :
    formatState env (l ++ [.ph wideBarKey al none t s sa] ++ r) =
      [l.flatMap (expansion env) ++ env.bar (env.W - cols (l.flatMap (expansion env) ++ r.flatMap (expansion env))) ++ r.flatMap (expansion env)] := by
  rw [formatState_eq, List.foldl_append, List.foldl_append, foldl_plain env l _ hl]
  have hstep : stepPart env { ({} : Acc) with cur := ([] : List G) ++ l.flatMap (expansion env) } (.ph wideBarKey al none t s sa)
      = { cur := l.flatMap (expansion env) ++ [nul], wide := some .bar, lines := [] } := by
    simp [stepPart, fieldText_wideBar env (toPad al) none hc]
  rw [List.foldl_cons, List.foldl_nil, hstep, foldl_plain env r _ hr]
  have hne : l.flatMap (expansion env) ++ [nul] ++ r.flatMap (expansion env) ≠ [] := by simp
  simp only [finish, ne_eq, hne, not_false_eq_true, if_true, pushLine, List.nil_append]
  rw [expandWide_bar env _ _ hL hR]
  rw [splitNl_noNl _ (noNl_append (noNl_append hLn (hb _)) hRn)]

/-! ## what a padded field is made of -/

theorem byteSlice_go_mem (start stop : Nat) : ∀ (rest : List G) (off : Nat) (acc r : List G),
    Pad.byteSlice.go start stop off acc rest = some r → ∀ g ∈ r, g ∈ acc ∨ g ∈ rest := by
  intro rest
  induction rest with
  | nil =>
    intro off acc r h g hg
    unfold Pad.byteSlice.go at h
    split at h
    · split at h
      · cases h; simp at hg
      · cases h; left; simpa using hg
    · cases h
  | cons x xs ih =>
    intro off acc r h g hg
    unfold Pad.byteSlice.go at h
    split at h
    · split at h
      · cases h; left; simpa using hg
      · cases h
    · split at h
      · split at h
        · rcases ih _ _ _ h g hg with h1 | h1
          · left; exact h1
          · right; simp [h1]
        · cases h
      · split at h
        · rcases ih _ _ _ h g hg with h1 | h1
          · rcases List.mem_cons.mp h1 with h2 | h2
            · right; simp [h2]
            · left; exact h2
          · right; simp [h1]
        · cases h

theorem byteSlice_mem (s : List G) (start stop : Nat) (r : List G) (h : Pad.byteSlice s start stop = some r) : ∀ g ∈ r, g ∈ s := by
  unfold Pad.byteSlice at h
  split at h
  · cases h
  · intro g hg
    rcases byteSlice_go_mem start stop s 0 [] r h g hg with h1 | h1
    · simp at h1
    · exact h1

/-- a padded or truncated field consists of glyphs of its content and blanks -/
theorem mem_pad (s : List G) (width : Nat) (align : Pad.Align) (truncate : Bool) :
    ∀ g ∈ pad s width align truncate, g ∈ s ∨ g = { cp := 32, w := 1, b := 1 } := by
  intro g hg
  unfold pad at hg
  simp only at hg
  split at hg
  · left; exact hg
  · split at hg
    · cases hb : Pad.byteSlice s (match align with
          | .left => (0, Pad.bytes s - (cols s - width))
          | .right => (cols s - width, Pad.bytes s)
          | .center => ((cols s - width) / 2, Pad.bytes s - ((cols s - width) - (cols s - width) / 2))).1
          (match align with
          | .left => (0, Pad.bytes s - (cols s - width))
          | .right => (cols s - width, Pad.bytes s)
          | .center => ((cols s - width) / 2, Pad.bytes s - ((cols s - width) - (cols s - width) / 2))).2 with
      | none =>
        left
        cases align <;> simp_all [Option.getD]
      | some r =>
        left
        have hm := byteSlice_mem s _ _ r hb
        cases align <;> simp_all [Option.getD]
    · rcases List.mem_append.mp hg with h1 | h1
      · rcases List.mem_append.mp h1 with h2 | h2
        · right; exact (List.mem_replicate.mp h2).2
        · left; exact h2
      · right; exact (List.mem_replicate.mp h1).2

theorem noNl_pad (s : List G) (width : Nat) (align : Pad.Align) (truncate : Bool) (h : NoNl s) : NoNl (pad s width align truncate) := by
  intro g hg
  rcases mem_pad s width align truncate g hg with h1 | h1
  · exact h g h1
  · rw [h1]; decide

theorem mem_trimEnd (s : List G) : ∀ g ∈ trimEnd s, g ∈ s := by
  intro g hg
  unfold trimEnd at hg
  have := List.mem_reverse.mp hg
  have := (List.dropWhile_sublist _).subset this
  exact List.mem_reverse.mp this

theorem noNl_trimEnd (s : List G) (h : NoNl s) : NoNl (trimEnd s) := fun g hg => h g (mem_trimEnd s g hg)

/-- the field a wide message becomes on a line whose other text is `L` (before) and `R` (after) -/
def wideMsgField (env : Env) (a : Pad.Align) (L R : List G) : List G :=
  if R = [] then trimEnd (pad env.msg (env.W - cols (L ++ R)) a true) else pad env.msg (env.W - cols (L ++ R)) a true

/-- **a line with one wide message**: the parts before and after it expand as they would alone, and the wide message
is the truncating field of the columns they leave -/
theorem formatState_wide_msg_line (env : Env) (l r : List Part) (al : Template.Align) (t : Bool) (s sa : Option (List Char))
    (hc : env.custom wideMsgKey = none)
    (hl : ∀ p ∈ l, PlainPart env p) (hr : ∀ p ∈ r, PlainPart env p)
    (hL : NoNul (l.flatMap (expansion env))) (hR : NoNul (r.flatMap (expansion env)))
    (hLn : NoNl (l.flatMap (expansion env))) (hRn : NoNl (r.flatMap (expansion env))) (hm : NoNl env.msg) :
    formatState env (l ++ [.ph wideMsgKey al none t s sa] ++ r) =
      [l.flatMap (expansion env) ++ wideMsgField env (toPad al) (l.flatMap (expansion env)) (r.flatMap (expansion env)) ++ r.flatMap (expansion env)] := by
  rw [formatState_eq, List.foldl_append, List.foldl_append, foldl_plain env l _ hl]
  have hstep : stepPart env { ({} : Acc) with cur := ([] : List G) ++ l.flatMap (expansion env) } (.ph wideMsgKey al none t s sa)
      = { cur := l.flatMap (expansion env) ++ [nul], wide := some (.msg (toPad al)), lines := [] } := by
    simp [stepPart, fieldText_wideMsg env (toPad al) none hc]
  rw [List.foldl_cons, List.foldl_nil, hstep, foldl_plain env r _ hr]
  have hne : l.flatMap (expansion env) ++ [nul] ++ r.flatMap (expansion env) ≠ [] := by simp
  simp only [finish, ne_eq, hne, not_false_eq_true, if_true, pushLine, List.nil_append]
  rw [expandWide_msg env (toPad al) _ _ hL hR]
  have hfield : NoNl (wideMsgField env (toPad al) (l.flatMap (expansion env)) (r.flatMap (expansion env))) := by
    unfold wideMsgField
    split
    · exact noNl_trimEnd _ (noNl_pad _ _ _ _ hm)
    · exact noNl_pad _ _ _ _ hm
  have := splitNl_noNl _ (noNl_append (noNl_append hLn hfield) hRn)
  unfold wideMsgField at this
  rw [this]
  rfl


/-! ## no TAB reaches a line -/

def NoTab (t : List G) : Prop := ∀ g ∈ t, g.cp ≠ 9

/-- the texts the renderer reads hold no TAB (message and prefix are `TabExpandedString`s, custom keys write through
`TabRewriter`, the other keys print numbers, durations and progress characters) -/
structure EnvNoTab (env : Env) : Prop where
  custom : ∀ k t, env.custom k = some t → NoTab t
  builtin : ∀ k w t, env.builtin k w = some t → NoTab t
  msg : NoTab env.msg
  bar : ∀ n, NoTab (env.bar n)

theorem noTab_append {a b : List G} (ha : NoTab a) (hb : NoTab b) : NoTab (a ++ b) := by
  intro g hg
  rcases List.mem_append.mp hg with h | h
  · exact ha g h
  · exact hb g h

theorem noTab_spaces (n : Nat) : NoTab (spaces n) := by
  intro g hg
  rw [(List.mem_replicate.mp hg).2]; decide

theorem noTab_litText (env : Env) (s : List Char) : NoTab (litText env s) := by
  intro g hg
  unfold litText at hg
  obtain ⟨c, _, hc⟩ := List.mem_flatMap.mp hg
  by_cases ht : c = '\t'
  · rw [if_pos ht] at hc; exact noTab_spaces _ g hc
  · rw [if_neg ht] at hc
    have hg' : g = glyph env c := by simpa using hc
    rw [hg']
    intro h9
    apply ht
    have h : c.toNat = 9 := h9
    have : Char.ofNat c.toNat = c := Char.ofNat_toNat c
    rw [h] at this
    exact this.symm

theorem noTab_pad (s : List G) (width : Nat) (align : Pad.Align) (truncate : Bool) (h : NoTab s) : NoTab (pad s width align truncate) := by
  intro g hg
  rcases mem_pad s width align truncate g hg with h1 | h1
  · exact h g h1
  · rw [h1]; decide

theorem noTab_fieldText (env : Env) (he : EnvNoTab env) (key : List Char) (a : Pad.Align) (w : Option Nat) : NoTab (fieldText env key a w).1 := by
  unfold fieldText
  cases hc : env.custom key with
  | some t => exact he.custom key t hc
  | none =>
    simp only
    split
    · intro g hg; have : g = nul := by simpa using hg
      rw [this]; decide
    · split
      · intro g hg; have : g = nul := by simpa using hg
        rw [this]; decide
      · cases hb : env.builtin key w with
        | none => intro g hg; simp [Option.getD] at hg
        | some t => exact he.builtin key w t hb

theorem noTab_expansion (env : Env) (he : EnvNoTab env) (p : Part) : NoTab (expansion env p) := by
  cases p with
  | lit s => exact noTab_litText env s
  | newline => intro g hg; simp [expansion] at hg
  | ph k a w t s al =>
    cases w with
    | none => exact noTab_fieldText env he k (toPad a) none
    | some n => exact noTab_pad _ _ _ _ (noTab_fieldText env he k (toPad a) (some n))

theorem mem_replaceNul (cur x : List G) : ∀ g ∈ replaceNul cur x, g ∈ cur ∨ g ∈ x := by
  intro g hg
  unfold replaceNul at hg
  obtain ⟨c, hc, hgc⟩ := List.mem_flatMap.mp hg
  split at hgc
  · right; exact hgc
  · left; have : g = c := by simpa using hgc
    rw [this]; exact hc

theorem noTab_expandWide (env : Env) (he : EnvNoTab env) (w : Wide) (cur : List G) (h : NoTab cur) : NoTab (expandWide env w cur) := by
  intro g hg
  unfold expandWide at hg
  cases w with
  | bar =>
    rcases mem_replaceNul _ _ g hg with h1 | h1
    · exact h g h1
    · exact he.bar _ g h1
  | msg a =>
    simp only at hg
    rcases mem_replaceNul _ _ g hg with h1 | h1
    · exact h g h1
    · split at h1
      · exact noTab_pad _ _ _ _ he.msg g (mem_trimEnd _ g h1)
      · exact noTab_pad _ _ _ _ he.msg g h1

theorem splitNl_go_mem : ∀ (t cur : List G) (acc : List (List G)) (l : List G), l ∈ splitNl.go cur acc t →
    l ∈ acc ∨ ∀ g ∈ l, g ∈ cur ∨ g ∈ t := by
  intro t
  induction t with
  | nil =>
    intro cur acc l hl
    simp only [splitNl.go, List.mem_reverse, List.mem_cons] at hl
    rcases hl with h | h
    · right; intro g hg; left; rw [h] at hg; exact List.mem_reverse.mp hg
    · left; exact h
  | cons x xs ih =>
    intro cur acc l hl
    unfold splitNl.go at hl
    split at hl
    · rcases ih _ _ l hl with h | h
      · rcases List.mem_cons.mp h with h1 | h1
        · right; intro g hg; left; rw [h1] at hg; exact List.mem_reverse.mp hg
        · left; exact h1
      · right; intro g hg
        rcases h g hg with h2 | h2
        · simp at h2
        · right; simp [h2]
    · rcases ih _ _ l hl with h | h
      · left; exact h
      · right; intro g hg
        rcases h g hg with h2 | h2
        · rcases List.mem_cons.mp h2 with h3 | h3
          · right; simp [h3]
          · left; exact h3
        · right; simp [h2]

theorem mem_splitNl (t l : List G) (hl : l ∈ splitNl t) : ∀ g ∈ l, g ∈ t := by
  intro g hg
  rcases splitNl_go_mem t [] [] l hl with h | h
  · simp at h
  · rcases h g hg with h1 | h1
    · simp at h1
    · exact h1

/-- the invariant of the walk -/
def AccNoTab (acc : Acc) : Prop := NoTab acc.cur ∧ ∀ l ∈ acc.lines, NoTab l

theorem pushLine_noTab (env : Env) (he : EnvNoTab env) (acc : Acc) (h : AccNoTab acc) : AccNoTab (pushLine env acc) := by
  refine ⟨by intro g hg; simp [pushLine] at hg, ?_⟩
  intro l hl
  simp only [pushLine, List.mem_append] at hl
  rcases hl with h1 | h1
  · exact h.2 l h1
  · intro g hg
    have := mem_splitNl _ l h1 g hg
    cases hw : acc.wide with
    | none => rw [hw] at this; exact h.1 g this
    | some w => rw [hw] at this; exact noTab_expandWide env he w _ h.1 g this

theorem stepPart_noTab (env : Env) (he : EnvNoTab env) (acc : Acc) (p : Part) (h : AccNoTab acc) : AccNoTab (stepPart env acc p) := by
  cases p with
  | lit s => exact ⟨noTab_append h.1 (noTab_litText env s), h.2⟩
  | newline => exact pushLine_noTab env he acc h
  | ph k a w t s al =>
    refine ⟨?_, h.2⟩
    have := noTab_expansion env he (.ph k a w t s al)
    simp only [stepPart]
    apply noTab_append h.1
    cases w <;> exact this

theorem foldl_noTab (env : Env) (he : EnvNoTab env) : ∀ (ps : List Part) (acc : Acc), AccNoTab acc → AccNoTab (ps.foldl (stepPart env) acc) := by
  intro ps
  induction ps with
  | nil => intro acc h; exact h
  | cons p ps ih => intro acc h; exact ih _ (stepPart_noTab env he acc p h)

/-- **no TAB in any line**, wide elements, line breaks inside texts and every field attribute included -/
theorem formatState_noTab (env : Env) (he : EnvNoTab env) (parts : List Part) : ∀ l ∈ formatState env parts, NoTab l := by
  have h0 : AccNoTab ({} : Acc) := ⟨by intro g hg; simp at hg, by intro l hl; simp at hl⟩
  have h := foldl_noTab env he parts {} h0
  rw [formatState_eq]
  unfold finish
  split
  · exact (pushLine_noTab env he _ h).2
  · exact h.2

end IndicatifModel.Render
