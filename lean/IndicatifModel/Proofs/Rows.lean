import IndicatifModel.Model.Rows
/-!
# Row accounting never reaches a printed line (helper lemmas for C03 / C02 / C04)

`managed w = z + n` rows at the bottom of the screen are the only rows any operation erases; `safe w`
is everything above them. Invariant: the log (every line printed so far, in order) is a sublist of
`safe w`. Every operation of the row-level model extends `safe` only at its end.
-/
namespace IndicatifModel.Rows

def managed (w : RW) : Nat := w.z + w.n
def safe (w : RW) : List Row := w.scr.take (w.scr.length - managed w)

structure Inv (w : RW) : Prop where
  fits : managed w ≤ w.scr.length
  log_safe : w.log.Sublist (safe w)

/-- `w'` extends `w`: the rows above the managed region and the log only grow at their ends -/
def Ext (w w' : RW) : Prop := (∃ X, safe w' = safe w ++ X) ∧ (∃ Y, w'.log = w.log ++ Y)

theorem Ext.refl (w : RW) : Ext w w := ⟨⟨[], by simp⟩, ⟨[], by simp⟩⟩
theorem Ext.trans {a b c : RW} (h1 : Ext a b) (h2 : Ext b c) : Ext a c := by
  obtain ⟨⟨X1, hX1⟩, ⟨Y1, hY1⟩⟩ := h1
  obtain ⟨⟨X2, hX2⟩, ⟨Y2, hY2⟩⟩ := h2
  exact ⟨⟨X1 ++ X2, by rw [hX2, hX1, List.append_assoc]⟩, ⟨Y1 ++ Y2, by rw [hY2, hY1, List.append_assoc]⟩⟩

theorem take_take_prefix {α : Type} (l : List α) (a b : Nat) (h : a ≤ b) : ∃ X, l.take b = l.take a ++ X := by
  refine ⟨(l.take b).drop a, ?_⟩
  have : l.take a = (l.take b).take a := by rw [List.take_take, Nat.min_eq_left h]
  rw [this, List.take_append_drop]

theorem linesOf_append (w : RW) (a b : List Nat) : linesOf w (a ++ b) = linesOf w a ++ linesOf w b := by
  simp [linesOf]

theorem takeWhile_lines_le (w : RW) (p : Nat → Bool) :
    (linesOf w (w.ordering.takeWhile p)).length ≤ (linesOf w w.ordering).length := by
  conv => rhs; rw [← List.takeWhile_append_dropWhile (p := p) (l := w.ordering), linesOf_append]
  simp

theorem allow_fields (w : RW) (f : Bool) :
    (allow w f).2.scr = w.scr ∧ (allow w f).2.z = w.z ∧ (allow w f).2.n = w.n ∧ (allow w f).2.log = w.log ∧
    (allow w f).2.orphan = w.orphan ∧ (allow w f).2.blank = w.blank := by
  unfold allow
  split
  · simp
  · split <;> simp

theorem inv_of_allow (w : RW) (f : Bool) (h : Inv w) : Inv (allow w f).2 := by
  obtain ⟨h1, h2, h3, h4, _, _⟩ := allow_fields w f
  constructor
  · simp only [managed, h1, h2, h3]; exact h.fits
  · simp only [safe, managed, h1, h2, h3, h4]; exact h.log_safe

/-- what `paint` erases never exceeds the managed rows -/
theorem erase_le (blank : Bool) (n1 : Nat) : (if blank && decide (1 ≤ n1) then n1 - 1 else n1) ≤ n1 := by
  split <;> omega

/-- the arithmetic core: erase at most the managed rows, append text and frame; `z'` old rows are kept
directly above the new frame (only when no text is printed) -/
theorem core {α : Type} (scr log text bars : List α) (m k z' : Nat) (hfit : m ≤ scr.length) (hkz : z' + k ≤ m)
    (hcase : text = [] ∨ z' = 0) (hlog : log.Sublist (scr.take (scr.length - m))) :
    z' + bars.length ≤ (scr.take (scr.length - k) ++ text ++ bars).length ∧
    (log ++ text).Sublist ((scr.take (scr.length - k) ++ text ++ bars).take
      ((scr.take (scr.length - k) ++ text ++ bars).length - (z' + bars.length))) ∧
    ∃ X, (scr.take (scr.length - k) ++ text ++ bars).take
      ((scr.take (scr.length - k) ++ text ++ bars).length - (z' + bars.length)) = scr.take (scr.length - m) ++ X := by
  have hlen : (scr.take (scr.length - k) ++ text ++ bars).length = scr.length - k + text.length + bars.length := by
    simp only [List.length_append, List.length_take]; omega
  refine ⟨by rw [hlen]; omega, ?_⟩
  rw [hlen]
  rcases hcase with rfl | rfl
  · -- no text: the safe part is a longer prefix of the old screen
    have e1 : scr.length - k + ([] : List α).length + bars.length - (z' + bars.length) = scr.length - k - z' := by simp; omega
    rw [e1, List.append_nil, List.append_nil, List.take_append_of_le_length (by simp only [List.length_take]; omega), List.take_take]
    have hmin : min (scr.length - k - z') (scr.length - k) = scr.length - k - z' := by omega
    rw [hmin]
    obtain ⟨X, hX⟩ := take_take_prefix scr (scr.length - m) (scr.length - k - z') (by omega)
    rw [hX]
    exact ⟨hlog.trans (List.sublist_append_left _ _), X, rfl⟩
  · -- text: everything up to and including the text is safe
    have e1 : scr.length - k + text.length + bars.length - (0 + bars.length) = (scr.take (scr.length - k) ++ text).length := by
      simp only [List.length_append, List.length_take]; omega
    rw [e1, List.take_left' rfl]
    obtain ⟨X, hX⟩ := take_take_prefix scr (scr.length - m) (scr.length - k) (by omega)
    rw [hX]
    exact ⟨List.Sublist.append (hlog.trans (List.sublist_append_left _ _)) (List.Sublist.refl _), X ++ text, by simp⟩

/-- **painting keeps the invariant**, and appends exactly the printed text to the log -/
theorem paint_inv (w : RW) (extra : List Row) (h : Inv w) :
    (Inv (paint w extra) ∧ Ext w (paint w extra)) ∧ (paint w extra).log = w.log ++ (extra ++ w.orphan) := by
  obtain ⟨hfit, hlog⟩ := h
  refine ⟨?_, rfl⟩
  have hm : managed w = w.z + w.n := rfl
  by_cases ht : (decide (extra ≠ []) || decide (w.orphan ≠ [])) = true
  · -- a draw that prints text: erases (at most) frame and zombie rows, reaps nothing
    have hk := erase_le w.blank (w.n + w.z)
    have hc := core w.scr w.log (extra ++ w.orphan) (linesOf w w.ordering) (managed w)
      (if w.blank && decide (1 ≤ w.n + w.z) then w.n + w.z - 1 else w.n + w.z) 0 hfit (by omega) (Or.inr rfl) hlog
    have hs : (paint w extra).scr = w.scr.take (w.scr.length - (if w.blank && decide (1 ≤ w.n + w.z) then w.n + w.z - 1 else w.n + w.z))
        ++ (extra ++ w.orphan) ++ linesOf w w.ordering := by simp only [paint, ht, if_true]
    have hl0 : (linesOf w ([] : List Nat)).length = 0 := rfl
    have hz : (paint w extra).z = 0 := by simp only [paint, ht, if_true, hl0]
    have hn : (paint w extra).n = (linesOf w w.ordering).length := by simp only [paint, ht, if_true, hl0, Nat.sub_zero]
    have hl : (paint w extra).log = w.log ++ (extra ++ w.orphan) := rfl
    refine ⟨⟨?_, ?_⟩, ⟨?_, ⟨_, hl⟩⟩⟩
    · simp only [managed, hs, hz, hn]; exact hc.1
    · simp only [safe, managed, hs, hz, hn, hl]; exact hc.2.1
    · simp only [safe, managed, hs, hz, hn]; exact hc.2.2
  · -- a plain draw: erases (at most) the frame rows, keeps the rows of the reaped head zombies
    have ht' : (decide (extra ≠ []) || decide (w.orphan ≠ [])) = false := by simpa using ht
    have hex : extra = [] := Classical.byContradiction (fun hne => by simp [hne] at ht')
    have hor : w.orphan = [] := Classical.byContradiction (fun hne => by simp [hne] at ht')
    subst hex
    have hk := erase_le w.blank w.n
    have hadj := takeWhile_lines_le w (fun k => (w.barAt k).zombie)
    have hc := core w.scr w.log [] (linesOf w w.ordering) (managed w)
      (if w.blank && decide (1 ≤ w.n) then w.n - 1 else w.n) w.z hfit (by omega) (Or.inl rfl) hlog
    have hs : (paint w []).scr = w.scr.take (w.scr.length - (if w.blank && decide (1 ≤ w.n) then w.n - 1 else w.n))
        ++ [] ++ linesOf w w.ordering := by simp [paint, hor]
    have hz : (paint w []).z = w.z + (linesOf w (w.ordering.takeWhile (fun k => (w.barAt k).zombie))).length := by simp [paint, hor]
    have hn : (paint w []).n = (linesOf w w.ordering).length - (linesOf w (w.ordering.takeWhile (fun k => (w.barAt k).zombie))).length := by
      simp [paint, hor]
    have hzn : (paint w []).z + (paint w []).n = w.z + (linesOf w w.ordering).length := by rw [hz, hn]; omega
    have hl : (paint w []).log = w.log ++ [] := by simp [paint, hor]
    refine ⟨⟨?_, ?_⟩, ⟨?_, ⟨_, hl⟩⟩⟩
    · simp only [managed, hzn, hs]; exact hc.1
    · simp only [safe, managed, hzn, hs, hl]; exact hc.2.1
    · simp only [safe, managed, hzn, hs]; exact hc.2.2

/-- the screen-relevant fields agree: invariant and extension carry over -/
theorem ext_congr (w w' : RW) (h1 : w'.scr = w.scr) (h2 : w'.z = w.z) (h3 : w'.n = w.n) (h4 : w'.log = w.log) : Ext w w' :=
  ⟨⟨[], by simp only [safe, managed, h1, h2, h3, List.append_nil]⟩, ⟨[], by simp [h4]⟩⟩

theorem inv_congr (w w' : RW) (h : Inv w) (h1 : w'.scr = w.scr) (h2 : w'.z = w.z) (h3 : w'.n = w.n) (h4 : w'.log = w.log) : Inv w' := by
  constructor
  · simp only [managed, h1, h2, h3]; exact h.fits
  · simp only [safe, managed, h1, h2, h3, h4]; exact h.log_safe

/-- the conclusion every operation establishes -/
def Good (w w' : RW) : Prop := Inv w' ∧ Ext w w'

theorem Good.congr (w w' : RW) (h : Inv w) (h1 : w'.scr = w.scr) (h2 : w'.z = w.z) (h3 : w'.n = w.n) (h4 : w'.log = w.log) : Good w w' :=
  ⟨inv_congr w w' h h1 h2 h3 h4, ext_congr w w' h1 h2 h3 h4⟩

theorem Good.trans {a b c : RW} (h1 : Good a b) (h2 : Good b c) : Good a c := ⟨h2.1, h1.2.trans h2.2⟩
theorem Good.refl (w : RW) (h : Inv w) : Good w w := ⟨h, Ext.refl w⟩

theorem allow_good (w : RW) (f : Bool) (h : Inv w) : Good w (allow w f).2 := by
  obtain ⟨h1, h2, h3, h4, _, _⟩ := allow_fields w f
  exact Good.congr w _ h h1 h2 h3 h4

theorem draw_good (w : RW) (force : Bool) (extra : List Row) (h : Inv w) : Good w (draw w force extra) := by
  unfold draw
  simp only []
  have ha := allow_good w (force || decide (w.orphan ≠ [])) h
  split
  · exact ha
  · exact ha.trans (paint_inv _ extra ha.1).1

theorem clear_managed (w : RW) : managed (clear w) = 0 := rfl

/-- a change of the target: nothing on the screen is managed any more, all of it is safe from now on -/
theorem retarget_good (w : RW) (lim : Option (Limiter.Cfg × Limiter.St)) (h : Inv w) :
    Good w { w with n := 0, z := 0, stale := true, limiter := lim } := by
  have hs : safe { w with n := 0, z := 0, stale := true, limiter := lim } = w.scr := by
    simp [safe, managed]
  refine ⟨⟨by simp [managed], ?_⟩, ⟨⟨w.scr.drop (w.scr.length - managed w), ?_⟩, ⟨[], by simp⟩⟩⟩
  · rw [hs]
    have := h.log_safe
    exact this.trans (List.take_sublist _ _)
  · rw [hs]; simp [safe]

theorem clear_good (w : RW) (h : Inv w) : Good w (clear w) := by
  obtain ⟨hfit, hlog⟩ := h
  have hm : managed w = w.z + w.n := rfl
  have hk := erase_le w.blank (w.n + w.z)
  have hc := core w.scr w.log [] [] (managed w) (if w.blank && decide (1 ≤ w.n + w.z) then w.n + w.z - 1 else w.n + w.z) 0 hfit (by omega) (Or.inl rfl) hlog
  have hs : (clear w).scr = w.scr.take (w.scr.length - (if w.blank && decide (1 ≤ w.n + w.z) then w.n + w.z - 1 else w.n + w.z)) ++ [] ++ [] := by
    simp [clear]
  have hz : (clear w).z = 0 := rfl
  have hn : (clear w).n = 0 := rfl
  have hl : (clear w).log = w.log ++ [] := by simp [clear]
  refine ⟨⟨?_, ?_⟩, ⟨?_, ⟨_, hl⟩⟩⟩
  · simp only [managed, hs, hz, hn]; exact hc.1
  · simp only [safe, managed, hs, hz, hn, hl]; exact hc.2.1
  · simp only [safe, managed, hs, hz, hn]; exact hc.2.2

/-- output written while nothing is managed goes above everything drawn later -/
theorem output_good (w : RW) (out : List Row) (b : Bool) (h : Inv w) (hm : managed w = 0) :
    Good w { w with scr := w.scr ++ out, log := w.log ++ out, blank := b } := by
  obtain ⟨_, hlog⟩ := h
  have hz : w.z = 0 := by simp only [managed] at hm; omega
  have hn : w.n = 0 := by simp only [managed] at hm; omega
  refine ⟨⟨?_, ?_⟩, ⟨⟨out, ?_⟩, ⟨out, rfl⟩⟩⟩
  · simp [managed, hz, hn]
  · simp only [safe, managed, hz, hn, Nat.add_zero, Nat.sub_zero, List.take_length] at hlog ⊢
    exact List.Sublist.append hlog (List.Sublist.refl _)
  · simp only [safe, managed, hz, hn, Nat.add_zero, Nat.sub_zero, List.take_length]

theorem suspend_good (w : RW) (out : List Row) (h : Inv w) : Good w (suspend w out) := by
  unfold suspend
  have h1 := clear_good w h
  have h2 := output_good (clear w) out (decide (out ≠ []) || (clear w).blank) h1.1 (clear_managed w)
  exact h1.trans (h2.trans (draw_good _ true [] h2.1))

theorem markZombie_good (w : RW) (k : Nat) (h : Inv w) : Good w (markZombie w k) := by
  unfold markZombie
  split
  · exact Good.congr w _ h rfl rfl rfl rfl
  · have hm : w.z + min w.n (w.barAt k).lines.length + (w.n - (w.barAt k).lines.length) = w.z + w.n := by omega
    obtain ⟨hfit, hlog⟩ := h
    refine ⟨⟨?_, ?_⟩, ⟨⟨[], ?_⟩, ⟨[], by simp⟩⟩⟩
    · simp only [managed, hm]; exact hfit
    · simp only [safe, managed, hm]; exact hlog
    · simp only [safe, managed, hm, List.append_nil]

theorem barDraw_good (w : RW) (k : Nat) (force : Bool) (t : List Row) (h : Inv w) : Good w (barDraw w k force t) := by
  unfold barDraw
  split
  · exact Good.refl w h
  · exact (Good.congr w (store w k (barRows (w.barAt k)) t) h rfl rfl rfl rfl).trans
      (draw_good _ _ _ (inv_congr w (store w k (barRows (w.barAt k)) t) h rfl rfl rfl rfl))

theorem setBar_good (w : RW) (k : Nat) (b : Bar) (h : Inv w) : Good w (setBar w k b) := Good.congr w _ h rfl rfl rfl rfl

theorem setBar_barDraw_good (w : RW) (k : Nat) (b : Bar) (force : Bool) (t : List Row) (h : Inv w) :
    Good w (barDraw (setBar w k b) k force t) :=
  (setBar_good w k b h).trans (barDraw_good _ k force t (setBar_good w k b h).1)

theorem finishWith_good (w : RW) (k : Nat) (b : Bar) (f : Finish) (h : Inv w) : Good w (finishWith w k b f) :=
  setBar_barDraw_good w k _ true [] h

/-- the one operation outside the abstraction: output written by the `suspend` closure of a bar that has
been removed from its `MultiProgress` while the multi still manages rows (it lands below the frame) -/
def Clean (w : RW) : MOp → Prop
  | .bar k (.suspend out) => (w.barAt k).member = true ∨ out = [] ∨ managed w = 0
  | _ => True

theorem finishIfNot_good (w : RW) (k : Nat) (h : Inv w) : Good w (finishIfNot w k) := by
  unfold finishIfNot
  split
  · exact Good.refl w h
  · exact finishWith_good _ _ _ _ h

theorem dropBar_good (w : RW) (k : Nat) (h : Inv w) : Good w (dropBar w k) := by
  unfold dropBar
  simp only []
  have h1 := finishIfNot_good w k h
  have h2 : Good w (if (w.barAt k).member = true then markZombie (finishIfNot w k) k else finishIfNot w k) := by
    split
    · exact h1.trans (markZombie_good _ _ h1.1)
    · exact h1
  exact h2.trans (Good.congr _ _ h2.1 rfl rfl rfl rfl)

theorem barStep_good (w : RW) (k : Nat) (op : BarOp) (h : Inv w) (hc : Clean w (.bar k op)) : Good w (barStep w k op) := by
  unfold barStep
  split
  · exact Good.refl w h
  · simp only []
    split
    · exact Good.refl w h
    · cases op with
      | adv d => exact Good.refl w h
      | tick => exact setBar_barDraw_good w k _ _ _ h
      | inc d => simp only []; split <;> first | exact setBar_barDraw_good w k _ _ _ h | exact setBar_good _ _ _ h
      | dec d => simp only []; split <;> first | exact setBar_barDraw_good w k _ _ _ h | exact setBar_good _ _ _ h
      | setPos p => simp only []; split <;> first | exact setBar_barDraw_good w k _ _ _ h | exact setBar_good _ _ _ h
      | setMsg t => exact setBar_barDraw_good w k _ _ _ h
      | setPrefix t => exact setBar_barDraw_good w k _ _ _ h
      | setLen l => exact setBar_barDraw_good w k _ _ _ h
      | unsetLen => exact setBar_barDraw_good w k _ _ _ h
      | println t => simp only []; split <;> first | exact Good.refl w h | exact barDraw_good _ _ _ _ h
      | suspend out =>
        simp only []
        split
        · rename_i hmem
          have hmem' : (w.barAt k).member = false := by simpa using hmem
          simp only [Clean, hmem', Bool.false_eq_true, false_or] at hc
          rcases hc with rfl | hm
          · exact Good.congr w _ h (by simp [wrapRows]) rfl rfl (by simp [wrapRows])
          · exact output_good w _ _ h hm
        · exact suspend_good w _ h
      | reset => exact setBar_barDraw_good w k _ _ _ h
      | finish f => exact finishWith_good _ _ _ _ h
      | finishUsingStyle => exact finishWith_good _ _ _ _ h
      | drop => exact dropBar_good w k h

theorem step_good (w : RW) (op : MOp) (h : Inv w) (hc : Clean w op) : Good w (step w op) := by
  unfold step
  split
  · exact Good.refl w h
  · cases op with
    | adv dt => exact Good.congr w _ h rfl rfl rfl rfl
    | add loc arg len tpl fin pfx =>
      simp only []
      split
      · exact Good.congr w _ h rfl rfl rfl rfl
      · exact Good.congr w _ h rfl rfl rfl rfl
    | remove k =>
      simp only []
      split
      · exact Good.refl w h
      · exact (Good.congr w _ h rfl rfl rfl rfl).trans (draw_good _ _ _ (inv_congr w _ h rfl rfl rfl rfl))
    | mpPrintln t => exact draw_good _ _ _ h
    | mpClear => exact clear_good w h
    | mpSuspend out => exact suspend_good w _ h
    | align b => exact Good.refl w h
    | retarget => exact retarget_good w _ h
    | bar k op => exact barStep_good w k op h hc

/-- every operation of the history is clean in the state it is applied in -/
def CleanRun : RW → List MOp → Prop
  | _, [] => True
  | w, op :: ops => Clean w op ∧ CleanRun (step w op) ops

theorem run_good : ∀ (ops : List MOp) (w : RW), Inv w → CleanRun w ops → Good w (run w ops) := by
  intro ops
  induction ops with
  | nil => intro w h _; exact Good.refl w h
  | cons op ops ih =>
    intro w h hc
    simp only [run, List.foldl_cons]
    have h1 := step_good w op h hc.1
    exact h1.trans (ih (step w op) h1.1 hc.2)

theorem init_inv (lim : Option (Limiter.Cfg × Limiter.St)) (now : Nat) : Inv { limiter := lim, now := now } :=
  ⟨by simp [managed], by simp [safe]⟩

/-- a forced draw always paints: the text given to it and the queued text reach the log -/
theorem draw_forced_log (w : RW) (extra : List Row) : (draw w true extra).log = w.log ++ (extra ++ w.orphan) := by
  have hallow : allow w (true || decide (w.orphan ≠ [])) = (true, w) := by simp [allow]
  simp only [draw, hallow, Bool.not_true, Bool.false_eq_true, if_false]
  rfl

end IndicatifModel.Rows

/-! ### The frame shows the members (helper lemmas for C02) -/
namespace IndicatifModel.Rows

/-- `FrameOk w`: unless the frame is stale, the bottom `n` rows of the screen are, in visual order, the rows
each member had in the last painted frame; and every finished member's stored rendering is the painted one
(draws of finished bars are forced) -/
structure FrameOk (w : RW) : Prop where
  frame : w.stale = false → w.n ≤ w.scr.length ∧ w.scr.drop (w.scr.length - w.n) = paintedOf w w.ordering
  synced : ∀ k, k < w.bars.length → (w.barAt k).b.finished = true → (w.barAt k).member = true →
    (w.barAt k).painted = (w.barAt k).lines

theorem barAt_map_painted (w : RW) (k : Nat) :
    (({ w with bars := w.bars.map (fun rb => { rb with painted := rb.lines }) } : RW).barAt k).lines = (w.barAt k).lines ∧
    (({ w with bars := w.bars.map (fun rb => { rb with painted := rb.lines }) } : RW).barAt k).painted = (w.barAt k).lines := by
  simp only [RW.barAt, List.getD_eq_getElem?_getD, List.getElem?_map]
  cases h : w.bars[k]? <;> simp

theorem paintedOf_append (w : RW) (a b : List Nat) : paintedOf w (a ++ b) = paintedOf w a ++ paintedOf w b := by
  simp [paintedOf]

/-- right after a painted draw the bottom `n` rows are exactly the stored renderings of the remaining
members, in visual order, and every bar's painted rows are its stored ones -/
theorem paint_frame (w : RW) (extra : List Row) :
    let w' := paint w extra
    w'.stale = false ∧ w'.n ≤ w'.scr.length ∧ w'.scr.drop (w'.scr.length - w'.n) = linesOf w' w'.ordering ∧
    (∀ k, (w'.barAt k).painted = (w'.barAt k).lines) ∧ (∀ k, (w'.barAt k).lines = (w.barAt k).lines) ∧
    (∀ k, (w'.barAt k).b = (w.barAt k).b ∧ (w'.barAt k).member = (w.barAt k).member) ∧ w'.bars.length = w.bars.length := by
  intro w'
  -- the reaped prefix and the rest of the ordering
  have hsplit : ∀ (p : Nat → Bool), w.ordering = w.ordering.takeWhile p ++ w.ordering.drop (w.ordering.takeWhile p).length := by
    intro p
    conv => lhs; rw [← List.takeWhile_append_dropWhile (p := p) (l := w.ordering)]
    congr 1
    induction w.ordering with
    | nil => rfl
    | cons a l ih =>
      by_cases h : p a
      · simp [List.dropWhile_cons, List.takeWhile_cons, h, ih]
      · simp [List.dropWhile_cons, List.takeWhile_cons, h]
  have hbar : ∀ k, (w'.barAt k).lines = (w.barAt k).lines ∧ (w'.barAt k).painted = (w.barAt k).lines := by
    intro k
    have := barAt_map_painted w k
    simpa [w', paint, RW.barAt] using this
  have hlines : ∀ ks, linesOf w' ks = linesOf w ks := by
    intro ks; simp only [linesOf]; congr 1; funext k; exact (hbar k).1
  have hb : ∀ k, (w'.barAt k).b = (w.barAt k).b ∧ (w'.barAt k).member = (w.barAt k).member := by
    intro k
    simp only [w', paint, RW.barAt, List.getD_eq_getElem?_getD, List.getElem?_map]
    cases h : w.bars[k]? <;> simp
  refine ⟨rfl, ?_, ?_, fun k => by rw [(hbar k).2, (hbar k).1], fun k => (hbar k).1, hb, by simp [w', paint]⟩
  · simp only [w', paint, List.length_append]; omega
  · rw [hlines]
    by_cases ht : (decide (extra ≠ []) || decide (w.orphan ≠ [])) = true
    · have hs : w'.scr = (w.scr.take (w.scr.length - (if w.blank && decide (1 ≤ w.n + w.z) then w.n + w.z - 1 else w.n + w.z))
          ++ (extra ++ w.orphan)) ++ linesOf w w.ordering := by simp only [w', paint, ht, if_true]
      have hn : w'.n = (linesOf w w.ordering).length := by
        have hl0 : (linesOf w ([] : List Nat)).length = 0 := rfl
        simp only [w', paint, ht, if_true, hl0, Nat.sub_zero]
      have ho : w'.ordering = w.ordering := by simp only [w', paint, ht, if_true, List.length_nil, List.drop_zero]
      rw [hs, hn, ho, List.length_append, Nat.add_sub_cancel, List.drop_left']
      rfl
    · have ht' : (decide (extra ≠ []) || decide (w.orphan ≠ [])) = false := by simpa using ht
      have hex : extra = [] := Classical.byContradiction (fun hne => by simp [hne] at ht')
      have hor : w.orphan = [] := Classical.byContradiction (fun hne => by simp [hne] at ht')
      subst hex
      have hsp := hsplit (fun k => (w.barAt k).zombie)
      have hs : w'.scr = (w.scr.take (w.scr.length - (if w.blank && decide (1 ≤ w.n) then w.n - 1 else w.n))
          ++ linesOf w (w.ordering.takeWhile (fun k => (w.barAt k).zombie)))
          ++ linesOf w (w.ordering.drop (w.ordering.takeWhile (fun k => (w.barAt k).zombie)).length) := by
        have : linesOf w w.ordering = linesOf w (w.ordering.takeWhile (fun k => (w.barAt k).zombie)) ++
            linesOf w (w.ordering.drop (w.ordering.takeWhile (fun k => (w.barAt k).zombie)).length) := by
          conv => lhs; rw [hsp]
          exact linesOf_append w _ _
        simp only [w', paint, hor, List.append_nil]
        simp [this, List.append_assoc]
      have hn : w'.n = (linesOf w (w.ordering.drop (w.ordering.takeWhile (fun k => (w.barAt k).zombie)).length)).length := by
        have : (linesOf w w.ordering).length = (linesOf w (w.ordering.takeWhile (fun k => (w.barAt k).zombie))).length +
            (linesOf w (w.ordering.drop (w.ordering.takeWhile (fun k => (w.barAt k).zombie)).length)).length := by
          conv => lhs; rw [hsp, linesOf_append, List.length_append]
        simp only [w', paint, hor]
        simp
        omega
      have ho : w'.ordering = w.ordering.drop (w.ordering.takeWhile (fun k => (w.barAt k).zombie)).length := by
        simp [w', paint, hor]
      rw [hs, hn, ho, List.length_append, Nat.add_sub_cancel, List.drop_left']
      rfl

end IndicatifModel.Rows

namespace IndicatifModel.Rows

theorem frameOk_paint (w : RW) (extra : List Row) : FrameOk (paint w extra) := by
  obtain ⟨_, h2, h3, h4, _, _, _⟩ := paint_frame w extra
  constructor
  · intro _
    refine ⟨h2, ?_⟩
    rw [h3]
    simp only [linesOf, paintedOf]
    congr 1; funext k; exact (h4 k).symm
  · intro k _ _ _; exact h4 k

theorem allow_false (w : RW) (f : Bool) (h : (allow w f).1 = false) : f = false := by
  unfold allow at h
  cases f with
  | false => rfl
  | true => simp at h

/-- a draw is either skipped by the limiter (then it was not forced and nothing but the limiter changed) or it paints -/
theorem draw_cases (w : RW) (force : Bool) (extra : List Row) :
    (draw w force extra = (allow w (force || decide (w.orphan ≠ []))).2 ∧ force = false ∧ w.orphan = []) ∨
    draw w force extra = paint (allow w (force || decide (w.orphan ≠ []))).2 extra := by
  unfold draw
  simp only []
  by_cases hgo : (allow w (force || decide (w.orphan ≠ []))).1 = true
  · right; simp only [hgo, Bool.not_true, Bool.false_eq_true, if_false]
  · left
    have hgo' : (allow w (force || decide (w.orphan ≠ []))).1 = false := by simpa using hgo
    have hf := allow_false _ _ hgo'
    simp only [Bool.or_eq_false_iff, decide_eq_false_iff_not, ne_eq, Decidable.not_not] at hf
    exact ⟨by simp only [hgo', Bool.not_false, if_true], hf.1, hf.2⟩

/-- the part of the state the frame invariant talks about -/
def SameFrame (w w' : RW) : Prop :=
  w'.scr = w.scr ∧ w'.n = w.n ∧ w'.ordering = w.ordering ∧ w'.stale = w.stale ∧ w'.bars.length = w.bars.length ∧
  ∀ j, (w'.barAt j).painted = (w.barAt j).painted

theorem frameOk_same (w w' : RW) (h : FrameOk w) (hs : SameFrame w w')
    (hsync : ∀ j, j < w'.bars.length → (w'.barAt j).b.finished = true → (w'.barAt j).member = true →
      (w'.barAt j).painted = (w'.barAt j).lines) : FrameOk w' := by
  obtain ⟨h1, h2, h3, h4, _, h6⟩ := hs
  constructor
  · intro hst
    rw [h4] at hst
    have := h.frame hst
    rw [h1, h2, h3]
    refine ⟨this.1, ?_⟩
    rw [this.2]
    simp only [paintedOf]
    congr 1; funext j; exact (h6 j).symm
  · exact hsync

theorem frameOk_allow (w : RW) (f : Bool) (h : FrameOk w) : FrameOk (allow w f).2 := by
  have hb : (allow w f).2.bars = w.bars ∧ (allow w f).2.ordering = w.ordering ∧ (allow w f).2.stale = w.stale ∧
      (allow w f).2.scr = w.scr ∧ (allow w f).2.n = w.n := by
    unfold allow
    split
    · simp
    · split <;> simp
  obtain ⟨b1, b2, b3, b4, b5⟩ := hb
  refine frameOk_same w _ h ⟨b4, b5, b2, b3, by rw [b1], fun j => by simp only [RW.barAt, b1]⟩ ?_
  intro j hj hf hm
  simp only [RW.barAt, b1] at hj hf hm ⊢
  exact h.synced j hj hf hm

theorem frameOk_draw (w : RW) (force : Bool) (extra : List Row) (h : FrameOk w) : FrameOk (draw w force extra) := by
  rcases draw_cases w force extra with ⟨he, _, _⟩ | he
  · rw [he]; exact frameOk_allow w _ h
  · rw [he]; exact frameOk_paint _ _

/-- a forced draw establishes the frame invariant whatever the state was -/
theorem frameOk_draw_forced (w : RW) (extra : List Row) : FrameOk (draw w true extra) := by
  rcases draw_cases w true extra with ⟨_, hf, _⟩ | he
  · exact absurd hf (by simp)
  · rw [he]; exact frameOk_paint _ _

theorem barAt_modify (bars : List RBar) (k j : Nat) (f : RBar → RBar) :
    (bars.modify k f).getD j { b := {} } = if j = k ∧ k < bars.length then f (bars.getD j { b := {} }) else bars.getD j { b := {} } := by
  simp only [List.getD_eq_getElem?_getD, List.getElem?_modify]
  by_cases hj : j = k
  · subst hj
    by_cases hk : j < bars.length
    · simp [hk, List.getElem?_eq_getElem hk]
    · simp [hk, List.getElem?_eq_none (by omega : bars.length ≤ j)]
  · have : ¬ k = j := fun h => hj h.symm
    simp [hj, this]

theorem store_barAt (w : RW) (k : Nat) (rows text : List Row) (j : Nat) :
    ((store w k rows text).barAt j).painted = (w.barAt j).painted ∧ ((store w k rows text).barAt j).b = (w.barAt j).b ∧
    ((store w k rows text).barAt j).member = (w.barAt j).member ∧
    (j ≠ k → ((store w k rows text).barAt j).lines = (w.barAt j).lines) := by
  have e : (store w k rows text).barAt j = if j = k ∧ k < w.bars.length then { w.barAt j with lines := rows } else w.barAt j :=
    barAt_modify w.bars k j _
  rw [e]
  by_cases h : j = k ∧ k < w.bars.length
  · rw [if_pos h]; exact ⟨rfl, rfl, rfl, fun hne => absurd h.1 hne⟩
  · rw [if_neg h]; exact ⟨rfl, rfl, rfl, fun _ => rfl⟩

theorem setBar_barAt (w : RW) (k : Nat) (b : Bar) (j : Nat) :
    ((setBar w k b).barAt j).painted = (w.barAt j).painted ∧ ((setBar w k b).barAt j).lines = (w.barAt j).lines ∧
    ((setBar w k b).barAt j).member = (w.barAt j).member ∧
    (j ≠ k → ((setBar w k b).barAt j).b = (w.barAt j).b) ∧ (j = k → k < w.bars.length → ((setBar w k b).barAt j).b = b) := by
  have e : (setBar w k b).barAt j = if j = k ∧ k < w.bars.length then { w.barAt j with b := b } else w.barAt j :=
    barAt_modify w.bars k j _
  rw [e]
  by_cases h : j = k ∧ k < w.bars.length
  · rw [if_pos h]; exact ⟨rfl, rfl, rfl, fun hne => absurd h.1 hne, fun _ _ => rfl⟩
  · rw [if_neg h]; exact ⟨rfl, rfl, rfl, fun _ => rfl, fun h1 h2 => absurd ⟨h1, h2⟩ h⟩

/-- a draw request of bar `k` keeps the invariant provided every *other* finished member is in sync
(bar `k` itself is repainted if it is finished, because its draws are then forced) -/
theorem frameOk_request (w : RW) (k : Nat) (force : Bool) (t : List Row)
    (hframe : w.stale = false → w.n ≤ w.scr.length ∧ w.scr.drop (w.scr.length - w.n) = paintedOf w w.ordering)
    (hothers : ∀ j, j ≠ k → j < w.bars.length → (w.barAt j).b.finished = true → (w.barAt j).member = true →
      (w.barAt j).painted = (w.barAt j).lines) : FrameOk (barDraw w k force t) := by
  unfold barDraw
  split
  · -- detached: nothing happens; bar k is not a member
    rename_i hmem
    have hmem' : (w.barAt k).member = false := by simpa using hmem
    refine ⟨hframe, ?_⟩
    intro j hj hf hm
    by_cases hjk : j = k
    · subst hjk; rw [hmem'] at hm; exact absurd hm (by simp)
    · exact hothers j hjk hj hf hm
  · rcases draw_cases (store w k (barRows (w.barAt k)) t) (force || (w.barAt k).b.finished) [] with ⟨he, hf, _⟩ | he
    · -- skipped: not forced, hence bar k is not finished
      rw [he]
      simp only [Bool.or_eq_false_iff] at hf
      apply frameOk_allow
      have hst : (store w k (barRows (w.barAt k)) t).stale = w.stale := rfl
      constructor
      · intro hs
        have := hframe hs
        refine ⟨this.1, ?_⟩
        show w.scr.drop (w.scr.length - w.n) = paintedOf (store w k _ t) w.ordering
        rw [this.2]
        simp only [paintedOf]
        congr 1; funext j; exact ((store_barAt w k _ t j).1).symm
      · intro j hj hfj hm
        have hlen : (store w k (barRows (w.barAt k)) t).bars.length = w.bars.length := by simp [store]
        obtain ⟨s1, s2, s3, s4⟩ := store_barAt w k (barRows (w.barAt k)) t j
        rw [s2] at hfj; rw [s3] at hm
        by_cases hjk : j = k
        · subst hjk; rw [hf.2] at hfj; exact absurd hfj (by simp)
        · rw [s1, s4 hjk]; exact hothers j hjk (by omega) hfj hm
    · rw [he]; exact frameOk_paint _ _

theorem frameOk_barDraw (w : RW) (k : Nat) (force : Bool) (t : List Row) (h : FrameOk w) : FrameOk (barDraw w k force t) :=
  frameOk_request w k force t h.frame (fun j _ hj hf hm => h.synced j hj hf hm)

/-- a state change of bar `k` followed by its draw request: whatever the new logical state is -/
theorem frameOk_setBar_barDraw (w : RW) (k : Nat) (b : Bar) (force : Bool) (t : List Row) (h : FrameOk w) :
    FrameOk (barDraw (setBar w k b) k force t) := by
  apply frameOk_request
  · intro hs
    have hs' : w.stale = false := hs
    have := h.frame hs'
    refine ⟨this.1, ?_⟩
    show w.scr.drop (w.scr.length - w.n) = paintedOf (setBar w k b) w.ordering
    rw [this.2]
    simp only [paintedOf]
    congr 1; funext j; exact ((setBar_barAt w k b j).1).symm
  · intro j hjk hj hf hm
    have hlen : (setBar w k b).bars.length = w.bars.length := by simp [setBar]
    obtain ⟨s1, s2, s3, s4, _⟩ := setBar_barAt w k b j
    rw [s4 hjk] at hf; rw [s3] at hm
    rw [s1, s2]; exact h.synced j (by omega) hf hm

/-- changing the logical state of a bar to one with the same finished flag, without a draw request -/
theorem frameOk_setBar (w : RW) (k : Nat) (b : Bar) (h : FrameOk w) (hfin : b.finished = (w.barAt k).b.finished) :
    FrameOk (setBar w k b) := by
  refine frameOk_same w _ h ⟨rfl, rfl, rfl, rfl, by simp [setBar], fun j => (setBar_barAt w k b j).1⟩ ?_
  intro j hj hf hm
  have hlen : (setBar w k b).bars.length = w.bars.length := by simp [setBar]
  obtain ⟨s1, s2, s3, s4, s5⟩ := setBar_barAt w k b j
  rw [s3] at hm
  rw [s1, s2]
  by_cases hjk : j = k
  · rw [s5 hjk (by subst hjk; omega), hfin] at hf
    subst hjk
    exact h.synced j (by omega) hf hm
  · rw [s4 hjk] at hf; exact h.synced j (by omega) hf hm

end IndicatifModel.Rows

namespace IndicatifModel.Rows

theorem frameOk_clear (w : RW) (h : FrameOk w) : FrameOk (clear w) :=
  ⟨fun hs => absurd hs (by simp [clear]), fun j hj hf hm => h.synced j hj hf hm⟩

/-- any state whose frame is stale satisfies the frame clause; the sync clause only depends on the bars -/
theorem frameOk_stale (w w' : RW) (h : FrameOk w) (hst : w'.stale = true) (hb : w'.bars = w.bars) : FrameOk w' := by
  constructor
  · intro hs; rw [hst] at hs; exact absurd hs (by simp)
  · intro j hj hf hm
    simp only [RW.barAt, hb] at hj hf hm ⊢
    exact h.synced j hj hf hm

theorem frameOk_suspend (w : RW) (out : List Row) : FrameOk (suspend w out) := by
  unfold suspend
  exact frameOk_draw_forced _ _

/-- marking bar `k` as zombie, or reaping it at once when it is first, finished and in sync -/
theorem frameOk_markZombie (w : RW) (k : Nat) (h : FrameOk w) (hk : k < w.bars.length)
    (hfin : (w.barAt k).b.finished = true) (hmem : (w.barAt k).member = true) : FrameOk (markZombie w k) := by
  unfold markZombie
  split
  · -- deferred: only the flag changes
    refine frameOk_same w _ h ⟨rfl, rfl, rfl, rfl, by simp, ?_⟩ ?_
    · intro j
      simp only [RW.barAt, barAt_modify]; split <;> rfl
    · intro j hj hf hm
      simp only [List.length_modify] at hj
      simp only [RW.barAt, barAt_modify] at hf hm ⊢
      by_cases hjk : j = k ∧ k < w.bars.length
      · rw [if_pos hjk] at hf hm ⊢
        exact h.synced j hj hf hm
      · rw [if_neg hjk] at hf hm ⊢
        exact h.synced j hj hf hm
  · rename_i hcond
    have hhead : w.ordering.head? = some k := Classical.byContradiction (fun hne => hcond (Or.inl hne))
    have hst : w.stale = false := by
      cases hs : w.stale with
      | false => rfl
      | true => exact absurd (Or.inr hs) hcond
    obtain ⟨rest, hord⟩ : ∃ rest, w.ordering = k :: rest := by
      cases ho : w.ordering with
      | nil => rw [ho] at hhead; simp at hhead
      | cons a rest => rw [ho] at hhead; simp at hhead; exact ⟨rest, by rw [hhead]⟩
    obtain ⟨hle, hfr⟩ := h.frame hst
    have hsync := h.synced k hk hfin hmem
    rw [hord] at hfr
    simp only [paintedOf, List.flatMap_cons] at hfr
    have hn : w.n = (w.barAt k).painted.length + (paintedOf w rest).length := by
      have := congrArg List.length hfr
      simp only [List.length_drop, List.length_append, paintedOf] at this ⊢
      omega
    constructor
    · intro _
      simp only [hord, List.tail_cons]
      rw [← hsync] at *
      refine ⟨by omega, ?_⟩
      have hd : w.scr.length - (w.n - (w.barAt k).painted.length) = (w.scr.length - w.n) + (w.barAt k).painted.length := by omega
      rw [hd, ← List.drop_drop, hfr, List.drop_left']
      · rfl
      · rfl
    · intro j hj hf hm; exact h.synced j hj hf hm

end IndicatifModel.Rows

namespace IndicatifModel.Rows

theorem finalBar_finished (b : Bar) (f : Finish) : (finalBar b f).finished = true := by
  have hs : (finalBar b f).status ≠ .inProgress := by
    cases f <;> simp only [finalBar] <;> (try split) <;> simp
  simp [Bar.finished, hs]

theorem allow_bars (w : RW) (f : Bool) : (allow w f).2.bars = w.bars := by
  unfold allow; split
  · rfl
  · split <;> rfl

/-- drawing never changes a bar's logical state, its membership or the number of bars -/
theorem draw_bars (w : RW) (force : Bool) (extra : List Row) (j : Nat) :
    ((draw w force extra).barAt j).b = (w.barAt j).b ∧ ((draw w force extra).barAt j).member = (w.barAt j).member ∧
    (draw w force extra).bars.length = w.bars.length := by
  rcases draw_cases w force extra with ⟨he, _, _⟩ | he
  · rw [he]; exact ⟨by simp only [RW.barAt, allow_bars], by simp only [RW.barAt, allow_bars], by rw [allow_bars]⟩
  · rw [he]
    obtain ⟨_, _, _, _, _, hbm, hl⟩ := paint_frame (allow w (force || decide (w.orphan ≠ []))).2 extra
    refine ⟨?_, ?_, ?_⟩
    · rw [(hbm j).1]; simp only [RW.barAt, allow_bars]
    · rw [(hbm j).2]; simp only [RW.barAt, allow_bars]
    · rw [hl, allow_bars]

theorem barDraw_bars (w : RW) (k : Nat) (force : Bool) (t : List Row) (j : Nat) :
    ((barDraw w k force t).barAt j).b = (w.barAt j).b ∧ ((barDraw w k force t).barAt j).member = (w.barAt j).member ∧
    (barDraw w k force t).bars.length = w.bars.length := by
  unfold barDraw
  split
  · exact ⟨rfl, rfl, rfl⟩
  · obtain ⟨d1, d2, d3⟩ := draw_bars (store w k (barRows (w.barAt k)) t) (force || (w.barAt k).b.finished) [] j
    obtain ⟨_, s2, s3, _⟩ := store_barAt w k (barRows (w.barAt k)) t j
    exact ⟨d1.trans s2, d2.trans s3, by rw [d3]; simp [store]⟩

theorem finishWith_finished (w : RW) (k : Nat) (b : Bar) (f : Finish) (hk : k < w.bars.length) :
    ((finishWith w k b f).barAt k).b.finished = true ∧ ((finishWith w k b f).barAt k).member = (w.barAt k).member ∧
    (finishWith w k b f).bars.length = w.bars.length := by
  unfold finishWith
  obtain ⟨b1, b2, b3⟩ := barDraw_bars (setBar w k (finalBar b f)) k true [] k
  obtain ⟨_, _, s3, _, s5⟩ := setBar_barAt w k (finalBar b f) k
  refine ⟨?_, b2.trans s3, by rw [b3]; simp [setBar]⟩
  rw [b1, s5 rfl hk]; exact finalBar_finished b f

theorem frameOk_finishWith (w : RW) (k : Nat) (b : Bar) (f : Finish) (h : FrameOk w) : FrameOk (finishWith w k b f) :=
  frameOk_setBar_barDraw w k _ true [] h

end IndicatifModel.Rows

namespace IndicatifModel.Rows

/-- output that lands below an existing frame (only possible through the `suspend` of a detached bar) -/
theorem frameOk_output (w : RW) (out : List Row) (b : Bool) (h : FrameOk w) (hc : out = [] ∨ w.n = 0) :
    FrameOk { w with scr := w.scr ++ out, log := w.log ++ out, blank := b } := by
  constructor
  · intro hs
    have hs' : w.stale = false := hs
    obtain ⟨h1, h2⟩ := h.frame hs'
    show w.n ≤ (w.scr ++ out).length ∧ (w.scr ++ out).drop ((w.scr ++ out).length - w.n) = paintedOf w w.ordering
    rcases hc with rfl | hn
    · rw [List.append_nil]; exact ⟨h1, h2⟩
    · rw [hn] at h2 ⊢
      simp only [Nat.sub_zero, List.drop_length] at h2 ⊢
      exact ⟨Nat.zero_le _, h2⟩
  · intro j hj hf hm; exact h.synced j hj hf hm

theorem posAllow_finished (b : Bar) (now : Nat) : (b.posAllow now).2.finished = b.finished := by
  unfold Bar.posAllow
  split <;> rfl

theorem finished_pos (b : Bar) (p : Nat) : ({ b with pos := p } : Bar).finished = b.finished := rfl

theorem finishIfNot_facts (w : RW) (k : Nat) (h : FrameOk w) (hk : k < w.bars.length) :
    FrameOk (finishIfNot w k) ∧ ((finishIfNot w k).barAt k).b.finished = true ∧
    ((finishIfNot w k).barAt k).member = (w.barAt k).member ∧ (finishIfNot w k).bars.length = w.bars.length := by
  unfold finishIfNot
  split
  · rename_i hf; exact ⟨h, hf, rfl, rfl⟩
  · obtain ⟨f1, f2, f3⟩ := finishWith_finished w k (w.barAt k).b (w.barAt k).b.onFinish hk
    exact ⟨frameOk_finishWith _ _ _ _ h, f1, f2, f3⟩

theorem frameOk_alive (w : RW) (k : Nat) (h : FrameOk w) :
    FrameOk { w with bars := w.bars.modify k (fun rb => { rb with alive := false }) } := by
  have e : ∀ j, (({ w with bars := w.bars.modify k (fun rb => { rb with alive := false }) } : RW).barAt j) =
      if j = k ∧ k < w.bars.length then { w.barAt j with alive := false } else w.barAt j := fun j => barAt_modify w.bars k j _
  refine frameOk_same w _ h ⟨rfl, rfl, rfl, rfl, by simp, ?_⟩ ?_
  · intro j; rw [e]; split <;> rfl
  · intro j hj hf hm
    simp only [List.length_modify] at hj
    rw [e] at hf hm ⊢
    by_cases hjk : j = k ∧ k < w.bars.length
    · rw [if_pos hjk] at hf hm ⊢; exact h.synced j hj hf hm
    · rw [if_neg hjk] at hf hm ⊢; exact h.synced j hj hf hm

theorem frameOk_dropBar (w : RW) (k : Nat) (h : FrameOk w) (hk : k < w.bars.length) : FrameOk (dropBar w k) := by
  unfold dropBar
  simp only []
  obtain ⟨g1, g2, g3, g4⟩ := finishIfNot_facts w k h hk
  apply frameOk_alive
  split
  · rename_i hm
    exact frameOk_markZombie _ k g1 (by omega) g2 (by rw [g3]; exact hm)
  · exact g1

/-- the frame variant of `Clean`: output of a detached bar's `suspend` closure must not land below a frame -/
def CleanF (w : RW) : MOp → Prop
  | .bar k (.suspend out) => (w.barAt k).member = true ∨ out = [] ∨ w.n = 0
  | _ => True

theorem frameOk_barStep (w : RW) (k : Nat) (op : BarOp) (h : FrameOk w) (hc : CleanF w (.bar k op)) : FrameOk (barStep w k op) := by
  unfold barStep
  split
  · exact h
  · rename_i hk
    have hk' : k < w.bars.length := by omega
    simp only []
    split
    · exact h
    · cases op with
      | adv d => exact h
      | tick => exact frameOk_setBar_barDraw w k _ _ _ h
      | inc d =>
        simp only []
        split
        · exact frameOk_setBar_barDraw w k _ _ _ h
        · exact frameOk_setBar w k _ h (by rw [posAllow_finished, finished_pos])
      | dec d =>
        simp only []
        split
        · exact frameOk_setBar_barDraw w k _ _ _ h
        · exact frameOk_setBar w k _ h (by rw [posAllow_finished, finished_pos])
      | setPos p =>
        simp only []
        split
        · exact frameOk_setBar_barDraw w k _ _ _ h
        · exact frameOk_setBar w k _ h (by rw [posAllow_finished, finished_pos])
      | setMsg t => exact frameOk_setBar_barDraw w k _ _ _ h
      | setPrefix t => exact frameOk_setBar_barDraw w k _ _ _ h
      | setLen l => exact frameOk_setBar_barDraw w k _ _ _ h
      | unsetLen => exact frameOk_setBar_barDraw w k _ _ _ h
      | println t => simp only []; split <;> first | exact h | exact frameOk_barDraw _ _ _ _ h
      | suspend out =>
        simp only []
        split
        · rename_i hmem
          have hmem' : (w.barAt k).member = false := by simpa using hmem
          simp only [CleanF, hmem', Bool.false_eq_true, false_or] at hc
          exact frameOk_output w _ _ h (hc.imp (fun e => by rw [e]; rfl) id)
        · exact frameOk_suspend w _
      | reset => exact frameOk_setBar_barDraw w k _ _ _ h
      | finish f => exact frameOk_finishWith _ _ _ _ h
      | finishUsingStyle => exact frameOk_finishWith _ _ _ _ h
      | drop => exact frameOk_dropBar w k h hk'

theorem frameOk_step (w : RW) (op : MOp) (h : FrameOk w) (hc : CleanF w op) : FrameOk (step w op) := by
  unfold step
  split
  · exact h
  · cases op with
    | adv dt => exact frameOk_same w _ h ⟨rfl, rfl, rfl, rfl, rfl, fun _ => rfl⟩ (fun j hj hf hm => h.synced j hj hf hm)
    | add loc arg len tpl fin pfx =>
      simp only []
      split
      · exact frameOk_same w _ h ⟨rfl, rfl, rfl, rfl, rfl, fun _ => rfl⟩ (fun j hj hf hm => h.synced j hj hf hm)
      · rename_i p _
        -- the new bar has drawn nothing yet: no painted rows, not finished
        have hnew : ∀ j, ((w.bars ++ [({ b := { len := len, tpl := templates.getD tpl [], onFinish := fin, pfx := pfx, start := w.now, wrapW := w.wrapW } } : RBar)]).getD j { b := {} }).painted =
            (w.bars.getD j { b := {} }).painted := by
          intro j
          simp only [List.getD_eq_getElem?_getD]
          by_cases hj : j < w.bars.length
          · rw [List.getElem?_append_left hj]
          · rw [List.getElem?_append_right (by omega), List.getElem?_eq_none (by omega : w.bars.length ≤ j)]
            cases hjj : j - w.bars.length with
            | zero => simp
            | succ n => simp
        constructor
        · intro hs
          have := h.frame hs
          refine ⟨this.1, ?_⟩
          show w.scr.drop (w.scr.length - w.n) = _
          rw [this.2]
          simp only [paintedOf, RW.barAt, insertAt, List.flatMap_append, hnew]
          have hk0 : (w.bars.getD w.bars.length { b := {} }).painted = [] := by
            simp [List.getD_eq_getElem?_getD]
          simp only [List.flatMap_cons, List.flatMap_nil, hk0, List.append_nil]
          rw [← List.flatMap_append, List.take_append_drop]
        · intro j hj hf hm
          simp only [List.length_append, List.length_singleton] at hj
          simp only [RW.barAt, List.getD_eq_getElem?_getD] at hf hm ⊢
          by_cases hjl : j < w.bars.length
          · rw [List.getElem?_append_left hjl] at hf hm ⊢
            have := h.synced j hjl (by simpa [RW.barAt, List.getD_eq_getElem?_getD] using hf) (by simpa [RW.barAt, List.getD_eq_getElem?_getD] using hm)
            simpa [RW.barAt, List.getD_eq_getElem?_getD] using this
          · have : j = w.bars.length := by omega
            subst this
            rw [List.getElem?_append_right (Nat.le_refl _)] at hf
            simp [Bar.finished] at hf
    | remove k =>
      simp only []
      split
      · exact h
      · exact frameOk_draw_forced _ _
    | mpPrintln t => exact frameOk_draw_forced _ _
    | mpClear => exact frameOk_clear w h
    | mpSuspend out => exact frameOk_suspend w _
    | align b => exact h
    | retarget => exact ⟨fun hs => (by cases hs), fun j hj hf hm => h.synced j hj hf hm⟩
    | bar k op => exact frameOk_barStep w k op h hc

def CleanRunF : RW → List MOp → Prop
  | _, [] => True
  | w, op :: ops => CleanF w op ∧ CleanRunF (step w op) ops

theorem frameOk_run : ∀ (ops : List MOp) (w : RW), FrameOk w → CleanRunF w ops → FrameOk (run w ops) := by
  intro ops
  induction ops with
  | nil => intro w h _; exact h
  | cons op ops ih =>
    intro w h hc
    simp only [run, List.foldl_cons]
    exact ih (step w op) (frameOk_step w op h hc.1) hc.2

theorem frameOk_init (lim : Option (Limiter.Cfg × Limiter.St)) (now : Nat) : FrameOk { limiter := lim, now := now } :=
  ⟨fun _ => ⟨by simp, by simp [paintedOf]⟩, fun j hj _ _ => by simp at hj⟩

end IndicatifModel.Rows
