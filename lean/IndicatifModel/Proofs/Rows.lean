import IndicatifModel.Model.Rows
/-!
# Row accounting never reaches a printed line (helper lemmas for C03 / C02 / C04)

`managed w = z + n` rows at the bottom of the screen are the only rows any operation erases; `safe w`
is everything above them. Invariant: the log (every line printed so far, in order) is a sublist of
`safe w`. Every operation of the row-level model extends `safe` only at its end.
-/
namespace IndicatifModel.Rows

def managed (w : RW) : Nat := w.z + w.n
def safe (w : RW) : List Row := w.scr.take (w.scr.length - managed w)

structure Inv (w : RW) : Prop where
  fits : managed w ≤ w.scr.length
  log_safe : w.log.Sublist (safe w)

/-- `w'` extends `w`: the rows above the managed region and the log only grow at their ends -/
def Ext (w w' : RW) : Prop := (∃ X, safe w' = safe w ++ X) ∧ (∃ Y, w'.log = w.log ++ Y)

theorem Ext.refl (w : RW) : Ext w w := ⟨⟨[], by simp⟩, ⟨[], by simp⟩⟩
theorem Ext.trans {a b c : RW} (h1 : Ext a b) (h2 : Ext b c) : Ext a c := by
  obtain ⟨⟨X1, hX1⟩, ⟨Y1, hY1⟩⟩ := h1
  obtain ⟨⟨X2, hX2⟩, ⟨Y2, hY2⟩⟩ := h2
  exact ⟨⟨X1 ++ X2, by rw [hX2, hX1, List.append_assoc]⟩, ⟨Y1 ++ Y2, by rw [hY2, hY1, List.append_assoc]⟩⟩

theorem take_take_prefix {α : Type} (l : List α) (a b : Nat) (h : a ≤ b) : ∃ X, l.take b = l.take a ++ X := by
  refine ⟨(l.take b).drop a, ?_⟩
  have : l.take a = (l.take b).take a := by rw [List.take_take, Nat.min_eq_left h]
  rw [this, List.take_append_drop]

theorem linesOf_append (w : RW) (a b : List Nat) : linesOf w (a ++ b) = linesOf w a ++ linesOf w b := by
  simp [linesOf]

theorem takeWhile_lines_le (w : RW) (p : Nat → Bool) :
    (linesOf w (w.ordering.takeWhile p)).length ≤ (linesOf w w.ordering).length := by
  conv => rhs; rw [← List.takeWhile_append_dropWhile (p := p) (l := w.ordering), linesOf_append]
  simp

theorem allow_fields (w : RW) (f : Bool) :
    (allow w f).2.scr = w.scr ∧ (allow w f).2.z = w.z ∧ (allow w f).2.n = w.n ∧ (allow w f).2.log = w.log ∧
    (allow w f).2.orphan = w.orphan ∧ (allow w f).2.blank = w.blank := by
  unfold allow
  split
  · simp
  · split <;> simp

theorem inv_of_allow (w : RW) (f : Bool) (h : Inv w) : Inv (allow w f).2 := by
  obtain ⟨h1, h2, h3, h4, _, _⟩ := allow_fields w f
  constructor
  · simp only [managed, h1, h2, h3]; exact h.fits
  · simp only [safe, managed, h1, h2, h3, h4]; exact h.log_safe

/-- what `paint` erases never exceeds the managed rows -/
theorem erase_le (blank : Bool) (n1 : Nat) : (if blank && decide (1 ≤ n1) then n1 - 1 else n1) ≤ n1 := by
  split <;> omega

/-- the arithmetic core: erase at most the managed rows, append text and frame; `z'` old rows are kept
directly above the new frame (only when no text is printed) -/
theorem core {α : Type} (scr log text bars : List α) (m k z' : Nat) (hfit : m ≤ scr.length) (hkz : z' + k ≤ m)
    (hcase : text = [] ∨ z' = 0) (hlog : log.Sublist (scr.take (scr.length - m))) :
    z' + bars.length ≤ (scr.take (scr.length - k) ++ text ++ bars).length ∧
    (log ++ text).Sublist ((scr.take (scr.length - k) ++ text ++ bars).take
      ((scr.take (scr.length - k) ++ text ++ bars).length - (z' + bars.length))) ∧
    ∃ X, (scr.take (scr.length - k) ++ text ++ bars).take
      ((scr.take (scr.length - k) ++ text ++ bars).length - (z' + bars.length)) = scr.take (scr.length - m) ++ X := by
  have hlen : (scr.take (scr.length - k) ++ text ++ bars).length = scr.length - k + text.length + bars.length := by
    simp only [List.length_append, List.length_take]; omega
  refine ⟨by rw [hlen]; omega, ?_⟩
  rw [hlen]
  rcases hcase with rfl | rfl
  · -- no text: the safe part is a longer prefix of the old screen
    have e1 : scr.length - k + ([] : List α).length + bars.length - (z' + bars.length) = scr.length - k - z' := by simp; omega
    rw [e1, List.append_nil, List.append_nil, List.take_append_of_le_length (by simp only [List.length_take]; omega), List.take_take]
    have hmin : min (scr.length - k - z') (scr.length - k) = scr.length - k - z' := by omega
    rw [hmin]
    obtain ⟨X, hX⟩ := take_take_prefix scr (scr.length - m) (scr.length - k - z') (by omega)
    rw [hX]
    exact ⟨hlog.trans (List.sublist_append_left _ _), X, rfl⟩
  · -- text: everything up to and including the text is safe
    have e1 : scr.length - k + text.length + bars.length - (0 + bars.length) = (scr.take (scr.length - k) ++ text).length := by
      simp only [List.length_append, List.length_take]; omega
    rw [e1, List.take_left' rfl]
    obtain ⟨X, hX⟩ := take_take_prefix scr (scr.length - m) (scr.length - k) (by omega)
    rw [hX]
    exact ⟨List.Sublist.append (hlog.trans (List.sublist_append_left _ _)) (List.Sublist.refl _), X ++ text, by simp⟩

/-- **painting keeps the invariant**, and appends exactly the printed text to the log -/
theorem paint_inv (w : RW) (extra : List Row) (h : Inv w) :
    (Inv (paint w extra) ∧ Ext w (paint w extra)) ∧ (paint w extra).log = w.log ++ (extra ++ w.orphan) := by
  obtain ⟨hfit, hlog⟩ := h
  refine ⟨?_, rfl⟩
  have hm : managed w = w.z + w.n := rfl
  by_cases ht : (decide (extra ≠ []) || decide (w.orphan ≠ [])) = true
  · -- a draw that prints text: erases (at most) frame and zombie rows, reaps nothing
    have hk := erase_le w.blank (w.n + w.z)
    have hc := core w.scr w.log (extra ++ w.orphan) (linesOf w w.ordering) (managed w)
      (if w.blank && decide (1 ≤ w.n + w.z) then w.n + w.z - 1 else w.n + w.z) 0 hfit (by omega) (Or.inr rfl) hlog
    have hs : (paint w extra).scr = w.scr.take (w.scr.length - (if w.blank && decide (1 ≤ w.n + w.z) then w.n + w.z - 1 else w.n + w.z))
        ++ (extra ++ w.orphan) ++ linesOf w w.ordering := by simp only [paint, ht, if_true]
    have hl0 : (linesOf w ([] : List Nat)).length = 0 := rfl
    have hz : (paint w extra).z = 0 := by simp only [paint, ht, if_true, hl0]
    have hn : (paint w extra).n = (linesOf w w.ordering).length := by simp only [paint, ht, if_true, hl0, Nat.sub_zero]
    have hl : (paint w extra).log = w.log ++ (extra ++ w.orphan) := rfl
    refine ⟨⟨?_, ?_⟩, ⟨?_, ⟨_, hl⟩⟩⟩
    · simp only [managed, hs, hz, hn]; exact hc.1
    · simp only [safe, managed, hs, hz, hn, hl]; exact hc.2.1
    · simp only [safe, managed, hs, hz, hn]; exact hc.2.2
  · -- a plain draw: erases (at most) the frame rows, keeps the rows of the reaped head zombies
    have ht' : (decide (extra ≠ []) || decide (w.orphan ≠ [])) = false := by simpa using ht
    have hex : extra = [] := Classical.byContradiction (fun hne => by simp [hne] at ht')
    have hor : w.orphan = [] := Classical.byContradiction (fun hne => by simp [hne] at ht')
    subst hex
    have hk := erase_le w.blank w.n
    have hadj := takeWhile_lines_le w (fun k => (w.barAt k).zombie)
    have hc := core w.scr w.log [] (linesOf w w.ordering) (managed w)
      (if w.blank && decide (1 ≤ w.n) then w.n - 1 else w.n) w.z hfit (by omega) (Or.inl rfl) hlog
    have hs : (paint w []).scr = w.scr.take (w.scr.length - (if w.blank && decide (1 ≤ w.n) then w.n - 1 else w.n))
        ++ [] ++ linesOf w w.ordering := by simp [paint, hor]
    have hz : (paint w []).z = w.z + (linesOf w (w.ordering.takeWhile (fun k => (w.barAt k).zombie))).length := by simp [paint, hor]
    have hn : (paint w []).n = (linesOf w w.ordering).length - (linesOf w (w.ordering.takeWhile (fun k => (w.barAt k).zombie))).length := by
      simp [paint, hor]
    have hzn : (paint w []).z + (paint w []).n = w.z + (linesOf w w.ordering).length := by rw [hz, hn]; omega
    have hl : (paint w []).log = w.log ++ [] := by simp [paint, hor]
    refine ⟨⟨?_, ?_⟩, ⟨?_, ⟨_, hl⟩⟩⟩
    · simp only [managed, hzn, hs]; exact hc.1
    · simp only [safe, managed, hzn, hs, hl]; exact hc.2.1
    · simp only [safe, managed, hzn, hs]; exact hc.2.2

/-- the screen-relevant fields agree: invariant and extension carry over -/
theorem ext_congr (w w' : RW) (h1 : w'.scr = w.scr) (h2 : w'.z = w.z) (h3 : w'.n = w.n) (h4 : w'.log = w.log) : Ext w w' :=
  ⟨⟨[], by simp only [safe, managed, h1, h2, h3, List.append_nil]⟩, ⟨[], by simp [h4]⟩⟩

theorem inv_congr (w w' : RW) (h : Inv w) (h1 : w'.scr = w.scr) (h2 : w'.z = w.z) (h3 : w'.n = w.n) (h4 : w'.log = w.log) : Inv w' := by
  constructor
  · simp only [managed, h1, h2, h3]; exact h.fits
  · simp only [safe, managed, h1, h2, h3, h4]; exact h.log_safe

/-- the conclusion every operation establishes -/
def Good (w w' : RW) : Prop := Inv w' ∧ Ext w w'

theorem Good.congr (w w' : RW) (h : Inv w) (h1 : w'.scr = w.scr) (h2 : w'.z = w.z) (h3 : w'.n = w.n) (h4 : w'.log = w.log) : Good w w' :=
  ⟨inv_congr w w' h h1 h2 h3 h4, ext_congr w w' h1 h2 h3 h4⟩

theorem Good.trans {a b c : RW} (h1 : Good a b) (h2 : Good b c) : Good a c := ⟨h2.1, h1.2.trans h2.2⟩
theorem Good.refl (w : RW) (h : Inv w) : Good w w := ⟨h, Ext.refl w⟩

theorem allow_good (w : RW) (f : Bool) (h : Inv w) : Good w (allow w f).2 := by
  obtain ⟨h1, h2, h3, h4, _, _⟩ := allow_fields w f
  exact Good.congr w _ h h1 h2 h3 h4

theorem draw_good (w : RW) (force : Bool) (extra : List Row) (h : Inv w) : Good w (draw w force extra) := by
  unfold draw
  simp only []
  have ha := allow_good w (force || decide (w.orphan ≠ [])) h
  split
  · exact ha
  · exact ha.trans (paint_inv _ extra ha.1).1

theorem clear_managed (w : RW) : managed (clear w) = 0 := rfl

theorem clear_good (w : RW) (h : Inv w) : Good w (clear w) := by
  obtain ⟨hfit, hlog⟩ := h
  have hm : managed w = w.z + w.n := rfl
  have hk := erase_le w.blank (w.n + w.z)
  have hc := core w.scr w.log [] [] (managed w) (if w.blank && decide (1 ≤ w.n + w.z) then w.n + w.z - 1 else w.n + w.z) 0 hfit (by omega) (Or.inl rfl) hlog
  have hs : (clear w).scr = w.scr.take (w.scr.length - (if w.blank && decide (1 ≤ w.n + w.z) then w.n + w.z - 1 else w.n + w.z)) ++ [] ++ [] := by
    simp [clear]
  have hz : (clear w).z = 0 := rfl
  have hn : (clear w).n = 0 := rfl
  have hl : (clear w).log = w.log ++ [] := by simp [clear]
  refine ⟨⟨?_, ?_⟩, ⟨?_, ⟨_, hl⟩⟩⟩
  · simp only [managed, hs, hz, hn]; exact hc.1
  · simp only [safe, managed, hs, hz, hn, hl]; exact hc.2.1
  · simp only [safe, managed, hs, hz, hn]; exact hc.2.2

/-- output written while nothing is managed goes above everything drawn later -/
theorem output_good (w : RW) (out : List Row) (b : Bool) (h : Inv w) (hm : managed w = 0) :
    Good w { w with scr := w.scr ++ out, log := w.log ++ out, blank := b } := by
  obtain ⟨_, hlog⟩ := h
  have hz : w.z = 0 := by simp only [managed] at hm; omega
  have hn : w.n = 0 := by simp only [managed] at hm; omega
  refine ⟨⟨?_, ?_⟩, ⟨⟨out, ?_⟩, ⟨out, rfl⟩⟩⟩
  · simp [managed, hz, hn]
  · simp only [safe, managed, hz, hn, Nat.add_zero, Nat.sub_zero, List.take_length] at hlog ⊢
    exact List.Sublist.append hlog (List.Sublist.refl _)
  · simp only [safe, managed, hz, hn, Nat.add_zero, Nat.sub_zero, List.take_length]

theorem suspend_good (w : RW) (out : List Row) (h : Inv w) : Good w (suspend w out) := by
  unfold suspend
  have h1 := clear_good w h
  have h2 := output_good (clear w) out (decide (out ≠ []) || (clear w).blank) h1.1 (clear_managed w)
  exact h1.trans (h2.trans (draw_good _ true [] h2.1))

theorem markZombie_good (w : RW) (k : Nat) (h : Inv w) : Good w (markZombie w k) := by
  unfold markZombie
  split
  · exact Good.congr w _ h rfl rfl rfl rfl
  · have hm : w.z + min w.n (w.barAt k).lines.length + (w.n - (w.barAt k).lines.length) = w.z + w.n := by omega
    obtain ⟨hfit, hlog⟩ := h
    refine ⟨⟨?_, ?_⟩, ⟨⟨[], ?_⟩, ⟨[], by simp⟩⟩⟩
    · simp only [managed, hm]; exact hfit
    · simp only [safe, managed, hm]; exact hlog
    · simp only [safe, managed, hm, List.append_nil]

theorem barDraw_good (w : RW) (k : Nat) (force : Bool) (t : List Row) (h : Inv w) : Good w (barDraw w k force t) := by
  unfold barDraw
  simp only []
  split
  · exact Good.refl w h
  · exact (Good.congr w _ h rfl rfl rfl rfl).trans (draw_good _ _ _ (inv_congr w _ h rfl rfl rfl rfl))

theorem setBar_good (w : RW) (k : Nat) (b : Bar) (h : Inv w) : Good w (setBar w k b) := Good.congr w _ h rfl rfl rfl rfl

theorem setBar_barDraw_good (w : RW) (k : Nat) (b : Bar) (force : Bool) (t : List Row) (h : Inv w) :
    Good w (barDraw (setBar w k b) k force t) :=
  (setBar_good w k b h).trans (barDraw_good _ k force t (setBar_good w k b h).1)

theorem finishWith_good (w : RW) (k : Nat) (b : Bar) (f : Finish) (h : Inv w) : Good w (finishWith w k b f) := by
  unfold finishWith
  exact setBar_barDraw_good w k _ true [] h

/-- the one operation outside the abstraction: output written by the `suspend` closure of a bar that has
been removed from its `MultiProgress` while the multi still manages rows (it lands below the frame) -/
def Clean (w : RW) : MOp → Prop
  | .bar k (.suspend out) => (w.barAt k).member = true ∨ out = [] ∨ managed w = 0
  | _ => True

theorem barStep_good (w : RW) (k : Nat) (op : BarOp) (h : Inv w) (hc : Clean w (.bar k op)) : Good w (barStep w k op) := by
  unfold barStep
  split
  · exact Good.refl w h
  · simp only []
    split
    · exact Good.refl w h
    · cases op with
      | adv d => exact Good.refl w h
      | tick => exact setBar_barDraw_good w k _ _ _ h
      | inc d => simp only []; split <;> first | exact setBar_barDraw_good w k _ _ _ h | exact setBar_good _ _ _ h
      | dec d => simp only []; split <;> first | exact setBar_barDraw_good w k _ _ _ h | exact setBar_good _ _ _ h
      | setPos p => simp only []; split <;> first | exact setBar_barDraw_good w k _ _ _ h | exact setBar_good _ _ _ h
      | setMsg t => exact setBar_barDraw_good w k _ _ _ h
      | setPrefix t => exact setBar_barDraw_good w k _ _ _ h
      | setLen l => exact setBar_barDraw_good w k _ _ _ h
      | unsetLen => exact setBar_barDraw_good w k _ _ _ h
      | println t => simp only []; split <;> first | exact Good.refl w h | exact barDraw_good _ _ _ _ h
      | suspend out =>
        simp only []
        split
        · rename_i hmem
          have hmem' : (w.barAt k).member = false := by simpa using hmem
          simp only [Clean, hmem', Bool.false_eq_true, false_or] at hc
          rcases hc with rfl | hm
          · exact Good.congr w _ h (by simp) rfl rfl (by simp)
          · exact output_good w out _ h hm
        · exact suspend_good w out h
      | reset => exact setBar_barDraw_good w k _ _ _ h
      | finish f => exact finishWith_good _ _ _ _ h
      | finishUsingStyle => exact finishWith_good _ _ _ _ h
      | drop =>
        simp only []
        have h1 : Good w (if (w.barAt k).b.finished = true then w else finishWith w k (w.barAt k).b (w.barAt k).b.onFinish) := by
          split
          · exact Good.refl w h
          · exact finishWith_good _ _ _ _ h
        have h2 : Good w (if (w.barAt k).member = true then
            markZombie (if (w.barAt k).b.finished = true then w else finishWith w k (w.barAt k).b (w.barAt k).b.onFinish) k
            else (if (w.barAt k).b.finished = true then w else finishWith w k (w.barAt k).b (w.barAt k).b.onFinish)) := by
          split
          · exact h1.trans (markZombie_good _ _ h1.1)
          · exact h1
        exact h2.trans (Good.congr _ _ h2.1 rfl rfl rfl rfl)

theorem step_good (w : RW) (op : MOp) (h : Inv w) (hc : Clean w op) : Good w (step w op) := by
  unfold step
  split
  · exact Good.refl w h
  · cases op with
    | adv dt => exact Good.congr w _ h rfl rfl rfl rfl
    | add loc arg len tpl fin pfx =>
      simp only []
      split
      · exact Good.congr w _ h rfl rfl rfl rfl
      · exact Good.congr w _ h rfl rfl rfl rfl
    | remove k =>
      simp only []
      split
      · exact Good.refl w h
      · exact (Good.congr w _ h rfl rfl rfl rfl).trans (draw_good _ _ _ (inv_congr w _ h rfl rfl rfl rfl))
    | mpPrintln t => exact draw_good _ _ _ h
    | mpClear => exact clear_good w h
    | mpSuspend out => exact suspend_good w out h
    | align b => exact Good.refl w h
    | bar k op => exact barStep_good w k op h hc

/-- every operation of the history is clean in the state it is applied in -/
def CleanRun : RW → List MOp → Prop
  | _, [] => True
  | w, op :: ops => Clean w op ∧ CleanRun (step w op) ops

theorem run_good : ∀ (ops : List MOp) (w : RW), Inv w → CleanRun w ops → Good w (run w ops) := by
  intro ops
  induction ops with
  | nil => intro w h _; exact Good.refl w h
  | cons op ops ih =>
    intro w h hc
    simp only [run, List.foldl_cons]
    have h1 := step_good w op h hc.1
    exact h1.trans (ih (step w op) h1.1 hc.2)

theorem init_inv (lim : Option (Limiter.Cfg × Limiter.St)) (now : Nat) : Inv { limiter := lim, now := now } :=
  ⟨by simp [managed], by simp [safe]⟩

/-- a forced draw always paints: the text given to it and the queued text reach the log -/
theorem draw_forced_log (w : RW) (extra : List Row) : (draw w true extra).log = w.log ++ (extra ++ w.orphan) := by
  have hallow : allow w (true || decide (w.orphan ≠ [])) = (true, w) := by simp [allow]
  simp only [draw, hallow, Bool.not_true, Bool.false_eq_true, if_false]
  rfl

end IndicatifModel.Rows
