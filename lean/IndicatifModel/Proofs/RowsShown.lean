import IndicatifModel.Proofs.Rows
/-!
# What a member's stored rendering can be (row-level model)

A bar's stored lines — what every painted frame shows for it (`C02_painted_frame_is_members_in_order`) — only ever
change to the rendering of the bar's state at that moment. Hence, along any history (any interleaving of the
threads' calls, which the bar and multi locks serialise), every frame shows for each bar a state the bar really had,
never an older one than before.
-/
namespace IndicatifModel.Rows

/-- stored lines and logical state of every bar are the same -/
def SameBars (w w' : RW) : Prop := ∀ j, (w'.barAt j).lines = (w.barAt j).lines ∧ (w'.barAt j).b = (w.barAt j).b

theorem SameBars.refl (w : RW) : SameBars w w := fun _ => ⟨rfl, rfl⟩
theorem SameBars.trans {a b c : RW} (h1 : SameBars a b) (h2 : SameBars b c) : SameBars a c :=
  fun j => ⟨(h2 j).1.trans (h1 j).1, (h2 j).2.trans (h1 j).2⟩
theorem SameBars.of_bars {w w' : RW} (h : w'.bars = w.bars) : SameBars w w' := fun j => by
  unfold RW.barAt; rw [h]; exact ⟨rfl, rfl⟩

theorem draw_same (w : RW) (force : Bool) (extra : List Row) : SameBars w (draw w force extra) := by
  intro j
  rcases draw_cases w force extra with ⟨he, _, _⟩ | he
  · rw [he]; exact SameBars.of_bars (allow_bars w _) j
  · rw [he]
    obtain ⟨_, _, _, _, hl, hbm, _⟩ := paint_frame (allow w (force || decide (w.orphan ≠ []))).2 extra
    rw [hl j, (hbm j).1]; exact SameBars.of_bars (allow_bars w _) j

theorem clear_same (w : RW) : SameBars w (clear w) := SameBars.of_bars rfl

theorem suspend_same (w : RW) (out : List Row) : SameBars w (suspend w out) := by
  unfold suspend
  exact SameBars.trans (SameBars.trans (clear_same w) (SameBars.of_bars rfl)) (draw_same _ _ _)

theorem modify_same (w : RW) (k : Nat) (f : RBar → RBar) (hl : ∀ rb, (f rb).lines = rb.lines) (hb : ∀ rb, (f rb).b = rb.b)
    (w' : RW) (hw : w'.bars = w.bars.modify k f) : SameBars w w' := by
  intro j
  have e : w'.barAt j = if j = k ∧ k < w.bars.length then f (w.barAt j) else w.barAt j := by
    simp only [RW.barAt, hw]; exact barAt_modify w.bars k j f
  rw [e]; split
  · exact ⟨hl _, hb _⟩
  · exact ⟨rfl, rfl⟩

theorem markZombie_same (w : RW) (k : Nat) : SameBars w (markZombie w k) := by
  unfold markZombie
  split
  · exact modify_same w k (fun rb => { rb with zombie := true }) (fun _ => rfl) (fun _ => rfl) _ rfl
  · exact SameBars.of_bars rfl

/-- every bar's stored lines are kept, or are the rendering of its state now -/
def KR (w w' : RW) : Prop := ∀ j, (w'.barAt j).lines = (w.barAt j).lines ∨ (w'.barAt j).lines = barRows (w'.barAt j)

theorem barRows_congr {a b : RBar} (h : a.b = b.b) : barRows a = barRows b := by unfold barRows; rw [h]

theorem KR.of_same {w w' : RW} (h : SameBars w w') : KR w w' := fun j => Or.inl (h j).1
theorem KR.then_same {a b c : RW} (h1 : KR a b) (h2 : SameBars b c) : KR a c := by
  intro j
  rcases h1 j with h | h
  · exact Or.inl ((h2 j).1.trans h)
  · exact Or.inr (by rw [(h2 j).1, h]; exact barRows_congr (h2 j).2.symm)

/-- a draw request of bar `k` stores the rendering of `k`'s state and touches no other bar's lines or state -/
theorem barDraw_lines (w : RW) (k : Nat) (force : Bool) (t : List Row) (j : Nat) :
    ((barDraw w k force t).barAt j).b = (w.barAt j).b ∧
    (((barDraw w k force t).barAt j).lines = (w.barAt j).lines ∨
      (j = k ∧ ((barDraw w k force t).barAt j).lines = barRows (w.barAt k))) := by
  unfold barDraw
  split
  · exact ⟨rfl, Or.inl rfl⟩
  · have hd := draw_same (store w k (barRows (w.barAt k)) t) (force || (w.barAt k).b.finished) [] j
    obtain ⟨_, s2, _, s4⟩ := store_barAt w k (barRows (w.barAt k)) t j
    refine ⟨hd.2.trans s2, ?_⟩
    by_cases hj : j = k
    · by_cases hk : k < w.bars.length
      · right
        refine ⟨hj, ?_⟩
        rw [hd.1]
        have e : (store w k (barRows (w.barAt k)) t).barAt j = if j = k ∧ k < w.bars.length then { w.barAt j with lines := barRows (w.barAt k) } else w.barAt j :=
          barAt_modify w.bars k j _
        rw [e, if_pos ⟨hj, hk⟩]
      · left
        rw [hd.1]
        have e : (store w k (barRows (w.barAt k)) t).barAt j = if j = k ∧ k < w.bars.length then { w.barAt j with lines := barRows (w.barAt k) } else w.barAt j :=
          barAt_modify w.bars k j _
        rw [e, if_neg (fun h => hk h.2)]
    · left; rw [hd.1]; exact s4 hj

theorem barDraw_kr (w : RW) (k : Nat) (force : Bool) (t : List Row) : KR w (barDraw w k force t) := by
  intro j
  obtain ⟨hb, hl⟩ := barDraw_lines w k force t j
  rcases hl with h | ⟨hj, h⟩
  · exact Or.inl h
  · right; rw [h]; subst hj; exact barRows_congr hb.symm

theorem setBar_same_lines (w : RW) (k : Nat) (b : Bar) (j : Nat) : ((setBar w k b).barAt j).lines = (w.barAt j).lines :=
  (setBar_barAt w k b j).2.1

/-- set the state of bar `k`, then a draw request of it -/
theorem setBar_barDraw_kr (w : RW) (k : Nat) (b : Bar) (force : Bool) (t : List Row) : KR w (barDraw (setBar w k b) k force t) := by
  intro j
  rcases barDraw_kr (setBar w k b) k force t j with h | h
  · exact Or.inl (h.trans (setBar_same_lines w k b j))
  · exact Or.inr h

theorem setBar_kr (w : RW) (k : Nat) (b : Bar) : KR w (setBar w k b) := fun j => Or.inl (setBar_same_lines w k b j)

theorem finishWith_kr (w : RW) (k : Nat) (b : Bar) (f : Finish) : KR w (finishWith w k b f) := setBar_barDraw_kr w k _ true []

theorem finishIfNot_kr (w : RW) (k : Nat) : KR w (finishIfNot w k) := by
  unfold finishIfNot; split
  · exact KR.of_same (SameBars.refl w)
  · exact finishWith_kr w k _ _

theorem dropBar_kr (w : RW) (k : Nat) : KR w (dropBar w k) := by
  unfold dropBar
  apply KR.then_same (b := (if (w.barAt k).member then markZombie (finishIfNot w k) k else finishIfNot w k))
  · split
    · exact KR.then_same (finishIfNot_kr w k) (markZombie_same _ k)
    · exact finishIfNot_kr w k
  · exact modify_same _ k (fun rb => { rb with alive := false }) (fun _ => rfl) (fun _ => rfl) _ rfl

theorem barStep_kr (w : RW) (k : Nat) (op : BarOp) : KR w (barStep w k op) := by
  unfold barStep
  split
  · exact KR.of_same (SameBars.refl w)
  · dsimp only
    split
    · exact KR.of_same (SameBars.refl w)
    · cases op with
      | adv _ => exact KR.of_same (SameBars.refl w)
      | tick => exact setBar_barDraw_kr w k _ false []
      | inc d => dsimp only; split <;> first | exact setBar_barDraw_kr w k _ false [] | exact setBar_kr w k _
      | dec d => dsimp only; split <;> first | exact setBar_barDraw_kr w k _ false [] | exact setBar_kr w k _
      | setPos p => dsimp only; split <;> first | exact setBar_barDraw_kr w k _ false [] | exact setBar_kr w k _
      | setMsg t => exact setBar_barDraw_kr w k _ false []
      | setPrefix t => exact setBar_barDraw_kr w k _ false []
      | setLen l => exact setBar_barDraw_kr w k _ false []
      | unsetLen => exact setBar_barDraw_kr w k _ false []
      | println t => dsimp only; split <;> first | exact KR.of_same (SameBars.refl w) | exact barDraw_kr w k true _
      | suspend out => dsimp only; split <;> first | exact KR.of_same (SameBars.of_bars rfl) | exact KR.of_same (suspend_same w out)
      | reset => exact setBar_barDraw_kr w k _ false []
      | finish f => exact finishWith_kr w k _ f
      | finishUsingStyle => exact finishWith_kr w k _ _
      | drop => exact dropBar_kr w k

theorem barAt_append (bars : List RBar) (rb : RBar) (hl : rb.lines = []) (j : Nat) :
    ((bars ++ [rb]).getD j { b := {} }).lines = (bars.getD j { b := {} }).lines := by
  simp only [List.getD_eq_getElem?_getD]
  by_cases h : j < bars.length
  · rw [List.getElem?_append_left h]
  · rw [List.getElem?_append_right (by omega), List.getElem?_eq_none (by omega : bars.length ≤ j)]
    by_cases h0 : j - bars.length = 0
    · simp [h0, hl]
    · have : ([rb] : List RBar)[j - bars.length]? = none := List.getElem?_eq_none (by simp; omega)
      rw [this]

theorem step_kr (w : RW) (op : MOp) : KR w (step w op) := by
  unfold step
  split
  · exact KR.of_same (SameBars.refl w)
  · cases op with
    | adv dt => exact KR.of_same (SameBars.of_bars rfl)
    | add loc arg len tpl fin pfx =>
      dsimp only
      split
      · exact KR.of_same (SameBars.of_bars rfl)
      · intro j; left
        exact barAt_append w.bars _ rfl j
    | remove k =>
      dsimp only
      split
      · exact KR.of_same (SameBars.refl w)
      · apply KR.of_same
        exact SameBars.trans (modify_same w k (fun rb => { rb with member := false }) (fun _ => rfl) (fun _ => rfl) _ rfl) (draw_same _ _ _)
    | mpPrintln t => exact KR.of_same (draw_same _ _ _)
    | mpClear => exact KR.of_same (clear_same w)
    | mpSuspend out => exact KR.of_same (suspend_same w out)
    | align _ => exact KR.of_same (SameBars.refl w)
    | retarget => exact KR.of_same (SameBars.of_bars rfl)
    | bar k op => exact barStep_kr w k op

/-- the index of the step (1-based) that last changed bar `k`'s stored lines, 0 if none did -/
def stamp (k : Nat) : RW → List MOp → Nat → Nat → Nat
  | _, [], _, s => s
  | w, op :: ops, i, s =>
    stamp k (step w op) ops (i + 1) (if ((step w op).barAt k).lines = (w.barAt k).lines then s else i)

theorem stamp_ge (k : Nat) : ∀ (ops : List MOp) (w : RW) (i s : Nat), s < i → s ≤ stamp k w ops i s ∧ stamp k w ops i s < i + ops.length
  | [], _, i, s, h => by simp only [stamp, List.length_nil]; omega
  | op :: ops, w, i, s, h => by
    simp only [stamp, List.length_cons]
    split
    · have := stamp_ge k ops (step w op) (i + 1) s (by omega); omega
    · have := stamp_ge k ops (step w op) (i + 1) i (by omega); omega

/-- **stored lines along a history**: after `pre ++ ops` (from `w0`) bar `k`'s stored lines are those it had in `w0` if no step
changed them, and otherwise the rendering of the state it had right after step number `stamp` -/
theorem stamp_spec (k : Nat) (w0 : RW) : ∀ (ops pre : List MOp) (s : Nat), s ≤ pre.length →
    ((run w0 pre).barAt k).lines = (if s = 0 then (w0.barAt k).lines else barRows ((run w0 (pre.take s)).barAt k)) →
    ((run w0 (pre ++ ops)).barAt k).lines =
      (if stamp k (run w0 pre) ops (pre.length + 1) s = 0 then (w0.barAt k).lines
       else barRows ((run w0 ((pre ++ ops).take (stamp k (run w0 pre) ops (pre.length + 1) s))).barAt k))
  | [], pre, s, hs, h => by
    simp only [stamp, List.append_nil]; exact h
  | op :: ops, pre, s, hs, h => by
    have hrun : run w0 (pre ++ [op]) = step (run w0 pre) op := by simp [run, List.foldl_append]
    have e : pre ++ op :: ops = (pre ++ [op]) ++ ops := by simp
    have hlen : (pre ++ [op]).length = pre.length + 1 := by simp
    simp only [stamp]
    by_cases hch : ((step (run w0 pre) op).barAt k).lines = ((run w0 pre).barAt k).lines
    · simp only [hch, if_true]
      have := stamp_spec k w0 ops (pre ++ [op]) s (by rw [hlen]; omega) (by
        rw [hrun, hch, h]
        split
        · rfl
        · rw [List.take_append_of_le_length hs])
      simp only [hrun, hlen] at this
      rw [e]; exact this
    · simp only [hch, if_false]
      have hnew : ((step (run w0 pre) op).barAt k).lines = barRows ((step (run w0 pre) op).barAt k) := by
        rcases step_kr (run w0 pre) op k with h1 | h1
        · exact absurd h1 hch
        · exact h1
      have := stamp_spec k w0 ops (pre ++ [op]) (pre.length + 1) (by rw [hlen]; exact Nat.le_refl _) (by
        rw [if_neg (by omega), ← hlen, List.take_length, hrun]
        exact hnew)
      simp only [hrun, hlen] at this
      rw [e]; exact this

theorem stamp_append (k : Nat) : ∀ (a b : List MOp) (w : RW) (i s : Nat),
    stamp k w (a ++ b) i s = stamp k (run w a) b (i + a.length) (stamp k w a i s)
  | [], b, w, i, s => by simp [stamp, run]
  | op :: a, b, w, i, s => by
    simp only [List.cons_append, stamp, List.length_cons]
    rw [stamp_append k a b (step w op) (i + 1)]
    have : run w (op :: a) = run (step w op) a := by simp [run]
    rw [this]
    congr 1; omega

end IndicatifModel.Rows
