import IndicatifModel.Props.C13
import Mathlib.Tactic.FieldSimp
import Mathlib.Tactic.Ring
namespace IndicatifModel.BarGeo

/-- two more textbook laws of round-to-nearest on the binary32 grid: grid points `m / 2^j` (24-bit significand) are fixed,
and the result is at least as close to the argument as any grid point -/
structure IEEE2 {α : Type} {A : Arith α} (I : IEEE A) where
  rnd_grid : ∀ m j : ℕ, m < 2 ^ 24 → I.rnd ((m : ℚ) / 2 ^ j) = (m : ℚ) / 2 ^ j
  rnd_nearest : ∀ (x : ℚ) (m j : ℕ), m < 2 ^ 24 → |I.rnd x - x| ≤ |(m : ℚ) / 2 ^ j - x|

theorem exists_scale : ∀ (fuel c : ℕ), 1 ≤ c → c < 2 ^ 24 → 2 ^ 23 ≤ c * 2 ^ fuel →
    ∃ j, 2 ^ 23 ≤ c * 2 ^ j ∧ c * 2 ^ j < 2 ^ 24
  | 0, c, _, h2, h3 => ⟨0, by simpa using h3, by simpa using h2⟩
  | fuel + 1, c, h1, h2, h3 => by
    by_cases hc : 2 ^ 23 ≤ c
    · exact ⟨0, by simpa using hc, by simpa using h2⟩
    · have h2' : 2 * c < 2 ^ 24 := by
        have : (2:ℕ) ^ 24 = 2 * 2 ^ 23 := by norm_num
        omega
      have h3' : 2 ^ 23 ≤ 2 * c * 2 ^ fuel := by
        have : c * 2 ^ (fuel + 1) = 2 * c * 2 ^ fuel := by rw [pow_succ]; ring
        omega
      obtain ⟨j, hj1, hj2⟩ := exists_scale fuel (2 * c) (by omega) h2' h3'
      refine ⟨j + 1, ?_, ?_⟩
      · have : c * 2 ^ (j + 1) = 2 * c * 2 ^ j := by rw [pow_succ]; ring
        omega
      · have : c * 2 ^ (j + 1) = 2 * c * 2 ^ j := by rw [pow_succ]; ring
        omega

variable {α : Type} {A : Arith α} (I : IEEE A) (J : IEEE2 I)
include J

/-- the largest value the fill can take for an incomplete bar, `cells·(1 − 2⁻²⁴)`, rounds to less than `cells` -/
theorem rnd_below_cells (cells : ℕ) (h1 : 1 ≤ cells) (h2 : cells ≤ 2 ^ 24) :
    I.rnd ((cells : ℚ) * (1 - 1 / 2 ^ 24)) < cells := by
  have hc0 : (0 : ℚ) < cells := by exact_mod_cast h1
  have hXlt : (cells : ℚ) * (1 - 1 / 2 ^ 24) < cells := by
    have : (0:ℚ) < 1 / 2 ^ 24 := by positivity
    nlinarith
  by_cases hmax : cells = 2 ^ 24
  · -- X = 2^24 - 1, a natural
    have hX : (cells : ℚ) * (1 - 1 / 2 ^ 24) = ((2 ^ 24 - 1 : ℕ) : ℚ) := by
      subst hmax; norm_num
    rw [hX, I.rnd_fix _ (by norm_num)]
    subst hmax; norm_num
  · have hlt : cells < 2 ^ 24 := lt_of_le_of_ne h2 hmax
    obtain ⟨j, hj1, hj2⟩ := exists_scale 23 cells h1 hlt (by nlinarith [Nat.one_le_two_pow (n := 23)])
    have hP : (0 : ℚ) < 2 ^ j := by positivity
    have hM : ((cells * 2 ^ j : ℕ) : ℚ) = (cells : ℚ) * 2 ^ j := by push_cast; ring
    by_cases hpow : cells * 2 ^ j = 2 ^ 23
    · -- cells is a power of two: X is on the grid
      have hcq : (cells : ℚ) = 2 ^ 23 / 2 ^ j := by
        rw [eq_div_iff (ne_of_gt hP), ← hM, hpow]; norm_num
      have hX : (cells : ℚ) * (1 - 1 / 2 ^ 24) = ((2 ^ 24 - 1 : ℕ) : ℚ) / 2 ^ (j + 1) := by
        rw [hcq]; field_simp; ring
      rw [hX, J.rnd_grid _ _ (by norm_num), ← hX]
      exact hXlt
    · have hgt : 2 ^ 23 < cells * 2 ^ j := lt_of_le_of_ne hj1 (Ne.symm hpow)
      have hnear := J.rnd_nearest ((cells : ℚ) * (1 - 1 / 2 ^ 24)) (cells * 2 ^ j - 1) j (by omega)
      have hcast : ((cells * 2 ^ j - 1 : ℕ) : ℚ) = (cells : ℚ) * 2 ^ j - 1 := by
        rw [Nat.cast_sub (by omega), hM]; norm_num
      rw [hcast] at hnear
      by_contra hge
      rw [not_lt] at hge
      -- distances
      have hMq : (2 : ℚ) ^ 23 < (cells : ℚ) * 2 ^ j := by rw [← hM]; exact_mod_cast hgt
      have hMq2 : (cells : ℚ) * 2 ^ j < 2 ^ 24 := by rw [← hM]; exact_mod_cast hj2
      have hg : ((cells : ℚ) * 2 ^ j - 1) / 2 ^ j = (cells : ℚ) - 1 / 2 ^ j := by field_simp
      rw [hg] at hnear
      have hd1 : (cells : ℚ) - 1 / 2 ^ j - (cells : ℚ) * (1 - 1 / 2 ^ 24) ≤ 0 := by
        have : (cells : ℚ) / 2 ^ 24 ≤ 1 / 2 ^ j := by
          rw [div_le_div_iff₀ (by positivity) hP]; linarith
        have e : (cells : ℚ) - 1 / 2 ^ j - (cells : ℚ) * (1 - 1 / 2 ^ 24) = (cells : ℚ) / 2 ^ 24 - 1 / 2 ^ j := by ring
        rw [e]; linarith
      rw [abs_of_nonpos hd1, abs_of_nonneg (by linarith)] at hnear
      -- rnd X - X ≥ cells/2^24 and |g - X| = 1/2^j - cells/2^24; so 2·cells/2^24 ≤ 1/2^j, i.e. 2·M ≤ 2^24
      have h3 : 2 * ((cells : ℚ) / 2 ^ 24) ≤ 1 / 2 ^ j := by
        have e : (cells : ℚ) * (1 - 1 / 2 ^ 24) = (cells : ℚ) - (cells : ℚ) / 2 ^ 24 := by ring
        rw [e] at hnear hge
        linarith
      have h4 : 2 * ((cells : ℚ) * 2 ^ j) ≤ 2 ^ 24 := by
        have := mul_le_mul_of_nonneg_right h3 (le_of_lt (mul_pos hP (by positivity : (0:ℚ) < 2 ^ 24)))
        field_simp at this
        linarith
      have : (2 : ℚ) ^ 24 = 2 * 2 ^ 23 := by norm_num
      linarith

/-- an incomplete bar (`pos < len ≤ 2²⁴`) has a completed fraction of at most `1 − 2⁻²⁴` -/
theorem fraction_incomplete (pos l : ℕ) (hl : l ≤ 2 ^ 24) (h : pos < l) :
    0 ≤ I.val (fraction A pos (some l)) ∧ I.val (fraction A pos (some l)) ≤ 1 - 1 / 2 ^ 24 := by
  refine ⟨(fraction_range I pos (some l)).1, ?_⟩
  have hb : (0 : ℚ) ≤ 1 - 1 / 2 ^ 24 := by norm_num
  unfold fraction
  cases l with
  | zero => omega
  | succ k =>
    by_cases hp : pos = 0
    · simp only [hp, if_true, I.val_zero]; exact hb
    · simp only [hp, if_false]
      have hk1 : ((k + 1 : ℕ) : ℚ) ≤ 2 ^ 24 := by exact_mod_cast hl
      have hkpos : (0 : ℚ) < ((k + 1 : ℕ) : ℚ) := by positivity
      have hne : I.val (A.ofNat (k + 1)) ≠ 0 := by
        rw [I.val_ofNat, I.rnd_fix _ hl]; exact ne_of_gt hkpos
      have hq : I.val (A.div (A.ofNat pos) (A.ofNat (k + 1))) ≤ 1 - 1 / 2 ^ 24 := by
        rw [I.val_div _ _ hne, I.val_ofNat, I.val_ofNat, I.rnd_fix _ hl, I.rnd_fix _ (by omega)]
        have hle : (pos : ℚ) / ((k + 1 : ℕ) : ℚ) ≤ ((2 ^ 24 - 1 : ℕ) : ℚ) / 2 ^ 24 := by
          rw [div_le_div_iff₀ hkpos (by positivity)]
          have hpk : (pos : ℚ) ≤ ((k + 1 : ℕ) : ℚ) - 1 := by
            have hpk' : pos ≤ k := by omega
            have : (pos : ℚ) ≤ (k : ℚ) := by exact_mod_cast hpk'
            push_cast; linarith
          have : ((2 ^ 24 - 1 : ℕ) : ℚ) = 2 ^ 24 - 1 := by norm_num
          rw [this]
          nlinarith
        have := I.rnd_mono _ _ hle
        rw [J.rnd_grid _ 24 (by norm_num)] at this
        have e : ((2 ^ 24 - 1 : ℕ) : ℚ) / 2 ^ 24 = 1 - 1 / 2 ^ 24 := by norm_num
        rw [e] at this
        exact this
      split
      · rw [I.val_zero]; exact hb
      · split
        · rename_i h1
          rw [I.lt_iff, I.val_one] at h1
          have : (1 : ℚ) - 1 / 2 ^ 24 < 1 := by norm_num
          linarith
        · exact hq

/-- **C13, "only then"**: for lengths up to 2²⁴ the bar is entirely filled *only* when `position ≥ length`:
an incomplete bar always leaves at least one cell unfilled -/
theorem C13_full_only_then_aux (pos l : ℕ) (hl : l ≤ 2 ^ 24) (h : pos < l) (w cw n : ℕ) (hc1 : 1 ≤ w / cw) (hc : w / cw ≤ 2 ^ 24) :
    (formatBar A (fraction A pos (some l)) w cw n).filled < w / cw := by
  obtain ⟨v0, v1⟩ := fraction_incomplete I J pos l hl h
  have hfr := fraction_range I pos (some l)
  obtain ⟨g0, _⟩ := fill_range I (fraction A pos (some l)) (w / cw) hc hfr.1 hfr.2
  have hfill : I.val (A.mul (fraction A pos (some l)) (A.ofNat (w / cw))) < ((w / cw : ℕ) : ℚ) := by
    rw [I.val_mul, I.val_ofNat, I.rnd_fix _ hc]
    have hle : I.val (fraction A pos (some l)) * ((w / cw : ℕ) : ℚ) ≤ ((w / cw : ℕ) : ℚ) * (1 - 1 / 2 ^ 24) := by
      have : (0 : ℚ) ≤ ((w / cw : ℕ) : ℚ) := by positivity
      nlinarith
    exact lt_of_le_of_lt (I.rnd_mono _ _ hle) (rnd_below_cells I J (w / cw) hc1 hc)
  show A.trunc (A.mul (fraction A pos (some l)) (A.ofNat (w / cw))) < w / cw
  rw [I.trunc_eq _ g0]
  exact (Nat.floor_lt g0).2 hfill

end IndicatifModel.BarGeo
