import IndicatifModel.Proofs.Draw
/-! Sequences of draw requests: the redraw-integrity invariant (top alignment, frames fitting). -/
namespace IndicatifModel
open Term

/-- strip trailing blanks (code point 32) -/
def rtrim (r : Row) : Row := (r.reverse.dropWhile (· == 32)).reverse

theorem rtrim_append_spaces (r : Row) (k : Nat) : rtrim (r ++ List.replicate k 32) = rtrim r := by
  unfold rtrim
  rw [List.reverse_append, List.reverse_replicate]
  induction k with
  | zero => simp
  | succ k ih => rw [List.replicate_succ, List.cons_append, List.dropWhile_cons]; simpa using ih

def norm (P : List Row) : List Row := P.map rtrim

theorem norm_padLast (W : Nat) (P : List Row) (hne : P ≠ []) : norm (padLast W P) = norm P := by
  unfold padLast norm
  have hsplit := (List.dropLast_concat_getLast hne).symm
  have hl : P.getLast?.getD [] = P.getLast hne := by
    rw [List.getLast?_eq_getLast hne]; rfl
  rw [hl]
  conv => rhs; rw [hsplit]
  simp only [List.map_append, List.map_cons, List.map_nil, rtrim_append_spaces]

theorem norm_append (A B : List Row) : norm (A ++ B) = norm A ++ norm B := by simp [norm]
theorem norm_length (A : List Row) : (norm A).length = A.length := by simp [norm]

theorem norm_take_of_eq (pre X Y : List Row) (h : norm pre = norm X ++ norm Y) :
    norm (pre.take X.length) = norm X := by
  unfold norm at *
  rw [List.map_take, h]
  have : (List.map rtrim X).length = X.length := by simp
  rw [← this]
  simp

/-- painting from a pending-wrap cursor: the first glyph wraps to a fresh row -/
theorem paint_edge (t : Term) (pre : List Row) (g : Nat) (gs : List Nat) (ls : List (List Nat))
    (hp : Painted t pre) (hc : t.c ≥ t.W) :
    t.execAll (paintOps t.W ((g :: gs) :: ls)) = t.newline.execAll (paintOps t.newline.W ((g :: gs) :: ls)) := by
  have hW := (newline_W t).1
  rw [hW]
  have hshape : ∀ u : Term, u.execAll (paintOps t.W ((g :: gs) :: ls)) =
      (u.write (g :: gs)).execAll ((paintOps t.W ((g :: gs) :: ls)).tail) := by
    intro u
    cases hl : ((g :: gs) :: ls).getLast? with
    | none => simp at hl
    | some ll => simp only [paintOps, hl, paintLines, List.cons_append, List.tail_cons, execAll_cons, Term.exec, writeG_utext]
  rw [hshape t, hshape t.newline, write_pending t g gs hp.wf.hW hc]


structure Req where
  texts : List (List Nat)
  bars : List (List Nat)

def Req.lines (r : Req) : List (List Nat) := r.texts ++ r.bars

/-- one completed draw of the target: ops executed, new `last_line_count` -/
def drawReq (t : Term) (n : Nat) (r : Req) : Term × Nat :=
  (t.execAll (drawOps t.W n r.lines), (wrapAll t.W r.bars).length)

/-- cursor part of the invariant -/
inductive Cur (t : Term) (pre : List Row) (n : Nat) : Prop where
  | fresh (h : Fresh t pre) (hn : n = 0)
  | edge (h : Painted t pre) (hc : t.c ≥ t.W) (hreach : n ≤ t.a - t.top + 1)

/-- The redraw-integrity invariant: the rows down to the cursor are the log followed by the frame
(modulo trailing blanks), and `n` is the number of rows of the frame. -/
def Integrity (W H : Nat) (t : Term) (n : Nat) (logs frame : List (List Nat)) : Prop :=
  t.W = W ∧ t.H = H ∧ n = (wrapAll W frame).length ∧
  ∃ pre : List Row, norm pre = norm (wrapAll W logs) ++ norm (wrapAll W frame) ∧ Cur t pre n

theorem clearOps_zero (t : Term) : t.execAll (clearOps 0) = t := by
  simp [clearOps, clearLoop, Term.execAll, Term.exec, Term.up]

theorem flush_id (t : Term) : t.execAll [.flush] = t := rfl

theorem wrapAll_length_le (W : Nat) (xs ys : List (List Nat)) :
    (wrapAll W ys).length ≤ (wrapAll W (xs ++ ys)).length := by
  rw [wrapAll_append]; simp


theorem lines_snoc {ls : List (List Nat)} (h : ls ≠ []) : ∃ init ll, ls = init ++ [ll] :=
  ⟨ls.dropLast, ls.getLast h, (List.dropLast_concat_getLast h).symm⟩

/-- reachability of the new frame after painting on a fresh terminal -/
theorem reach_after_paint (t t' : Term) (pre : List Row) (K n' : Nat)
    (hf : Fresh t pre) (ha' : t'.a + 1 = pre.length + K) (htop : t'.top = max t.top (t'.a + 1 - t.H))
    (hn' : n' ≤ K) (hH : n' ≤ t.H) : n' ≤ t'.a - t'.top + 1 := by
  have hlo := hf.wf.hlo
  have ha := hf.ha
  rw [htop]; omega

theorem padLast_length (W : Nat) (P : List Row) (hne : P ≠ []) : (padLast W P).length = P.length := by
  unfold padLast
  have := List.length_dropLast (xs := P)
  have hpos : 0 < P.length := List.length_pos_iff.2 hne
  simp only [List.length_append, List.length_singleton, this]; omega

def firstNonEmpty : List (List Nat) → Prop
  | [] => True
  | l :: _ => l ≠ []

theorem wrapAll_nil_of_length (W : Nat) (ls : List (List Nat)) (h : (wrapAll W ls).length = 0) : ls = [] := by
  cases ls with
  | nil => rfl
  | cons l ls =>
    have : wrapAll W (l :: ls) = wrap W l ++ wrapAll W ls := by simp [wrapAll]
    rw [this] at h
    have := wrap_length_pos W l
    simp only [List.length_append] at h
    omega

theorem paintOps_nil (W : Nat) : paintOps W [] = [] := by simp [paintOps]

/-- the rows that a painted, integrity-respecting terminal had before its frame -/
theorem take_logs (W : Nat) (pre : List Row) (logs frame : List (List Nat))
    (hpre : norm pre = norm (wrapAll W logs) ++ norm (wrapAll W frame)) :
    pre.length = (wrapAll W logs).length + (wrapAll W frame).length ∧
    norm (pre.take (pre.length - (wrapAll W frame).length)) = norm (wrapAll W logs) := by
  have hl := congrArg List.length hpre
  simp only [norm_length, List.length_append] at hl
  refine ⟨hl, ?_⟩
  have : pre.length - (wrapAll W frame).length = (wrapAll W logs).length := by omega
  rw [this]
  exact norm_take_of_eq pre _ _ hpre

/-- One draw request preserves integrity (frames fit; the F4 side condition is explicit). -/
theorem drawReq_integrity (W H : Nat) (t : Term) (n : Nat) (logs frame : List (List Nat)) (r : Req)
    (hI : Integrity W H t n logs frame)
    (hfit : (wrapAll W r.bars).length ≤ H)
    (hF4 : n = 0 → t.c ≠ 0 → firstNonEmpty r.lines) :
    Integrity W H (drawReq t n r).1 (drawReq t n r).2 (logs ++ r.texts) r.bars := by
  obtain ⟨hW, hH, hn, pre, hpre, hcur⟩ := hI
  subst hW; subst hH
  have ⟨hlen, htake⟩ := take_logs t.W pre logs frame hpre
  unfold drawReq
  simp only [drawOps, execAll_append, flush_id]
  by_cases hl : r.lines = []
  · -- nothing to paint: just erase the old frame
    have htx : r.texts = [] := by
      have := hl; unfold Req.lines at this; exact (List.append_eq_nil_iff.1 this).1
    have hbs : r.bars = [] := by
      have := hl; unfold Req.lines at this; exact (List.append_eq_nil_iff.1 this).2
    rw [hl, paintOps_nil]
    simp only [Term.execAll, List.foldl_nil]
    show Integrity t.W t.H (List.foldl Term.exec t (clearOps n)) _ _ _
    rw [htx, hbs]
    simp only [List.append_nil, wrapAll, List.flatMap_nil, List.length_nil]
    cases hcur with
    | fresh hf hn0 =>
      subst hn0
      have := clearOps_zero t; unfold Term.execAll at this; rw [this]
      have hfr : (wrapAll t.W frame).length = 0 := by omega
      have hfe := wrapAll_nil_of_length _ _ hfr
      subst hfe
      exact ⟨rfl, rfl, rfl, pre, by simpa [wrapAll, norm] using hpre, .fresh hf rfl⟩
    | edge hp hc hreach =>
      by_cases hn0 : n = 0
      · subst hn0
        have := clearOps_zero t; unfold Term.execAll at this; rw [this]
        have hfr : (wrapAll t.W frame).length = 0 := by omega
        have hfe := wrapAll_nil_of_length _ _ hfr
        subst hfe
        exact ⟨rfl, rfl, rfl, pre, by simpa [wrapAll, norm] using hpre, .edge hp hc (by omega)⟩
      · have hpos : 0 < n := by omega
        have hle : n ≤ pre.length := by omega
        have hf := clear_painted t pre n hp hpos hle hreach
        have ⟨hW', hH', _⟩ := clearOps_WH t n pre hp hpos hle hreach
        unfold Term.execAll at hf hW' hH'
        refine ⟨hW', hH', rfl, pre.take (pre.length - n), ?_, .fresh hf rfl⟩
        rw [hn]; simpa [norm, wrapAll] using htake
  · -- a non-empty frame
    obtain ⟨ls, ll, hsn⟩ := lines_snoc hl
    have hbars_le : (wrapAll t.W r.bars).length ≤ (wrapAll t.W (ls ++ [ll])).length := by
      rw [← hsn]; unfold Req.lines; exact wrapAll_length_le _ _ _
    have hnorm_lines : norm (wrapAll t.W (ls ++ [ll])) = norm (wrapAll t.W r.texts) ++ norm (wrapAll t.W r.bars) := by
      rw [← hsn]; unfold Req.lines; rw [wrapAll_append, norm_append]
    have hne_lines : wrapAll t.W (ls ++ [ll]) ≠ [] := by
      rw [wrapAll_append]
      have : wrapAll t.W [ll] = wrap t.W ll := by simp [wrapAll]
      rw [this]; intro h
      have := congrArg List.length h
      have hk := wrap_length_pos t.W ll
      simp only [List.length_append, List.length_nil] at this; omega
    rw [hsn]
    cases hcur with
    | fresh hf hn0 =>
      subst hn0
      have hz := clearOps_zero t; rw [hz]
      have hpf := paint_fresh t pre ls ll hf
      simp only at hpf
      obtain ⟨p1, p2, p3, p4, p5⟩ := hpf
      have hfr : (wrapAll t.W frame).length = 0 := by omega
      have hfe := wrapAll_nil_of_length _ _ hfr
      subst hfe
      have hne : pre ++ wrapAll t.W (ls ++ [ll]) ≠ [] := by simp [hne_lines]
      refine ⟨p3, p4, rfl, _, ?_, .edge p1 (by rw [p2, p3]; exact Nat.le_refl _) ?_⟩
      · rw [norm_padLast _ _ hne, norm_append, hnorm_lines, wrapAll_append, norm_append]
        have hpre' : norm pre = norm (wrapAll t.W logs) := by
          simpa [wrapAll, norm] using hpre
        rw [hpre']; simp [List.append_assoc]
      · have ha' := p1.ha
        rw [padLast_length _ _ hne, List.length_append] at ha'
        exact reach_after_paint t _ pre _ _ hf ha' p5 hbars_le (by rw [p3] at *; exact hfit)
    | edge hp hc hreach =>
      by_cases hn0 : n = 0
      · -- cursor parked in the pending-wrap column, nothing to erase
        subst hn0
        have hz := clearOps_zero t; rw [hz]
        have hc0 : t.c ≠ 0 := by have := hp.wf.hW; omega
        have hfne := hF4 rfl hc0
        rw [hsn] at hfne
        obtain ⟨g, gs, rest, hshape⟩ : ∃ g gs rest, ls ++ [ll] = (g :: gs) :: rest := by
          cases hls : ls ++ [ll] with
          | nil => simp at hls
          | cons l rest =>
            rw [hls] at hfne
            cases l with
            | nil => exact absurd rfl hfne
            | cons g gs => exact ⟨g, gs, rest, rfl⟩
        rw [hshape, paint_edge t pre g gs rest hp hc, ← hshape]
        have ⟨hf, htop0, ha0⟩ := newline_painted t pre hp
        have ⟨hWn, hHn⟩ := newline_W t
        have hpf := paint_fresh t.newline pre ls ll hf
        simp only at hpf
        obtain ⟨p1, p2, p3, p4, p5⟩ := hpf
        have hfr : (wrapAll t.W frame).length = 0 := by omega
        have hfe := wrapAll_nil_of_length _ _ hfr
        subst hfe
        rw [hWn] at p1 p2 p3 p4 p5 ⊢
        have hne : pre ++ wrapAll t.W (ls ++ [ll]) ≠ [] := by simp [hne_lines]
        refine ⟨p3, by rw [p4, hHn], rfl, _, ?_, .edge p1 (by rw [p2, p3]; exact Nat.le_refl _) ?_⟩
        · rw [norm_padLast _ _ hne, norm_append, hnorm_lines, wrapAll_append, norm_append]
          have hpre' : norm pre = norm (wrapAll t.W logs) := by
            simpa [wrapAll, norm] using hpre
          rw [hpre']; simp [List.append_assoc]
        · have ha' := p1.ha
          rw [padLast_length _ _ hne, List.length_append] at ha'
          have := reach_after_paint t.newline _ pre _ _ hf ha' p5 hbars_le (by rw [hHn]; exact hfit)
          exact this
      · have hpos : 0 < n := by omega
        have hle : n ≤ pre.length := by omega
        have hds := draw_step t pre n ls ll hp hpos hle hreach
        simp only [drawOps, execAll_append, flush_id] at hds
        obtain ⟨d1, d2, d3, d4, d5⟩ := hds
        have hne : pre.take (pre.length - n) ++ wrapAll t.W (ls ++ [ll]) ≠ [] := by simp [hne_lines]
        refine ⟨d3, d4, rfl, _, ?_, .edge d1 (by rw [d2, d3]; exact Nat.le_refl _) (d5 _ hbars_le (by rw [d3] at *; exact hfit))⟩
        rw [norm_padLast _ _ hne, norm_append, hnorm_lines, wrapAll_append, norm_append, hn, htake]
        simp [List.append_assoc]


/-- run a whole history of draw requests -/
def runReqs (t : Term) (n : Nat) : List Req → Term × Nat
  | [] => (t, n)
  | r :: rs => let (t', n') := drawReq t n r; runReqs t' n' rs

def allTexts (rs : List Req) : List (List Nat) := rs.flatMap (·.texts)
def lastBars (frame : List (List Nat)) : List Req → List (List Nat)
  | [] => frame
  | r :: rs => lastBars r.bars rs

theorem init_integrity (W H : Nat) (hW : 0 < W) (hH : 0 < H) : Integrity W H (Term.init W H) 0 [] [] := by
  refine ⟨rfl, rfl, by simp [wrapAll], [], by simp [wrapAll, norm], .fresh ⟨⟨hW, hH, ?_, ?_, ?_⟩, ?_, rfl, rfl⟩ rfl⟩
  · simp [Term.init]
  · simp [Term.init]
  · simp [Term.init]; exact hH
  · simp [Term.init]

/-- **Redraw integrity for every history** (prototype form of C01): after any sequence of draw
requests whose frames fit the terminal and whose first line is never empty, the rows down to the
cursor are exactly the printed lines followed by the current frame, modulo trailing blanks. -/
theorem runReqs_integrity (W H : Nat) : ∀ (rs : List Req) (t : Term) (n : Nat) (logs frame : List (List Nat)),
    Integrity W H t n logs frame →
    (∀ r ∈ rs, (wrapAll W r.bars).length ≤ H ∧ firstNonEmpty r.lines) →
    Integrity W H (runReqs t n rs).1 (runReqs t n rs).2 (logs ++ allTexts rs) (lastBars frame rs) := by
  intro rs
  induction rs with
  | nil => intro t n logs frame h _; simpa [runReqs, allTexts, lastBars] using h
  | cons r rs ih =>
    intro t n logs frame h hall
    have hr := hall r (by simp)
    have hstep := drawReq_integrity W H t n logs frame r h hr.1 (fun _ _ => hr.2)
    have := ih (drawReq t n r).1 (drawReq t n r).2 (logs ++ r.texts) r.bars hstep
      (fun r' hr' => hall r' (by simp [hr']))
    simpa [runReqs, allTexts, lastBars, List.append_assoc] using this



end IndicatifModel
