import IndicatifModel.Model.Template
/-!
# Fidelity of the template parser: a grammar of well-formed templates and what they mean

`Item` is the grammar the documentation describes: literal text (braces written doubled), placeholders
`{key}` / `{key:[<^>][width][!][.style[/alt_style]]}` and line breaks. `render` prints a list of items
as a template string, `denote` says — without reference to the parser — what parts such a template
stands for. The theorem `parse_render` (stated as `C10_faithful` in `Props/C10.lean`) is that the
transcribed state machine maps every well-formed template to exactly that.
-/
namespace IndicatifModel.Template

structure Spec where
  align : Option Align := none
  width : Option (List Char) := none   -- the digits as written
  trunc : Bool := false
  style : Option (List Char) := none
  alt : Option (List Char) := none
deriving Repr

inductive Item where
  | text (cs : List Char)
  | ph (key : List Char) (spec : Option Spec)
  | nl
deriving Repr

def esc (c : Char) : List Char := if c = '{' then ['{', '{'] else if c = '}' then ['}', '}'] else [c]

def alignChar : Align → Char
  | .left => '<' | .center => '^' | .right => '>'

def styleRender (style alt : Option (List Char)) : List Char :=
  match style with
  | none => []
  | some st => '.' :: (st ++ (match alt with | none => [] | some a => '/' :: a))

def Spec.render (s : Spec) : List Char :=
  ':' :: ((match s.align with | none => [] | some a => [alignChar a]) ++ ((s.width.getD []) ++
    ((if s.trunc then ['!'] else []) ++ styleRender s.style s.alt)))

def Item.render : Item → List Char
  | .text cs => cs.flatMap esc
  | .ph k sp => '{' :: (k ++ ((match sp with | none => [] | some s => s.render) ++ ['}']))
  | .nl => ['\n']

def render (items : List Item) : List Char := items.flatMap Item.render

/-! ## Meaning -/

def flush (parts : List Part) (buf : List Char) : List Part := if buf ≠ [] then parts ++ [.lit buf] else parts

def phPart (k : List Char) : Option Spec → Part
  | none => .ph k .left none false none none
  | some s => .ph k (s.align.getD .left) (s.width.map digitsToNat) s.trunc s.style (if s.style.isSome then s.alt else none)

def sem (acc : List Part × List Char) : Item → List Part × List Char
  | .text cs => (acc.1, acc.2 ++ cs)
  | .ph k sp => (flush acc.1 acc.2 ++ [phPart k sp], [])
  | .nl => (flush acc.1 acc.2 ++ [.newline], [])

/-- what a well-formed template means: adjacent text is one literal part, every placeholder one
placeholder part with the attributes as written, every line break a newline part -/
def denote (items : List Item) : List Part :=
  let r := items.foldl sem ([], [])
  flush r.1 r.2

/-! ## Well-formedness -/

def keyChar (c : Char) : Bool := !isAsciiWs c && c != '}' && c != ':'
def keyOk (k : List Char) : Bool :=
  match k with
  | [] => false
  | c :: _ => c != '{' && k.all keyChar
def widthOk (w : List Char) : Bool := w != [] && w.all isDigit && decide (digitsToNat w ≤ 65535)
def styleOk (s : List Char) : Bool := s != [] && s.all (fun c => c != '/' && c != '}')
def altOk (s : List Char) : Bool := s != [] && s.all (fun c => c != '}')
def optAll (p : List Char → Bool) : Option (List Char) → Bool
  | none => true
  | some x => p x
def Spec.ok (s : Spec) : Bool :=
  optAll widthOk s.width && optAll styleOk s.style && optAll altOk s.alt && (s.style.isSome || s.alt.isNone)
def Item.ok : Item → Bool
  | .text cs => cs.all (fun c => c != '\n')
  | .ph k none => keyOk k
  | .ph k (some s) => keyOk k && s.ok
  | .nl => true

/-! ## The parser on the pieces -/

theorem run_append (fx : PFix) : ∀ (a b : List Char) (s : St),
    run fx s (a ++ b) = match run fx s a with
      | .ok s' => run fx s' b
      | .err st c => .err st c
      | .panic => .panic := by
  intro a
  induction a with
  | nil => intro b s; simp [run]
  | cons c cs ih =>
    intro b s
    simp only [List.cons_append, run]
    cases step fx s c with
    | ok s' => simp only []; exact ih b s'
    | err st ch => rfl
    | panic => rfl

theorem run_cons_ok (fx : PFix) (s s' : St) (c : Char) (cs : List Char) (h : step fx s c = .ok s') :
    run fx s (c :: cs) = run fx s' cs := by
  simp [run, h]

theorem updLast_snoc (P : List Part) (p : Part) (f : Part → Part) : updLast (P ++ [p]) f = P ++ [f p] := by
  simp [updLast, List.reverse_append]

theorem lastIsPh_snoc (P : List Part) k a w t s al : lastIsPh (P ++ [.ph k a w t s al]) = true := by
  simp [lastIsPh]

/-- literal text, one character at a time (braces are written doubled) -/
theorem run_text_char (fx : PFix) (P : List Part) (b : List Char) (c : Char) (hc : c ≠ '\n') (rest : List Char) :
    run fx ⟨.literal, P, b⟩ (esc c ++ rest) = run fx ⟨.literal, P, b ++ [c]⟩ rest := by
  unfold esc
  by_cases h1 : c = '{'
  · subst h1
    simp only [if_true, List.cons_append, List.nil_append]
    rw [run_cons_ok fx _ ⟨.maybeOpen, P, b⟩ _ _ (by simp [step, step1, step2])]
    rw [run_cons_ok fx _ ⟨.literal, P, b ++ ['{']⟩ _ _ (by simp [step, step1, step2])]
  · by_cases h2 : c = '}'
    · subst h2
      simp only [h1, if_false, if_true, List.cons_append, List.nil_append]
      rw [run_cons_ok fx _ ⟨.doubleClose, P, b ++ ['}']⟩ _ _ (by simp [step, step1, step2])]
      rw [run_cons_ok fx _ ⟨.literal, P, b ++ ['}']⟩ _ _ (by simp [step, step1, step2])]
    · simp only [h1, h2, if_false, List.cons_append, List.nil_append]
      rw [run_cons_ok fx _ ⟨.literal, P, b ++ [c]⟩ _ _ (by simp [step, step1, step2, h1, h2, hc])]

theorem run_text (fx : PFix) (P : List Part) : ∀ (cs : List Char) (b : List Char), cs.all (fun c => c != '\n') = true →
    ∀ rest, run fx ⟨.literal, P, b⟩ (cs.flatMap esc ++ rest) = run fx ⟨.literal, P, b ++ cs⟩ rest := by
  intro cs
  induction cs with
  | nil => intro b _ rest; simp
  | cons c cs ih =>
    intro b h rest
    simp only [List.all_cons, Bool.and_eq_true, bne_iff_ne, ne_eq] at h
    simp only [List.flatMap_cons, List.append_assoc]
    rw [run_text_char fx P b c h.1, ih (b ++ [c]) h.2 rest]
    simp

theorem run_nl (fx : PFix) (P : List Part) (b : List Char) (rest : List Char) :
    run fx ⟨.literal, P, b⟩ ('\n' :: rest) = run fx ⟨.literal, flush P b ++ [.newline], []⟩ rest := by
  apply run_cons_ok
  by_cases hb : b = []
  · subst hb; simp [step, step1, step2, flush]
  · simp [step, step1, step2, flush, hb]

/-- the characters of a key after the first -/
theorem run_key_chars (fx : PFix) (P : List Part) : ∀ (cs : List Char) (b : List Char), cs.all keyChar = true →
    ∀ rest, run fx ⟨.key, P, b⟩ (cs ++ rest) = run fx ⟨.key, P, b ++ cs⟩ rest := by
  intro cs
  induction cs with
  | nil => intro b _ rest; simp
  | cons c cs ih =>
    intro b h rest
    simp only [List.all_cons, Bool.and_eq_true] at h
    obtain ⟨hc, hcs⟩ := h
    simp only [keyChar, Bool.and_eq_true, Bool.not_eq_true', bne_iff_ne, ne_eq] at hc
    obtain ⟨⟨hws, h1⟩, h2⟩ := hc
    simp only [List.cons_append]
    rw [run_cons_ok fx _ ⟨.key, P, b ++ [c]⟩ _ _ (by simp [step, step1, step2, hws, h1, h2])]
    rw [ih (b ++ [c]) hcs rest]
    simp

/-- `{` and the key: the pending literal is flushed, the key is collected -/
theorem run_open_key (fx : PFix) (P : List Part) (b : List Char) (k : List Char) (hk : keyOk k = true) (rest : List Char) :
    run fx ⟨.literal, P, b⟩ ('{' :: (k ++ rest)) = run fx ⟨.key, flush P b, k⟩ rest := by
  cases k with
  | nil => simp [keyOk] at hk
  | cons c cs =>
    simp only [keyOk, List.all_cons, Bool.and_eq_true, bne_iff_ne, ne_eq] at hk
    obtain ⟨h0, hc, hcs⟩ := hk
    simp only [keyChar, Bool.and_eq_true, Bool.not_eq_true', bne_iff_ne, ne_eq] at hc
    obtain ⟨⟨hws, h1⟩, h2⟩ := hc
    rw [run_cons_ok fx _ ⟨.maybeOpen, P, b⟩ _ _ (by simp [step, step1, step2])]
    simp only [List.cons_append]
    rw [run_cons_ok fx _ ⟨.key, flush P b, [c]⟩ _ _ (by
      by_cases hb : b = []
      · subst hb; simp [step, step1, step2, flush, h0, hws, h1, h2]
      · simp [step, step1, step2, flush, h0, hws, h1, h2, hb])]
    rw [run_key_chars fx (flush P b) cs [c] hcs rest]
    simp

theorem key_ne_nil (k : List Char) (hk : keyOk k = true) : k ≠ [] := by
  intro h; subst h; simp [keyOk] at hk

/-- `{key}` -/
theorem run_key_close (fx : PFix) (P : List Part) (k : List Char) (hk : k ≠ []) (rest : List Char) :
    run fx ⟨.key, P, k⟩ ('}' :: rest) = run fx ⟨.literal, P ++ [.ph k .left none false none none], []⟩ rest := by
  apply run_cons_ok
  simp [step, step1, step2, isAsciiWs, hk]

/-- `{key:` -/
theorem run_key_colon (fx : PFix) (P : List Part) (k : List Char) (hk : k ≠ []) (rest : List Char) :
    run fx ⟨.key, P, k⟩ (':' :: rest) = run fx ⟨.align, P ++ [.ph k .left none false none none], []⟩ rest := by
  apply run_cons_ok
  simp [step, step1, step2, isAsciiWs, hk]

theorem digit_not_special (c : Char) (h : isDigit c = true) :
    c ≠ '<' ∧ c ≠ '^' ∧ c ≠ '>' ∧ c ≠ '!' ∧ c ≠ '.' ∧ c ≠ '}' := by
  refine ⟨?_, ?_, ?_, ?_, ?_, ?_⟩ <;> (intro hc; subst hc; revert h; decide)

/-- digits in the width state -/
theorem run_width_digits (fx : PFix) (P : List Part) : ∀ (ds : List Char) (b : List Char), ds.all isDigit = true →
    ∀ rest, run fx ⟨.width, P, b⟩ (ds ++ rest) = run fx ⟨.width, P, b ++ ds⟩ rest := by
  intro ds
  induction ds with
  | nil => intro b _ rest; simp
  | cons c cs ih =>
    intro b h rest
    simp only [List.all_cons, Bool.and_eq_true] at h
    obtain ⟨hc, hcs⟩ := h
    obtain ⟨_, _, _, h4, h5, h6⟩ := digit_not_special c hc
    simp only [List.cons_append]
    rw [run_cons_ok fx _ ⟨.width, P, b ++ [c]⟩ _ _ (by simp [step, step1, step2, hc, h4, h5, h6])]
    rw [ih (b ++ [c]) hcs rest]
    simp

/-- an optional alignment character and an optional width after the colon: the parser is in the
`align` state with an empty buffer, or in the `width` state with the digits in the buffer -/
theorem run_align_width (fx : PFix) (P : List Part) k (al : Option Align) (w : Option (List Char)) (hw : optAll widthOk w = true)
    (rest : List Char) :
    ∃ st, (st = .align ∧ w = none ∧ al = none ∨ st = .width) ∧
    run fx ⟨.align, P ++ [.ph k .left none false none none], []⟩
      ((match al with | none => [] | some a => [alignChar a]) ++ ((w.getD []) ++ rest)) =
    run fx ⟨st, P ++ [.ph k (al.getD .left) none false none none], w.getD []⟩ rest := by
  cases al with
  | none =>
    cases w with
    | none => exact ⟨.align, Or.inl ⟨rfl, rfl, rfl⟩, by simp⟩
    | some ds =>
      refine ⟨.width, Or.inr rfl, ?_⟩
      simp only [optAll, widthOk, Bool.and_eq_true, bne_iff_ne, ne_eq, decide_eq_true_eq] at hw
      obtain ⟨⟨hne, hd⟩, _⟩ := hw
      cases ds with
      | nil => exact absurd rfl hne
      | cons c cs =>
        simp only [List.all_cons, Bool.and_eq_true] at hd
        obtain ⟨_, _, _, h4, h5, h6⟩ := digit_not_special c hd.1
        obtain ⟨g1, g2, g3, _⟩ := digit_not_special c hd.1
        simp only [Option.getD_some, List.nil_append, List.cons_append, Option.getD_none]
        rw [run_cons_ok fx _ ⟨.width, P ++ [.ph k .left none false none none], [c]⟩ _ _ (by
          simp [step, step1, step2, hd.1, g1, g2, g3, h4, h5, h6])]
        rw [run_width_digits fx _ cs [c] hd.2 rest]
        simp
  | some a =>
    refine ⟨.width, Or.inr rfl, ?_⟩
    have hstep : step fx ⟨.align, P ++ [.ph k .left none false none none], []⟩ (alignChar a) =
        .ok ⟨.width, P ++ [.ph k a none false none none], []⟩ := by
      cases a <;> simp [step, step1, step2, alignChar, updLast_snoc, setAlign]
    simp only [List.cons_append, List.nil_append, Option.getD_some]
    rw [run_cons_ok fx _ _ _ _ hstep]
    cases w with
    | none => simp
    | some ds =>
      simp only [optAll, widthOk, Bool.and_eq_true, bne_iff_ne, ne_eq, decide_eq_true_eq] at hw
      simp only [Option.getD_some]
      rw [run_width_digits fx _ ds [] hw.1.2 rest]
      simp

/-- `!` after the alignment / width -/
theorem run_bang (fx : PFix) (P : List Part) k a (st : PState) (hst : st = .align ∨ st = .width) (wb : List Char) (rest : List Char) :
    run fx ⟨st, P ++ [.ph k a none false none none], wb⟩ ('!' :: rest) =
    run fx ⟨.width, P ++ [.ph k a none true none none], wb⟩ rest := by
  apply run_cons_ok
  rcases hst with h | h <;> subst h <;> simp [step, step1, step2, isDigit, updLast_snoc, setTrunc]

/-- the parts after the width has been taken from the buffer -/
def withWidth (P : List Part) (k : List Char) (a : Align) (t : Bool) (wb : List Char) : List Part :=
  P ++ [.ph k a (if wb = [] then none else some (digitsToNat wb)) t none none]

/-- `}` or `.` ends the alignment / width section: the digits collected become the width -/
theorem run_end_width (fx : PFix) (P : List Part) k a t (st : PState) (wb : List Char)
    (hst : st = .align ∧ wb = [] ∨ st = .width) (hwb : digitsToNat wb ≤ 65535) (rest : List Char) :
    run fx ⟨st, P ++ [.ph k a none t none none], wb⟩ ('}' :: rest) = run fx ⟨.literal, withWidth P k a t wb, []⟩ rest ∧
    run fx ⟨st, P ++ [.ph k a none t none none], wb⟩ ('.' :: rest) = run fx ⟨.firstStyle, withWidth P k a t wb, []⟩ rest := by
  have hn : ¬ digitsToNat wb > 65535 := by omega
  constructor <;> apply run_cons_ok
  · rcases hst with ⟨h, hb⟩ | h
    · subst h; subst hb; simp [step, step1, step2, isDigit, withWidth]
    · subst h
      by_cases hb : wb = []
      · subst hb; simp [step, step1, step2, isDigit, withWidth]
      · simp [step, step1, step2, isDigit, withWidth, hb, lastIsPh_snoc, updLast_snoc, setWidth, hn]
  · rcases hst with ⟨h, hb⟩ | h
    · subst h; subst hb; simp [step, step1, step2, isDigit, withWidth]
    · subst h
      by_cases hb : wb = []
      · subst hb; simp [step, step1, step2, isDigit, withWidth]
      · simp [step, step1, step2, isDigit, withWidth, hb, lastIsPh_snoc, updLast_snoc, setWidth, hn]

theorem run_style_chars (fx : PFix) (P : List Part) : ∀ (cs : List Char) (b : List Char),
    cs.all (fun c => c != '/' && c != '}') = true →
    ∀ rest, run fx ⟨.firstStyle, P, b⟩ (cs ++ rest) = run fx ⟨.firstStyle, P, b ++ cs⟩ rest := by
  intro cs
  induction cs with
  | nil => intro b _ rest; simp
  | cons c cs ih =>
    intro b h rest
    simp only [List.all_cons, Bool.and_eq_true, bne_iff_ne, ne_eq] at h
    obtain ⟨⟨h1, h2⟩, hcs⟩ := h
    simp only [List.cons_append]
    rw [run_cons_ok fx _ ⟨.firstStyle, P, b ++ [c]⟩ _ _ (by simp [step, step1, step2, h1, h2])]
    rw [ih (b ++ [c]) (by simpa using hcs) rest]
    simp

theorem run_alt_chars (fx : PFix) (P : List Part) : ∀ (cs : List Char) (b : List Char),
    cs.all (fun c => c != '}') = true →
    ∀ rest, run fx ⟨.altStyle, P, b⟩ (cs ++ rest) = run fx ⟨.altStyle, P, b ++ cs⟩ rest := by
  intro cs
  induction cs with
  | nil => intro b _ rest; simp
  | cons c cs ih =>
    intro b h rest
    simp only [List.all_cons, Bool.and_eq_true, bne_iff_ne, ne_eq] at h
    obtain ⟨h1, hcs⟩ := h
    simp only [List.cons_append]
    rw [run_cons_ok fx _ ⟨.altStyle, P, b ++ [c]⟩ _ _ (by simp [step, step1, step2, h1])]
    rw [ih (b ++ [c]) (by simpa using hcs) rest]
    simp

theorem run_style_end (fx : PFix) (P : List Part) k a w t (s : List Char) (hs : s ≠ []) (rest : List Char) :
    run fx ⟨.firstStyle, P ++ [.ph k a w t none none], s⟩ ('}' :: rest) =
      run fx ⟨.literal, P ++ [.ph k a w t (some s) none], []⟩ rest ∧
    run fx ⟨.firstStyle, P ++ [.ph k a w t none none], s⟩ ('/' :: rest) =
      run fx ⟨.altStyle, P ++ [.ph k a w t (some s) none], []⟩ rest := by
  constructor <;> apply run_cons_ok <;>
    simp [step, step1, step2, hs, lastIsPh_snoc, updLast_snoc, setStyle]

theorem run_alt_end (fx : PFix) (P : List Part) k a w t st (s : List Char) (hs : s ≠ []) (rest : List Char) :
    run fx ⟨.altStyle, P ++ [.ph k a w t st none], s⟩ ('}' :: rest) =
      run fx ⟨.literal, P ++ [.ph k a w t st (some s)], []⟩ rest := by
  apply run_cons_ok
  simp [step, step1, step2, hs, lastIsPh_snoc, updLast_snoc, setAlt]

theorem withWidth_eq (P : List Part) (k : List Char) (a : Align) (t : Bool) (w : Option (List Char)) (hw : optAll widthOk w = true) :
    withWidth P k a t (w.getD []) = P ++ [.ph k a (w.map digitsToNat) t none none] := by
  cases w with
  | none => simp [withWidth]
  | some ds =>
    simp only [optAll, widthOk, Bool.and_eq_true, bne_iff_ne, ne_eq, decide_eq_true_eq] at hw
    simp [withWidth, hw.1.1]

theorem width_le (w : Option (List Char)) (hw : optAll widthOk w = true) : digitsToNat (w.getD []) ≤ 65535 := by
  cases w with
  | none => simp [digitsToNat]
  | some ds =>
    simp only [optAll, widthOk, Bool.and_eq_true, bne_iff_ne, ne_eq, decide_eq_true_eq] at hw
    simpa using hw.2

/-- the style section and the closing brace -/
theorem run_style_section (fx : PFix) (P : List Part) k a (w : Option Nat) t (sty alt : Option (List Char))
    (hs : optAll styleOk sty = true) (ha : optAll altOk alt = true) (rest : List Char) :
    ∀ (st : PState) (wb : List Char) (wd : Option (List Char)), wb = wd.getD [] → optAll widthOk wd = true → w = wd.map digitsToNat →
    (st = .align ∧ wb = [] ∨ st = .width) →
    run fx ⟨st, P ++ [.ph k a none t none none], wb⟩ (styleRender sty alt ++ ('}' :: rest)) =
    run fx ⟨.literal, P ++ [.ph k a w t sty (if sty.isSome then alt else none)], []⟩ rest := by
  intro st wb wd hwb hwd hw hst
  have hle : digitsToNat wb ≤ 65535 := by rw [hwb]; exact width_le wd hwd
  have hww : withWidth P k a t wb = P ++ [.ph k a w t none none] := by rw [hwb, hw]; exact withWidth_eq P k a t wd hwd
  cases sty with
  | none =>
    simp only [styleRender, List.nil_append, Option.isSome_none, Bool.false_eq_true, if_false]
    rw [(run_end_width fx P k a t st wb hst hle rest).1, hww]
  | some s =>
    simp only [optAll, styleOk, Bool.and_eq_true, bne_iff_ne, ne_eq] at hs
    simp only [styleRender, List.cons_append, List.append_assoc, Option.isSome_some, if_true]
    rw [(run_end_width fx P k a t st wb hst hle _).2, hww]
    rw [run_style_chars fx _ s [] hs.2 _]
    simp only [List.nil_append]
    cases alt with
    | none =>
      simp only [List.nil_append]
      rw [(run_style_end fx P k a w t s hs.1 rest).1]
    | some al =>
      simp only [optAll, altOk, Bool.and_eq_true, bne_iff_ne, ne_eq] at ha
      simp only [List.cons_append]
      rw [(run_style_end fx P k a w t s hs.1 _).2]
      rw [run_alt_chars fx _ al [] ha.2 _]
      simp only [List.nil_append]
      rw [run_alt_end fx P k a w t (some s) al ha.1 rest]

/-- everything between the colon and the closing brace -/
theorem run_spec (fx : PFix) (P : List Part) (k : List Char) (s : Spec) (hok : s.ok = true) (rest : List Char) :
    run fx ⟨.align, P ++ [.ph k .left none false none none], []⟩
      ((match s.align with | none => [] | some a => [alignChar a]) ++ ((s.width.getD []) ++
        ((if s.trunc then ['!'] else []) ++ (styleRender s.style s.alt ++ ('}' :: rest))))) =
    run fx ⟨.literal, P ++ [phPart k (some s)], []⟩ rest := by
  simp only [Spec.ok, Bool.and_eq_true] at hok
  obtain ⟨⟨⟨hw, hs⟩, ha⟩, _⟩ := hok
  obtain ⟨st, hst, hrun⟩ := run_align_width fx P k s.align s.width hw
    ((if s.trunc then ['!'] else []) ++ (styleRender s.style s.alt ++ ('}' :: rest)))
  rw [hrun]
  cases ht : s.trunc with
  | false =>
    simp only [Bool.false_eq_true, if_false, List.nil_append]
    have hst' : st = .align ∧ s.width.getD [] = [] ∨ st = .width := by
      rcases hst with ⟨h1, h2, _⟩ | h
      · left; exact ⟨h1, by rw [h2]; rfl⟩
      · right; exact h
    rw [run_style_section fx P k (s.align.getD .left) (s.width.map digitsToNat) false s.style s.alt hs ha rest st _ s.width rfl hw rfl hst']
    simp [phPart, ht]
  | true =>
    simp only [if_true, List.cons_append, List.nil_append]
    have hst' : st = .align ∨ st = .width := by
      rcases hst with ⟨h1, _⟩ | h
      · left; exact h1
      · right; exact h
    rw [run_bang fx P k (s.align.getD .left) st hst' _ _]
    rw [run_style_section fx P k (s.align.getD .left) (s.width.map digitsToNat) true s.style s.alt hs ha rest .width _ s.width rfl hw rfl (Or.inr rfl)]
    simp [phPart, ht]

/-- a whole placeholder -/
theorem run_ph (fx : PFix) (P : List Part) (b : List Char) (k : List Char) (sp : Option Spec) (hok : (Item.ph k sp).ok = true)
    (rest : List Char) :
    run fx ⟨.literal, P, b⟩ ((Item.ph k sp).render ++ rest) = run fx ⟨.literal, flush P b ++ [phPart k sp], []⟩ rest := by
  cases sp with
  | none =>
    simp only [Item.ok] at hok
    simp only [Item.render, List.nil_append, List.cons_append, List.append_assoc]
    rw [run_open_key fx P b k hok _, run_key_close fx _ k (key_ne_nil k hok) rest]
    rfl
  | some s =>
    simp only [Item.ok, Bool.and_eq_true] at hok
    simp only [Item.render, Spec.render, List.cons_append, List.append_assoc, List.nil_append]
    rw [run_open_key fx P b k hok.1 _, run_key_colon fx _ k (key_ne_nil k hok.1) _]
    exact run_spec fx (flush P b) k s hok.2 rest

/-- one item moves the parser from `literal` to `literal` exactly as `sem` says -/
theorem run_item (fx : PFix) (P : List Part) (b : List Char) (i : Item) (hok : i.ok = true) (rest : List Char) :
    run fx ⟨.literal, P, b⟩ (i.render ++ rest) = run fx ⟨.literal, (sem (P, b) i).1, (sem (P, b) i).2⟩ rest := by
  cases i with
  | text cs => exact run_text fx P cs b hok rest
  | ph k sp => exact run_ph fx P b k sp hok rest
  | nl => exact run_nl fx P b rest

theorem run_items (fx : PFix) : ∀ (items : List Item) (P : List Part) (b : List Char), (∀ i ∈ items, i.ok = true) →
    run fx ⟨.literal, P, b⟩ (render items) = .ok ⟨.literal, (items.foldl sem (P, b)).1, (items.foldl sem (P, b)).2⟩ := by
  intro items
  induction items with
  | nil => intro P b _; simp [render, run]
  | cons i is ih =>
    intro P b h
    simp only [render, List.flatMap_cons, List.foldl_cons]
    rw [run_item fx P b i (h i (List.mem_cons_self ..)) _]
    exact ih _ _ (fun j hj => h j (List.mem_cons_of_mem _ hj))

/-- **Fidelity.** Every well-formed template is accepted, and its parts are exactly what it denotes;
this holds for the pinned parser and for every combination of the repairs. -/
theorem parse_render (fx : PFix) (items : List Item) (hok : ∀ i ∈ items, i.ok = true) :
    parse fx (render items) = .ok (denote items) := by
  unfold parse
  have h := run_items fx items [] [] hok
  have e : ({} : St) = ⟨.literal, [], []⟩ := rfl
  rw [e, h]
  simp only [denote, flush, true_or, true_and]
  split <;> rfl

end IndicatifModel.Template
