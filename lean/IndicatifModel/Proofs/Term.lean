import IndicatifModel.Model.Term
/-! Lemmas about the terminal model: writing text lays it out as `wrap W`. -/
namespace IndicatifModel
open Term

/-- well-formedness -/
structure WF (t : Term) : Prop where
  hW : 0 < t.W
  hH : 0 < t.H
  hlen : t.rows.length = t.top + t.H
  hlo : t.top ≤ t.a
  hhi : t.a < t.top + t.H

theorem wf_lf {t : Term} (h : WF t) : WF t.lf := by
  unfold Term.lf
  split
  · constructor <;> simp [h.hW, h.hH, h.hlen] <;> have := h.hlo <;> have := h.hhi <;> omega
  · constructor <;> simp [h.hW, h.hH, h.hlen] <;> have := h.hlo <;> have := h.hhi <;> omega

theorem setCell_end (pre : Row) (g : Nat) : setCell pre pre.length g = pre ++ [g] := by
  simp [setCell]

/-- chunking of a glyph list into rows of width W (at least one row) -/
def wrap (W : Nat) (gs : List Nat) : List Row :=
  if W = 0 then [gs] else
  if gs.length ≤ W then [gs] else gs.take W :: wrap W (gs.drop W)
termination_by gs.length
decreasing_by simp [List.length_drop]; omega

theorem wrap_length_pos (W : Nat) (gs : List Nat) : 0 < (wrap W gs).length := by
  unfold wrap
  split
  · simp
  · split <;> simp

/-- rows from index `i` on are blank -/
def BlankFrom (t : Term) (i : Nat) : Prop := ∀ j, i ≤ j → j < t.rows.length → t.rows[j]? = some []


/-- The canonical "fresh" shape: everything from the cursor row on is blank, cursor at column 0. -/
structure Fresh (t : Term) (pre : List Row) : Prop where
  wf : WF t
  hrows : t.rows = pre ++ List.replicate (t.top + t.H - pre.length) []
  ha : t.a = pre.length
  hc : t.c = 0

/-- writing within the current row -/
theorem write_aux (gs : List Nat) : ∀ (t : Term) (pre : Row),
    t.rows[t.a]? = some pre → t.c = pre.length → pre.length + gs.length ≤ t.W →
    t.write gs = { t with rows := t.rows.set t.a (pre ++ gs), c := pre.length + gs.length } := by
  induction gs with
  | nil =>
    intro t pre h1 hc _
    simp only [Term.write, List.foldl_nil, List.append_nil, List.length_nil, Nat.add_zero]
    have : t.rows.set t.a pre = t.rows := by
      apply List.ext_getElem?
      intro i
      by_cases hi : i = t.a
      · subst hi
        rw [List.getElem?_set]
        simp
        rcases List.getElem?_eq_some_iff.1 h1 with ⟨hlt, hv⟩
        simp [hlt, hv]
      · rw [List.getElem?_set]; simp [Ne.symm hi]
    rw [this, ← hc]
  | cons g gs ih =>
    intro t pre h1 hc hle
    simp only [List.length_cons] at hle
    have hput : t.put g = { t with rows := t.rows.set t.a (pre ++ [g]), c := pre.length + 1 } := by
      unfold Term.put
      have hn : ¬ (t.c ≥ t.W) := by omega
      simp only [hn, if_false]
      have hd : t.rows.getD t.a [] = pre := by simp [List.getD, h1]
      rw [hd, hc, setCell_end]
    rcases List.getElem?_eq_some_iff.1 h1 with ⟨halt, _⟩
    simp only [Term.write, List.foldl_cons]
    have := ih (t.put g) (pre ++ [g]) (by rw [hput]; simp [halt]) (by rw [hput]; simp) (by rw [hput]; simp; omega)
    simp only [Term.write] at this
    rw [this, hput]
    simp [List.append_assoc, Nat.add_assoc, Nat.add_comm 1]

theorem write_append (t : Term) (xs ys : List Nat) : t.write (xs ++ ys) = (t.write xs).write ys := by
  simp [Term.write, List.foldl_append]

/-- a pending wrap is resolved by the first glyph written -/
theorem write_pending (t : Term) (g : Nat) (gs : List Nat) (hW : 0 < t.W) (hc : t.c ≥ t.W) :
    t.write (g :: gs) = t.newline.write (g :: gs) := by
  simp only [Term.write, List.foldl_cons]
  congr 1
  have h0 : ¬ (t.newline.c ≥ t.newline.W) := by
    have : t.newline.W = t.W := by unfold Term.newline Term.lf; split <;> rfl
    have : t.newline.c = 0 := by unfold Term.newline; rfl
    omega
  unfold Term.put
  simp only [hc, if_true, h0, if_false]


theorem fresh_row_blank {t : Term} {pre : List Row} (h : Fresh t pre) : t.rows[t.a]? = some [] := by
  have hlt := h.wf.hhi
  have ha := h.ha
  rw [h.hrows, h.ha]
  rw [List.getElem?_append_right (Nat.le_refl _)]
  simp only [Nat.sub_self, List.getElem?_replicate]
  have : 0 < t.top + t.H - pre.length := by omega
  simp [this]

theorem set_fresh {t : Term} {pre : List Row} (h : Fresh t pre) (r : Row) :
    t.rows.set t.a r = pre ++ [r] ++ List.replicate (t.top + t.H - (pre.length + 1)) [] := by
  have hlt := h.wf.hhi
  have ha := h.ha
  rw [h.hrows, h.ha]
  have : t.top + t.H - pre.length = (t.top + t.H - (pre.length + 1)) + 1 := by omega
  rw [this, List.replicate_succ]
  rw [List.set_append_right _ _ (Nat.le_refl _)]
  simp

theorem newline_fresh {t : Term} {pre : List Row} (h : Fresh t pre) (r : Row) (c' : Nat) :
    Fresh ({ t with rows := t.rows.set t.a r, c := c' } : Term).newline (pre ++ [r]) := by
  have hlt := h.wf.hhi
  have hlo := h.wf.hlo
  have ha := h.ha
  have hlen := h.wf.hlen
  have hs := set_fresh h r
  unfold Term.newline Term.lf
  simp only []
  split
  · rename_i heq
    refine ⟨⟨h.wf.hW, h.wf.hH, ?_, ?_, ?_⟩, ?_, ?_, rfl⟩
    · simp [hlen]; omega
    · simp; omega
    · simp; omega
    · simp only [hs, List.length_append, List.length_cons, List.length_nil]
      have h1 : t.top + t.H - (pre.length + 1) = 0 := by omega
      have h2 : t.top + 1 + t.H - (pre.length + (0 + 1)) = 1 := by omega
      rw [h1, h2]
      simp
    · simp [ha]
  · rename_i hne
    refine ⟨⟨h.wf.hW, h.wf.hH, ?_, ?_, ?_⟩, ?_, ?_, rfl⟩
    · simp [hlen]
    · simp; omega
    · simp; omega
    · simp only [hs, List.length_append, List.length_cons, List.length_nil]
    · simp [ha]

theorem wrap_fits {W : Nat} {gs : List Nat} (h : gs.length ≤ W) : wrap W gs = [gs] := by
  unfold wrap; split <;> simp [h]

theorem wrap_long {W : Nat} {gs : List Nat} (hW : 0 < W) (h : W < gs.length) :
    wrap W gs = gs.take W :: wrap W (gs.drop W) := by
  rw [wrap]
  have h1 : ¬ W = 0 := by omega
  have h2 : ¬ gs.length ≤ W := by omega
  simp [h1, h2]

/-- Writing a non-empty glyph list on a fresh terminal lays it out as `wrap W gs`. -/
theorem write_fresh : ∀ (n : Nat) (gs : List Nat) (t : Term) (pre : List Row),
    gs.length = n → gs ≠ [] → Fresh t pre →
    let t' := t.write gs
    let k := (wrap t.W gs).length
    t'.rows = pre ++ wrap t.W gs ++ List.replicate (t'.top + t'.H - (pre.length + k)) [] ∧
    t'.a = pre.length + k - 1 ∧ t'.c = ((wrap t.W gs).getLast?.getD []).length ∧
    WF t' ∧ t'.W = t.W ∧ t'.H = t.H ∧ 0 < t'.c ∧ t'.c ≤ t.W ∧ t'.top = max t.top (t'.a + 1 - t.H) := by
  intro n
  induction n using Nat.strongRecOn with
  | _ n ih =>
    intro gs t pre hn hne hf
    have hW := hf.wf.hW
    by_cases hfit : gs.length ≤ t.W
    · -- single row
      have hb := fresh_row_blank hf
      have hw := write_aux gs t [] hb (by simp [hf.hc]) (by simpa using hfit)
      simp only [List.nil_append, List.length_nil, Nat.zero_add] at hw
      have hpos : 0 < gs.length := by cases gs with | nil => exact absurd rfl hne | cons _ _ => simp
      simp only [wrap_fits hfit, hw, List.length_singleton, List.getLast?_singleton, Option.getD_some]
      refine ⟨?_, ?_, ?_, ?_, ?_, ?_, hpos, hfit, ?_⟩
      · rw [set_fresh hf gs]
      · simp [hf.ha]
      · trivial
      · exact ⟨hf.wf.hW, hf.wf.hH, by simp [hf.wf.hlen], hf.wf.hlo, hf.wf.hhi⟩
      · trivial
      · trivial
      · have := hf.wf.hhi; omega
    · -- more than one row
      have hlong : t.W < gs.length := by omega
      have hsplit : gs = gs.take t.W ++ gs.drop t.W := (List.take_append_drop _ _).symm
      have hb := fresh_row_blank hf
      have htl : (gs.take t.W).length = t.W := by simp [List.length_take]; omega
      have hw := write_aux (gs.take t.W) t [] hb (by simp [hf.hc]) (by simp [htl])
      simp only [List.nil_append, List.length_nil, Nat.zero_add, htl] at hw
      have hdne : gs.drop t.W ≠ [] := by
        intro h; have := congrArg List.length h; simp at this; omega
      obtain ⟨g, rest, hgr⟩ : ∃ g rest, gs.drop t.W = g :: rest := by
        cases hd : gs.drop t.W with
        | nil => exact absurd hd hdne
        | cons g rest => exact ⟨g, rest, rfl⟩
      have hstep : t.write gs = ({ t with rows := t.rows.set t.a (gs.take t.W), c := t.W } : Term).newline.write (gs.drop t.W) := by
        conv => lhs; rw [hsplit, write_append, hw, hgr]
        rw [write_pending _ g rest (by simpa using hW) (by simp)]
        rw [hgr]
      have hf' := newline_fresh hf (gs.take t.W) t.W
      have hW' : ({ t with rows := t.rows.set t.a (gs.take t.W), c := t.W } : Term).newline.W = t.W := by
        unfold Term.newline Term.lf; split <;> rfl
      have hH' : ({ t with rows := t.rows.set t.a (gs.take t.W), c := t.W } : Term).newline.H = t.H := by
        unfold Term.newline Term.lf; split <;> rfl
      have hlt : (gs.drop t.W).length < n := by simp [List.length_drop]; omega
      have := ih _ hlt (gs.drop t.W) _ _ rfl hdne hf'
      simp only [hW'] at this
      obtain ⟨h1, h2, h3, h4, h5, h6, h7, h8, h9⟩ := this
      have hkp := wrap_length_pos t.W (gs.drop t.W)
      simp only [hstep, wrap_long hW hlong, List.length_cons]
      refine ⟨?_, ?_, ?_, h4, by simpa [hW'] using h5, by simpa [hH'] using h6, h7, h8, ?_⟩
      · rw [h1]; simp [List.append_assoc, Nat.add_assoc, Nat.add_comm 1]
      · rw [h2]; simp
      · rw [h3]
        have : (wrap t.W (List.drop t.W gs)) ≠ [] := by
          intro h; rw [h] at hkp; simp at hkp
        rw [List.getLast?_cons_of_ne_nil this] <;> rfl
      · -- top tracking
        rw [h9, hH']
        have hhi := hf.wf.hhi
        have ha0 := hf.ha
        have htop : ({ t with rows := t.rows.set t.a (gs.take t.W), c := t.W } : Term).newline.top
            = if t.a + 1 = t.top + t.H then t.top + 1 else t.top := by
          unfold Term.newline Term.lf; simp only []; split <;> rfl
        rw [htop, h2]
        simp only [List.length_append, List.length_singleton]
        split <;> omega


end IndicatifModel
