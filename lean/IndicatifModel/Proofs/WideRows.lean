import IndicatifModel.Model.DrawTarget
/-!
# Rows a line occupies on the terminal, double-width glyphs included

`Text.padded` (the repair of F5, `LineType::padded_width`) adds to the display width the columns a terminal leaves
empty at the end of a row because the next glyph is two columns wide and moves to the next row as a whole. Here the
terminal model itself (`Term.writeG`: `put`, `putWide` with its early wrap, pending wrap in the last column) is shown
to advance exactly as that count says, for every mix of zero-, one- and two-column glyphs on every width `W ≥ 2`.
-/
namespace IndicatifModel
open Term

/-- where the cursor is after `col` columns (padding included) have been consumed from column 0 of row `a0` -/
def At (W a0 : Nat) (t : Term) (col : Nat) : Prop :=
  (col = 0 ∧ t.a = a0 ∧ t.c = 0) ∨ (∃ q r, r < W ∧ col = q * W + r + 1 ∧ t.a = a0 + q ∧ t.c = r + 1)

theorem newline_a (t : Term) : t.newline.a = t.a + 1 ∧ t.newline.c = 0 ∧ t.newline.W = t.W := by
  unfold Term.newline Term.lf
  split <;> simp

theorem put_acW (t : Term) (g : Nat) :
    (t.put g).W = t.W ∧ (t.put g).a = (if t.c ≥ t.W then t.a + 1 else t.a) ∧ (t.put g).c = (if t.c ≥ t.W then 1 else t.c + 1) := by
  unfold Term.put
  obtain ⟨h1, h2, h3⟩ := newline_a t
  by_cases h : t.c ≥ t.W
  · simp only [h, if_true, h1, h2, h3, and_self]
  · simp only [h, if_false, and_self]

theorem putWide_acW (t : Term) (g : Nat) :
    (t.putWide g).W = t.W ∧ (t.putWide g).a = (if t.c + 2 > t.W then t.a + 1 else t.a) ∧
    (t.putWide g).c = (if t.c + 2 > t.W then 2 else t.c + 2) := by
  unfold Term.putWide
  obtain ⟨h1, h2, h3⟩ := newline_a t
  by_cases h : t.c + 2 > t.W
  · simp only [h, if_true, h1, h2, h3, and_self]
  · simp only [h, if_false, and_self]

theorem mod_qW (q W s : Nat) (h : s < W) : (q * W + s) % W = s := by
  rw [Nat.add_comm, Nat.add_mul_mod_self_right, Nat.mod_eq_of_lt h]

/-- one glyph: the terminal moves as `padStep` counts -/
theorem putG_at (W a0 : Nat) (hW : 2 ≤ W) (t : Term) (htW : t.W = W) (col pad : Nat) (g : Glyph) (hg : g.w ≤ 2)
    (h : At W a0 t col) : At W a0 (t.putG g) (Text.padStep W (col, pad) g).1 ∧ (t.putG g).W = W := by
  unfold Term.putG Text.padStep
  by_cases h0 : g.w = 0
  · simp only [h0, true_or, if_true]; exact ⟨h, htW⟩
  · have hle : ¬ g.w > W := by omega
    simp only [h0, hle, or_self, if_false]
    by_cases h1 : g.w = 1
    · -- a single-width glyph never causes padding
      simp only [h1, if_true]
      have hnp : ¬ (col % W ≠ 0 ∧ 1 > W - col % W) := by
        intro ⟨_, hh⟩
        have := Nat.mod_lt col (by omega : 0 < W)
        omega
      simp only [hnp, if_false]
      obtain ⟨pw, pa, pc⟩ := put_acW t g.cp
      refine ⟨?_, by rw [pw, htW]⟩
      rcases h with ⟨hc0, ha, hc⟩ | ⟨q, r, hr, hcol, ha, hc⟩
      · right
        refine ⟨0, 0, by omega, by omega, ?_, ?_⟩
        · rw [pa, hc, htW]; simp only [ge_iff_le]; rw [if_neg (by omega)]; omega
        · rw [pc, hc, htW]; simp only [ge_iff_le]; rw [if_neg (by omega)]
      · right
        by_cases hlast : r + 1 = W
        · refine ⟨q + 1, 0, by omega, ?_, ?_, ?_⟩
          · rw [Nat.add_mul]; omega
          · rw [pa, hc, htW]; simp only [ge_iff_le]; rw [if_pos (by omega)]; omega
          · rw [pc, hc, htW]; simp only [ge_iff_le]; rw [if_pos (by omega)]
        · refine ⟨q, r + 1, by omega, by omega, ?_, ?_⟩
          · rw [pa, hc, htW]; simp only [ge_iff_le]; rw [if_neg (by omega)]; omega
          · rw [pc, hc, htW]; simp only [ge_iff_le]; rw [if_neg (by omega)]
    · have h2 : g.w = 2 := by omega
      simp only [h1, if_false]
      simp only [h2]
      obtain ⟨pw, pa, pc⟩ := putWide_acW t g.cp
      refine ⟨?_, by rw [pw, htW]⟩
      rcases h with ⟨hc0, ha, hc⟩ | ⟨q, r, hr, hcol, ha, hc⟩
      · -- at the start of the row
        have hm : col % W = 0 := by rw [hc0]; exact Nat.zero_mod W
        have hnp : ¬ (col % W ≠ 0 ∧ 2 > W - col % W) := fun hh => hh.1 hm
        simp only [hnp, if_false]
        right
        refine ⟨0, 1, by omega, by omega, ?_, ?_⟩
        · rw [pa, hc, htW]; rw [if_neg (by omega)]; omega
        · rw [pc, hc, htW]; rw [if_neg (by omega)]
      · by_cases hpend : r + 1 = W
        · -- pending wrap: the glyph starts the next row, nothing is padded
          have hm : col % W = 0 := by
            rw [hcol, show q * W + r + 1 = (q + 1) * W by rw [Nat.add_mul]; omega]
            exact Nat.mul_mod_left _ _
          have hnp : ¬ (col % W ≠ 0 ∧ 2 > W - col % W) := fun hh => hh.1 hm
          simp only [hnp, if_false]
          right
          refine ⟨q + 1, 1, by omega, ?_, ?_, ?_⟩
          · rw [Nat.add_mul]; omega
          · rw [pa, hc, htW]; rw [if_pos (by omega)]; omega
          · rw [pc, hc, htW]; rw [if_pos (by omega)]
        · have hm : col % W = r + 1 := by
            rw [hcol, Nat.add_assoc]; exact mod_qW q W (r + 1) (by omega)
          by_cases hone : r + 2 = W
          · -- one column left: the terminal wraps early, one column of padding
            have hp : col % W ≠ 0 ∧ 2 > W - col % W := by rw [hm]; omega
            rw [if_pos hp]
            right
            refine ⟨q + 1, 1, by omega, ?_, ?_, ?_⟩
            · rw [hm, Nat.add_mul]; omega
            · rw [pa, hc, htW]; rw [if_pos (by omega)]; omega
            · rw [pc, hc, htW]; rw [if_pos (by omega)]
          · have hnp : ¬ (col % W ≠ 0 ∧ 2 > W - col % W) := by rw [hm]; omega
            simp only [hnp, if_false]
            right
            refine ⟨q, r + 2, by omega, by omega, ?_, ?_⟩
            · rw [pa, hc, htW]; rw [if_neg (by omega)]; omega
            · rw [pc, hc, htW]; rw [if_neg (by omega)]

theorem padStep_fst (W : Nat) (col p1 p2 : Nat) (g : Glyph) :
    (Text.padStep W (col, p1) g).1 = (Text.padStep W (col, p2) g).1 := by
  unfold Text.padStep
  dsimp only
  split
  · rfl
  · split <;> rfl

theorem writeG_at (W a0 : Nat) (hW : 2 ≤ W) : ∀ (gs : Text) (t : Term) (col pad : Nat), t.W = W → (∀ g ∈ gs, g.w ≤ 2) →
    At W a0 t col → At W a0 (t.writeG gs) (gs.foldl (Text.padStep W) (col, pad)).1 := by
  intro gs
  induction gs with
  | nil => intro t col pad _ _ h; exact h
  | cons g gs ih =>
    intro t col pad htW hg h
    obtain ⟨h1, h2⟩ := putG_at W a0 hW t htW col pad g (hg g (by simp)) h
    have := ih (t.putG g) (Text.padStep W (col, pad) g).1 (Text.padStep W (col, pad) g).2 h2 (fun x hx => hg x (by simp [hx])) h1
    simpa [Term.writeG, List.foldl_cons] using this

/-- the fold's first component is the display width plus the padding -/
theorem padStep_total (W : Nat) : ∀ (gs : Text) (col pad : Nat),
    (gs.foldl (Text.padStep W) (col, pad)).1 + pad + Text.cols (gs.filter (fun g => decide (g.w > W))) =
      col + Text.cols gs + (gs.foldl (Text.padStep W) (col, pad)).2 := by
  intro gs
  induction gs with
  | nil => intro col pad; simp [Text.cols]
  | cons g gs ih =>
    intro col pad
    rw [List.foldl_cons]
    have hc : Text.cols (g :: gs) = g.w + Text.cols gs := by simp [Text.cols]
    by_cases h0 : g.w = 0 ∨ g.w > W
    · have hs : Text.padStep W (col, pad) g = (col, pad) := by
        unfold Text.padStep; rw [if_pos h0]
      rw [hs]
      have := ih col pad
      rcases h0 with h0 | h0
      · have hf : (g :: gs).filter (fun g => decide (g.w > W)) = gs.filter (fun g => decide (g.w > W)) := by
          rw [List.filter_cons]; simp [h0]
        rw [hf, hc]; omega
      · have hf : (g :: gs).filter (fun g => decide (g.w > W)) = g :: gs.filter (fun g => decide (g.w > W)) := by
          rw [List.filter_cons]; simp [h0]
        have hc2 : Text.cols (g :: gs.filter (fun g => decide (g.w > W))) = g.w + Text.cols (gs.filter (fun g => decide (g.w > W))) := by simp [Text.cols]
        rw [hf, hc, hc2]; omega
    · have hf : (g :: gs).filter (fun g => decide (g.w > W)) = gs.filter (fun g => decide (g.w > W)) := by
        rw [List.filter_cons]; have : ¬ g.w > W := fun h => h0 (Or.inr h); simp [this]
      rw [hf, hc]
      by_cases hp : col % W ≠ 0 ∧ g.w > W - col % W
      · have hs : Text.padStep W (col, pad) g = (col + (W - col % W) + g.w, pad + (W - col % W)) := by
          unfold Text.padStep; rw [if_neg h0]; dsimp only; rw [if_pos hp]
        rw [hs]
        have := ih (col + (W - col % W) + g.w) (pad + (W - col % W)); omega
      · have hs : Text.padStep W (col, pad) g = (col + g.w, pad) := by
          unfold Text.padStep; rw [if_neg h0]; dsimp only; rw [if_neg hp]
        rw [hs]
        have := ih (col + g.w) pad; omega

end IndicatifModel
