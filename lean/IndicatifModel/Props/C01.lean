import IndicatifModel.Proofs.Bridge
import IndicatifModel.Proofs.BarReq
import IndicatifModel.Generated.TermForward
/-!
# C01 — Single-bar redraw integrity: terminal = printed lines + current frame

The theorems are about the executable `drawToTerm` of `Model/DrawTarget.lean` (the transcription of
`DrawState::draw_to_term`, for the pinned code and for every combination of the repairs `Fixes`)
running on the terminal model of `Model/Term.lean`.
A *draw request* is what one completed draw of a bar hands to the draw target: text lines (from
`println` / `suspend`) followed by the bar's rendering.
-/
namespace IndicatifModel
open Term

/-- the lines of a request as the draw state holds them -/
def Req.items (r : Req) : List Item := r.texts.map (fun t => (LineKind.text, t)) ++ r.bars.map (fun b => (LineKind.bar, b))

/-- one completed draw through the executable model: terminal calls executed, new `last_line_count` -/
def drawStep (fx : Fixes) (st : Term × Nat) (r : Req) : Term × Nat :=
  let out := drawToTerm fx { lines := r.items.map Item.line } st.1.W st.1.H st.2
  (st.1.execAll out.1, out.2)

theorem headNonEmpty_items (r : Req) (h : firstNonEmpty r.lines) : headNonEmpty r.items := by
  unfold Req.items
  unfold Req.lines at h
  cases ht : r.texts with
  | nil =>
    rw [ht] at h
    cases hb : r.bars with
    | nil => simp [headNonEmpty]
    | cons b bs => rw [hb] at h; simpa [headNonEmpty, firstNonEmpty] using h
  | cons t ts => rw [ht] at h; simpa [headNonEmpty, firstNonEmpty] using h

theorem items_snd (r : Req) : r.items.map (·.2) = r.lines := by
  simp [Req.items, Req.lines, List.map_map, Function.comp_def]

theorem barRows_items (W : Nat) (r : Req) : barRows W r.items = (wrapAll W r.bars).length := by
  unfold Req.items
  induction r.texts with
  | nil =>
    simp only [List.map_nil, List.nil_append]
    induction r.bars with
    | nil => simp [barRows, wrapAll]
    | cons b bs ih => simp only [List.map_cons, barRows, if_true, wrapAll, List.flatMap_cons, List.length_append] at ih ⊢; omega
  | cons t ts ih =>
    have hne : ¬ (LineKind.text = LineKind.bar) := by intro h; cases h
    simp only [List.map_cons, List.cons_append, barRows, hne, if_false, Nat.zero_add]
    exact ih

/-- one step of the executable model is one `drawReq` of the proof-side formulation -/
theorem drawStep_eq (fx : Fixes) (t : Term) (n : Nat) (r : Req) (hW : 0 < t.W)
    (hfit : (wrapAll t.W r.bars).length ≤ t.H) (hne : firstNonEmpty r.lines) :
    drawStep fx (t, n) r = drawReq t n r := by
  unfold drawStep drawReq
  have h := drawToTerm_fit fx t.W t.H n hW r.items { lines := r.items.map Item.line } rfl rfl rfl
    (by rw [barRows_items]; exact hfit) (headNonEmpty_items r hne)
  simp only [h, items_snd, barRows_items]

/-- **C01 (draw-request level).** Starting from an empty terminal of any width `W ≥ 1` and height
`H ≥ 1`, after any history of completed draws whose frames fit the height (and whose first line is
non-empty, see `C01_F4_…`), the rows down to the cursor are exactly the lines printed so far,
wrapped at the terminal width, followed by the current frame — no remnant of an earlier frame —
and the cursor is parked at the right edge of the frame's last row (or at the start of a blank
row when nothing is shown). Rows are compared modulo trailing blanks. -/
theorem C01_redraw_integrity (fx : Fixes) (W H : Nat) (hW : 0 < W) (hH : 0 < H) (rs : List Req)
    (hall : ∀ r ∈ rs, (wrapAll W r.bars).length ≤ H ∧ firstNonEmpty r.lines) :
    Integrity W H (rs.foldl (drawStep fx) (Term.init W H, 0)).1 (rs.foldl (drawStep fx) (Term.init W H, 0)).2
      (allTexts rs) (lastBars [] rs) := by
  have key : ∀ (rs : List Req) (t : Term) (n : Nat) (logs frame : List (List Nat)),
      Integrity W H t n logs frame →
      (∀ r ∈ rs, (wrapAll W r.bars).length ≤ H ∧ firstNonEmpty r.lines) →
      rs.foldl (drawStep fx) (t, n) = runReqs t n rs := by
    intro rs
    induction rs with
    | nil => intro t n _ _ _ _; rfl
    | cons r rs ih =>
      intro t n logs frame hI hall
      have hr := hall r (by simp)
      have ⟨hWt, hHt, _⟩ := hI
      have hstep : drawStep fx (t, n) r = drawReq t n r :=
        drawStep_eq fx t n r (by rw [hWt]; exact hW) (by rw [hWt, hHt]; exact hr.1) hr.2
      simp only [List.foldl_cons, runReqs, hstep]
      have hI' := drawReq_integrity W H t n logs frame r hI hr.1 (fun _ _ => hr.2)
      exact ih (drawReq t n r).1 (drawReq t n r).2 _ _ hI' (fun r' hr' => hall r' (by simp [hr']))
  have h0 := init_integrity W H hW hH
  rw [key rs _ _ _ _ h0 hall]
  have := runReqs_integrity W H rs _ _ _ _ h0 hall
  simpa using this

/-- the row count the code computes for a line is the number of rows the terminal uses for it -/
theorem C01_wrapped_height (W : Nat) (hW : 0 < W) (k : LineKind) (cs : List Nat) :
    wrappedHeight W (mkLine k cs) = (wrap W cs).length := wrappedHeight_eq W hW k cs

/-- non-vacuity: a history with a wrapping log line, a two-row frame and a shrinking redraw -/
example : let rs : List Req := [⟨[[104, 105, 33, 33, 33, 33, 33, 33]], [[65, 66], [67]]⟩, ⟨[], [[90]]⟩]
    (∀ r ∈ rs, (wrapAll 7 r.bars).length ≤ 4 ∧ firstNonEmpty r.lines) := by
  intro rs r hr
  simp only [rs, List.mem_cons, List.mem_nil_iff, or_false] at hr
  have h1 : wrap 7 [65, 66] = [[65, 66]] := wrap_fits (by decide)
  have h2 : wrap 7 [67] = [[67]] := wrap_fits (by decide)
  have h3 : wrap 7 [90] = [[90]] := wrap_fits (by decide)
  rcases hr with rfl | rfl
  · exact ⟨by simp [wrapAll, h1, h2], by simp [Req.lines, firstNonEmpty]⟩
  · exact ⟨by simp [wrapAll, h3], by simp [Req.lines, firstNonEmpty]⟩

/-! ## The same statement about bar operations (the executable `Model/Bar`, tied to the crate by the BAR stream) -/

/-- a bar, its terminal, and what the screen is meant to show: the lines printed so far and the frame of the last completed draw -/
structure BarWorld where
  bar : Bar
  term : Term
  logs : List (List Nat) := []
  frame : List (List Nat) := []

/-- one public call at virtual time `now`: the terminal executes the calls the bar makes; when a draw was completed the screen
is meant to show the log extended by what the call printed, followed by the rendering of the state the call leaves -/
def BarWorld.step (w : BarWorld) (p : Nat × BarOp) : BarWorld :=
  let r := w.bar.step p.1 p.2
  { bar := r.1, term := w.term.execAll r.2,
    logs := if r.2 = [] then w.logs else w.logs ++ printedBy p.2,
    frame := if r.2 = [] then w.frame else frameRows r.1 }

/-- every operation of the history is inside the theorem's scope in the state it is applied in: unit-width glyphs, frames that
fit the height, non-empty first lines, non-empty lines from `suspend` closures (see `OpOk`) -/
def OkRun (W H : Nat) : BarWorld → List (Nat × BarOp) → Prop
  | _, [] => True
  | w, p :: ps => OpOk W H w.bar p.1 p.2 ∧ OkRun W H (w.step p) ps

/-- **C01 for bar operations.** A bar on a fresh terminal of any width `W ≥ 1` and height `H ≥ 1` (any refresh limiter, the code
as it is now or with any subset of the repairs): after every history of `tick` / `inc` / `dec` / `set_position` / `set_message` /
`set_prefix` / `set_length` / `unset_length` / `println` / `suspend` / `reset` / `finish*` / `abandon*` / `finish_using_style` / drop calls at
any times — draws skipped by the limiter or the position gate included — the rows down to the cursor are exactly the lines
printed so far, wrapped at the terminal width, followed by the rendering of the bar's state at the last completed draw, with no
remnant of an earlier frame, and the cursor is parked for following output. Scope (`OkRun`): unit-width glyphs, frames that fit
the height, non-empty first lines, non-empty lines written by `suspend` closures. -/
theorem C01_bar_history (fx : Fixes) (W H : Nat) (hW : 0 < W) (hH : 0 < H) (b0 : Bar) (tt0 : TermTarget)
    (hb : b0.target = some tt0) (hT : TInv W H fx tt0) (hllc : tt0.llc = 0) (ops : List (Nat × BarOp))
    (hok : OkRun W H { bar := b0, term := Term.init W H } ops) :
    let w := ops.foldl BarWorld.step { bar := b0, term := Term.init W H }
    BInv W H fx w.bar w.term w.logs w.frame := by
  have key : ∀ (ops : List (Nat × BarOp)) (w : BarWorld), BInv W H fx w.bar w.term w.logs w.frame → OkRun W H w ops →
      BInv W H fx (ops.foldl BarWorld.step w).bar (ops.foldl BarWorld.step w).term (ops.foldl BarWorld.step w).logs
        (ops.foldl BarWorld.step w).frame := by
    intro ops
    induction ops with
    | nil => intro w h _; exact h
    | cons p ps ih =>
      intro w h hr
      apply ih (w.step p) _ hr.2
      rcases step_binv W H fx hW w.bar w.term w.logs w.frame p.1 p.2 h hr.1 with ⟨he, hB⟩ | ⟨hne, hB⟩
      · simp only [BarWorld.step, he, if_true, Term.execAll]
        simpa [BarWorld.step, he] using hB
      · simp only [BarWorld.step, hne, if_false]
        exact hB
  exact key ops _ ⟨tt0, hb, hT, by rw [hllc]; exact init_integrity W H hW hH⟩ hok

/-- non-vacuity: a concrete bar (`{prefix}{pos}/{len} {msg}` on a 7-column terminal) and a history with a message that makes
the frame wrap, a printed line and a finish are inside the scope of `C01_bar_history` -/
example :
    let u (cs : List Nat) : Text := cs.map (fun c => ⟨c, 1⟩)
    let b0 : Bar := { len := some 5, pfx := u [65], tpl := [.prefix, .pos, .lit (u [47]), .len, .lit (u [32]), .msg],
                      target := some { W := 7, H := 4 }, onFinish := .andLeave }
    OkRun 7 4 { bar := b0, term := Term.init 7 4 }
      [(0, .tick), (1, .setMsg (u [104, 101, 108, 108, 111])), (2, .println (u [76, 49])), (3, .inc 2), (4, .suspend [u [111, 117, 116]]), (5, .finish .andLeave)] := by
  intro u b0
  have fo : ∀ b : Bar, (∀ l ∈ frameLines b, UnitT l.gs) → ((frameRows b).map (fun cs => wrappedHeight 7 (mkLine .bar cs))).sum ≤ 4 →
      firstNonEmpty (frameRows b) → FrameOk 7 4 b := fun b h1 h2 h3 => ⟨h1, by rw [wrapAll_len 7 (by decide)]; exact h2, h3⟩
  simp only [OkRun, OpOk]
  refine ⟨⟨fo _ ?_ ?_ ?_, trivial⟩, ⟨fo _ ?_ ?_ ?_, trivial⟩, ⟨fo _ ?_ ?_ ?_, ?_, ?_⟩, ⟨fo _ ?_ ?_ ?_, trivial⟩, ⟨fo _ ?_ ?_ ?_, ?_, ?_⟩,
    ⟨fo _ ?_ ?_ ?_, trivial⟩, trivial⟩ <;>
    decide +kernel

/-- **the source as regenerated** (`tools/gen_termlike.py`, every run): the default kind of target, `console::Term`, implements
`TermLike` by forwarding every method unchanged — `width` / `height` are the two components of `size()`, the four cursor
movements, `write_line`, `write_str`, `clear_line` and `flush` call the method of the same name with the same argument — and the
trait has exactly these ten methods, `height` defaulting to 20 rows. The theorems and the model-compared streams speak about the
calls a `TermLike` receives; for a real terminal they are the calls `console` receives (whose effect the pty streams C01P / C03P
compare with the emulator). -/
theorem C01_source_term_forwarding :
    Generated.termLikeMethods = ["width", "height", "move_cursor_up", "move_cursor_down", "move_cursor_right", "move_cursor_left",
      "write_line", "write_str", "clear_line", "flush"] ∧
    Generated.termLikeDefaultHeight = "20" ∧
    Generated.termForward = [("width", "self.size().1"), ("height", "self.size().0"),
      ("move_cursor_up", "self.move_cursor_up(n)"), ("move_cursor_down", "self.move_cursor_down(n)"),
      ("move_cursor_right", "self.move_cursor_right(n)"), ("move_cursor_left", "self.move_cursor_left(n)"),
      ("write_line", "self.write_line(s)"), ("write_str", "self.write_str(s)"), ("clear_line", "self.clear_line()"),
      ("flush", "self.flush()")] := by decide

end IndicatifModel
