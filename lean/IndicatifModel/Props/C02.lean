import IndicatifModel.Proofs.MultiOrder
import IndicatifModel.Proofs.MultiSpec
import Batteries.Data.List.Perm
import IndicatifModel.Proofs.Rows
import IndicatifModel.Proofs.GenBridgeMulti
import IndicatifModel.Proofs.RowsShown
import IndicatifModel.Generated.FinishArms
/-!
# C02 — ordering level: slot bookkeeping of `MultiState` for every history of `insert*`/`remove`

(The row-level clauses of C02 are the Layer-1 × Layer-2 argument; this file is the part about
`ordering`, `members` and the free set.)
-/
namespace IndicatifModel.Multi

/-- `insert` is `takeSlot` followed by placing the slot -/
theorem insert_spec (m : Multi) (loc : InsertLoc) (m' : Multi) (idx : Nat) (h : insert m loc = some (m', idx)) :
    idx = (takeSlot m).2 ∧ ∃ p, m' = { (takeSlot m).1 with ordering := insertAt (takeSlot m).1.ordering p idx } := by
  unfold insert at h
  unfold takeSlot
  cases hg : m.free.getLast? with
  | some i =>
    simp only [hg] at h ⊢
    cases loc with
    | atEnd =>
      injection h with h; injection h with h1 h2
      subst h2; refine ⟨rfl, m.ordering.length, ?_⟩; rw [← h1]; simp only [insertAt_length_eq_append]
    | index pos => injection h with h; injection h with h1 h2; subst h2; exact ⟨rfl, _, h1.symm⟩
    | fromBack pos => injection h with h; injection h with h1 h2; subst h2; exact ⟨rfl, _, h1.symm⟩
    | after a =>
      dsimp only at h
      split at h
      · injection h with h; injection h with h1 h2; subst h2; exact ⟨rfl, _, h1.symm⟩
      · cases h
    | before a =>
      dsimp only at h
      split at h
      · injection h with h; injection h with h1 h2; subst h2; exact ⟨rfl, _, h1.symm⟩
      · cases h
  | none =>
    simp only [hg] at h ⊢
    cases loc with
    | atEnd =>
      injection h with h; injection h with h1 h2
      subst h2; refine ⟨rfl, m.ordering.length, ?_⟩; rw [← h1]; simp only [insertAt_length_eq_append]
    | index pos => injection h with h; injection h with h1 h2; subst h2; exact ⟨rfl, _, h1.symm⟩
    | fromBack pos => injection h with h; injection h with h1 h2; subst h2; exact ⟨rfl, _, h1.symm⟩
    | after a =>
      dsimp only at h
      split at h
      · injection h with h; injection h with h1 h2; subst h2; exact ⟨rfl, _, h1.symm⟩
      · cases h
    | before a =>
      dsimp only at h
      split at h
      · injection h with h; injection h with h1 h2; subst h2; exact ⟨rfl, _, h1.symm⟩
      · cases h

/-- **`insert` preserves the partition**, the new slot was not in use by a live bar, and exactly one
entry is added to the ordering -/
theorem C02_insert_wf (m : Multi) (hw : WF m) (loc : InsertLoc) (m' : Multi) (idx : Nat)
    (h : insert m loc = some (m', idx)) :
    WF m' ∧ idx ∉ m.ordering ∧ idx ∈ m'.ordering ∧ m'.ordering.length = m.ordering.length + 1 := by
  obtain ⟨hidx, p, hm'⟩ := insert_spec m loc m' idx h
  have t := takeSlot_taken m hw
  rw [← hidx] at t
  refine ⟨?_, ?_, ?_, ?_⟩
  · rw [hm']; exact place_wf m _ idx p t
  · rw [← t.ord_eq]; exact t.idx_not_ord
  · rw [hm']; exact (mem_insertAt _ _ _ _).mpr (Or.inr rfl)
  · rw [hm']; simp only [length_insertAt, t.ord_eq]

/-- **`remove_idx` preserves the partition** (for a slot that exists) and removes exactly that slot -/
theorem C02_remove_wf (m : Multi) (hw : WF m) (idx : Nat) (hlt : idx < m.members.length) :
    WF (m.removeIdx idx) ∧ idx ∉ (m.removeIdx idx).ordering ∧
      ∀ i, i ≠ idx → (i ∈ (m.removeIdx idx).ordering ↔ i ∈ m.ordering) := by
  unfold removeIdx
  split
  · rename_i hc
    have hf : idx ∈ m.free := by simpa using hc
    refine ⟨hw, fun ho => hw.disjoint idx ho hf, fun _ _ => Iff.rfl⟩
  · rename_i hc
    have hf : idx ∉ m.free := by simpa using hc
    have hmem : ∀ i, i ∈ m.ordering.filter (· ≠ idx) ↔ i ∈ m.ordering ∧ i ≠ idx := by
      intro i; simp [List.mem_filter]
    refine ⟨⟨?_, ?_, ?_, ?_, ?_, ?_⟩, ?_, ?_⟩
    · exact hw.ord_nodup.sublist List.filter_sublist |> fun h => h
    · rw [List.nodup_append]
      refine ⟨hw.free_nodup, List.nodup_cons.mpr ⟨List.not_mem_nil, List.nodup_nil⟩, ?_⟩
      intro a ha b hb; rw [List.mem_singleton] at hb; subst hb; intro e; subst e; exact hf ha
    · intro i hi; simp only [List.length_set]; exact hw.ord_lt i ((hmem i).mp hi).1
    · intro i hi
      simp only [List.length_set]
      rw [List.mem_append, List.mem_singleton] at hi
      rcases hi with h1 | h1
      · exact hw.free_lt i h1
      · rw [h1]; exact hlt
    · intro i hi hfree
      rw [List.mem_append, List.mem_singleton] at hfree
      rcases hfree with h1 | h1
      · exact hw.disjoint i ((hmem i).mp hi).1 h1
      · exact ((hmem i).mp hi).2 h1
    · intro i hi
      simp only [List.length_set] at hi
      by_cases e : i = idx
      · exact Or.inr (List.mem_append.mpr (Or.inr (List.mem_singleton.mpr e)))
      · rcases hw.cover i hi with h1 | h1
        · exact Or.inl ((hmem i).mpr ⟨h1, e⟩)
        · exact Or.inr (List.mem_append.mpr (Or.inl h1))
    · intro ho; exact ((hmem idx).mp ho).2 rfl
    · intro i hne; rw [hmem i]; exact ⟨fun h => h.1, fun h => ⟨h, hne⟩⟩

/-- **the `assert_eq!(self.len(), self.ordering.len())` of `MultiState::insert` can never fire** -/
theorem C02_len_eq (m : Multi) (hw : WF m) : m.members.length - m.free.length = m.ordering.length := by
  have hnd : (m.ordering ++ m.free).Nodup := by
    rw [List.nodup_append]
    exact ⟨hw.ord_nodup, hw.free_nodup, fun a ha b hb e => hw.disjoint a ha (e ▸ hb)⟩
  have h1 : (m.ordering ++ m.free) ⊆ List.range m.members.length := by
    intro i hi; rw [List.mem_range]; rw [List.mem_append] at hi
    rcases hi with h | h
    · exact hw.ord_lt i h
    · exact hw.free_lt i h
  have h2 : List.range m.members.length ⊆ (m.ordering ++ m.free) := by
    intro i hi; rw [List.mem_range] at hi; rw [List.mem_append]; exact hw.cover i hi
  have l1 := (List.subperm_of_subset hnd h1).length_le
  have l2 := (List.subperm_of_subset List.nodup_range h2).length_le
  simp only [List.length_append, List.length_range] at l1 l2
  omega

/-- the empty `MultiState` is well formed -/
theorem C02_init_wf (t : TermTarget) : WF { target := t } where
  ord_nodup := List.nodup_nil
  free_nodup := List.nodup_nil
  ord_lt := fun _ h => absurd h List.not_mem_nil
  free_lt := fun _ h => absurd h List.not_mem_nil
  disjoint := fun _ h => absurd h List.not_mem_nil
  cover := fun i h => absurd h (Nat.not_lt_zero i)

/-- slot operations of a history -/
inductive SlotOp where
  | ins (loc : InsertLoc)
  | rem (idx : Nat)

def slotStep (m : Multi) : SlotOp → Multi
  | .ins loc => match m.insert loc with | some (m', _) => m' | none => m   -- `none`: the documented panic, state unchanged
  | .rem idx => if idx < m.members.length then m.removeIdx idx else m      -- a bar only ever removes its own, existing slot

/-- **every history** of insertions (any location, any anchor) and removals keeps the partition,
hence the assertion never fires and no live slot is ever handed out again -/
theorem C02_history_wf (t : TermTarget) (ops : List SlotOp) :
    WF (ops.foldl slotStep { target := t }) ∧
    (ops.foldl slotStep { target := t }).members.length - (ops.foldl slotStep { target := t }).free.length
      = (ops.foldl slotStep { target := t }).ordering.length := by
  have step : ∀ (m : Multi) (op : SlotOp), WF m → WF (slotStep m op) := by
    intro m op h
    cases op with
    | ins loc =>
      simp only [slotStep]
      split
      · rename_i m' idx hi; exact (C02_insert_wf m h loc m' idx hi).1
      · exact h
    | rem idx =>
      simp only [slotStep]
      split
      · rename_i hlt; exact (C02_remove_wf m h idx hlt).1
      · exact h
  have key : ∀ (ops : List SlotOp) (m : Multi), WF m → WF (ops.foldl slotStep m) := by
    intro ops
    induction ops with
    | nil => intro m h; exact h
    | cons op ops ih => intro m h; exact ih _ (step m op h)
  have hw := key ops _ (C02_init_wf t)
  exact ⟨hw, C02_len_eq _ hw⟩

/-! ## The source as translated (`tools/rs2lean.py`, regenerated on every run) -/

theorem free_len_le (m : Multi) (hw : WF m) : m.free.length ≤ m.members.length := by
  have h1 : m.free ⊆ List.range m.members.length := fun i hi => List.mem_range.2 (hw.free_lt i hi)
  have l1 := (List.subperm_of_subset hw.free_nodup h1).length_le
  simpa using l1

/-- **`MultiState::insert` of the source is the model's `insert`** on every well-formed state: it hands out the same
slot, leaves the same `members`/`free_set`/`ordering`, panics (anchor `unwrap`) exactly when the model does, and none of
its other panic sites — `members[idx]` out of bounds, `Vec::insert` past the end, `self.len()` underflow,
`assert_eq!(self.len(), self.ordering.len())` — can be reached -/
theorem C02_source_insert (m : Multi) (hw : WF m) (hlen : m.ordering.length < 2 ^ 64) (loc : InsertLoc) :
    Generated.MultiSlots.insert ({} : Member) (GenBridge.slots m) (GenBridge.toGen loc)
      = (m.insert loc).map (fun r => (r.2, GenBridge.slots r.1)) := by
  apply GenBridge.gen_insert m loc _ hlen
  · intro m' idx h
    have hw' := (C02_insert_wf m hw loc m' idx h).1
    exact ⟨free_len_le m' hw', C02_len_eq m' hw'⟩
  · intro i hi
    exact hw.free_lt i (List.mem_of_getLast? hi)

/-- **`MultiState::remove_idx` of the source is the model's `removeIdx`** on every well-formed state and in-range slot,
and its assertion cannot fire -/
theorem C02_source_remove (m : Multi) (hw : WF m) (idx : Nat) (hlt : idx < m.members.length) :
    Generated.MultiSlots.removeIdx ({} : Member) (GenBridge.slots m) idx = some ((), GenBridge.slots (m.removeIdx idx)) := by
  have hw' := (C02_remove_wf m hw idx hlt).1
  exact GenBridge.gen_removeIdx m idx hlt ⟨free_len_le _ hw', C02_len_eq _ hw'⟩

/-- one slot operation on the translated functions; `none` = the Rust code panicked somewhere other than at the documented
anchor `unwrap` (that case leaves the state unchanged, like `slotStep`) -/
def sourceStep (s : Generated.MultiSlots Member) : SlotOp → Option (Generated.MultiSlots Member)
  | .ins loc =>
    match loc, Generated.MultiSlots.insert ({} : Member) s (GenBridge.toGen loc) with
    | _, some (_, s') => some s'
    | .after a, none => if a ∈ s.ordering then none else some s
    | .before a, none => if a ∈ s.ordering then none else some s
    | _, none => none
  | .rem idx => if idx < s.members.length then (Generated.MultiSlots.removeIdx ({} : Member) s idx).map (·.2) else some s

def sourceRun (s : Generated.MultiSlots Member) : List SlotOp → Option (Generated.MultiSlots Member)
  | [] => some s
  | op :: ops => match sourceStep s op with | none => none | some s' => sourceRun s' ops

theorem insert_none_anchor (m : Multi) (loc : InsertLoc) (h : m.insert loc = none) :
    (∃ a, loc = .after a ∧ a ∉ m.ordering) ∨ (∃ a, loc = .before a ∧ a ∉ m.ordering) := by
  rw [insert_eq_place] at h
  have ho : (takeSlot m).1.ordering = m.ordering := by unfold takeSlot; cases m.free.getLast? <;> rfl
  unfold place at h
  cases loc with
  | atEnd => cases h
  | index _ => cases h
  | fromBack _ => cases h
  | after a =>
    left; refine ⟨a, rfl, ?_⟩
    dsimp only at h; split at h
    · cases h
    · rename_i hn; rw [ho] at hn; exact List.idxOf?_eq_none_iff.1 hn
  | before a =>
    right; refine ⟨a, rfl, ?_⟩
    dsimp only at h; split at h
    · cases h
    · rename_i hn; rw [ho] at hn; exact List.idxOf?_eq_none_iff.1 hn

theorem sourceStep_eq (m : Multi) (hw : WF m) (hlen : m.ordering.length < 2 ^ 64) (op : SlotOp) :
    sourceStep (GenBridge.slots m) op = some (GenBridge.slots (slotStep m op)) := by
  cases op with
  | ins loc =>
    have h := C02_source_insert m hw hlen loc
    simp only [sourceStep, slotStep]
    cases hi : m.insert loc with
    | some r =>
      rw [hi] at h; simp only [Option.map] at h
      rw [h]
    | none =>
      rw [hi] at h; simp only [Option.map] at h
      rw [h]
      rcases insert_none_anchor m loc hi with ⟨a, rfl, ha⟩ | ⟨a, rfl, ha⟩
      · simp [GenBridge.slots, ha]
      · simp [GenBridge.slots, ha]
  | rem idx =>
    simp only [sourceStep, slotStep]
    by_cases hlt : idx < m.members.length
    · have h1 : idx < (GenBridge.slots m).members.length := hlt
      rw [if_pos h1, if_pos hlt, C02_source_remove m hw idx hlt]; rfl
    · have h1 : ¬ idx < (GenBridge.slots m).members.length := hlt
      rw [if_neg h1, if_neg hlt]

/-- **every history, on the source as translated**: starting from the empty `MultiState`, any sequence of insertions
(any location, any anchor) and removals run through the translated `MultiState::insert` / `remove_idx` never reaches a
panic site other than the documented anchor `unwrap`, and leaves exactly the slot bookkeeping of the model — to which
`C02_history_wf`, `C02_world_history` and the order refinement apply. (Vector lengths are assumed to stay below 2^64.) -/
theorem C02_source_history (t : TermTarget) : ∀ (ops : List SlotOp) (m : Multi), WF m →
    (∀ (k : Nat), ((ops.take k).foldl slotStep m).ordering.length < 2 ^ 64) →
    sourceRun (GenBridge.slots m) ops = some (GenBridge.slots (ops.foldl slotStep m))
  | [], m, _, _ => rfl
  | op :: ops, m, hw, hl => by
    have h0 : m.ordering.length < 2 ^ 64 := by simpa using hl 0
    have hw' : WF (slotStep m op) := by
      cases op with
      | ins loc =>
        simp only [slotStep]; split
        · rename_i m' idx hi; exact (C02_insert_wf m hw loc m' idx hi).1
        · exact hw
      | rem idx =>
        simp only [slotStep]; split
        · rename_i hlt; exact (C02_remove_wf m hw idx hlt).1
        · exact hw
    simp only [sourceRun, sourceStep_eq m hw h0 op, List.foldl_cons]
    exact C02_source_history t ops _ hw' (fun k => by simpa using hl (k + 1))

/-- non-vacuity: a history with slot reuse and a missing anchor, run on the translated functions -/
example : (sourceRun ⟨[], [], []⟩ [.ins .atEnd, .ins (.index 0), .rem 0, .ins (.before 1), .ins (.after 7)]).map (·.ordering) = some [0, 1] := by
  decide

/-! ## Refinement to the documented order -/

/-- the concrete state shows the documented order `spec` under the slot → bar map `owner` -/
structure Refines (m : Multi) (owner : Nat → Nat) (spec : List Nat) : Prop where
  eq : spec = m.ordering.map owner
  inj : ∀ x ∈ m.ordering, ∀ y ∈ m.ordering, owner x = owner y → x = y

/-- the slot → bar map after slot `idx` was given to the new bar `k` -/
def upd (owner : Nat → Nat) (idx k : Nat) : Nat → Nat := fun s => if s = idx then k else owner s

theorem placeOrd_mem (ord : List Nat) (idx : Nat) (loc : InsertLoc) (o : List Nat)
    (h : placeOrd ord idx loc = some o) : ∀ x, x ∈ o → x ∈ ord ∨ x = idx := by
  intro x hx
  unfold placeOrd at h
  cases loc with
  | atEnd => injection h with h; subst h; simpa [List.mem_append] using hx
  | index pos => injection h with h; subst h; exact (mem_insertAt _ _ _ _).mp hx
  | fromBack pos => injection h with h; subst h; exact (mem_insertAt _ _ _ _).mp hx
  | after a =>
    dsimp only at h
    split at h
    · injection h with h; subst h; exact (mem_insertAt _ _ _ _).mp hx
    · cases h
  | before a =>
    dsimp only at h
    split at h
    · injection h with h; subst h; exact (mem_insertAt _ _ _ _).mp hx
    · cases h

theorem place_idx (t : Multi) (idx : Nat) (loc : InsertLoc) (m' : Multi) (i : Nat)
    (h : place t idx loc = some (m', i)) : i = idx := by
  unfold place at h
  cases loc with
  | atEnd => injection h with h; injection h with _ h; exact h.symm
  | index pos => injection h with h; injection h with _ h; exact h.symm
  | fromBack pos => injection h with h; injection h with _ h; exact h.symm
  | after a =>
    dsimp only at h
    split at h
    · injection h with h; injection h with _ h; exact h.symm
    · cases h
  | before a =>
    dsimp only at h
    split at h
    · injection h with h; injection h with _ h; exact h.symm
    · cases h

/-- **`insert` refines the documented insertion**, for every location, every live anchor and every
state reachable with a well-formed partition: the new ordering, read through the slot → bar map, is
exactly what `add / insert / insert_from_back / insert_after / insert_before` document; when the
code panics on an unknown anchor the documented operation is undefined as well. -/
theorem C02_insert_refines (m : Multi) (hw : WF m) (owner : Nat → Nat) (spec : List Nat)
    (r : Refines m owner spec) (k : Nat) (hk : k ∉ spec) (loc : InsertLoc)
    (anchor : ∀ a, (loc = .after a ∨ loc = .before a) → a ∈ m.ordering) :
    match insert m loc with
    | some (m', idx) =>
        specInsert spec (loc.mapAnchor owner) k = some (m'.ordering.map (upd owner idx k)) ∧
        Refines m' (upd owner idx k) (m'.ordering.map (upd owner idx k))
    | none => specInsert spec (loc.mapAnchor owner) k = none := by
  have t := takeSlot_taken m hw
  have hord := place_ordering (takeSlot m).1 (takeSlot m).2 loc
  rw [t.ord_eq] at hord
  have hno : (takeSlot m).2 ∉ m.ordering := by rw [← t.ord_eq]; exact t.idx_not_ord
  have href := placeOrd_refines m.ordering (takeSlot m).2 k owner loc hno r.inj anchor
  rw [← r.eq] at href
  rw [insert_eq_place]
  cases hp : place (takeSlot m).1 (takeSlot m).2 loc with
  | none =>
    rw [hp] at hord
    simp only [Option.map_none] at hord
    rw [← hord] at href
    simpa using href.symm
  | some res =>
    obtain ⟨m', i⟩ := res
    have hi : i = (takeSlot m).2 := place_idx _ _ _ _ _ hp
    subst hi
    rw [hp] at hord
    simp only [Option.map_some] at hord
    rw [← hord] at href
    simp only [Option.map_some] at href
    refine ⟨href.symm, rfl, ?_⟩
    intro x hx y hy hxy
    have hx' := placeOrd_mem _ _ _ _ hord.symm x hx
    have hy' := placeOrd_mem _ _ _ _ hord.symm y hy
    unfold upd at hxy
    by_cases ex : x = (takeSlot m).2 <;> by_cases ey : y = (takeSlot m).2
    · rw [ex, ey]
    · simp only [ex, ey, if_true, if_false] at hxy
      have hy'' : y ∈ m.ordering := by rcases hy' with h | h; exact h; exact absurd h ey
      exact absurd (hxy ▸ (r.eq ▸ List.mem_map_of_mem hy'' : owner y ∈ spec)) hk
    · simp only [ex, ey, if_true, if_false] at hxy
      have hx'' : x ∈ m.ordering := by rcases hx' with h | h; exact h; exact absurd h ex
      exact absurd (hxy ▸ (r.eq ▸ List.mem_map_of_mem hx'' : owner x ∈ spec)) hk
    · simp only [ex, ey, if_false] at hxy
      have hx'' : x ∈ m.ordering := by rcases hx' with h | h; exact h; exact absurd h ex
      have hy'' : y ∈ m.ordering := by rcases hy' with h | h; exact h; exact absurd h ey
      exact r.inj x hx'' y hy'' hxy

/-- **`remove` refines the documented removal**: removing the slot of a live bar removes exactly
that bar from the documented order and keeps the relative order of the others -/
theorem C02_remove_refines (m : Multi) (hw : WF m) (owner : Nat → Nat) (spec : List Nat)
    (r : Refines m owner spec) (idx : Nat) (hlive : idx ∈ m.ordering) :
    Refines (m.removeIdx idx) owner (specRemove spec (owner idx)) := by
  have hf : idx ∉ m.free := hw.disjoint idx hlive
  have hc : m.free.contains idx = false := by simpa using hf
  unfold removeIdx
  simp only [hc, Bool.false_eq_true, if_false]
  constructor
  · unfold specRemove
    rw [r.eq]
    exact (filter_map_owner owner m.ordering idx (fun x hx e => r.inj x hx idx hlive e)).symm
  · intro x hx y hy
    exact r.inj x (List.mem_filter.mp hx).1 y (List.mem_filter.mp hy).1

end IndicatifModel.Multi

/-! ## Row level (`Model/Rows.lean`, the model the `ROWS` stream validates against the terminal)

`scr` is the ghost screen; the last `n` rows of it are the region the `MultiProgress` manages. -/
namespace IndicatifModel.Rows

/-- **A painted frame shows exactly the current members, each with its stored rendering, in visual
order**: whatever the state before, after `paint` the managed region (the last `n` rows of the screen) is
the concatenation, along `ordering`, of the members' stored lines — nothing else is in it, nothing is
missing from it, and every bar's painted rows are its stored rows. -/
theorem C02_painted_frame_is_members_in_order (w : RW) (extra : List Row) :
    let w' := paint w extra
    w'.n ≤ w'.scr.length ∧ w'.scr.drop (w'.scr.length - w'.n) = linesOf w' w'.ordering ∧
    (∀ k, (w'.barAt k).painted = (w'.barAt k).lines) := by
  obtain ⟨_, h2, h3, h4, _⟩ := paint_frame w extra
  exact ⟨h2, h3, h4⟩

/-- **For every history** (any interleaving of additions at any position, removals, updates, finishes,
drops, log lines, clears, suspends, time steps and limiter decisions) that is `CleanRunF` (no output of a
*detached* bar's `suspend` closure below a frame — that output is not the multi's), started from the
empty `MultiProgress`: whenever the frame is not marked stale, the managed region is exactly the rows
that the members of `ordering` painted last, in visual order; and a finished member's painted rows are
its stored rows (its last rendering stays as it is). -/
theorem C02_managed_region_every_history (lim : Option (Limiter.Cfg × Limiter.St)) (now : Nat) (ops : List MOp)
    (hc : CleanRunF { limiter := lim, now := now } ops) :
    let w := run { limiter := lim, now := now } ops
    (w.stale = false → w.n ≤ w.scr.length ∧ w.scr.drop (w.scr.length - w.n) = paintedOf w w.ordering) ∧
    (∀ k, k < w.bars.length → (w.barAt k).b.finished = true → (w.barAt k).member = true →
      (w.barAt k).painted = (w.barAt k).lines) := by
  intro w
  have h := frameOk_run ops _ (frameOk_init lim now) hc
  exact ⟨h.frame, h.synced⟩

/-- the state `MultiState::remove` builds before its forced redraw -/
def detach (w : RW) (k : Nat) : RW :=
  { w with bars := w.bars.modify k (fun rb => { rb with member := false }),
           ordering := w.ordering.filter (· ≠ k), stale := true }

theorem allow_ordering (w : RW) (f : Bool) : (allow w f).2.ordering = w.ordering := by
  unfold allow; split
  · rfl
  · split <;> rfl

/-- **A removed bar leaves the frame at once**: `MultiProgress::remove` takes the bar out of `ordering`
and repaints (forced), so the managed region after the call is built from the other members only. -/
theorem C02_removed_bar_not_in_frame (w : RW) (k : Nat) (hp : w.panicked = false) (hk : k < w.bars.length)
    (hm : (w.barAt k).member = true) :
    let w' := step w (.remove k)
    k ∉ w'.ordering ∧ w'.stale = false ∧ w'.scr.drop (w'.scr.length - w'.n) = linesOf w' w'.ordering := by
  intro w'
  have hk' : ¬ (k ≥ w.bars.length ∨ (!(w.barAt k).member) = true) := by
    rw [hm]; simp; omega
  have e : w' = draw (detach w k) true [] := by
    show step w (.remove k) = _
    simp only [step, hp, Bool.false_eq_true, if_false, hk', detach]
  rcases draw_cases (detach w k) true [] with ⟨_, hf, _⟩ | hpaint
  · cases hf
  · rw [e, hpaint]
    obtain ⟨h1, _, h3, _⟩ := paint_frame (allow (detach w k) (true || decide ((detach w k).orphan ≠ []))).2 []
    refine ⟨?_, h1, h3⟩
    intro hin
    have hsub : k ∈ (allow (detach w k) (true || decide ((detach w k).orphan ≠ []))).2.ordering := by
      simp only [paint] at hin
      exact List.mem_of_mem_drop hin
    rw [allow_ordering] at hsub
    simp [detach] at hsub

/-- non-vacuity: a history with three bars (one inserted in front), a removal and a finish is clean; its
final managed region is the two remaining members in visual order -/
example :
    let ops : List MOp := [.add 0 0 (some 10) 1 .andLeave [⟨65, 1⟩], .add 0 0 (some 10) 1 .andLeave [⟨66, 1⟩],
      .add 1 0 (some 10) 1 .andLeave [⟨67, 1⟩], .bar 0 .tick, .bar 1 .tick, .bar 2 .tick, .remove 0,
      .bar 1 (.finish .andLeave)]
    CleanRunF {} ops ∧ (run {} ops).ordering = [2, 1] ∧ (run {} ops).stale = false ∧ (run {} ops).n = 2 := by
  refine ⟨⟨trivial, trivial, trivial, trivial, trivial, trivial, trivial, trivial, trivial⟩, ?_, ?_, ?_⟩ <;> decide +kernel

/-! ### Concurrent updates: every frame shows states the bars really had, never older ones than before

Calls from several threads are serialised by the bar and multi locks (C08), so a concurrent execution is one of the serial
histories below; a painted frame shows each member's stored lines (`C02_painted_frame_is_members_in_order`). -/

/-- one step, any operation: every bar's stored lines are kept, or become the rendering of the state the bar has now -/
theorem C02_stored_lines_kept_or_current (w : RW) (op : MOp) (k : Nat) :
    ((step w op).barAt k).lines = (w.barAt k).lines ∨ ((step w op).barAt k).lines = barRows ((step w op).barAt k) :=
  step_kr w op k

/-- **every history**: what bar `k`'s slot holds after `ops` — and what every later painted frame shows for it until its
next draw request — is the rendering of the state `k` had right after step number `stamp` (its own lines of the initial
world if no step changed them); `stamp` is a step of the history, so the state is one the bar really had -/
theorem C02_frames_show_states_the_bars_had (w0 : RW) (ops : List MOp) (k : Nat) :
    stamp k w0 ops 1 0 ≤ ops.length ∧
    ((run w0 ops).barAt k).lines =
      (if stamp k w0 ops 1 0 = 0 then (w0.barAt k).lines else barRows ((run w0 (ops.take (stamp k w0 ops 1 0))).barAt k)) := by
  have h1 := stamp_ge k ops w0 1 0 (by omega)
  have h2 := stamp_spec k w0 ops [] 0 (Nat.le_refl _) (by simp [run])
  simp only [List.nil_append, List.length_nil, Nat.zero_add, run, List.foldl_nil] at h2
  exact ⟨by omega, h2⟩

/-- **never older than the one shown before**: the step whose state is shown only moves forward as the history goes on -/
theorem C02_shown_state_never_older (w0 : RW) (ops more : List MOp) (k : Nat) :
    stamp k w0 ops 1 0 ≤ stamp k w0 (ops ++ more) 1 0 := by
  rw [stamp_append]
  exact (stamp_ge k more (run w0 ops) (1 + ops.length) _ (by have := stamp_ge k ops w0 1 0 (by omega); omega)).1

/-- **the last frame shows the final states**: a finishing call of a member refreshes its slot with the rendering of the
final state and paints (`C04_member_finish_paints_final`); here: after `finish*` the slot holds the current rendering -/
theorem C02_finish_refreshes_slot (w : RW) (k : Nat) (f : Finish) (hk : k < w.bars.length) (hm : (w.barAt k).member = true) :
    ((finishWith w k (w.barAt k).b f).barAt k).lines = barRows ((finishWith w k (w.barAt k).b f).barAt k) := by
  unfold finishWith
  obtain ⟨hb, hl⟩ := barDraw_lines (setBar w k (finalBar (w.barAt k).b f)) k true [] k
  have hmem : ((setBar w k (finalBar (w.barAt k).b f)).barAt k).member = true := by
    rw [(setBar_barAt w k _ k).2.2.1]; exact hm
  rcases hl with h | ⟨_, h⟩
  · -- the draw request of a member always stores: the "kept" alternative means the stored lines already were the rendering
    unfold barDraw at h ⊢
    simp only [hmem, Bool.not_true, Bool.false_eq_true, if_false] at h ⊢
    have hd := draw_same (store (setBar w k (finalBar (w.barAt k).b f)) k (barRows ((setBar w k (finalBar (w.barAt k).b f)).barAt k)) [])
      (true || ((setBar w k (finalBar (w.barAt k).b f)).barAt k).b.finished) [] k
    have e : (store (setBar w k (finalBar (w.barAt k).b f)) k (barRows ((setBar w k (finalBar (w.barAt k).b f)).barAt k)) []).barAt k
        = { (setBar w k (finalBar (w.barAt k).b f)).barAt k with lines := barRows ((setBar w k (finalBar (w.barAt k).b f)).barAt k) } := by
      have := barAt_modify (setBar w k (finalBar (w.barAt k).b f)).bars k k
        (fun rb => { rb with lines := barRows ((setBar w k (finalBar (w.barAt k).b f)).barAt k) })
      have hk' : k < (setBar w k (finalBar (w.barAt k).b f)).bars.length := by simp [setBar]; exact hk
      rw [if_pos ⟨rfl, hk'⟩] at this
      exact this
    rw [hd.1, e]
    apply barRows_congr
    rw [hd.2, e]
  · rw [h]; exact barRows_congr hb.symm

/-- **the source as regenerated** (`tools/gen_finish.py`): `BarState::draw` forces the draw of a finished bar, so what a finished
member has stored is what the screen shows — the hypothesis under which `mark_zombie` may keep the rows of a dropped first bar by
counting its stored lines (`C02_stored_lines_kept_or_current`). -/
theorem C02_source_finished_draws_forced : Generated.drawForcesFinished = true ∧ Generated.dropAsTranscribed = true := by decide

end IndicatifModel.Rows
