import IndicatifModel.Props.C01
import IndicatifModel.Proofs.Raw
import IndicatifModel.Proofs.Rows
/-!
# C03 — printed log lines are never erased, duplicated or reordered

Two layers (DESIGN.md section 3).

* **Layer 1, every history** (`Model/Rows.lean`, validated against the crate by the `ROWS` stream):
  `MultiState`'s row accounting — `last_line_count`, `zombie_lines_count`, `Keep`/`Clear`, orphan lines,
  reaping, `frame_stale`, the refresh limiter — never lets an operation erase a row above the last
  `z + n` rows, for every history of add / insert* / remove / tick / inc / set_* / println / suspend / reset /
  finish* / abandon* / drop / clear operations on any number of bars and every limiter state; and every
  line printed is appended to what is above. (`C03_rows_above_never_touched`, `C03_log_preserved`,
  `C03_println_logged`.)
* **Layer 2, one redraw** (`Model/Term.lean` + `Model/DrawTarget.lean`): what `draw_to_term` with erase
  count `n` does to the rows of the terminal (`C03_redraw_keeps_rows_above_partial`; `_partial`: glyph
  widths ≤ 1, frame fits, top alignment).

What separates the two: Layer 1 takes for granted that a draw with erase count `n` erases exactly the last
`n` rows and appends text and frame, which Layer 2 proves per redraw under its hypotheses and the `ROWS`
correspondence checks on the real terminal when no line wraps.
-/
namespace IndicatifModel

/-- one redraw erases exactly the last `n` rows: all rows above them — in particular every log line
printed so far — are still there, in the same order, followed by the new text lines and then the
new frame -/
theorem C03_redraw_keeps_rows_above_partial (t : Term) (pre : List Row) (n : Nat) (r : Req)
    (hs : CanDraw t pre n) (hfit : (wrapAll t.W r.bars).length ≤ t.H)
    (hF4 : n = 0 → t.c ≠ 0 → firstNonEmpty r.lines) :
    ∃ pre' : List Row, Scr (drawReq t n r).1 pre' ∧
      norm pre' = norm (pre.take (pre.length - n)) ++ norm (wrapAll t.W r.texts) ++ norm (wrapAll t.W r.bars) ∧
      (drawReq t n r).2 = (wrapAll t.W r.bars).length := by
  obtain ⟨pre', h1, h2, _, h4, _⟩ := drawReq_raw t pre n r hs hfit hF4
  exact ⟨pre', h1, h2, h4⟩

end IndicatifModel

namespace IndicatifModel.Rows

/-- **C03, every history: rows above the managed region are never touched.** Start with a fresh
`MultiProgress` (any refresh limiter). After any history of operations, the rows above the managed
region (`safe`) are those of any earlier moment followed by more rows, and so is the log: nothing above
the last `z + n` rows is ever erased, overwritten or reordered — also when draws are skipped by the
limiter, bars finish and are dropped in any order, and frames are invalidated by `clear` / `remove`. -/
theorem C03_rows_above_never_touched (lim : Option (Limiter.Cfg × Limiter.St)) (now : Nat) (pre post : List MOp)
    (hc : CleanRun { limiter := lim, now := now } (pre ++ post)) :
    let w1 := run { limiter := lim, now := now } pre
    let w2 := run { limiter := lim, now := now } (pre ++ post)
    (∃ X, safe w2 = safe w1 ++ X) ∧ (∃ Y, w2.log = w1.log ++ Y) := by
  intro w1 w2
  have hsplit : ∀ (ops1 ops2 : List MOp) (w : RW), CleanRun w (ops1 ++ ops2) → CleanRun w ops1 ∧ CleanRun (run w ops1) ops2 := by
    intro ops1
    induction ops1 with
    | nil => intro ops2 w h; exact ⟨trivial, h⟩
    | cons o os ih =>
      intro ops2 w h
      obtain ⟨h1, h2⟩ := h
      obtain ⟨i1, i2⟩ := ih ops2 (step w o) h2
      exact ⟨⟨h1, i1⟩, by simpa [run] using i2⟩
  obtain ⟨hc1, hc2⟩ := hsplit pre post _ hc
  have g1 := run_good pre _ (init_inv lim now) hc1
  have g2 := run_good post w1 g1.1 hc2
  have hrun : w2 = run w1 post := by simp [w1, w2, run, List.foldl_append]
  rw [hrun]
  exact g2.2

/-- **C03, every history: every printed line is on the screen, in order, above the managed region.** -/
theorem C03_log_preserved (lim : Option (Limiter.Cfg × Limiter.St)) (now : Nat) (ops : List MOp)
    (hc : CleanRun { limiter := lim, now := now } ops) :
    let w := run { limiter := lim, now := now } ops
    w.z + w.n ≤ w.scr.length ∧ w.log.Sublist (w.scr.take (w.scr.length - (w.z + w.n))) := by
  have g := run_good ops _ (init_inv lim now) hc
  exact ⟨g.1.fits, g.1.log_safe⟩

/-- `MultiProgress::println` always prints: whatever the limiter state, its lines — as the rows they wrap to at the terminal
width — (and any text queued by `ProgressBar::println`) are appended to the log by the call itself -/
theorem C03_println_logged (w : RW) (t : Text) (hp : w.panicked = false) :
    (step w (.mpPrintln t)).log = w.log ++ (textRowsW w.wrapW t ++ w.orphan) := by
  simp only [step, hp, Bool.false_eq_true, if_false]
  exact draw_forced_log w (textRowsW w.wrapW t)

/-- … and so does `ProgressBar::println` of a member bar -/
theorem C03_bar_println_logged (w : RW) (k : Nat) (t : Text) (hk : k < w.bars.length)
    (ha : (w.barAt k).alive = true) (hm : (w.barAt k).member = true) :
    (barStep w k (.println t)).log = w.log ++ (w.orphan ++ textRowsW w.wrapW t) := by
  have hk' : ¬ k ≥ w.bars.length := by omega
  simp only [barStep, hk', if_false, ha, hm, Bool.not_true, Bool.false_eq_true, barDraw, Bool.true_or]
  rw [draw_forced_log]
  simp [store]

/-- non-vacuity: a concrete history (two log lines, a bar that ticks, finishes and is dropped, a third log
line) is clean and ends with all three lines in the log and on the screen above the managed rows -/
example :
    let l (c : Nat) : Text := [⟨108, 1⟩, ⟨c, 1⟩]
    let ops : List MOp := [.mpPrintln (l 49), .mpPrintln (l 50),
      .add 0 0 (some 10) 1 .andLeave [⟨65, 1⟩], .bar 0 .tick, .bar 0 (.finish .andLeave), .bar 0 .drop,
      .mpPrintln (l 51)]
    CleanRun {} ops ∧ (run {} ops).log = [l 49, l 50, l 51] ∧ (run {} ops).scr = [l 49, l 50, l 51] := by
  refine ⟨⟨trivial, trivial, trivial, trivial, trivial, trivial, trivial, trivial⟩, ?_, ?_⟩ <;> decide +kernel

/-- non-vacuity with wrapping: on a terminal of 3 columns a five-column log line and a bar whose rendering is six columns wide
take two rows each; after the bar is finished and dropped and another line is printed, every row is where it belongs -/
example :
    let l (cs : List Nat) : Text := cs.map (fun c => ⟨c, 1⟩)
    let ops : List MOp := [.mpPrintln (l [104, 101, 108, 108, 111]),
      .add 0 0 (some 10) 1 .andLeave (l [65]), .bar 0 .tick, .bar 0 (.finish .andLeave), .bar 0 .drop, .mpPrintln (l [120])]
    CleanRun { wrapW := 3 } ops ∧
    (run { wrapW := 3 } ops).log = [l [104, 101, 108], l [108, 111], l [120]] ∧
    ((run { wrapW := 3 } ops).scr.take 2 = [l [104, 101, 108], l [108, 111]]) := by
  refine ⟨⟨trivial, trivial, trivial, trivial, trivial, trivial, trivial⟩, ?_, ?_⟩ <;> decide +kernel

end IndicatifModel.Rows

/-! ## A single bar: every printed line is on the terminal once, in order, above the frame -/
namespace IndicatifModel
open Term

theorem printing_emits (b : Bar) (tt : TermTarget) (h : b.target = some tt) (now : Nat) (op : BarOp)
    (hp : printedBy op ≠ []) : (b.step now op).2 ≠ [] := by
  cases op with
  | println t => simp only [Bar.step, h]; exact drawToTerm_ne_nil _ _ _ _ _
  | suspend out =>
    simp only [Bar.step, h]
    exact List.append_ne_nil_of_left_ne_nil (List.append_ne_nil_of_left_ne_nil (drawToTerm_ne_nil _ _ _ _ _) _) _
  | _ => exact absurd rfl hp

/-- **C03 for a single bar.** Under the hypotheses of `C01_bar_history`: after every history of bar operations the log the terminal
shows above the frame (`C01_bar_history`: rows = log ++ frame, in this order) is exactly the concatenation, in emission order,
of everything printed by `println` and written by `suspend` closures — every line once, none lost to a later draw, tick,
finish, reset or drop, whatever the limiter skipped -/
theorem C03_bar_log (fx : Fixes) (W H : Nat) (hW : 0 < W) (hH : 0 < H) (b0 : Bar) (tt0 : TermTarget)
    (hb : b0.target = some tt0) (hT : TInv W H fx tt0) (hllc : tt0.llc = 0) (ops : List (Nat × BarOp))
    (hok : OkRun W H { bar := b0, term := Term.init W H } ops) :
    let w := ops.foldl BarWorld.step { bar := b0, term := Term.init W H }
    w.logs = (ops.map (fun p => printedBy p.2)).flatten ∧ BInv W H fx w.bar w.term w.logs w.frame := by
  have key : ∀ (ops : List (Nat × BarOp)) (w : BarWorld), BInv W H fx w.bar w.term w.logs w.frame → OkRun W H w ops →
      (ops.foldl BarWorld.step w).logs = w.logs ++ (ops.map (fun p => printedBy p.2)).flatten ∧
      BInv W H fx (ops.foldl BarWorld.step w).bar (ops.foldl BarWorld.step w).term (ops.foldl BarWorld.step w).logs
        (ops.foldl BarWorld.step w).frame := by
    intro ops
    induction ops with
    | nil => intro w h _; exact ⟨by simp, h⟩
    | cons p ps ih =>
      intro w h hr
      have hs : (w.step p).logs = w.logs ++ printedBy p.2 ∧ BInv W H fx (w.step p).bar (w.step p).term (w.step p).logs (w.step p).frame := by
        rcases step_binv W H fx hW w.bar w.term w.logs w.frame p.1 p.2 h hr.1 with ⟨he, hB⟩ | ⟨hne, hB⟩
        · have hp : printedBy p.2 = [] := by
            by_cases hp : printedBy p.2 = []
            · exact hp
            · obtain ⟨tt, htt, _, _⟩ := h
              exact absurd he (printing_emits w.bar tt htt p.1 p.2 hp)
          refine ⟨by simp only [BarWorld.step, he, if_true, hp, List.append_nil], ?_⟩
          simpa [BarWorld.step, he, Term.execAll] using hB
        · exact ⟨by simp only [BarWorld.step, hne, if_false], by simpa only [BarWorld.step, hne, if_false] using hB⟩
      obtain ⟨h1, h2⟩ := ih (w.step p) hs.2 hr.2
      refine ⟨?_, h2⟩
      simp only [List.foldl_cons, List.map_cons, List.flatten_cons]
      rw [h1, hs.1, List.append_assoc]
  have := key ops { bar := b0, term := Term.init W H } ⟨tt0, hb, hT, by rw [hllc]; exact init_integrity W H hW hH⟩ hok
  simpa using this

end IndicatifModel
