import IndicatifModel.Proofs.Raw
/-!
# C03 — printed log lines are never erased, duplicated or reordered (one redraw, terminal level)

`_partial`: this is the Layer-2 half — what one redraw with erase count `n` does to the rows of
the terminal.  The Layer-1 half (that `MultiState` always passes an `n` equal to the number of rows
of zombie and frame lines below the log, for every history) is stated in DESIGN.md and proved so
far only on the abstract prototype of the repaired semantics.
-/
namespace IndicatifModel

/-- one redraw erases exactly the last `n` rows: all rows above them — in particular every log line
printed so far — are still there, in the same order, followed by the new text lines and then the
new frame -/
theorem C03_redraw_keeps_rows_above_partial (t : Term) (pre : List Row) (n : Nat) (r : Req)
    (hs : CanDraw t pre n) (hfit : (wrapAll t.W r.bars).length ≤ t.H)
    (hF4 : n = 0 → t.c ≠ 0 → firstNonEmpty r.lines) :
    ∃ pre' : List Row, Scr (drawReq t n r).1 pre' ∧
      norm pre' = norm (pre.take (pre.length - n)) ++ norm (wrapAll t.W r.texts) ++ norm (wrapAll t.W r.bars) ∧
      (drawReq t n r).2 = (wrapAll t.W r.bars).length := by
  obtain ⟨pre', h1, h2, _, h4, _⟩ := drawReq_raw t pre n r hs hfit hF4
  exact ⟨pre', h1, h2, h4⟩

end IndicatifModel
