import IndicatifModel.Model.Bar
/-!
# C04 — finishing or dropping always paints the final state (single bar, model level)
-/
namespace IndicatifModel

/-- the logical effect of a finish kind -/
def finalState (b : Bar) (f : Finish) : Bar :=
  let b := { b with status := .doneVisible }
  let toLen (b : Bar) : Bar := match b.len with | some l => { b with pos := l } | none => b
  match f with
  | .andLeave => toLen b
  | .withMessage m => { toLen b with msg := m }
  | .andClear => { toLen b with status := .doneHidden }
  | .abandon => b
  | .abandonWithMessage m => { b with msg := m }

theorem finalState_finished (b : Bar) (f : Finish) : (finalState b f).finished = true := by
  unfold finalState Bar.finished
  cases f <;> cases b.len <;> simp

theorem finalState_target (b : Bar) (f : Finish) : (finalState b f).target = b.target := by
  unfold finalState
  cases f <;> simp only [] <;> (try split) <;> rfl

/-- position after a finish: the length for the finishing kinds (when there is one), unchanged for
the abandoning kinds -/
theorem finalState_pos (b : Bar) (f : Finish) :
    (finalState b f).pos = match f with
      | .abandon | .abandonWithMessage _ => b.pos
      | _ => b.len.getD b.pos := by
  unfold finalState
  cases f <;> simp only [] <;> cases b.len <;> rfl

/-- **C04, single bar**: whatever the limiter state and however recently the bar was drawn, a
finish paints exactly one frame — the rendering of the final state (no line at all for the clearing
kind) drawn over the previous frame — and leaves the bar finished. -/
theorem C04_finish_paints (b : Bar) (now : Nat) (f : Finish) (tt : TermTarget) (h : b.target = some tt) :
    let fin := finalState b f
    let lines := if fin.status = .doneHidden then [] else formatState fin
    let ds := { tt.ds with lines := lines }
    (b.finishUsing now f).2 = (drawToTerm tt.fx ds tt.W tt.H tt.llc).1 ∧
    (b.finishUsing now f).1.finished = true ∧
    (b.finishUsing now f).1.pos = fin.pos ∧ (b.finishUsing now f).1.msg = fin.msg := by
  have hfin : b.finishUsing now f = (finalState b f).draw true now := by
    unfold Bar.finishUsing finalState; rfl
  have ht : (finalState b f).target = some tt := by rw [finalState_target, h]
  simp only [hfin]
  unfold Bar.draw
  simp only [ht, Bool.true_or, TermTarget.drawable, if_true, Bool.not_true, Bool.false_eq_true, if_false]
  exact ⟨trivial, finalState_finished b f, trivial, trivial⟩

/-- dropping the last handle of an unfinished bar is `finish_using_style`; dropping a finished bar
does nothing at all -/
theorem C04_drop (b : Bar) (now : Nat) :
    b.step now .drop = if b.finished then (b, []) else b.finishUsing now b.onFinish := rfl

/-- the clearing kind paints no bar line -/
theorem C04_clear_paints_nothing (b : Bar) : (finalState b .andClear).status = .doneHidden := by
  unfold finalState; cases b.len <;> rfl

end IndicatifModel
