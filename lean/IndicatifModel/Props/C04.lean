import IndicatifModel.Model.Bar
import IndicatifModel.Proofs.Rows
import IndicatifModel.Proofs.BarReq
import IndicatifModel.Generated.FinishArms
/-!
# C04 — finishing or dropping always paints the final state (single bar, model level)
-/
namespace IndicatifModel

/-- the logical effect of a finish kind -/
def finalState (b : Bar) (f : Finish) : Bar :=
  let b := { b with status := .doneVisible }
  let toLen (b : Bar) : Bar := match b.len with | some l => { b with pos := l } | none => b
  match f with
  | .andLeave => toLen b
  | .withMessage m => { toLen b with msg := m }
  | .andClear => { toLen b with status := .doneHidden }
  | .abandon => b
  | .abandonWithMessage m => { b with msg := m }

theorem finalState_finished (b : Bar) (f : Finish) : (finalState b f).finished = true := by
  unfold finalState Bar.finished
  cases f <;> cases b.len <;> simp

theorem finalState_target (b : Bar) (f : Finish) : (finalState b f).target = b.target := by
  unfold finalState
  cases f <;> simp only [] <;> (try split) <;> rfl

/-- position after a finish: the length for the finishing kinds (when there is one), unchanged for
the abandoning kinds -/
theorem finalState_pos (b : Bar) (f : Finish) :
    (finalState b f).pos = match f with
      | .abandon | .abandonWithMessage _ => b.pos
      | _ => b.len.getD b.pos := by
  unfold finalState
  cases f <;> simp only [] <;> cases b.len <;> rfl

/-- **C04, single bar**: whatever the limiter state and however recently the bar was drawn, a
finish paints exactly one frame — the rendering of the final state (no line at all for the clearing
kind) drawn over the previous frame — and leaves the bar finished. -/
theorem C04_finish_paints (b : Bar) (now : Nat) (f : Finish) (tt : TermTarget) (h : b.target = some tt) :
    let fin := finalState b f
    let lines := if fin.status = .doneHidden then [] else formatState fin
    let ds := { tt.ds with lines := lines }
    (b.finishUsing now f).2 = (drawToTerm tt.fx ds tt.W tt.H tt.llc).1 ∧
    (b.finishUsing now f).1.finished = true ∧
    (b.finishUsing now f).1.pos = fin.pos ∧ (b.finishUsing now f).1.msg = fin.msg := by
  have hfin : b.finishUsing now f = (finalState b f).draw true now := by
    unfold Bar.finishUsing finalState; rfl
  have ht : (finalState b f).target = some tt := by rw [finalState_target, h]
  simp only [hfin]
  unfold Bar.draw
  simp only [ht, Bool.true_or, TermTarget.drawable, if_true, Bool.not_true, Bool.false_eq_true, if_false]
  exact ⟨trivial, finalState_finished b f, trivial, trivial⟩

/-- dropping the last handle of an unfinished bar is `finish_using_style`; dropping a finished bar
does nothing at all -/
theorem C04_drop (b : Bar) (now : Nat) :
    b.step now .drop = if b.finished then (b, []) else b.finishUsing now b.onFinish := rfl

/-- the clearing kind paints no bar line -/
theorem C04_clear_paints_nothing (b : Bar) : (finalState b .andClear).status = .doneHidden := by
  unfold finalState; cases b.len <;> rfl

/-- **C04 on the terminal.** Whatever the limiter and the position gate say and however recently the bar was drawn, a
finishing call on a bar whose terminal is in the redraw-integrity state completes a draw; afterwards the rows down to the cursor
are the printed lines followed by the rendering of the final state — position at the length for the finishing kinds, unchanged
for the abandoning ones, the supplied message, no line at all for the clearing kind (`C04_finish_paints`, `finalState_pos`,
`C04_clear_paints_nothing`) — with no remnant of the previous frame. (Scope as in `C01_bar_history`: unit-width glyphs, the
final frame fits and does not start with an empty line.) -/
theorem C04_finish_on_terminal (W H : Nat) (fx : Fixes) (hW : 0 < W) (b : Bar) (t : Term) (logs frame : List (List Nat))
    (now : Nat) (f : Finish) (hB : BInv W H fx b t logs frame) (hF : FrameOk W H (b.finishUsing now f).1) :
    (b.finishUsing now f).2 ≠ [] ∧ (b.finishUsing now f).1.finished = true ∧
    BInv W H fx (b.finishUsing now f).1 (t.execAll (b.finishUsing now f).2) logs (frameRows (b.finishUsing now f).1) := by
  obtain ⟨h1, h2⟩ := finish_binv W H fx hW b t logs frame now f hB hF
  obtain ⟨tt, htt, _, _⟩ := hB
  exact ⟨h1, (C04_finish_paints b now f tt htt).2.1, h2⟩

end IndicatifModel

/-! ## Row level: members of a `MultiProgress` (`Model/Rows.lean`, validated by the `ROWS` stream) -/
namespace IndicatifModel.Rows

theorem store_lines_self (w : RW) (k : Nat) (rows text : List Row) (hk : k < w.bars.length) :
    ((store w k rows text).barAt k).lines = rows := by
  have e : (store w k rows text).barAt k = if k = k ∧ k < w.bars.length then { w.barAt k with lines := rows } else w.barAt k :=
    barAt_modify w.bars k k _
  rw [e, if_pos ⟨rfl, hk⟩]

theorem allow_barAt (w : RW) (f : Bool) (j : Nat) : (allow w f).2.barAt j = w.barAt j := by
  simp only [RW.barAt, allow_bars]

/-- **Finishing a member bar paints its final state, whatever the limiter says**: for every state of the
`MultiProgress` (any limiter state, any number of other bars, stale or not), `finish*` on a live member
bar ends with a frame that is not stale, whose managed region is every member's stored rendering in
visual order, and in which this bar's stored and painted rows are the rendering of its final state. -/
theorem C04_member_finish_paints_final (w : RW) (k : Nat) (f : Finish) (hk : k < w.bars.length)
    (ha : (w.barAt k).alive = true) (hm : (w.barAt k).member = true) :
    let w' := barStep w k (.finish f)
    let fb : RBar := { w.barAt k with b := finalBar (w.barAt k).b f }
    w'.stale = false ∧ w'.scr.drop (w'.scr.length - w'.n) = linesOf w' w'.ordering ∧
    (w'.barAt k).lines = barRows fb ∧ (w'.barAt k).painted = barRows fb ∧ (w'.barAt k).b.finished = true := by
  intro w' fb
  have hk' : ¬ k ≥ w.bars.length := by omega
  have hsb : (setBar w k (finalBar (w.barAt k).b f)).barAt k = fb := by
    have e : (setBar w k (finalBar (w.barAt k).b f)).barAt k =
        if k = k ∧ k < w.bars.length then { w.barAt k with b := finalBar (w.barAt k).b f } else w.barAt k := barAt_modify w.bars k k _
    rw [e, if_pos ⟨rfl, hk⟩]
  have hmem : ((setBar w k (finalBar (w.barAt k).b f)).barAt k).member = true := by rw [hsb]; exact hm
  have e : w' = draw (store (setBar w k (finalBar (w.barAt k).b f)) k (barRows fb) []) true [] := by
    show barStep w k (.finish f) = _
    have hfm : (!fb.member) = false := by rw [← hsb, hmem]; rfl
    simp only [barStep, hk', if_false, ha, Bool.not_true, Bool.false_eq_true, finishWith, barDraw, hsb, Bool.true_or, hfm]
  rcases draw_cases (store (setBar w k (finalBar (w.barAt k).b f)) k (barRows fb) []) true [] with ⟨_, hf, _⟩ | hp
  · cases hf
  · obtain ⟨h1, _, h3, h4, h5, h6, _⟩ := paint_frame (allow (store (setBar w k (finalBar (w.barAt k).b f)) k (barRows fb) [])
        (true || decide ((store (setBar w k (finalBar (w.barAt k).b f)) k (barRows fb) []).orphan ≠ []))).2 []
    have hl : (w'.barAt k).lines = barRows fb := by
      rw [e, hp, h5 k, allow_barAt]
      exact store_lines_self _ k _ _ (by simpa [setBar] using hk)
    refine ⟨by rw [e, hp]; exact h1, by rw [e, hp]; exact h3, hl, ?_, ?_⟩
    · rw [← hl, e, hp]; exact h4 k
    · rw [e, hp, (h6 k).1, allow_barAt, (store_barAt _ k _ _ k).2.1, hsb]
      exact finalBar_finished _ f

/-- **Finished members keep their last rendering, for every history**: after any clean history from the
empty `MultiProgress`, while the frame is not stale every finished member that is still in `ordering`
has its stored rows — the rendering of its final state painted by the finishing call or a later redraw —
inside the managed region, between the rows of the members before and after it. -/
theorem C04_finished_rows_remain (lim : Option (Limiter.Cfg × Limiter.St)) (now : Nat) (ops : List MOp)
    (hc : CleanRunF { limiter := lim, now := now } ops) :
    let w := run { limiter := lim, now := now } ops
    ∀ pre k post, w.ordering = pre ++ k :: post → k < w.bars.length → (w.barAt k).b.finished = true →
      (w.barAt k).member = true → w.stale = false →
      w.scr.drop (w.scr.length - w.n) = paintedOf w pre ++ (w.barAt k).lines ++ paintedOf w post := by
  intro w pre k post ho hk hf hm hs
  have h := frameOk_run ops _ (frameOk_init lim now) hc
  rw [(h.frame hs).2, ho, paintedOf_append, ← h.synced k hk hf hm]
  simp only [paintedOf, List.flatMap_cons, List.append_assoc]
  rfl

/-! ## the finishing function as the source has it (`tools/gen_finish.py`, regenerated on every run) -/

def variantName : Finish → String
  | .andLeave => "AndLeave" | .withMessage _ => "WithMessage" | .andClear => "AndClear"
  | .abandon => "Abandon" | .abandonWithMessage _ => "AbandonWithMessage"

/-- what an arm of `match finish` does, read from its flags: (carries a message, position to the length, message replaced, hidden) -/
def applyArm (b : Bar) (f : Finish) (arm : String × Bool × Bool × Bool × Bool) : Bar :=
  let b := { b with status := .doneVisible }
  let b := if arm.2.2.1 then (match b.len with | some l => { b with pos := l } | none => b) else b
  let b := if arm.2.2.2.1 then (match f with | .withMessage m => { b with msg := m } | .abandonWithMessage m => { b with msg := m } | _ => b) else b
  if arm.2.2.2.2 then { b with status := .doneHidden } else b

/-- **the source as regenerated**: `BarState::finish_using_style` marks the bar `DoneVisible`, runs the arm of the finish behaviour —
read off the source: whether it moves the position to the length, replaces the message, hides the bar — and ends with a *forced*
draw; for every bar, instant and finish behaviour that is exactly the model's `Bar.finishUsing`, which the C04 theorems are about.
An arm that stops moving the position, a finish that no longer forces its draw, a new variant: the table or the generator's frame
check changes and this theorem is no longer checked. -/
theorem C04_source_finish (b : Bar) (now : Nat) (f : Finish) :
    ∃ arm ∈ Generated.finishArms, arm.1 = variantName f ∧ Bar.finishUsing b now f = (applyArm b f arm).draw true now := by
  cases f with
  | andLeave => exact ⟨("AndLeave", false, true, false, false), by decide, rfl, by cases hl : b.len <;> simp [Bar.finishUsing, applyArm, hl]⟩
  | withMessage m => exact ⟨("WithMessage", true, true, true, false), by decide, rfl, by cases hl : b.len <;> simp [Bar.finishUsing, applyArm, hl]⟩
  | andClear => exact ⟨("AndClear", false, true, false, true), by decide, rfl, by cases hl : b.len <;> simp [Bar.finishUsing, applyArm, hl]⟩
  | abandon => exact ⟨("Abandon", false, false, false, false), by decide, rfl, by simp [Bar.finishUsing, applyArm]⟩
  | abandonWithMessage m => exact ⟨("AbandonWithMessage", true, false, true, false), by decide, rfl, by simp [Bar.finishUsing, applyArm]⟩

/-- **the source as regenerated**: the three statements of `BarState::draw` and the body of `Drop for BarState` that the bar model
transcribes are in the source as transcribed — a draw of a finished bar is always forced (`Bar.draw`: `force || b.finished`; the
zombie accounting of a MultiProgress relies on it: what a finished bar has stored is what is painted), nothing is formatted for a
hidden finished bar, the frame goes to the target's `draw`; a dropped bar that is not finished is finished by a clone of its
stored behaviour and only then reported as a zombie. (The seeds C02-8 / C02-9 delete the first statement, C04-8 / C04-9 replace
the clone by `mem::take`: either makes this theorem false before any stream runs.) -/
theorem C04_source_draw_and_drop :
    Generated.drawForcesFinished = true ∧ Generated.drawSkipsHidden = true ∧ Generated.drawEndsWithDraw = true ∧
    Generated.dropAsTranscribed = true := by decide

end IndicatifModel.Rows
