import IndicatifModel.Proofs.Limiter
/-!
# C05 — Redraw throttling: bounded frame rate and bounded staleness

Property theorems only. `I` is the interval the code uses (`drawInterval rate` ns for the draw
target, `1_000_000` ns for position updates), `B` the burst (20 / 10).
-/
namespace IndicatifModel.Limiter

/-- **Window bound (as the current code behaves).** In any sorted history of calls starting at
`t1 ≥ prev`, with `k` allowed calls, `(k − 1)·I < (B + 1)·I + (t_last − t1)`,
i.e. `k ≤ B + 1 + ⌈T / I⌉` for the window length `T = t_last − t1`. The history may start in
any state, so this holds for every time window of every longer history. -/
theorem C05_window_bound_I (c : Cfg) (hI : 0 < c.I) : ∀ (ts : List Nat) (s : St) (t1 : Nat),
    s.prev ≤ t1 → Sorted t1 ts → 1 ≤ count (run c s (t1 :: ts)).1 →
    (count (run c s (t1 :: ts)).1 - 1) * c.I < (c.B + 1) * c.I + (lastTime t1 ts - t1) := by
  intro ts
  induction ts with
  | nil =>
    intro s t1 _ _ _
    have hle : count (run c s [t1]).1 ≤ 1 := by
      simp only [run, count]
      exact Nat.le_trans (List.length_filter_le _ _) (by simp)
    have hz : (count (run c s [t1]).1 - 1) * c.I = 0 := by
      have : count (run c s [t1]).1 - 1 = 0 := by omega
      rw [this, Nat.zero_mul]
    rw [hz]
    have : 0 < (c.B + 1) * c.I := Nat.mul_pos (by omega) hI
    omega
  | cons t2 ts ih =>
    intro s t1 hprev hsorted hk
    obtain ⟨h12, hrest⟩ := hsorted
    cases hal : allow c s t1 with
    | mk b s' =>
      cases b with
      | false =>
        have hs' := allow_false_state c s s' t1 hal
        subst hs'
        have hrun : (run c s' (t1 :: t2 :: ts)).1 = false :: (run c s' (t2 :: ts)).1 := by
          simp only [run, hal]
        rw [hrun, count_cons_false] at hk ⊢
        have := ih s' t2 (by omega) hrest hk
        have hl : t2 ≤ lastTime t2 ts := (run_avail c hI ts s' t2 (by omega) hrest).2.2
        simp only [lastTime] at this ⊢
        omega
      | true =>
        have ⟨_, _, hp', _, hlt⟩ := allow_true_avail c hI s t1 s' hal
        have hrun : (run c s (t1 :: t2 :: ts)).1 = true :: (run c s' (t2 :: ts)).1 := by
          simp only [run, hal]
        rw [hrun, count_cons_true]
        have ⟨h1, _, h3⟩ := run_avail c hI (t2 :: ts) s' t1 hp' ⟨h12, hrest⟩
        simp only [lastTime] at h1 h3 ⊢
        simp only [Nat.add_sub_cancel]
        omega

/-- **Liveness.** A request is allowed whenever a token is left or one full interval has passed
since `prev`. -/
theorem C05_allow_of_interval (c : Cfg) (s : St) (now : Nat) (h : s.prev ≤ now)
    (h2 : 0 < s.cap ∨ c.I ≤ now - s.prev) : (allow c s now).1 = true := by
  unfold allow
  have h1 : ¬ now < s.prev := by omega
  simp only [h1, if_false]
  have h3 : ¬ (s.cap = 0 ∧ now - s.prev < c.I) := by omega
  simp [h3]

/-- `prev` never runs ahead of the time of the last call, so "one interval after the last painted
frame" implies "one interval after `prev`". -/
theorem C05_prev_le_last (c : Cfg) (hI : 0 < c.I) (ts : List Nat) (s : St) (t0 : Nat)
    (h : s.prev ≤ t0) (hs : Sorted t0 ts) : (run c s ts).2.prev ≤ lastTime t0 ts :=
  (run_avail c hI ts s t0 h hs).2.1

/-- **The stated bound `B + R·T + 1` does not hold for the code as it is** (candidate F6):
at 20 Hz (`I` = 50 ms, `B` = 20), after an idle period, 22 calls are allowed within one
nanosecond. -/
theorem C05_window_bound_tight_fails :
    let c : Cfg := { I := 50000000, B := 20 }
    let s : St := { cap := 20, prev := 0 }
    let t1 := 100 * 50000000 + 49999999
    count (run c s (List.replicate 30 t1 ++ [t1 + 1])).1 = 22 := by
  decide

/-- non-vacuity: the hypotheses of the window bound are met by a concrete bursty history -/
example : Sorted 7 [7, 7, 50000007, 50000008] ∧
    1 ≤ count (run { I := 50000000, B := 20 } { cap := 20, prev := 3 } [7, 7, 7, 50000007, 50000008]).1 := by
  refine ⟨⟨by omega, by omega, by omega, by omega, trivial⟩, by decide⟩

end IndicatifModel.Limiter
