import IndicatifModel.Proofs.Limiter
import IndicatifModel.Proofs.GenBridge
import IndicatifModel.Model.Bar
/-!
# C05 — Redraw throttling: bounded frame rate and bounded staleness

Property theorems only. `I` is the interval (`drawInterval fx rate` ns for the draw target,
`1_000_000` ns for position updates), `B` the burst (20 / 10). `LFix.current` names the repairs the
repository contains; the correspondence harness runs exactly `drawCfg LFix.current rate` and
`posCfg LFix.current` against the code.
-/
namespace IndicatifModel.Limiter

/-- **Window bound, any token bucket of this shape** (with or without the repairs). In any sorted
history of calls starting at `t1 ≥ prev`, with `k` allowed calls,
`(k − 1)·I < (B + 1)·I + (t_last − t1)`. The history may start in any state, so this holds for
every time window of every longer history. -/
theorem C05_window_bound_I (c : Cfg) (hI : 0 < c.I) : ∀ (ts : List Nat) (s : St) (t1 : Nat),
    s.prev ≤ t1 → Sorted t1 ts → 1 ≤ count (run c s (t1 :: ts)).1 →
    (count (run c s (t1 :: ts)).1 - 1) * c.I < (c.B + 1) * c.I + (lastTime t1 ts - t1) := by
  intro ts
  induction ts with
  | nil =>
    intro s t1 _ _ _
    have hle : count (run c s [t1]).1 ≤ 1 := by
      simp only [run, count]
      exact Nat.le_trans (List.length_filter_le _ _) (by simp)
    have hz : (count (run c s [t1]).1 - 1) * c.I = 0 := by
      have : count (run c s [t1]).1 - 1 = 0 := by omega
      rw [this, Nat.zero_mul]
    rw [hz]
    have : 0 < (c.B + 1) * c.I := Nat.mul_pos (by omega) hI
    omega
  | cons t2 ts ih =>
    intro s t1 hprev hsorted hk
    obtain ⟨h12, hrest⟩ := hsorted
    cases hal : allow c s t1 with
    | mk b s' =>
      cases b with
      | false =>
        have hs' := allow_false_state c s s' t1 hal
        subst hs'
        have hrun : (run c s' (t1 :: t2 :: ts)).1 = false :: (run c s' (t2 :: ts)).1 := by
          simp only [run, hal]
        rw [hrun, count_cons_false] at hk ⊢
        have := ih s' t2 (by omega) hrest hk
        have hl : t2 ≤ lastTime t2 ts := (run_avail c hI ts s' t2 (by omega) hrest).2.2
        simp only [lastTime] at this ⊢
        omega
      | true =>
        have ⟨_, _, hp', _, hlt, _⟩ := allow_true_avail c hI s t1 s' hal
        have hrun : (run c s (t1 :: t2 :: ts)).1 = true :: (run c s' (t2 :: ts)).1 := by
          simp only [run, hal]
        rw [hrun, count_cons_true]
        have ⟨h1, _, h3⟩ := run_avail c hI (t2 :: ts) s' t1 hp' ⟨h12, hrest⟩
        simp only [lastTime] at h1 h3 ⊢
        simp only [Nat.add_sub_cancel]
        omega

/-- **Window bound of the statement, in intervals.** When a full bucket keeps no remainder (`f6`),
`k` allowed calls in a window of length `T = t_last − t1` satisfy `(k − 1)·I ≤ B·I + T`, that is
`k ≤ B + T / I + 1`. -/
theorem C05_window_bound (c : Cfg) (hI : 0 < c.I) (hf : c.f6 = true) : ∀ (ts : List Nat) (s : St) (t1 : Nat),
    s.prev ≤ t1 → Sorted t1 ts → 1 ≤ count (run c s (t1 :: ts)).1 →
    (count (run c s (t1 :: ts)).1 - 1) * c.I ≤ c.B * c.I + (lastTime t1 ts - t1) := by
  intro ts
  induction ts with
  | nil =>
    intro s t1 _ _ _
    have hle : count (run c s [t1]).1 ≤ 1 := by
      simp only [run, count]
      exact Nat.le_trans (List.length_filter_le _ _) (by simp)
    have : count (run c s [t1]).1 - 1 = 0 := by omega
    rw [this, Nat.zero_mul]
    exact Nat.zero_le _
  | cons t2 ts ih =>
    intro s t1 hprev hsorted hk
    obtain ⟨h12, hrest⟩ := hsorted
    cases hal : allow c s t1 with
    | mk b s' =>
      cases b with
      | false =>
        have hs' := allow_false_state c s s' t1 hal
        subst hs'
        have hrun : (run c s' (t1 :: t2 :: ts)).1 = false :: (run c s' (t2 :: ts)).1 := by
          simp only [run, hal]
        rw [hrun, count_cons_false] at hk ⊢
        have := ih s' t2 (by omega) hrest hk
        have hl : t2 ≤ lastTime t2 ts := (run_avail c hI ts s' t2 (by omega) hrest).2.2
        simp only [lastTime] at this ⊢
        omega
      | true =>
        have ⟨_, _, hp', _, _, hsat⟩ := allow_true_avail c hI s t1 s' hal
        have hle := hsat hf
        have hrun : (run c s (t1 :: t2 :: ts)).1 = true :: (run c s' (t2 :: ts)).1 := by
          simp only [run, hal]
        rw [hrun, count_cons_true]
        have ⟨h1, _, h3⟩ := run_avail c hI (t2 :: ts) s' t1 hp' ⟨h12, hrest⟩
        simp only [lastTime] at h1 h3 ⊢
        simp only [Nat.add_sub_cancel]
        omega

/-- the draw interval of the repaired code is positive and at least `1/R` seconds -/
theorem drawInterval_current (rate : Nat) (h1 : 1 ≤ rate) :
    0 < drawInterval LFix.current rate ∧ 1000000000 ≤ drawInterval LFix.current rate * rate := by
  simp only [drawInterval, LFix.current, if_true]
  have hd := Nat.div_add_mod (1000000000 + rate - 1) rate
  have hm := Nat.mod_lt (1000000000 + rate - 1) (show 0 < rate by omega)
  have hcomm : rate * ((1000000000 + rate - 1) / rate) = (1000000000 + rate - 1) / rate * rate := Nat.mul_comm _ _
  constructor
  · apply Nat.pos_of_ne_zero
    intro h0
    rw [h0] at hd
    omega
  · omega

/-- **C05, first clause, literally.** For a draw target with refresh rate `R` (1..=255), as the code
is now: among the calls of any sorted history (any starting state), `k` painted frames in a window of
`T` ns satisfy `(k − 21)·10⁹ ≤ R·T`, i.e. `k ≤ 20 + R·T[s] + 1`. -/
theorem C05_window_bound_stated (rate : Nat) (h1 : 1 ≤ rate) (ts : List Nat) (s : St) (t1 : Nat)
    (hp : s.prev ≤ t1) (hs : Sorted t1 ts) :
    (count (run (drawCfg LFix.current rate) s (t1 :: ts)).1 - 21) * 1000000000 ≤ rate * (lastTime t1 ts - t1) := by
  have ⟨hI, hR⟩ := drawInterval_current rate h1
  by_cases hk : 1 ≤ count (run (drawCfg LFix.current rate) s (t1 :: ts)).1
  · have hb := C05_window_bound (drawCfg LFix.current rate) hI rfl ts s t1 hp hs hk
    have hIe : (drawCfg LFix.current rate).I = drawInterval LFix.current rate := rfl
    have hBe : (drawCfg LFix.current rate).B = 20 := rfl
    rw [hIe, hBe] at hb
    generalize count (run (drawCfg LFix.current rate) s (t1 :: ts)).1 = k at hb hk ⊢
    generalize drawInterval LFix.current rate = I at hb hI hR
    generalize lastTime t1 ts - t1 = T at hb ⊢
    -- (k-1)·I ≤ 20·I + T  ⇒  (k-21)·I ≤ T  ⇒  (k-21)·I·R ≤ R·T  and  I·R ≥ 10⁹
    by_cases h21 : k ≤ 21
    · have : k - 21 = 0 := by omega
      rw [this, Nat.zero_mul]; exact Nat.zero_le _
    · have hsplit : (k - 1) * I = (k - 21) * I + 20 * I := by
        have : k - 1 = (k - 21) + 20 := by omega
        rw [this, Nat.add_mul]
      have h2 : (k - 21) * I ≤ T := by omega
      calc (k - 21) * 1000000000 ≤ (k - 21) * (I * rate) := Nat.mul_le_mul_left _ hR
        _ = rate * ((k - 21) * I) := by rw [← Nat.mul_assoc, Nat.mul_comm]
        _ ≤ rate * T := Nat.mul_le_mul_left _ h2
  · have : count (run (drawCfg LFix.current rate) s (t1 :: ts)).1 - 21 = 0 := by omega
    rw [this, Nat.zero_mul]; exact Nat.zero_le _

/-- **the position gate obeys the same law** with burst 10 and a 1 ms interval:
`(k − 11)·10⁶ ≤ T` for `k` ticks let through in a window of `T` ns -/
theorem C05_gate_window_bound (ts : List Nat) (s : St) (t1 : Nat) (hp : s.prev ≤ t1) (hs : Sorted t1 ts) :
    (count (run (posCfg LFix.current) s (t1 :: ts)).1 - 11) * 1000000 ≤ lastTime t1 ts - t1 := by
  by_cases hk : 1 ≤ count (run (posCfg LFix.current) s (t1 :: ts)).1
  · have hb := C05_window_bound (posCfg LFix.current) (by decide) rfl ts s t1 hp hs hk
    have hI : (posCfg LFix.current).I = 1000000 := rfl
    have hB : (posCfg LFix.current).B = 10 := rfl
    rw [hI, hB] at hb
    generalize count (run (posCfg LFix.current) s (t1 :: ts)).1 = k at hb hk ⊢
    generalize lastTime t1 ts - t1 = T at hb ⊢
    by_cases h11 : k ≤ 11
    · have : k - 11 = 0 := by omega
      rw [this, Nat.zero_mul]; exact Nat.zero_le _
    · have hsplit : (k - 1) * 1000000 = (k - 11) * 1000000 + 10 * 1000000 := by
        have : k - 1 = (k - 11) + 10 := by omega
        rw [this, Nat.add_mul]
      have hb' : (k - 11) * 1000000 + 10 * 1000000 ≤ T + 10 * 1000000 := by
        rw [← hsplit, Nat.add_comm T]; exact hb
      exact Nat.le_of_add_le_add_right hb'
  · have : count (run (posCfg LFix.current) s (t1 :: ts)).1 - 11 = 0 := by omega
    rw [this, Nat.zero_mul]; exact Nat.zero_le _

/-- **Liveness.** A request is allowed whenever a token is left or one full interval has passed
since `prev`. -/
theorem C05_allow_of_interval (c : Cfg) (s : St) (now : Nat) (h : s.prev ≤ now)
    (h2 : 0 < s.cap ∨ c.I ≤ now - s.prev) : (allow c s now).1 = true := by
  unfold allow
  have h1 : ¬ now < s.prev := by omega
  simp only [h1, if_false]
  have h3 : ¬ (s.cap = 0 ∧ now - s.prev < c.I) := by omega
  simp only [h3, if_false]
  split <;> rfl

/-- `prev` never runs ahead of the time of the last call -/
theorem C05_prev_le_last (c : Cfg) (hI : 0 < c.I) (ts : List Nat) (s : St) (t0 : Nat)
    (h : s.prev ≤ t0) (hs : Sorted t0 ts) : (run c s ts).2.prev ≤ lastTime t0 ts :=
  (run_avail c hI ts s t0 h hs).2.1

/-! ### Staleness of a continuously updated bar

`inc`/`dec`/`set_position` pass the position gate, and a tick that gets through is a redraw request to
the draw limiter. Ghost state: the time of the last tick and of the last painted frame. -/

structure Pipe where
  gate : St          -- position gate, absolute times
  draw : St          -- draw-target limiter
  lastTick : Nat
  lastPaint : Nat
deriving Repr

/-- one `inc` at time `t` -/
def Pipe.inc (g d : Cfg) (p : Pipe) (t : Nat) : Pipe :=
  let r := allow g p.gate t
  if r.1 then
    let q := allow d p.draw t
    { gate := r.2, draw := q.2, lastTick := t, lastPaint := if q.1 then t else p.lastPaint }
  else { p with gate := r.2 }

/-- the invariant that bounds staleness: the limiters' `prev` never runs ahead of the last tick / the
last painted frame, and a tick that was not painted came less than one draw interval after a frame -/
structure PipeInv (d : Cfg) (p : Pipe) (now : Nat) : Prop where
  gprev : p.gate.prev ≤ p.lastTick
  dprev : p.draw.prev ≤ p.lastPaint
  order : p.lastPaint ≤ p.lastTick ∧ p.lastTick ≤ now
  fresh : p.lastTick - p.lastPaint < d.I

theorem allow_prev (c : Cfg) (s : St) (now : Nat) :
    ((allow c s now).1 = true → (allow c s now).2.prev ≤ now) ∧
    ((allow c s now).1 = false → (allow c s now).2 = s ∧ (s.prev ≤ now → now - s.prev < c.I)) := by
  unfold allow
  split
  · exact ⟨by simp, fun _ => ⟨rfl, fun h => by omega⟩⟩
  · dsimp only
    split
    · rename_i h; exact ⟨by simp, fun _ => ⟨rfl, fun _ => h.2⟩⟩
    · split
      · exact ⟨fun _ => Nat.le_refl _, by simp⟩
      · exact ⟨fun _ => Nat.sub_le _ _, by simp⟩

/-- the invariant is kept by every `inc`, and right after an `inc` at time `t` the last painted frame
is less than one gate interval plus one draw interval old -/
theorem pipe_step (g d : Cfg) (p : Pipe) (now t : Nat) (hnow : now ≤ t) (hinv : PipeInv d p now) :
    PipeInv d (p.inc g d t) t ∧ t - (p.inc g d t).lastPaint < g.I + d.I := by
  obtain ⟨hg, hdp, ⟨ho1, ho2⟩, hfr⟩ := hinv
  have hG := allow_prev g p.gate t
  have hD := allow_prev d p.draw t
  unfold Pipe.inc
  dsimp only
  cases hga : (allow g p.gate t).1 with
  | true =>
    simp only [if_true]
    cases hda : (allow d p.draw t).1 with
    | true =>
      simp only [if_true]
      have h1 := hG.1 hga
      have h2 := hD.1 hda
      refine ⟨⟨?_, ?_, ⟨?_, ?_⟩, ?_⟩, ?_⟩ <;> (try dsimp only) <;> omega
    | false =>
      have ⟨hsame, hlt⟩ := hD.2 hda
      have hlt' := hlt (by omega)
      have h1 := hG.1 hga
      simp only [Bool.false_eq_true, if_false]
      refine ⟨⟨?_, ?_, ⟨?_, ?_⟩, ?_⟩, ?_⟩ <;> (try dsimp only) <;> (try rw [hsame]) <;> omega
  | false =>
    have ⟨hsame, hlt⟩ := hG.2 hga
    have hlt' := hlt (by omega)
    simp only [Bool.false_eq_true, if_false]
    refine ⟨⟨?_, ?_, ⟨?_, ?_⟩, ?_⟩, ?_⟩ <;> (try dsimp only) <;> (try rw [hsame]) <;> omega

/-- **C05, staleness.** From the creation of the bar (both buckets full, nothing painted yet), along
any non-decreasing sequence of `inc` times, right after every `inc` the last painted frame is less
than `1 ms + I` old — for every refresh rate, every gap sequence, every bucket state in between. -/
theorem C05_staleness (g d : Cfg) : ∀ (ts : List Nat) (p : Pipe) (now : Nat),
    PipeInv d p now → Sorted now ts →
    ∀ (pre : List Nat) (t : Nat) (post : List Nat), ts = pre ++ t :: post →
      t - ((pre ++ [t]).foldl (Pipe.inc g d) p).lastPaint < g.I + d.I := by
  intro ts
  induction ts with
  | nil => intro p now _ _ pre t post h; simp at h
  | cons t1 ts ih =>
    intro p now hinv hs pre t post h
    obtain ⟨h01, hrest⟩ := hs
    have ⟨hinv', hst⟩ := pipe_step g d p now t1 h01 hinv
    cases pre with
    | nil =>
      simp only [List.nil_append, List.cons.injEq] at h
      obtain ⟨rfl, _⟩ := h
      simpa using hst
    | cons a pre' =>
      simp only [List.cons_append, List.cons.injEq] at h
      obtain ⟨rfl, h2⟩ := h
      simp only [List.cons_append, List.foldl_cons]
      exact ih (p.inc g d t1) t1 hinv' hrest pre' t post h2

/-- the state of a freshly created bar satisfies the invariant (creation counts as time zero of both
clocks; the first `inc` is always painted because both buckets are full) -/
theorem pipe_init (d : Cfg) (hd : 0 < d.I) (t0 : Nat) :
    PipeInv d { gate := { cap := 10, prev := t0 }, draw := { cap := 20, prev := t0 }, lastTick := t0, lastPaint := t0 } t0 :=
  ⟨Nat.le_refl _, Nat.le_refl _, ⟨Nat.le_refl _, Nat.le_refl _⟩, by simpa using hd⟩

end IndicatifModel.Limiter

namespace IndicatifModel

/-- **Skipped draws lose nothing**: whenever a draw is painted, the lines handed to the terminal are
the rendering of the bar's state at that instant (position, length, texts), not of the state at the
time of an earlier, skipped request. -/
theorem C05_nothing_lost (b : Bar) (force : Bool) (now : Nat) (tt : TermTarget) (ht : b.target = some tt)
    (hgo : (tt.drawable (force || b.finished) now).1 = true) :
    (b.draw force now).1.target.map (fun t => t.ds.lines)
      = some (if b.status = .doneHidden then [] else formatState b) := by
  unfold Bar.draw
  simp only [ht]
  cases hdr : tt.drawable (force || b.finished) now with
  | mk go tt' =>
    rw [hdr] at hgo
    simp only at hgo
    subst hgo
    simp [DrawState.after]

end IndicatifModel

namespace IndicatifModel.Limiter

/-- **The pinned limiter did not satisfy the stated bound** (F6): at 20 Hz (`I` = 50 ms, `B` = 20),
after an idle period, 22 calls were allowed within one nanosecond; with the repair, 21. -/
theorem C05_window_bound_tight_fails :
    let t1 := 100 * 50000000 + 49999999
    count (run { I := 50000000, B := 20, f6 := false } { cap := 20, prev := 0 } (List.replicate 30 t1 ++ [t1 + 1])).1 = 22 ∧
    count (run { I := 50000000, B := 20, f6 := true } { cap := 20, prev := 0 } (List.replicate 30 t1 ++ [t1 + 1])).1 = 21 := by
  decide

/-- **The pinned interval was shorter than `1/R`** whenever `R ∤ 1000` (F7): at 255 Hz it was 3 ms,
i.e. up to 333 frames per second; the repaired interval times the rate is at least one second. -/
theorem C05_interval_fails_unrepaired :
    drawInterval {} 255 * 255 < 1000000000 ∧ 1000000000 ≤ drawInterval LFix.current 255 * 255 := by
  decide

/-- non-vacuity: the hypotheses of the window bound are met by a concrete bursty history -/
example : Sorted 7 [7, 7, 50000007, 50000008] ∧
    1 ≤ count (run (drawCfg LFix.current 20) { cap := 20, prev := 3 } [7, 7, 7, 50000007, 50000008]).1 := by
  refine ⟨⟨by omega, by omega, by omega, by omega, trivial⟩, by decide⟩

end IndicatifModel.Limiter

/-! ## The same statements about the definitions regenerated from the Rust sources

`Generated.RateLimiter.allow`, `Generated.AtomicPosition.allow` and the constants are produced by
`tools/rs2lean.py` from `src/draw_target.rs` / `src/state.rs` on every run (`none` = panic). -/
namespace IndicatifModel.Limiter
open Generated GenBridge

/-- **C05, first clause, about the source as translated.** A draw target's limiter as `RateLimiter::new(R)`
builds it (`R` in 1..=255, any stored capacity up to `MAX_BURST`, any `prev`), run over any sorted history
of `u64` times starting no earlier than `prev`: no call panics, and `k` painted frames within `T` ns
satisfy `(k − 21)·10⁹ ≤ R·T`, i.e. `k ≤ 20 + R·T[s] + 1`. -/
theorem C05_source_window_bound (rate : Nat) (h1 : 1 ≤ rate) (h2 : rate < 256) (cap prev : Nat) (hcap : cap ≤ drawMaxBurst)
    (ts : List Nat) (t1 : Nat) (hp : prev ≤ t1) (hs : Sorted t1 ts) (h64 : ∀ t ∈ t1 :: ts, t < 2 ^ 64) :
    ∃ i bs r', RateLimiter.newInterval rate = some i ∧
      runAll { interval := i, capacity := cap, prev := prev } (t1 :: ts) = some (bs, r') ∧
      (count bs - 21) * 1000000000 ≤ rate * (lastTime t1 ts - t1) := by
  have hi := rateLimiter_newInterval rate h1 h2
  have ⟨hI, _⟩ := drawInterval_current rate h1
  refine ⟨_, _, _, hi, runAll_eq (t1 :: ts) _ hI hcap h64, ?_⟩
  exact C05_window_bound_stated rate h1 ts { cap := cap, prev := prev } t1 hp hs

/-- **the translated limiters never panic**: `RateLimiter::allow` for every in-range state and `u64` time,
`RateLimiter::new` for every rate but 0 (where `1_000_000_000 / 0` panics, as `1000 / 0` did in the pinned code),
`AtomicPosition::allow` whenever `prev` is not in the future -/
theorem C05_source_no_panic :
    (∀ (r : RateLimiter) (now : Nat), 0 < r.interval → r.capacity ≤ drawMaxBurst → now < 2 ^ 64 → (r.allow now).isSome = true) ∧
    (∀ rate, 1 ≤ rate → rate < 256 → (RateLimiter.newInterval rate).isSome = true) ∧ RateLimiter.newInterval 0 = none ∧
    (∀ (a : AtomicPosition) (now : Nat), a.start ≤ now → now < 2 ^ 64 → a.capacity ≤ posMaxBurst → a.prev ≤ now - a.start →
      (a.allow now).isSome = true) := by
  refine ⟨rateLimiter_allow_no_panic, fun rate h1 h2 => by rw [rateLimiter_newInterval rate h1 h2]; rfl,
    rateLimiter_new_zero_panics, fun a now hs hnow hcap hprev => by rw [atomicPosition_allow a now hs hnow hcap hprev]; rfl⟩

/-- **the position gate of the source is the model's gate** (burst and interval are the source's constants), so
`C05_gate_window_bound` and `C05_staleness` speak about `AtomicPosition::allow`; its hypotheses are kept by `allow` and `reset` -/
theorem C05_source_gate (a : AtomicPosition) (now : Nat) (hs : a.start ≤ now) (hnow : now < 2 ^ 64)
    (hcap : a.capacity ≤ posMaxBurst) (hprev : a.prev ≤ now - a.start) :
    (∃ b a', a.allow now = some (b, a') ∧ b = (allow (posCfg LFix.current) (posSt a) (now - a.start)).1 ∧
      posSt a' = (allow (posCfg LFix.current) (posSt a) (now - a.start)).2 ∧
      a'.prev ≤ now - a'.start ∧ a'.capacity ≤ posMaxBurst ∧ a'.start = a.start) ∧
    posCfg LFix.current = { I := posInterval, B := posMaxBurst, f6 := true } ∧
    (∃ a', a.reset now = some ((), a') ∧ a'.prev ≤ now - a'.start ∧ a'.capacity = a.capacity ∧ a'.start = a.start) := by
  have h := atomicPosition_allow a now hs hnow hcap hprev
  have hk := atomicPosition_allow_prev a now hs hnow hcap hprev _ _ h
  refine ⟨⟨_, _, h, rfl, rfl, hk.1, hk.2.1, hk.2.2.1⟩, posCfg_generated, ?_⟩
  exact ⟨_, atomicPosition_reset a now hnow, Nat.le_refl _, rfl, rfl⟩

/-- non-vacuity: a limiter as `new(20)` builds it, a burst of 30 calls after an idle period: 21 frames -/
example : (runAll { interval := 50000000, capacity := 20, prev := 0 } (List.replicate 30 5049999999 ++ [5050000000])).map (fun p => count p.1)
      = some 21 ∧ RateLimiter.newInterval 20 = some 50000000 := by
  refine ⟨by decide +kernel, by decide⟩

end IndicatifModel.Limiter
