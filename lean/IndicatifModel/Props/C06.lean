import IndicatifModel.Model.Bar
/-!
# C06 — Hidden or non-terminal targets are silent and state-equivalent

`Bar.target = none` models every way of being hidden (hidden draw target, a `Term` that is not a
tty, a bar removed from its `MultiProgress`): `drawable()` yields nothing.
-/
namespace IndicatifModel

/-- the logical state the public getters expose -/
structure Logical where
  pos : Nat
  len : Option Nat
  msg : Text
  pfx : Text
  tick : Nat
  status : Status
  posLim : Limiter.St
deriving DecidableEq

def Bar.logical (b : Bar) : Logical :=
  { pos := b.pos, len := b.len, msg := b.msg, pfx := b.pfx, tick := b.tick, status := b.status, posLim := b.posLim }

theorem draw_hidden (b : Bar) (h : b.target = none) (force : Bool) (now : Nat) :
    (b.draw force now).2 = [] ∧ (b.draw force now).1 = b := by
  unfold Bar.draw; simp [h]

theorem draw_logical (b : Bar) (force : Bool) (now : Nat) : (b.draw force now).1.logical = b.logical := by
  unfold Bar.draw
  cases ht : b.target with
  | none => simp
  | some tt =>
    simp only []
    split <;> rfl

theorem draw_target_none (b : Bar) (force : Bool) (now : Nat) (h : b.target = none) : (b.draw force now).1.target = none := by
  rw [(draw_hidden b h force now).2]; exact h

def Silent (r : Bar × List TOp) : Prop := r.2 = [] ∧ r.1.target = none

theorem draw_silent (b : Bar) (force : Bool) (now : Nat) (h : b.target = none) : Silent (b.draw force now) :=
  ⟨(draw_hidden b h force now).1, draw_target_none b force now h⟩

theorem tickInner_silent (b : Bar) (now : Nat) (h : b.target = none) : Silent (b.tickInner now) := by
  unfold Bar.tickInner; exact draw_silent _ _ _ h

theorem posAllow_target (b : Bar) (now : Nat) : (b.posAllow now).2.target = b.target := by
  unfold Bar.posAllow; split <;> rfl

theorem afterPosChange_silent (b : Bar) (now : Nat) (h : b.target = none) : Silent (b.afterPosChange now) := by
  unfold Bar.afterPosChange
  have ht := posAllow_target b now
  cases hp : b.posAllow now with
  | mk ok b' =>
    rw [hp] at ht
    simp only []
    split
    · exact tickInner_silent _ _ (by rw [ht]; exact h)
    · exact ⟨rfl, by rw [ht]; exact h⟩

theorem finishUsing_silent (b : Bar) (now : Nat) (f : Finish) (h : b.target = none) : Silent (b.finishUsing now f) := by
  unfold Bar.finishUsing
  apply draw_silent
  cases f <;> simp only [] <;> (try split) <;> exact h

/-- **C06 (silence).** A hidden bar makes no terminal call, for any public call, and stays hidden. -/
theorem C06_silent (b : Bar) (now : Nat) (op : BarOp) (h : b.target = none) : Silent (b.step now op) := by
  cases op with
  | adv dt => exact ⟨rfl, h⟩
  | tick => exact tickInner_silent b now h
  | inc d => exact afterPosChange_silent _ now h
  | dec d => exact afterPosChange_silent _ now h
  | setPos p => exact afterPosChange_silent _ now h
  | setMsg t => exact draw_silent _ _ _ h
  | setPrefix t => exact draw_silent _ _ _ h
  | setLen l => exact draw_silent _ _ _ h
  | unsetLen => exact draw_silent _ _ _ h
  | println t => simp only [Bar.step, h]; exact ⟨rfl, h⟩
  | suspend out => simp only [Bar.step, h]; exact ⟨rfl, h⟩
  | reset => exact draw_silent _ _ _ h
  | finish f => exact finishUsing_silent b now f h
  | finishUsingStyle => exact finishUsing_silent b now _ h
  | drop =>
    simp only [Bar.step]
    split
    · exact ⟨rfl, h⟩
    · exact finishUsing_silent b now _ h

/-- the whole history of a hidden bar is silent -/
theorem C06_silent_history (ops : List (Nat × BarOp)) : ∀ (b : Bar), b.target = none →
    (ops.foldl (fun (acc : Bar × List TOp) (p : Nat × BarOp) =>
        let r := acc.1.step p.1 p.2; (r.1, acc.2 ++ r.2)) (b, [])).2 = [] := by
  induction ops with
  | nil => intro b _; rfl
  | cons p ps ih =>
    intro b h
    have hs := C06_silent b p.1 p.2 h
    simp only [List.foldl_cons, List.nil_append, hs.1]
    exact ih _ hs.2


/-- everything in a bar except its draw target -/
def Bar.core (b : Bar) : Bar := { b with target := none }

theorem draw_core (b : Bar) (force : Bool) (now : Nat) : (b.draw force now).1.core = b.core := by
  unfold Bar.draw Bar.core
  cases ht : b.target with
  | none => simp [ht]
  | some tt =>
    simp only []
    split <;> simp

/-- a step of the logical state computed on the core equals the core of the step -/
def CoreFn (u : Bar → Bar) : Prop := ∀ x : Bar, (u x).core = (u x.core).core

theorem upd_congr (u : Bar → Bar) (hu : CoreFn u) (b b' : Bar) (h : b.core = b'.core) :
    (u b).core = (u b').core := by rw [hu b, hu b', h]

theorem draw_corefn (f : Bool) (now : Nat) : CoreFn (fun x => (x.draw f now).1) := by
  intro x; simp only [draw_core]; rfl

theorem tickInner_corefn (now : Nat) : CoreFn (fun x => (x.tickInner now).1) := by
  intro x; simp only [Bar.tickInner, draw_core]; rfl

theorem afterPosChange_corefn (now : Nat) : CoreFn (fun x => (x.afterPosChange now).1) := by
  intro x
  show (x.afterPosChange now).1.core = (x.core.afterPosChange now).1.core
  unfold Bar.afterPosChange Bar.posAllow
  have hs : x.core.start = x.start := rfl
  have hl : x.core.posLim = x.posLim := rfl
  rw [hs, hl]
  by_cases h1 : now < x.start
  · simp only [h1, if_true]; rfl
  · simp only [h1, if_false]
    by_cases h2 : (Limiter.allow posCfg x.posLim (now - x.start)).1 = true
    · simp only [h2, if_true]
      exact tickInner_corefn now { x with posLim := (Limiter.allow posCfg x.posLim (now - x.start)).2 }
    · simp only [h2]; rfl

theorem finishUsing_corefn (now : Nat) (f : Finish) : CoreFn (fun x => (x.finishUsing now f).1) := by
  intro x
  simp only [Bar.finishUsing, draw_core]
  cases f <;> simp only [Bar.core] <;> (try split) <;> rfl

/-- **C06 (equivalence) / C18 (logical state), one call**: what a public call does to everything
except the draw target is a function of everything except the draw target.  The target — hidden,
visible, or left in any state by a failing terminal — never feeds back into position, length,
message, prefix, tick, status or the position gate. -/
theorem step_corefn (now : Nat) (op : BarOp) : CoreFn (fun x => (x.step now op).1) := by
  cases op with
  | adv dt => intro x; rfl
  | tick => exact tickInner_corefn now
  | inc d => intro x; exact afterPosChange_corefn now { x with pos := (x.pos + d) % U64 }
  | dec d => intro x; exact afterPosChange_corefn now { x with pos := (x.pos + U64 - d % U64) % U64 }
  | setPos p => intro x; exact afterPosChange_corefn now { x with pos := p }
  | setMsg t => intro x; exact draw_corefn false now { x with msg := t }
  | setPrefix t => intro x; exact draw_corefn false now { x with pfx := t }
  | setLen l => intro x; exact draw_corefn false now { x with len := some l }
  | unsetLen => intro x; exact draw_corefn false now { x with len := none }
  | println t =>
    intro x
    show (x.step now (.println t)).1.core = (x.core.step now (.println t)).1.core
    simp only [Bar.step]
    cases x.target <;> rfl
  | suspend out =>
    intro x
    show (x.step now (.suspend out)).1.core = (x.core.step now (.suspend out)).1.core
    simp only [Bar.step]
    cases hx : x.target with
    | none => rfl
    | some tt => simp only [draw_core]; rfl
  | reset =>
    intro x
    exact draw_corefn false now { x with pos := 0, posLim := { x.posLim with prev := now - x.start }, status := .inProgress }
  | finish f => exact finishUsing_corefn now f
  | finishUsingStyle => intro x; exact finishUsing_corefn now x.onFinish x
  | drop =>
    intro x
    show (x.step now .drop).1.core = (x.core.step now .drop).1.core
    simp only [Bar.step]
    have hf : x.core.finished = x.finished := rfl
    rw [hf]
    split
    · rfl
    · exact finishUsing_corefn now x.onFinish x

def runBar (b : Bar) (ops : List (Nat × BarOp)) : Bar := ops.foldl (fun acc p => (acc.step p.1 p.2).1) b

/-- **C06 (equivalence) / C18 (logical state), every history**: two bars that agree on everything
but their draw targets agree on everything but their draw targets after any history of calls; in
particular the logical state of a visible bar is the one of its hidden twin, and a terminal that
fails at any point, any number of times, cannot change it. -/
theorem C06_equivalent (ops : List (Nat × BarOp)) : ∀ (b b' : Bar), b.core = b'.core →
    (runBar b ops).core = (runBar b' ops).core := by
  induction ops with
  | nil => intro b b' h; exact h
  | cons p ps ih =>
    intro b b' h
    exact ih _ _ (upd_congr _ (step_corefn p.1 p.2) b b' h)

theorem C06_logical_equal (ops : List (Nat × BarOp)) (b b' : Bar) (h : b.core = b'.core) :
    (runBar b ops).logical = (runBar b' ops).logical := by
  have := C06_equivalent ops b b' h
  have l : ∀ x : Bar, x.logical = x.core.logical := fun _ => rfl
  rw [l (runBar b ops), l (runBar b' ops), this]


end IndicatifModel
