import IndicatifModel.Model.Position
import IndicatifModel.Generated.Atomics
import IndicatifModel.Proofs.GenBridge
import IndicatifModel.Model.BarGeo
/-!
# C07 — Position and length bookkeeping, including concurrent increments
-/
namespace IndicatifModel.Position

theorem U64_pos : 0 < U64 := by decide +kernel

-- keep the unifier from evaluating 2^64-sized arithmetic
attribute [local irreducible] U64

/-- a position stays a `u64` -/
def Valid (s : St) : Prop := s.pos < U64 ∧ ∀ l, s.len = some l → l < U64

/-- every operation keeps the position within `u64`: position arithmetic wraps, nothing can overflow -/
theorem C07_pos_valid (s : St) (op : Op) (h : s.pos < U64) (hlen : ∀ l, s.len = some l → l < U64)
    (harg : ∀ p, op = .setPos p → p < U64) : (step s op).pos < U64 := by
  have hU := U64_pos
  cases op with
  | inc d => exact Nat.mod_lt _ hU
  | dec d => exact Nat.mod_lt _ hU
  | setPos p => exact harg p rfl
  | reset => exact hU
  | setLen l => exact h
  | incLen d => exact h
  | decLen d => exact h
  | unsetLen => exact h
  | finish =>
    show (s.len.getD s.pos) < U64
    cases hs : s.len with
    | none => exact h
    | some l => exact hlen l hs
  | abandon => exact h
  | resetElapsed => exact h
  | resetEta => exact h
  | finishStyle =>
    show (if s.moves then { s with pos := s.len.getD s.pos, finished := true } else { s with finished := true : St }).pos < U64
    split
    · show (s.len.getD s.pos) < U64
      cases hs : s.len with
      | none => exact h
      | some l => exact hlen l hs
    · exact h

theorem mod_add_mod_right (a b n : Nat) : (a + b % n) % n = (a + b) % n := by
  rw [Nat.add_mod, Nat.mod_mod, ← Nat.add_mod]

/-- the calls that touch only the shared atomic position -/
inductive IncDec where
  | inc (d : Nat) | dec (d : Nat)
deriving Repr, DecidableEq

def IncDec.op : IncDec → Op
  | .inc d => .inc d
  | .dec d => .dec d

/-- the increment of a call as a residue modulo 2^64 -/
def IncDec.delta : IncDec → Nat
  | .inc d => d % U64
  | .dec d => (U64 - d % U64) % U64

theorem step_inc (s : St) (d : Nat) : (step s (.inc d)).pos = (s.pos + d % U64) % U64 := by
  show (s.pos + d) % U64 = (s.pos + d % U64) % U64
  exact (mod_add_mod_right s.pos d U64).symm

theorem step_dec (s : St) (d : Nat) : (step s (.dec d)).pos = (s.pos + (U64 - d % U64) % U64) % U64 := by
  show (s.pos + U64 - d % U64) % U64 = (s.pos + (U64 - d % U64) % U64) % U64
  rw [mod_add_mod_right]
  have hlt : d % U64 ≤ U64 := Nat.le_of_lt (Nat.mod_lt _ U64_pos)
  rw [Nat.add_sub_assoc hlt]

theorem step_incdec (s : St) (c : IncDec) : (step s c.op).pos = (s.pos + c.delta) % U64 := by
  cases c with
  | inc d => exact step_inc s d
  | dec d => exact step_dec s d

theorem run_incdec : ∀ (cs : List IncDec) (s : St), s.pos < U64 →
    (run s (cs.map IncDec.op)).pos = (s.pos + (cs.map IncDec.delta).sum) % U64 := by
  intro cs
  induction cs with
  | nil => intro s hs; simp [run, Nat.mod_eq_of_lt hs]
  | cons c cs ih =>
    intro s hs
    have h1 := step_incdec s c
    have hlt : (step s c.op).pos < U64 := by rw [h1]; exact Nat.mod_lt _ U64_pos
    have := ih (step s c.op) hlt
    simp only [run, List.map_cons, List.foldl_cons, List.sum_cons] at this ⊢
    rw [this, h1, Nat.add_comm ((s.pos + c.delta) % U64), mod_add_mod_right, Nat.add_comm, Nat.add_assoc]

theorem perm_sum {l l' : List Nat} (h : l.Perm l') : l.sum = l'.sum := by
  induction h with
  | nil => rfl
  | cons x _ ih => simp [ih]
  | swap x y l => simp only [List.sum_cons]; omega
  | trans _ _ ih1 ih2 => exact ih1.trans ih2

/-- **No lost updates.** Any two interleavings (permutations) of the same `inc`/`dec` calls — each an
atomic read-modify-write step — leave the same position, namely the start position plus all
increments minus all decrements modulo 2^64. -/
theorem C07_concurrent (cs cs' : List IncDec) (s : St) (hperm : cs.Perm cs') (hs : s.pos < U64) :
    (run s (cs.map IncDec.op)).pos = (run s (cs'.map IncDec.op)).pos ∧
    (run s (cs.map IncDec.op)).pos = (s.pos + (cs.map IncDec.delta).sum) % U64 := by
  have hsum : (cs.map IncDec.delta).sum = (cs'.map IncDec.delta).sum := perm_sum (hperm.map IncDec.delta)
  exact ⟨by rw [run_incdec cs s hs, run_incdec cs' s hs, hsum], run_incdec cs s hs⟩

/-- **`inc` and `dec` are single atomic read-modify-write steps in the code as it is now** (the table is
regenerated from `src/state.rs` and `src/progress_bar.rs` on every run): the atomicity that
`C07_concurrent` assumes of each call. A load followed by a store would not do:
`C07_load_store_loses_updates`. -/
theorem C07_inc_is_rmw : Generated.incSteps = [.rmwAdd] ∧ Generated.decSteps = [.rmwSub] ∧
    Generated.setPositionSteps = [.store] := by decide

/-- two threads each doing `load; store (x + 1)` interleaved as load, load, store, store end at `1`, not `2` -/
theorem C07_load_store_loses_updates :
    let mem0 := 0
    let r1 := mem0      -- thread 1 loads
    let r2 := mem0      -- thread 2 loads
    let mem1 := r1 + 1  -- thread 1 stores
    let mem2 := r2 + 1  -- thread 2 stores (over mem1)
    mem1 = 1 ∧ mem2 = 1 ∧ mem2 ≠ mem0 + 2 := by decide

/-- finish variants move the position to the length when one is set; abandon variants keep it -/
theorem C07_finish (s : St) : (step s .finish).pos = s.len.getD s.pos ∧ (step s .finish).finished = true ∧
    (step s .abandon).pos = s.pos ∧ (step s .abandon).finished = true := by
  simp [step]

theorem moves_upd (s : St) (p : Nat) : ({ s with pos := p } : St).moves = s.moves := rfl

/-- `reset_elapsed` and `reset_eta` leave position, length and status alone; `finish_using_style` is
`finish` or `abandon` according to the configured behaviour, which no operation changes (so a bar that is
reset and finished again behaves as the first time) -/
theorem C07_resets_and_style (s : St) (op : Op) :
    step s .resetElapsed = s ∧ step s .resetEta = s ∧
    step s .finishStyle = (if s.moves then { step s .finish with moves := s.moves } else { step s .abandon with moves := s.moves }) ∧
    (step s op).moves = s.moves := by
  refine ⟨by simp only [step], by simp only [step], ?_, ?_⟩
  · cases hm : s.moves <;> simp [step, hm]
  · cases op with
    | dec d =>
      show ({ s with pos := wrapSub s.pos d } : St).moves = s.moves
      exact moves_upd s _
    | finishStyle => simp only [step]; split <;> simp only []
    | _ => simp only [step]

/-- length arithmetic saturates at the ends of `u64` -/
theorem C07_length (s : St) (l d : Nat) (h : s.len = some l) (hl : l < U64) :
    (step s (.incLen d)).len = some (min (l + d) (U64 - 1)) ∧ (step s (.decLen d)).len = some (l - d) ∧
    (step { s with len := none } (.incLen d)).len = none := by
  simp [step, h, satAdd, satSub]

/-- **the source as translated** (`tools/rs2lean.py`, regenerated on every run): `AtomicPosition::{inc, dec, set, reset}`
and `BarState::{set_length, unset_length, inc_length, dec_length}` never panic and compute exactly the model's
wrapping / saturating operations, so the theorems above speak about what the code says now -/
theorem C07_source_ops (a : Generated.AtomicPosition) (s : St) (d now : Nat) (hd : d < 2 ^ 64) (hnow : now < 2 ^ 64) :
    a.inc d = some ((), { a with pos := (step { s with pos := a.pos } (.inc d)).pos }) ∧
    a.dec d = some ((), { a with pos := (step { s with pos := a.pos } (.dec d)).pos }) ∧
    a.set d = some ((), { a with pos := (step { s with pos := a.pos } (.setPos d)).pos }) ∧
    (∃ a', a.reset now = some ((), a') ∧ a'.pos = (step { s with pos := a.pos } .reset).pos) ∧
    Generated.LenState.setLength ⟨s.len⟩ now d = some ((), ⟨(step s (.setLen d)).len⟩) ∧
    Generated.LenState.unsetLength ⟨s.len⟩ now = some ((), ⟨(step s .unsetLen).len⟩) ∧
    Generated.LenState.incLength ⟨s.len⟩ now d = some ((), ⟨(step s (.incLen d)).len⟩) ∧
    Generated.LenState.decLength ⟨s.len⟩ now d = some ((), ⟨(step s (.decLen d)).len⟩) := by
  have hl := GenBridge.length_ops s now d
  exact ⟨GenBridge.atomicPosition_inc a d, GenBridge.atomicPosition_dec a d hd, GenBridge.atomicPosition_set a d,
    ⟨_, GenBridge.atomicPosition_reset a now hnow, rfl⟩, hl.1, hl.2.1, hl.2.2.1, hl.2.2.2⟩

/-- **the completed fraction by cases** (`ProgressState::fraction`, transcribed in `Model/BarGeo` over any arithmetic):
0 for an unknown length, 1 for a zero length, 0 at position 0, and otherwise the quotient clamped to `[0, 1]` — one of
`0`, `1` or the quotient itself, the latter only when it is neither below 0 nor above 1. That the value lies in `[0, 1]` for
every position and length over IEEE arithmetic is `BarGeo.fraction_range` (Props/C13); the rendered `{percent}` is compared
with it by the C11/C13 streams. -/
theorem C07_fraction_cases {α : Type} (A : BarGeo.Arith α) (pos l : Nat) :
    BarGeo.fraction A pos none = A.zero ∧ BarGeo.fraction A pos (some 0) = A.one ∧
    (l ≠ 0 → BarGeo.fraction A 0 (some l) = A.zero) ∧
    (BarGeo.fraction A pos (some l) = A.zero ∨ BarGeo.fraction A pos (some l) = A.one ∨
      (BarGeo.fraction A pos (some l) = A.div (A.ofNat pos) (A.ofNat l) ∧
        A.lt (A.div (A.ofNat pos) (A.ofNat l)) A.zero = false ∧ A.lt A.one (A.div (A.ofNat pos) (A.ofNat l)) = false)) := by
  refine ⟨rfl, rfl, fun hl => ?_, ?_⟩
  · cases l with
    | zero => exact absurd rfl hl
    | succ k => simp [BarGeo.fraction]
  · cases l with
    | zero => right; left; rfl
    | succ k =>
      unfold BarGeo.fraction
      by_cases hp : pos = 0
      · left; simp [hp]
      · simp only [hp, if_false]
        by_cases h0 : A.lt (A.div (A.ofNat pos) (A.ofNat (k + 1))) A.zero = true
        · left; simp [h0]
        · by_cases h1 : A.lt A.one (A.div (A.ofNat pos) (A.ofNat (k + 1))) = true
          · right; left; simp [h0, h1]
          · right; right; simp [h0, h1]

/-- non-vacuity: wrap-around at the `u64` boundary -/
example : (run {} [.setPos (U64 - 1), .inc 2, .dec 3]).pos = U64 - 2 := by decide +kernel

end IndicatifModel.Position
